"""Shared machinery of the checks: Lean build + audit, driver access, evidence,
known findings, violation reporting.  See DESIGN.md sections 2 and 3."""
from __future__ import annotations

import fcntl
import hashlib
import json
import os
import random
import re
import subprocess
import sys
import tempfile
import time
from typing import Any, Callable, Dict, List, Optional, Sequence, Tuple

from proto import run_driver, enc, dec, Atom, DriverError

ROOT = os.path.dirname(os.path.dirname(os.path.abspath(__file__)))
LEAN = os.path.join(ROOT, "lean")
DRIVER = os.path.join(LEAN, ".lake", "build", "bin", "isladrv")
REPO = os.environ.get("ISLA_REPO", "/repo")
ALLOWED_AXIOMS = {"propext", "Classical.choice", "Quot.sound"}

TRUSTED_BASE = [
    "Lean 4.33.0 kernel (thorough tier: leanchecker re-check of the .olean files)",
    "axioms allowed per theorem: propext, Classical.choice, Quot.sound (audited by #print axioms on every run); no native_decide, bv_decide, sorry, or own axioms",
    "the specification definitions the property theorems mention (lean/IslaVerif/Properties, Model)",
    "the correspondence harness (/verif/harness: generators, canonicalisers, adapters) and the compiled model driver (Lean compiler + C toolchain)",
]


class CheckTimeout(Exception):
    pass


# ----------------------------------------------------------------------------
# Lean side
# ----------------------------------------------------------------------------


def _strip_lean_comments(src: str) -> str:
    out = []
    i = 0
    depth = 0
    n = len(src)
    in_str = False
    while i < n:
        if depth == 0 and not in_str and src.startswith("--", i):
            j = src.find("\n", i)
            i = n if j < 0 else j
            continue
        if not in_str and src.startswith("/-", i):
            depth += 1
            i += 2
            continue
        if depth > 0 and src.startswith("-/", i):
            depth -= 1
            i += 2
            continue
        if depth > 0:
            if src[i] == "\n":
                out.append("\n")
            i += 1
            continue
        c = src[i]
        if c == '"':
            in_str = not in_str
        elif in_str and c == "\\":
            out.append(c)
            i += 1
            if i < n:
                out.append(src[i])
            i += 1
            continue
        out.append(c)
        i += 1
    return "".join(out)


FORBIDDEN = re.compile(
    r"\b(sorry|admit|native_decide|bv_decide|implemented_by|extern)\b|^\s*axiom\s|\bunsafe\s|maxHeartbeats\s+0\b",
    re.M,
)


def lean_sources() -> List[str]:
    res = []
    for d, dirs, files in os.walk(LEAN):
        dirs[:] = [x for x in dirs if x != ".lake"]
        for f in files:
            if f.endswith(".lean"):
                res.append(os.path.join(d, f))
    return sorted(res)


def forbidden_scan() -> List[str]:
    hits = []
    for path in lean_sources():
        # the driver plumbing may use `partial`; nothing else is exempt
        try:
            src = _strip_lean_comments(open(path, encoding="utf-8").read())
        except FileNotFoundError:
            # the transient `#print axioms` file of another check running at the same time
            continue
        for m in FORBIDDEN.finditer(src):
            line = src.count("\n", 0, m.start()) + 1
            hits.append(f"{os.path.relpath(path, ROOT)}:{line}: {m.group(0).strip()}")
    return hits


class BuildResult:
    def __init__(self, ok: bool, log: str, wall: float):
        self.ok, self.log, self.wall = ok, log, wall


def lean_build(targets: Sequence[str] = ()) -> BuildResult:
    """`lake build` (library + driver).  Serialised by a lock so that checks run in
    parallel do not race on .lake."""
    t0 = time.time()
    os.makedirs(os.path.join(LEAN, ".lake"), exist_ok=True)
    lock = open(os.path.join(LEAN, ".lake", "verif.lock"), "w")
    fcntl.flock(lock, fcntl.LOCK_EX)
    try:
        p = subprocess.run(
            ["lake", "build", *targets],
            cwd=LEAN,
            capture_output=True,
            text=True,
            timeout=3600,
        )
    finally:
        fcntl.flock(lock, fcntl.LOCK_UN)
        lock.close()
    log = (p.stdout or "") + (p.stderr or "")
    return BuildResult(p.returncode == 0, log, time.time() - t0)


def property_theorems(prop: str) -> List[str]:
    """Fully qualified names of the theorems declared in Properties/<prop>.lean."""
    path = os.path.join(LEAN, "IslaVerif", "Properties", f"{prop}.lean")
    if not os.path.exists(path):
        return []
    src = _strip_lean_comments(open(path, encoding="utf-8").read())
    ns: List[str] = []
    names = []
    for line in src.splitlines():
        m = re.match(r"\s*namespace\s+(\S+)", line)
        if m:
            ns.append(m.group(1))
            continue
        m = re.match(r"\s*end\s+(\S+)\s*$", line)
        if m and ns and ns[-1] == m.group(1):
            ns.pop()
            continue
        m = re.match(r"\s*(?:@\[[^\]]*\]\s*)?(?:protected\s+)?theorem\s+(\S+)", line)
        if m:
            names.append(".".join(ns + [m.group(1)]))
    return names


def lean_audit(prop: str) -> Tuple[Dict[str, List[str]], str]:
    """#print axioms for every property theorem; returns {theorem: axioms}."""
    names = property_theorems(prop)
    if not names:
        return {}, "no theorems"
    src = f"import IslaVerif.Properties.{prop}\n" + "".join(
        f"#print axioms {n}\n" for n in names
    )
    with tempfile.NamedTemporaryFile("w", suffix=".lean", delete=False, dir=LEAN) as f:
        f.write(src)
        name = f.name
    try:
        p = subprocess.run(
            ["lake", "env", "lean", name], cwd=LEAN, capture_output=True, text=True, timeout=1800
        )
    finally:
        os.unlink(name)
    out = (p.stdout or "") + (p.stderr or "")
    res: Dict[str, List[str]] = {}
    flat = re.sub(r"\s+", " ", out)
    for m in re.finditer(r"'([^']+)' depends on axioms: \[([^\]]*)\]", flat):
        res[m.group(1)] = [a.strip() for a in m.group(2).split(",") if a.strip()]
    for m in re.finditer(r"'([^']+)' does not depend on any axioms", flat):
        res[m.group(1)] = []
    return res, out


def leanchecker(mods: Sequence[str]) -> Tuple[bool, str]:
    p = subprocess.run(
        ["lake", "env", "leanchecker", *mods], cwd=LEAN, capture_output=True, text=True, timeout=3600
    )
    return p.returncode == 0, (p.stdout or "") + (p.stderr or "")


def drive(requests: List[Any], timeout: float = 900.0) -> List[Any]:
    lines = [r if isinstance(r, str) else enc(r) for r in requests]
    outs = run_driver(DRIVER, lines, timeout=timeout)
    return [dec(o) for o in outs]


# ----------------------------------------------------------------------------
# Known findings
# ----------------------------------------------------------------------------


def load_known() -> Dict[Tuple[str, str], str]:
    path = os.path.join(ROOT, "known_findings.txt")
    res = {}
    if not os.path.exists(path):
        return res
    for line in open(path, encoding="utf-8"):
        line = line.strip()
        m = re.match(r"known:\s+property=(\S+)\s+key=(\S+)\s+(.*)$", line)
        if m:
            res[(m.group(1), m.group(2))] = m.group(3)
    return res


# ----------------------------------------------------------------------------
# A check run
# ----------------------------------------------------------------------------


class Ctx:
    """State of one check run."""

    def __init__(self, prop: str, tier: str, seed: int, level: str):
        self.prop = prop
        self.tier = tier
        self.seed = seed
        self.level = level
        self.rng = random.Random(f"{prop}/{seed}")
        self.t0 = time.time()
        self.known = load_known()
        self.known_hit: Dict[str, str] = {}
        self.violations: List[Tuple[str, str]] = []  # (key, replay path)
        self.coverage: Dict[str, Any] = {}
        self.assumptions: List[str] = []
        self.obligations: List[Tuple[str, bool, str]] = []  # (name, discharged, note)
        self.samples: List[Any] = []
        self.evaluations = 0
        self.nontrivial: set = set()
        self.hist: Dict[str, Dict[str, int]] = {}
        self.notes: List[str] = []
        self.deadline = self.t0 + float(
            os.environ.get("VERIF_BUDGET_S", "1500" if tier == "quick" else "10800")
        )

    # -- bookkeeping --------------------------------------------------------
    def count(self, histogram: str, key: Any, n: int = 1):
        h = self.hist.setdefault(histogram, {})
        k = str(key)
        h[k] = h.get(k, 0) + n

    def sample(self, obj: Any, limit: int = 8):
        if len(self.samples) < limit:
            self.samples.append(obj)

    def nontriv(self, key: Any):
        self.nontrivial.add(hashlib.sha1(repr(key).encode()).hexdigest()[:16])

    def obligation(self, name: str, ok: bool, note: str = ""):
        self.obligations.append((name, ok, note))

    def check_time(self):
        if time.time() > self.deadline:
            raise CheckTimeout()

    # -- violations ---------------------------------------------------------
    def violation(self, key: str, what: str, replay: Dict[str, Any], found_input: bool = True):
        """Report a violation (or a known finding).  `key` is the signature of the
        failing input used to match `known:` lines."""
        if (self.prop, key) in self.known:
            if key not in self.known_hit:
                self.known_hit[key] = self.known[(self.prop, key)]
                print(f"KNOWN-FINDING: property={self.prop} {self.known[(self.prop, key)]}")
            return
        if any(k == key for k, _ in self.violations):
            return
        d = os.path.join(os.environ.get("VERIF_REPLAY_DIR") or os.path.join(ROOT, "replays"), self.prop)
        os.makedirs(d, exist_ok=True)
        safe = re.sub(r"[^A-Za-z0-9_.-]", "_", key)[:80]
        path = os.path.join(d, f"{safe}.json")
        replay = dict(replay)
        replay.setdefault("property", self.prop)
        replay.setdefault("key", key)
        replay.setdefault("what", what)
        replay.setdefault("seed", self.seed)
        replay.setdefault("tier", self.tier)
        replay.setdefault("found_failing_input", found_input)
        replay.setdefault("replay_cmd", f"./check {self.prop} --replay {os.path.relpath(path, ROOT)}")
        with open(path, "w", encoding="utf-8") as f:
            json.dump(replay, f, indent=1, default=repr)
        self.violations.append((key, path))
        tail = "" if found_input else " no-failing-input-found"
        print(f"VIOLATION property={self.prop} replay={os.path.relpath(path, ROOT)}{tail}")
        print(f"  {what}")
        sys.stdout.flush()

    # -- the proof side -----------------------------------------------------
    def proof_side(self, need_theorems: bool = True) -> bool:
        """Build the Lean development, scan for forbidden constructs, audit the axioms of
        this property's theorems.  Returns False when a proof obligation is broken."""
        hits = forbidden_scan()
        self.obligation("no sorry/admit/axiom/native_decide/bv_decide/implemented_by/unsafe in lean/", not hits, "; ".join(hits[:5]))
        b = lean_build()
        self.coverage["lake_build_s"] = round(b.wall, 1)
        self.obligation("lake build IslaVerif isladrv", b.ok, "" if b.ok else b.log[-1500:])
        if not b.ok:
            self.build_log = b.log
            return False
        ok = not hits
        names = property_theorems(self.prop)
        if need_theorems and not names:
            self.obligation("property theorems present", False, "no theorem found in Properties file")
            return False
        if names:
            axioms, out = lean_audit(self.prop)
            for n in names:
                ax = axioms.get(n)
                good = ax is not None and set(ax) <= ALLOWED_AXIOMS
                self.obligation(f"theorem {n}", good, "axioms: " + (", ".join(ax) if ax else "none") if ax is not None else "not found by #print axioms: " + out[-300:])
                ok = ok and good
            self.coverage["theorems"] = {n: axioms.get(n) for n in names}
        if self.tier == "thorough" and os.environ.get("VERIF_SKIP_LEANCHECKER") != "1":
            mods = [f"IslaVerif.Properties.{self.prop}"]
            lc_ok, lc_out = leanchecker(mods)
            self.obligation("leanchecker " + " ".join(mods), lc_ok, lc_out[-300:])
            ok = ok and lc_ok
        return ok

    # -- finishing ----------------------------------------------------------
    def write_evidence(self, rule: str, extra_assumptions: Sequence[str] = ()):
        cov = dict(self.coverage)
        cov["evaluations"] = self.evaluations
        cov["distinct_nontrivial"] = len(self.nontrivial)
        cov["rule"] = rule
        cov["samples"] = self.samples[:8] if self.samples else ["(no case was generated)"]
        cov["obligations"] = len(self.obligations)
        cov["discharged"] = sum(1 for _, ok, _ in self.obligations if ok)
        cov["obligation_list"] = [
            {"name": n, "discharged": ok, **({"note": note} if note else {})}
            for n, ok, note in self.obligations
        ]
        cov["checker_cmd"] = (
            "cd lean && lake build IslaVerif isladrv && lake env lean <generated #print axioms file>"
            + (" && lake env leanchecker IslaVerif.Properties." + self.prop if self.tier == "thorough" else "")
            + f" ; ./check {self.prop} --tier {self.tier}"
        )
        cov["trusted_base"] = TRUSTED_BASE
        cov["distribution"] = self.hist
        cov["known_findings_seen"] = sorted(self.known_hit)
        if self.notes:
            cov["notes"] = self.notes
        ev = {
            "property_id": self.prop,
            "tier": self.tier,
            "seed": self.seed,
            "level": self.level,
            "coverage": cov,
            "assumptions": list(extra_assumptions) + self.assumptions,
            "wall_s": round(time.time() - self.t0, 2),
            "violations": len(self.violations),
        }
        evdir = os.environ.get("VERIF_EVIDENCE_DIR") or os.path.join(ROOT, "evidence")
        os.makedirs(evdir, exist_ok=True)
        with open(os.path.join(evdir, f"{self.prop}.json"), "w", encoding="utf-8") as f:
            json.dump(ev, f, indent=1, default=repr)
            f.write("\n")


def broken_obligations(ctx: Ctx) -> List[str]:
    return [f"{n}: {note}" for n, ok, note in ctx.obligations if not ok]
