"""Entry point: ./check <property> [--tier quick|thorough] [--replay file]

exit 0: property held on everything explored (known findings are printed, not failed)
exit 1: a `VIOLATION property=<id> replay=<path>` line was printed
exit 2: timeout / infrastructure problem (neither pass nor violation)
"""
from __future__ import annotations

import argparse
import importlib
import json
import os
import sys
import traceback
import warnings

warnings.filterwarnings("ignore")
sys.path.insert(0, os.path.dirname(os.path.abspath(__file__)))
sys.setrecursionlimit(20000)

import core  # noqa: E402


def main():
    ap = argparse.ArgumentParser()
    ap.add_argument("prop")
    ap.add_argument("--tier", default=os.environ.get("VERIF_TIER", "quick"), choices=["quick", "thorough"])
    ap.add_argument("--replay", default=None)
    args = ap.parse_args()
    prop = args.prop.upper()
    try:
        seed = int(os.environ.get("VERIF_SEED", "0"))
    except ValueError:
        seed = 0
    mod = importlib.import_module(f"props.{prop.lower()}")
    ctx = core.Ctx(prop, args.tier, seed, mod.LEVEL)
    try:
        if args.replay:
            path = args.replay if os.path.isabs(args.replay) else os.path.join(core.ROOT, args.replay)
            obj = json.load(open(path, encoding="utf-8"))
            b = core.lean_build()
            if not b.ok:
                print(b.log[-3000:])
                print("lean build failed")
                sys.exit(2)
            if getattr(mod, "REPLAY_BY_SEED", False):
                # histories / invocation sets are a deterministic function of (seed, tier): the replay re-runs
                # the recorded run and looks for the recorded signature among what it reports
                rseed, rtier = int(obj.get("seed", seed)), obj.get("tier", args.tier)
                print(f"replay of {prop} by re-running seed {rseed}, tier {rtier}; recorded failure: {obj.get('key')}: {obj.get('what')}")
                ctx = core.Ctx(prop, rtier, rseed, mod.LEVEL)
                mod.run(ctx)
                if ctx.violations and not any(k == obj.get("key") for k, _ in ctx.violations):
                    print(f"replay: the recorded failure {obj.get('key')} was not reproduced, but other violations were (above)")
            else:
                mod.replay(ctx, obj)
            if not ctx.violations:
                print(f"replay: no violation reproduced for {prop}")
            sys.exit(1 if ctx.violations else 0)
        else:
            r = mod.run(ctx)
            if r == "infra":
                print(f"check {prop}: the Lean development does not build and no driver is available")
                print(getattr(ctx, "build_log", "")[-3000:])
                sys.exit(2)
    except core.CheckTimeout:
        print(f"check {prop}: time budget exhausted")
        sys.exit(2)
    except core.DriverError as e:
        print(f"check {prop}: model driver failed: {e}")
        sys.exit(2)
    except SystemExit:
        raise
    except Exception:
        traceback.print_exc()
        print(f"check {prop}: internal error of the checking machinery")
        sys.exit(2)
    if ctx.violations:
        sys.exit(1)
    print(
        f"check {prop} [{args.tier}, seed {seed}]: ok — {ctx.evaluations} evaluations, "
        f"{sum(1 for _, ok, _ in ctx.obligations if ok)}/{len(ctx.obligations)} obligations discharged"
        + (f", known findings: {sorted(ctx.known_hit)}" if ctx.known_hit else "")
    )
    sys.exit(0)


if __name__ == "__main__":
    main()
