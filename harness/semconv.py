"""Conversion of ISLa formulas (as produced by parse_isla) into the wire format of the Lean
reference semantics (`lean/IslaVerif/Model/Sem.lean`), and helpers to query `evalRef`.

A formula that uses a construct outside the modelled fragment raises Unsupported; callers count
and skip such cases (they never turn into violations)."""
from __future__ import annotations

from typing import Any, Dict, List, Optional, Tuple

from proto import Atom
from gen import grammars as G
from gen import trees as T


class Unsupported(Exception):
    pass


def re_to_sexp(e) -> Any:
    import z3
    from isla.z3_helpers import smt_string_val_to_string

    k = e.decl().kind()
    ch = e.children()
    if k == z3.Z3_OP_SEQ_TO_RE:
        if not z3.is_string_value(ch[0]):
            raise Unsupported("str.to_re of a non-literal")
        return [Atom("str"), smt_string_val_to_string(ch[0])]
    if k == z3.Z3_OP_RE_RANGE:
        if not all(z3.is_string_value(c) for c in ch):
            raise Unsupported("re.range of non-literals")
        return [Atom("range"), smt_string_val_to_string(ch[0]), smt_string_val_to_string(ch[1])]
    if k == z3.Z3_OP_RE_UNION:
        return [Atom("union")] + [re_to_sexp(c) for c in ch]
    if k == z3.Z3_OP_RE_CONCAT:
        return [Atom("concat")] + [re_to_sexp(c) for c in ch]
    if k == z3.Z3_OP_RE_INTERSECT:
        return [Atom("inter")] + [re_to_sexp(c) for c in ch]
    if k == z3.Z3_OP_RE_STAR:
        return [Atom("star"), re_to_sexp(ch[0])]
    if k == z3.Z3_OP_RE_PLUS:
        return [Atom("plus"), re_to_sexp(ch[0])]
    if k == z3.Z3_OP_RE_OPTION:
        return [Atom("opt"), re_to_sexp(ch[0])]
    if k == z3.Z3_OP_RE_COMPLEMENT:
        return [Atom("comp"), re_to_sexp(ch[0])]
    if k == z3.Z3_OP_RE_DIFF:
        return [Atom("diff"), re_to_sexp(ch[0]), re_to_sexp(ch[1])]
    if k == z3.Z3_OP_RE_LOOP:
        ps = e.params()
        if len(ps) != 2 or ps[1] == 0:
            raise Unsupported("re.loop form")
        return [Atom("loop"), re_to_sexp(ch[0]), ps[0], ps[1]]
    if k == z3.Z3_OP_RE_FULL_SET:
        return Atom("all")
    if k == z3.Z3_OP_RE_EMPTY_SET:
        return Atom("none")
    if e.decl().name() == "re.allchar":
        return Atom("allchar")
    raise Unsupported("regex operator " + e.decl().name())


_OPS = None


def _ops():
    global _OPS
    if _OPS is None:
        import z3

        _OPS = {
            z3.Z3_OP_SEQ_LENGTH: "len",
            z3.Z3_OP_SEQ_CONCAT: "concat",
            z3.Z3_OP_SEQ_AT: "at",
            z3.Z3_OP_SEQ_EXTRACT: "substr",
            z3.Z3_OP_SEQ_PREFIX: "prefixof",
            z3.Z3_OP_SEQ_SUFFIX: "suffixof",
            z3.Z3_OP_SEQ_CONTAINS: "contains",
            z3.Z3_OP_SEQ_INDEX: "indexof",
            z3.Z3_OP_SEQ_REPLACE: "replace",
            z3.Z3_OP_STR_TO_INT: "toint",
            z3.Z3_OP_INT_TO_STR: "fromint",
            z3.Z3_OP_STR_TO_CODE: "tocode",
            z3.Z3_OP_STRING_LE: "strle",
            z3.Z3_OP_ADD: "add",
            z3.Z3_OP_SUB: "sub",
            z3.Z3_OP_MUL: "mul",
            z3.Z3_OP_IDIV: "div",
            z3.Z3_OP_MOD: "mod",
            z3.Z3_OP_UMINUS: "neg",
            z3.Z3_OP_EQ: "eq",
            z3.Z3_OP_LT: "lt",
            z3.Z3_OP_LE: "le",
            z3.Z3_OP_GT: "gt",
            z3.Z3_OP_GE: "ge",
            z3.Z3_OP_NOT: "not",
            z3.Z3_OP_AND: "and",
            z3.Z3_OP_OR: "or",
            z3.Z3_OP_IMPLIES: "implies",
            z3.Z3_OP_XOR: "xor",
        }
    return _OPS


def term_to_sexp(e) -> Any:
    import z3
    from isla.z3_helpers import smt_string_val_to_string, is_z3_var

    if z3.is_quantifier(e):
        raise Unsupported("SMT quantifier")
    if z3.is_string_value(e):
        return [Atom("str"), smt_string_val_to_string(e)]
    if z3.is_int_value(e):
        return [Atom("int"), e.as_long()]
    if z3.is_true(e):
        return Atom("true")
    if z3.is_false(e):
        return Atom("false")
    if is_z3_var(e):
        return [Atom("var"), str(e)]
    k = e.decl().kind()
    if k == z3.Z3_OP_SEQ_IN_RE:
        return [Atom("inre"), term_to_sexp(e.children()[0]), re_to_sexp(e.children()[1])]
    if k == z3.Z3_OP_EQ and e.children()[0].sort().kind() not in (z3.Z3_SEQ_SORT, z3.Z3_INT_SORT, z3.Z3_BOOL_SORT):
        raise Unsupported("equality on " + str(e.children()[0].sort()))
    op = _ops().get(k)
    if op is None:
        raise Unsupported("operator " + e.decl().name())
    return [Atom("app"), Atom(op)] + [term_to_sexp(c) for c in e.children()]


def arg_to_sexp(a) -> Any:
    from isla.language import Variable
    from isla.derivation_tree import DerivationTree

    if isinstance(a, Variable):
        return [Atom("var"), a.name]
    if isinstance(a, str):
        return [Atom("lit"), a]
    if isinstance(a, int):
        return [Atom("lit"), str(a)]
    raise Unsupported("predicate argument " + type(a).__name__)


def mexpr_to_sexp(bind_expr, ty: str, grammar) -> Any:
    """ISLa's own parse of the match expression into tree prefixes (+ paths of the user-bound variables)"""
    from isla.language import BoundVariable

    prefixes = bind_expr.to_tree_prefix(ty, grammar)
    out = [Atom("mtrees")]
    for tree, paths in prefixes:
        # A nonterminal of the match expression that ISLa's parse derives to the EMPTY string becomes a closed, childless
        # nonterminal node of the tree prefix.  The specification's match function does not distinguish such a node from
        # an open leaf (a childless node of the match-expression tree matches any node with its label), ISLa's match()
        # demands an epsilon-expanded node there.  The reference follows the specification's formula; for these match
        # expressions the two readings differ, so they are outside the reference (counted as unsupported).
        for _, node in tree.paths():
            if node.children is not None and len(node.children) == 0 and node.value in grammar:
                raise Unsupported("match expression with an epsilon-expanded nonterminal")
        binds = [[v.name, list(p)] for v, p in paths.items() if type(v) is BoundVariable]
        out.append([T.to_sexp(T.from_isla(tree)), binds])
    return out


def formula_to_sexp(f, grammar) -> Any:
    from isla import language as L

    if isinstance(f, L.SMTFormula):
        if f.substitutions or f.instantiated_variables:
            raise Unsupported("SMT formula with substitutions")
        return [Atom("smt"), term_to_sexp(f.formula)]
    if isinstance(f, L.StructuralPredicateFormula):
        return [Atom("pred"), f.predicate.name] + [arg_to_sexp(a) for a in f.args]
    if isinstance(f, L.SemanticPredicateFormula):
        if f.predicate.name != "count" or len(f.args) != 3:
            raise Unsupported("semantic predicate " + f.predicate.name)
        tree, needle, num = f.args
        if not isinstance(tree, L.Variable) or not isinstance(needle, str):
            raise Unsupported("count arguments")
        return [Atom("count"), tree.name, needle, arg_to_sexp(num)]
    if isinstance(f, L.NegatedFormula):
        return [Atom("neg"), formula_to_sexp(f.args[0], grammar)]
    if isinstance(f, L.ConjunctiveFormula):
        return [Atom("conj")] + [formula_to_sexp(a, grammar) for a in f.args]
    if isinstance(f, L.DisjunctiveFormula):
        return [Atom("disj")] + [formula_to_sexp(a, grammar) for a in f.args]
    if isinstance(f, (L.ForallFormula, L.ExistsFormula)):
        kind = "all" if isinstance(f, L.ForallFormula) else "ex"
        if not isinstance(f.in_variable, L.Variable):
            raise Unsupported("quantifier over an instantiated tree")
        m = Atom("none") if f.bind_expression is None else mexpr_to_sexp(f.bind_expression, f.bound_variable.n_type, grammar)
        return [Atom(kind), f.bound_variable.name, f.bound_variable.n_type, f.in_variable.name, m, formula_to_sexp(f.inner_formula, grammar)]
    if isinstance(f, (L.ForallIntFormula, L.ExistsIntFormula)):
        kind = "allint" if isinstance(f, L.ForallIntFormula) else "exint"
        return [Atom(kind), f.bound_variable.name, formula_to_sexp(f.inner_formula, grammar)]
    raise Unsupported(type(f).__name__)


def eval_requests(grammar: G.Grammar, trees: List[T.PT], fsexp, int_bound: int = 12, const: str = "start"):
    return [Atom("sem"), Atom("evalmany"), G.grammar_sexp(grammar), [T.to_sexp(t) for t in trees], fsexp, [[const, [Atom("path"), []]]], int_bound]


def tv(ans) -> Optional[bool]:
    if isinstance(ans, bool):
        return ans
    return None
