"""Regenerates /verif/MANIFEST.json from the table below (run: /venv/bin/python harness/mkmanifest.py)."""
import json
import os

ROOT = os.path.dirname(os.path.dirname(os.path.abspath(__file__)))

HOOK_COMMITS = []

LEVEL_NOTE_COMMON = (
    "Trusted: Lean 4.33 kernel; axioms propext/Classical.choice/Quot.sound only (audited per run with #print axioms; "
    "no native_decide/bv_decide/sorry/own axioms); the specification definitions named in the theorem statements; "
    "the Python correspondence harness and compiled model driver. "
)

CHECKS = {
    "C04": dict(
        category="proof",
        text="Each of the nine structural predicates is modelled as a total Lean function transcribed from isla_predicates.py and proved "
        "equivalent, for ALL paths/trees/indices/operators, to a declarative document-order specification (before_iff, after_iff, inside_iff, "
        "child_iff, same_iff, different_iff, nth_iff, consecutive_iff, level_iff). The model is tied to the code by running both on every ordered "
        "node pair of generated trees; by the theorems any disagreement is a concrete failing input of the property.",
        design_ref="DESIGN.md section 7 C04",
        note="Modelled, not verified: Python tuple/slice semantics, DerivationTree.get_subtree/paths/leaves (themselves tied by C16). "
        "The hand-written model is tied to the source only through the correspondence run (40 trees quick / 400 thorough, all pairs).",
        technique="Lean 4 theorems (model <-> spec, unbounded) + differential correspondence model vs isla_predicates",
    ),
}

CHECKS["C09"] = dict(
    category="proof",
    text="Formula AST with n-ary conjunction/disjunction and the rewrites __neg__, __and__, __or__, __eq__, convert_to_nnf, convert_to_dnf, "
    "split_conjunction/disjunction are transcribed as total Lean functions; theorems over an ARBITRARY interpretation of atoms and arbitrary "
    "(possibly empty) quantifier domains: sat_negF, sat_nnf, sat_dnf, sat_andF, sat_orF, sat_feq, sat_split*, and totality (negF_total, "
    "nnf_total, dnf_total: no raise on well-formed NNF input of any arity). Tie: generated ASTs are built as real isla Formula objects and every "
    "rewrite result is compared with the model's (flattened/sorted canonical form); on disagreement a semantic search under sampled finite "
    "interpretations looks for a verdict difference. Bound-variable renaming: alpha-equivalence (equal nameless forms) is proved to imply equal "
    "meaning under every interpretation and environment (rename_alphaEq_sound over named formulas with tree / match-expression / numeric binders); "
    "every result of the real ensure_unique_bound_variables is passed, with its input, through that checker.",
    design_ref="DESIGN.md section 7 C09",
    note="SMT atoms opaque: assumes z3_push_in_negations(s, True) denotes not-s (sampled against Z3 each run). "
    "The renaming procedure itself (fresh-name generation over a shared mutable set) is not modelled: validated per result by the proved "
    "alpha-equivalence checker; known finding for inputs with shadowing. Hash/equality inconsistencies of Python objects are not modelled.",
    technique="Lean 4 theorems (Sat-preservation for all interpretations, totality) + differential correspondence on generated formula ASTs",
)

CHECKS["C16"] = dict(
    category="proof",
    text="DerivationTree with its private __is_open cache is modelled (constructor, is_open, replace_path incl. retain_id and the three-way "
    "flag rule, substitute incl. the nested-replacement filter, expansion, find_node, trie keys). Theorems: the cache invariant holds in every "
    "state reachable by ANY operation sequence (cacheOk_reachable, induction over the op list), is_open() is then correct, str = concatenation "
    "of leaves, paths/get/find_node agree, the sub-trie view at any path equals the subtree's paths for any branching degree, trie keys are "
    "total (up to the generated bound), invertible, inside the datrie alphabet and prefix-preserving (constants regenerated from trie.py by the "
    "translator on every run), replacement is local, structural equality implies equal structural hash. Tie: random op sequences on real "
    "objects vs the model, comparing every observation incl. private caches after each op, plus direct property-level checks on the real object.",
    design_ref="DESIGN.md section 7 C16",
    note="Modelled, not verified: datrie as an ideal prefix map; Python hash() abstracted; lru_cache'd methods assumed pure. "
    "Trie key bound: indices < 252 + 250^4 (theorem hypothesis; larger indices raise ValueError).",
    technique="Lean 4 theorems (invariant by induction over op sequences, refinement to plain trees) + translator for trie constants + op-sequence correspondence",
)

CHECKS["C10"] = dict(
    category="proof",
    text="A reference CFG recognizer (self-certifying chart fixpoint) is proved correct for ALL grammars and strings: recognize g A s = some b -> "
    "(b <-> Der g s A 0 |s|) and Der <-> existence of a valid closed derivation tree with that yield (recognize_inLang); the tree checker is "
    "proved to certify membership (checkTree_sound). The real Earley parser (and ISLaSolver.parse with requested nonterminals) is tied to it per "
    "input: accept <=> recognizer accepts, nothing but a tree or SyntaxError, every yielded tree certified - exhaustively for all strings up to "
    "a length bound over each generated grammar's terminal alphabet, plus derived/mutated longer strings.",
    design_ref="DESIGN.md section 7 C10",
    note="The Earley algorithm itself (predict/scan/complete, forest extraction) is NOT modelled: its soundness/completeness is validated per "
    "explored input against the proved reference (translation-validation style), not proved. Grammars with cyclic unit/nullable derivations "
    "are excluded as in the property. A recognizer answer `none` (fixpoint not certified) would be counted as oracle-unknown (never observed). "
    "Each call of the real parser runs under a soft address-space limit (+2 GB) and a 120 s alarm: MemoryError is reported like any other exception "
    "(replayable), an input without an answer within the alarm yields no verdict and is counted in the evidence, never reported.",
    technique="Lean 4 theorems about a reference recognizer/tree checker + exhaustive-up-to-length differential validation of the real parser",
)

CHECKS["C20"] = dict(
    category="proof",
    text="String-level models of count, octal_to_decimal (three argument modes), crop, ljust/rjust(_crop), extend_crop on closed arguments. "
    "Theorems for ALL inputs: count verdict <-> equality; octal_to_decimal(both) <-> base-8 value = base-10 value; the explicit octal loop "
    "and Python's digit generation are value-correct in every base >= 2; proposed decimal/octal strings denote the same number; justify "
    "verdict true <-> length = width, false <-> (no crop and too long), every replacement has exactly the requested width and is the padded / "
    "cropped argument; crop true <-> fits. Tie: SemanticPredicate.evaluate on generated closed trees vs the model; every replacement tree "
    "certified by the verified tree checker.",
    design_ref="DESIGN.md section 7 C20",
    note="Python int()/str()/oct() on digit strings modelled by positional arithmetic; parsing of replacement strings into trees is the real "
    "Earley parser (its output is certified, not modelled). crop is read as 'fits within the width'. Closed arguments only.",
    technique="Lean 4 theorems (verdict <-> relation, replacement satisfies relation) + differential correspondence + certified replacement trees",
)

CHECKS["C19"] = dict(
    category="proof",
    text="The exit-code decision logic of `isla check` / `isla parse` is modelled over an abstract classification of the files (grammar "
    "missing/malformed/empty/ok, each constraint malformed/ok, input none/several/one(in grammar?, satisfies all?)); theorems: exit 0 iff all "
    "ok and the input is a member satisfying the conjunction (check_exit0_iff), otherwise exit 1 (check_exit1), malformed -> 65, a constraint that parses but cannot be evaluated on the member input (ill-typed predicate arguments) -> 65 (not_evaluable_exit), missing -> 2, "
    "totality (exit_codes), parse writes a tree iff exit 0; the two exit-code constants are regenerated from cli.py on every run "
    "(documented_codes re-checked). Tie: isla.cli.main run in-process (SystemExit captured; any other exception = traceback = failing input) "
    "and in subprocesses on file sets covering every row, with membership decided by the verified recognizer and satisfaction by an independent "
    "string-level oracle; solve->check (exact solutions from --output-dir, handed to check as --input-string, as redirected stdout and as the written file) and parse->check pipes.",
    design_ref="DESIGN.md section 7 C19",
    note="Only check/parse (and the two pipes) are covered by the decision-table model; repair/mutate/fuzz/find/create and further option "
    "combinations are not modelled. argparse behaviour, file I/O and ANTLR are trusted. The satisfaction oracle covers the constraint templates used.",
    technique="Lean 4 theorems on the CLI decision table + translator for exit-code constants + in-process/subprocess correspondence",
)

CHECKS["C17"] = dict(
    category="proof",
    text="Tree serialization is modelled as a codec over JSON values (to_json / from_json incl. every private cache field) and an "
    "object-state machine of cache computations (k_paths, concrete k_paths, str/len/hash/structural_hash/is_open) and serializations. "
    "Theorems: decode(encode t) = t with the unserializable k-path caches emptied (structure, node identities, labels preserved); the "
    "serialized form is independent of computed k-paths anywhere in the tree; every op succeeds in every state; serialization never changes "
    "the live object; no history changes structure/identities/string; after ANY history a pickle unpickles to the same structure "
    "(pickle_after_history). Tie: histories on real trees with complete private-state snapshots of every node before/after each op compared "
    "with the model, plus property-level checks; SMT formula pickles over adversarial literals and CLI JSON round trips at property level.",
    design_ref="DESIGN.md section 7 C17",
    note="json/pickle/zlib trusted. SMT-formula pickling and the CLI JSON path are checked on the real objects only (Z3's literal "
    "printing/reading is not modelled): for those clauses the assurance is exploration of generated literals, not a theorem.",
    technique="Lean 4 theorems (codec round trip, state-machine invariants over all histories) + history correspondence with private-state snapshots",
)

CHECKS["C15"] = dict(
    category="proof",
    text="numeric_intervals_from_regex (all six handlers, sign/zero stripping, compress, merge) and compress_concatenation_elements are "
    "transcribed into Lean over a regex AST with SMT-LIB denotation. Theorems for ALL inputs: the derivative matcher decides the denotation "
    "(matchB_iff, incl. loops/complement/intersection); compress preserves the language of every concatenation (compress_lang); flattening "
    "preserves it; merge_intervals denotes the union and yields bounded, sorted, separated intervals. Exactness of the inferred intervals is "
    "proved for the concatenation-free shape (intervals_exact_partial: digits, ordered ranges, zero/full digit sequences, arbitrary unions) "
    "and a counterexample for the full documented shape is proved (sign_not_leading_counterexample = the known finding). Tie: z3-built regexes "
    "through the real functions vs the model, plus property-level probing of the REAL output with the verified matcher on numbers around "
    "every interval boundary (sign/zero-padding renderings).",
    design_ref="DESIGN.md section 7 C15",
    note="PARTIAL for the sequence forms of the documented shape: their exactness is searched (probing), not proved. Known finding "
    "inexact:sign-not-leading (pinned by an existing test, not repaired). Python int() leniency and out-of-shape inputs are not modelled.",
    technique="Lean 4 theorems (matcher = denotation, compress/merge laws, exactness on a fragment, proved counterexample) + correspondence + verified-matcher probing",
)

CHECKS["C05"] = dict(
    category="proof",
    text="An oracle model Smt.eval of the SMT-LIB 2.6 ground semantics (Ints, Strings, RegLan) for the operators ISLa's lexer accepts is "
    "proved to meet the SMT-LIB definitions for ALL arguments: div/mod existence+uniqueness of the Euclidean pair; substr/at/indexof/replace "
    "incl. negative / out-of-range indices and empty patterns; to_int/from_int; regex membership = denotation (via matchB_iff); totality: a "
    "well-typed term always has a value of its type unless a divisor is zero. Tie, per generated ground atom: Z3 vs the model (validates the "
    "model) and Z3 vs each ISLa decision point - is_valid, evaluate_smt_formula (variables as closure parameters), "
    "SMTFormula.substitute_expressions with auto-evaluation; a different truth value or any exception is a failing input.",
    design_ref="DESIGN.md section 7 C05",
    note="The Python-side fast path (translation of regexes to Python `re` patterns, Python arithmetic) is NOT modelled: it is tied to Z3 "
    "only by differential testing on generated atoms; the theorems are about the oracle. Z3 4.11.2 is trusted as the property's reference. "
    "Known finding: str.to.int on signed numerals (deviation by design).",
    technique="Lean 4 theorems about an SMT-LIB oracle model + three-way differential (Z3 / model / ISLa decision points)",
)
CHECKS["C11"] = dict(
    category="proof",
    text="The escape table of unparse_grammar and the two tables of instantiate_escaped_symbols are REGENERATED from the source into Lean on "
    "every run; escaping, the single-pass un-escaping and the STRING token of bnf.g4 are modelled on code-point lists. Theorems (re-checked "
    "against the regenerated tables): unescape(escape s) = s for EVERY string; the printed terminal is exactly one STRING token; "
    "print-then-read of a terminal is the identity. Tie: per code point and on adversarial texts the model's escape/unescape are compared with "
    "the real functions; generated grammars go through unparse_grammar/parse_bnf: identical grammar when no terminal contains '<', language "
    "equivalence from every original nonterminal (verified recognizer, bounded string sets) otherwise.",
    design_ref="DESIGN.md section 7 C11",
    note="ANTLR lexing/parsing beyond the STRING token and the '<langle>' rewrite are validated by the round trip / language comparison, not "
    "proved. join(split(s)) = s for RE_NONTERMINAL is trusted.",
    technique="translator (tables regenerated from source) + Lean 4 theorems over the generated tables + round-trip correspondence",
)

CHECKS["C03"] = dict(
    category="proof",
    text="The specification of islaspec.rst is transcribed as a Prop-valued satisfaction relation Sat (tree quantifiers with and without match "
    "expressions over ALL matching (path, subtree) pairs of any branching degree, numeric quantifiers over ALL naturals, the nine structural "
    "predicates, count, SMT-LIB atoms, connectives) and an executable reference evaluator evalRef is proved sound for it for every grammar, tree, "
    "environment and formula (evalRef_sound: a definite answer IS the truth value of Sat; domain_exact: the enumerated quantifier domain is exactly "
    "the labelled nodes of the in-tree; match = the spec's match function). The real evaluate() and ISLaSolver.check() are tied to it per input: "
    "generated constraints in concrete syntax x closed trees (incl. 34-children nodes, both evaluation strategies); a different verdict, UNKNOWN "
    "where the reference decides, or any exception is a failing input of the property.",
    design_ref="DESIGN.md section 7 C03",
    note="The implementation's own evaluation procedure (evaluate_legacy / quantifier elimination) is NOT modelled: it is validated per explored "
    "input against the proved reference (translation-validation style). The reference evaluates the formula object produced by parse_isla "
    "(concrete syntax -> formula is C07/C08) and takes match-expression trees from ISLa's own parse of the match expression. Numeric quantifiers: "
    "the reference searches 0..tree size+16 and is conclusive only when that search is (otherwise the case is skipped and counted). Atoms are "
    "judged by the verified models of C04/C05/C20.",
    technique="Lean 4 theorem (reference evaluator sound w.r.t. the Prop-valued specification) + per-input differential validation of evaluate()/check()",
)

CHECKS["C01"] = dict(
    category="proof",
    text="The solver (a cost-guided search around Z3) is not modelled. What is proved is the certifier every returned tree is passed through: "
    "certify_sound - acceptance implies, for EVERY grammar, formula and tree, that the tree is a closed derivation tree of the grammar rooted in "
    "the requested start symbol, that its string is in the language of that symbol (InLang of C10) and that it satisfies the constraint under "
    "the Prop-valued specification Sat of islaspec.rst (evalRef_sound of C03); reject_false - a tree rejected with verdict false really violates "
    "the specification. Tie: the real solver runs on documented and generated problems under a grid of settings (free/SMT instantiation limits, "
    "optimized Z3 queries on/off, unique trees, tree insertion methods 1..7, unsat support, start_symbol), solve() is called up to 5 times, and "
    "EVERY returned tree of every call sequence is certified by the compiled checker; a rejected tree is a failing input.",
    design_ref="DESIGN.md section 7 C01",
    note="Assurance for the solver itself is per explored output (translation-validation style): nothing is claimed for unexplored problems. "
    "The oracle is the proved Lean checker, not ISLa's evaluator. The formula checked is the object the solver holds (concrete syntax -> formula "
    "is C07/C08). Numeric quantifiers: conclusive only within the bounded search (else counted as undecided). Solver timeouts / the 45 s wall "
    "guard give no verdict. Known findings: the start-symbol wrapper; universal numeric quantifiers are eliminated by finite instantiation (unsound).",
    technique="Lean 4 theorem about a solution certifier (soundness w.r.t. derivation-tree validity and the Sat specification) + certification of every tree returned by the real solver",
)

CHECKS["C02"] = dict(
    category="proof",
    text="The exit logic of ISLaSolver.solve() (order of the queue / timeout / pending-solution tests, start_time taken once, draining after the "
    "loop) is modelled as a state machine over the loop's events (Model/SolveLoop.lean); what the 4000-line search does between two exits is "
    "abstracted into these events. Theorems for EVERY event stream, initial state and call sequence: StopIteration only from an exhausted state "
    "and then forever (stop_exhausted, exhausted_stop, stop_sticky), TimeoutError forever once raised under a monotone clock (timeout_sticky), "
    "no TimeoutError without a configured limit, every returned tree was found exactly once and in order (trees_sublist), one outcome per call. "
    "Tie: real call sequences (documented + generated problems, settings grid, timeouts under a controlled clock and in real time) are traced "
    "without source hooks (recording proxies for isla.solver's time / heapq globals, wrapper of process_new_states) and replayed through the "
    "model, which must reproduce every outcome; independently, every exception class escaping solve() and every non-sticky sequence is a "
    "failing input of the property itself.",
    design_ref="DESIGN.md section 7 C02",
    note="PARTIAL: 'never raises any other exception' is a theorem only for the modelled exit logic (the model's outcome type); for the solver "
    "body it is explored: the exception classes escaping solve() on the explored problems. Ten crash sites of the unchanged solver are listed "
    "as known findings (deliberate diagnostics, assertions deep in the search, assertions of third-party packages), four were repaired. "
    "Constructor exceptions are counted, not judged. Problems stopped by the wall guard give no verdict.",
    technique="Lean 4 theorems about a state-machine model of the solve() loop (stickiness, for all event streams) + trace correspondence without hooks + exploration of escaping exception classes",
)

CHECKS["C13"] = dict(
    category="proof",
    text="insert_tree and its three methods are graph searches and are not modelled. Proved: the result checker through which EVERY returned tree "
    "is passed is sound for the four clauses of the property, for all grammars and trees (insertCheck_sound: derivation tree of the grammar, "
    "same root symbol, every (id, label) of the host present, the inserted tree embedded - identities and children wherever it is expanded, "
    "open leaves as holes); and the generic facts the methods rely on (valid_replace: replacing a same-symbol valid subtree keeps validity and "
    "root; replace_keeps_other_nodes). Tie: insert_tree on generated (grammar, host open/closed or a subtree position, inserted tree closed/"
    "partially open, each of the 7 method combinations, max_num_solutions) with identities from ISLa's own counter; candidates seen by "
    "insert_tree's own validity assertion are judged by the verified checker as well.",
    design_ref="DESIGN.md section 7 C13",
    note="Assurance for the insertion procedures is per explored output (translation-validation style). 'Contains the inserted tree' is read as "
    "an identity-preserving embedding with the inserted tree's open leaves as holes (insertion plugs the host's own subtree into them). An "
    "AssertionError of insert_tree's tree_is_valid assertion on a candidate the verified checker accepts is a false negative of the third-party "
    "grammar_graph validator: counted and noted, not reported.",
    technique="Lean 4 theorems about a result checker and the replacement lemmas + certification of every tree returned by the real insert_tree",
)

CHECKS["C12"] = dict(
    category="proof",
    text="Expansion of an open leaf by an alternative (expansion_to_children incl. the epsilon child), runs of such steps, replace_path and "
    "swap_subtrees are modelled on plain trees; theorems for EVERY selection the strategies can make: any sequence of expansion steps keeps "
    "validity, the root and the input as identity-preserving prefix (expandRun_ok, induction over the step list), replacement of a same-symbol "
    "valid subtree and swapping of two disjoint same-symbol subtrees keep validity and the root (replace_ok, swap_ok); the result checkers are "
    "sound (completionCheck_sound: closed derivation tree in which every expanded part of the input is unchanged; mutationCheck_sound). Tie: "
    "every output of the real GrammarFuzzer / GrammarCoverageFuzzer.expand_tree on generated open trees and of Mutator.mutate and its three "
    "strategies on generated closed trees is certified by the compiled checker.",
    design_ref="DESIGN.md section 7 C12",
    note="The strategies that select expansions and mutation sites (cost phases, coverage, random module) are abstracted into the arbitrary "
    "choice sequences the theorems quantify over; their outputs are certified one by one. Termination of the real strategies is runtime "
    "behaviour outside the model (min_nonterminals stays at its default 0, see DESIGN.md). The expanded-part clause treats open leaves as "
    "holes (the fuzzer gives an expanded leaf a new identity).",
    technique="Lean 4 theorems (validity/prefix invariants by induction over arbitrary choice sequences, replacement/swap lemmas, checker soundness) + certification of every real fuzzer/mutator output",
)

CHECKS["C18"] = dict(
    category="proof",
    text="The expected answers of ISLaSolver.check / parse are compositions of verified pieces - the reference recognizer (C10), the tree "
    "checker and the reference evaluator (C03) - and the theorems tie every expected outcome to the specification for ALL grammars, formulas and "
    "strings: parse_ok (a tree is returned: the string is in the language and its parse satisfies Sat), parse_syntaxError (not in the language), "
    "parse_semanticError (in the language, the parse violates Sat), checkStr_true_iff / checkStr_false_iff; results of repair / mutate go "
    "through the certifier of C01 (certified_result). Tie: check(str), parse(str), parse(skip_check), check(tree) on valid, syntactically "
    "invalid and semantically invalid inputs of documented + generated problems are compared with the compositions; check(tree) vs check(str) "
    "on unambiguous inputs; repair(valid input) must return it unchanged; every repair / mutate result is certified.",
    design_ref="DESIGN.md section 7 C18",
    note="The parser, the evaluator and the repair / mutate procedures are not modelled here: the tree the real parser returns is an input of "
    "the model (checked to be a parse of the string); repair / mutate outputs are certified per call. Known findings: repair / mutate let "
    "listed crash sites of their sub-solver escape (plus the 'will never leave the queue' assertion reached only through repair); no support for numeric quantifiers in repair. Undecided reference verdicts / Z3 unknowns / "
    "wall-guard stops give no verdict.",
    technique="Lean 4 theorems (expected check/parse outcomes as compositions of the verified recognizer, tree checker and evaluator) + differential comparison + certification of repair/mutate results",
)

CHECKS["C14"] = dict(
    category="proof",
    text="create_fixed_length_tree, the parsing of numeric model values (extract_model_value for int variables incl. the sign / zero-padding "
    "fallback) and the completion performed by count are searches and are not modelled. Proved: the three result checkers are sound for every "
    "grammar and tree - fixedLenCheck_sound (closed derivation tree of the nonterminal whose string has exactly n characters), "
    "numericCheck_sound (closed tree whose string is an optionally signed, possibly zero-padded numeral of the requested integer), "
    "countCheck_sound (derivation tree with the argument's root, containing the argument, exactly n needle nodes, NO open leaf from which a "
    "needle is reachable) - and the reachability oracle is exact whenever it answers (reachSet_iff: the certified saturation is reachability "
    "through one or more derivation steps). Tie: every result of the real helpers on generated (grammar, nonterminal, target) inputs is "
    "certified; count verdicts on open trees are judged by the same oracle.",
    design_ref="DESIGN.md section 7 C14",
    note="Assurance is per explored result (translation-validation style); None / RuntimeError / not-ready answers are not results and are "
    "only counted (completeness of the searches is not claimed). Calls without an answer within 8 s give no verdict.",
    technique="Lean 4 theorems about result checkers (length, numeral value, needle count + certified grammar reachability) + certification of every result of the real helpers",
)

CHECKS["C06"] = dict(
    category="proof",
    text="A conservative three-valued evaluator for OPEN derivation trees (evalOpen: SMT atoms only on closed subtrees, the path-only structural "
    "predicates, tree quantifiers over the existing nodes guarded by certified grammar reachability from the open leaves of the in-tree, "
    "everything else only on closed trees) is proved STABLE for every grammar, partial tree, completion, environment and formula: a definite "
    "answer is the answer of the reference evaluator - hence the truth value of the specification Sat - on EVERY closed completion with the same "
    "node identities (evalOpen_stable, evalOpen_sat, completions_agree; 565 lines of proof: prefix facts, validity => reachability of every node "
    "below an open leaf, domain monotonicity / exactness). Tie: the real evaluate() is run on open prefixes of random derivations; every "
    "definite verdict is compared with the verified reference verdict on the original derivation and 3 random completions (a contradiction is a "
    "failing input of the property); evalOpen runs alongside as a cross-check of the oracle.",
    design_ref="DESIGN.md section 7 C06",
    note="PARTIAL: the real evaluator's own three-valued logic on open trees (has_potential_matches, quantified_formula_might_match, "
    "can_extend_leaf_to_make_quantifier_match_parent) is NOT modelled - the theorem is about the conservative reference; the real verdicts are "
    "judged per explored (open tree, completion) pair. Completions are sampled. Known findings: the numeric-quantifier strategy and count() "
    "answer FALSE on open trees.",
    technique="Lean 4 theorem (stability of a conservative open-tree evaluator under all completions) + per-pair differential validation of evaluate() on open trees against the verified reference",
)

CHECKS["C07"] = dict(
    category="proof",
    text="The ANTLR parser, the emitter and ISLaUnparser are not modelled. Proved: the notion of 'the same constraint' with which the two formula "
    "objects of a round trip are compared - equality of nameless forms over formulas with named tree / match-expression / numeric binders "
    "(Alpha.alphaEq) - implies the same meaning under EVERY interpretation of the atoms and quantifier domains and in every environment "
    "(roundtrip_same_meaning), so an accepted round trip cannot change the verdict on any tree of any grammar; the checker is reflexive and "
    "acceptance is equality of the nameless data. Tie: parse -> unparse -> parse -> unparse on generated constraints in core syntax and in "
    "simplified syntax (free nonterminals incl. <start>, XPath axes, infix / prefix SMT, numeric quantifiers, literals with quote / backslash / "
    "newline / non-ASCII, match expressions incl. terminals that need escaping and CR LF / form feed, one template per SMT-LIB operator the lexer accepts, a user-defined predicate with free-text arguments, the same operand repeated inside one propositional combination); the re-parse must be accepted, equal by ISLa's == or by the verified checker, unparse to the same "
    "text, and get the same verdicts from the verified reference evaluator on sampled trees.",
    design_ref="DESIGN.md section 7 C07",
    note="PARTIAL: concrete-syntax printing and parsing are validated per generated constraint (round trip), not proved; atoms are compared by "
    "normalised text, quantifier types and match-expression shapes as opaque tags. Known findings: bound-variable names are not always globally unique after one parse, so a second round trip can rename them (alpha-equivalent, different text); negated SMT atoms are re-normalised by Z3 "
    "on every parse (equivalent atom, different text).",
    technique="Lean 4 theorem (alpha-equivalence of the two parsed formulas implies equal meaning under all interpretations) + round-trip differential on generated constraints",
)

CHECKS["C08"] = dict(
    category="proof",
    text="Proved for EVERY interpretation of atoms / quantifier domains and every environment, over the combinators of C09 (exact transcriptions "
    "of Formula.__neg__/__and__/__or__): implies / iff / xor as the emitter builds them (-a | b, (-a & -b) | (a & b), (a & -b) | (-a & b)) mean "
    "implication, equivalence and exclusive or (implies_law, iff_law, xor_law); pushing the closing universal quantifier of a free nonterminal "
    "into a disjunction is sound (pushin_or), into a conjunction exactly when the quantifier's domain is not empty (pushin_and, pushin_and_mp) - "
    "with a proved counterexample for the empty domain (pushin_and_counterexample = the known finding). The XPath CHILD step is modelled as a "
    "translation (XPath.childMTrees: one match-expression tree per alternative of <V> with at least i occurrences of <T>, the i-th one bound) "
    "and proved to mean what the documentation says, for every grammar, tree, environment and body: the translated quantifier ranges exactly "
    "over the <V>-nodes of the in-tree that have an i-th <T>-labelled child, with the variable bound to that child (xpath_child_all, "
    "xpath_child_ex, match_child, match_child_complete; the per-alternative conjunction / disjunction of the documentation equals the single "
    "quantifier: list_is_conjunction / list_is_disjunction). Tie: ISLa's own match expressions for V.T[i] are compared with the model's, as "
    "sets, for every (V, T, i) of fixed and random grammars; sugared constraints (free "
    "nonterminals, omitted in / names, XPath child / index / descendant axes, infix vs prefix, negative literals, derived connectives, closure "
    "in propositional combinations) and their HAND-EXPANDED core forms written from the documentation are evaluated on random trees: "
    "evaluate(sugared) must equal the verified reference evaluator's verdict on the core form.",
    design_ref="DESIGN.md section 7 C08",
    note="PARTIAL: the descendant axis, chains of XPath steps, default in-variable and fresh names are validated per template instance (40 templates x random parameters x "
    "trees), not proved; the hand-expanded core forms are part of the trusted base. Known finding: closure pushed into conjunctions differs from "
    "the documented top-level closure over an empty domain.",
    technique="Lean 4 theorems (derived connectives, quantifier push-in laws + proved counterexample, XPath child-step translation = i-th labelled child) + translation comparison + differential evaluation of sugared vs hand-expanded core constraints against the verified reference",
)

CHECKS["C21"] = dict(
    category="proof",
    text="The solver is not modelled; what is proved is the INDEPENDENT CHECK every generated input is passed through. The checks are executable "
    "Lean functions written from the formats' own rules, not from the ISLa constraints (Model/Formats.lean), and each is proved sound AND complete "
    "for a declarative statement of the rule, for every input (Properties/C21.lean, 1200 lines of proof in Proofs/Formats.lean): csvOk_records - "
    "a quote-aware CSV text is accepted iff all records have the same number of separators outside quotes; xmlOk_iff - accepted iff the token "
    "sequence is ONE well-formed element (balanced tags with matching names, no text outside the root) whose tags have pairwise distinct "
    "attribute names and only namespace prefixes declared in scope (tagOk_iff); tarOk_iff / tarEntry_sound - accepted iff the text is a "
    "positive number of 216-character entries with NUL-padded names, the six octal digits at offset 100 denoting the sum of the header's "
    "character codes with the checksum field blanked, NUL+blank terminator, type flag 0/2, the content marker, and every non-empty link target "
    "naming another entry; restNumberingOk_iff - every enumeration's items carry numbers with adjacent pairs (a, a+1), a > 0; restUnderlineOk_iff / "
    "restLabelsUnique_iff / restRefsDefined_iff - underline at least as long as the (non-empty) title, link targets pairwise distinct, every reference defined. Tie: the real solver runs on the shipped grammar + constraints under a grid of random seeds, "
    "instantiation limits, cost-weight vectors and queue settings, and EVERY generated input is judged by the compiled checker; a rejected "
    "input is a failing input of the property.",
    design_ref="DESIGN.md section 7 C21",
    note="Assurance for the solver on the shipped formalizations is per explored output (translation-validation style): the claim over ALL seeds "
    "and cost settings is explored, not proved. The declarative rules in the theorem statements define 'valid' (an empty link name of a TAR "
    "symlink is allowed because the shipped constraint allows it). The reST clause 'docutils renders without errors' cannot be expressed by "
    "a Lean model: docutils itself (importable in this sandbox) is run on every generated document as an additional, labelled EXTERNAL oracle (messages of level ERROR / SEVERE are violations, WARNINGs are recorded only). "
    "Known finding: the shipped reST numbering constraint is vacuous (consecutive() never holds for two enumeration items because of the "
    "line-feed leaf between them), so non-consecutively numbered lists are generated.",
    technique="Lean 4 theorems (each format checker = its declarative rule, sound and complete) + certification of every input the real solver generates from the shipped formalizations",
)

NOT_APPLICABLE = {
    "C22": "reproducibility across fresh processes depends on hash randomisation, Z3 seeds/timeouts and wall-clock time; a functional Lean model would prove determinism vacuously and no executable model can exhibit the failure (DESIGN.md section 8)",
}


def main():
    props = [json.loads(l) for l in open(os.path.join(ROOT, "properties.jsonl"))]
    checks = []
    na = []
    for p in props:
        pid = p["id"]
        if pid in CHECKS:
            c = CHECKS[pid]
            checks.append(
                {
                    "property_id": pid,
                    "quick_cmd": f"./check {pid} --tier quick",
                    "thorough_cmd": f"./check {pid} --tier thorough",
                    "evidence_file": f"evidence/{pid}.json",
                    "replay_cmd_template": f"./check {pid} --replay {{path}}",
                    "engine": "lean4-model+correspondence",
                    "level_claimed": {"category": c["category"], "text": c["text"], "design_ref": c["design_ref"]},
                    "level_note": LEVEL_NOTE_COMMON + c["note"],
                    "technique": c["technique"],
                }
            )
        else:
            na.append({"property_id": pid, "reason": NOT_APPLICABLE.get(pid, "check not built yet (framework under construction; see DESIGN.md section 10)")})
    m = {
        "version": 1,
        "setup_cmd": "cd lean && lake build IslaVerif isladrv",
        "hooks": {
            "guard": "ISLA_VERIF",
            "enable": "no source hooks are needed: checks import /repo's working tree through the editable install in /venv and observe behaviour in-process",
            "baseline_off_cmd": "cd /repo && /venv/bin/python -m pytest -ra -q -p no:cacheprovider --timeout=900 --continue-on-collection-errors",
            "source_commits": HOOK_COMMITS,
            "add_only": True,
        },
        "engines": [
            {
                "name": "lean4-model+correspondence",
                "path": "lean/ (Lean 4 model, proofs, compiled driver isladrv) + harness/ (Python correspondence harness, ./check)",
                "serves_properties": sorted(CHECKS),
                "kind_free_text": "machine-checked proof in Lean 4 about a hand-written executable model; model tied to /repo by differential correspondence on every run",
            }
        ],
        "checks": checks,
        "not_applicable": na,
        "notes": "Exit codes of ./check: 0 ok (KNOWN-FINDING lines allowed), 1 VIOLATION, 2 timeout/infrastructure. VERIF_SEED selects the PRNG seed.",
    }
    with open(os.path.join(ROOT, "MANIFEST.json"), "w") as f:
        json.dump(m, f, indent=1)
        f.write("\n")


if __name__ == "__main__":
    main()
