"""C01 — every tree returned by ISLaSolver.solve() is closed, grammar-valid, rooted in the (requested)
start symbol and satisfies the constraint under the specification's semantics; for every call in a
sequence of calls.

Proof side: lean/IslaVerif/Properties/C01.lean — the certifier `certify` (tree validity + closedness +
root symbol + reference evaluator) is proved sound: acceptance implies membership in the grammar's
language and `Sat` (the Prop-valued specification of islaspec.rst).  The solver's search itself is
not modelled.
Tie: the real solver is run on generated and documented problems under a grid of settings; EVERY
returned tree of every call sequence goes through the compiled certifier.  A rejected tree is a
failing input of the property.
"""
from __future__ import annotations

import json
import os
import time
from typing import Any, Dict, List

from core import Ctx, ROOT, drive
from proto import Atom, enc
from gen import grammars as G
from gen import trees as T
import solverun

LEVEL = "proof"

RULE = (
    "cases = solver problems (grammar, constraint, settings, random seed): ~30% documented constraints (assignment language def-use, "
    "config-file, number lists: match expressions, before/nth/same_position, count with numeric quantifier, str.to.int, str.len), the rest "
    "generated from random acyclic grammars / the assignment and number-list grammars (nested forall/exists with and without match "
    "expressions, the nine structural predicates, count, SMT atoms, numeric quantifiers), settings drawn from the grid "
    "{max_number_free_instantiations, max_number_smt_instantiations, enable_optimized_z3_queries, enforce_unique_trees_in_queue, "
    "tree_insertion_methods 1..7, activate_unsat_support, max_number_tree_insertion_results, start_symbol}; solve() is called up to 5 times "
    "per problem (5 s solver timeout); evaluations = solutions certified; non-trivial = distinct (constraint, settings, solution string) "
    "with a definite certifier verdict"
)


def feature_sig(text: str) -> str:
    feats = []
    if "forall int " in text:
        # universal numeric quantifiers are eliminated by instantiating them with finitely many values
        return "forall-int"
    if " int " in text:
        feats.append("int-quantifier")
    if '="' in text:
        feats.append("match-expr")
    for p in ("nth(", "level(", "count(", "consecutive(", "before(", "after(", "inside(", "direct_child(", "same_position(", "different_position("):
        if p in text:
            feats.append(p[:-1])
    for p in ("str.to.int", "str.in_re", "str.len", "str.prefixof", "str.contains"):
        if p in text:
            feats.append(p)
    return "+".join(feats[:4]) or "plain"


def certify_results(ctx: Ctx, batch: List[tuple]):
    """batch: (problem, result).  Builds certify requests for every returned tree."""
    reqs, meta = [], []
    for pb, res in batch:
        if not res.get("formula"):
            continue
        g = res.get("grammar_used") or pb["grammar"]
        root = pb.get("start_symbol") or "<start>"
        gs = enc(G.grammar_sexp(g))
        for k, call in enumerate(res["calls"]):
            if call["outcome"] != "tree":
                continue
            t = call["tree"]
            bound = T.size(t) + 16
            line = f"(sem certify {gs} {enc(T.to_sexp(t))} {res['formula']} {enc(root)} {enc(res.get('const', 'start'))} {bound})"
            reqs.append(line)
            meta.append((pb, res, k, t))
    if not reqs:
        return
    answers = drive(reqs)
    for (pb, res, k, t), a in zip(meta, answers):
        ctx.evaluations += 1
        text = pb["constraint"]
        s = T.tree_str(t)
        if not isinstance(a, list) or len(a) != 4:
            ctx.count("certifier", "bad-answer")
            continue
        valid, closed, root_ok, verdict = a
        sig = feature_sig(text)
        replay = {
            "problem": pb,
            "solution_index": k,
            "tree": t,
            "tree_str": s,
            "certifier": {"valid": valid, "closed": closed, "root_ok": root_ok, "verdict": str(verdict)},
            "formula": res["formula"],
            "grammar_used": res.get("grammar_used"),
        }
        sett = ",".join(sorted(pb["settings"])) or "defaults"
        if valid is not True:
            ctx.violation(f"solution-not-a-derivation-tree:{sig}", f"solve() call {k+1} returned a tree that is not a derivation tree of the grammar: {s!r} for {text!r} [{sett}]", replay)
        elif closed is not True:
            ctx.violation(f"solution-open:{sig}", f"solve() call {k+1} returned an open tree {s!r} for {text!r} [{sett}]", replay)
        elif root_ok is not True:
            wr = "start-symbol-wrapped-in-<start>" if (pb.get("start_symbol") and t[1] == "<start>" and t[2] and len(t[2]) == 1 and t[2][0][1] == pb["start_symbol"]) else sig
            ctx.violation(f"solution-wrong-root:{wr}", f"solve() call {k+1} returned a tree rooted in {t[1]!r} (requested {pb.get('start_symbol') or '<start>'}) for {text!r}", replay)
        elif verdict is False:
            ctx.violation(f"solution-violates-constraint:{sig}", f"solve() call {k+1} returned {s!r}, which violates {text!r} under the specification [{sett}]", replay)
        elif verdict is True:
            ctx.count("certified", "accepted")
            ctx.nontriv((text, sett, s))
        else:
            ctx.count("certified", "reference-undecided")
        ctx.sample({"constraint": text, "settings": pb["settings"], "solution": s, "verdict": str(verdict)}, limit=8)


def summarize(ctx: Ctx, pb, res):
    ctx.count("origin", pb["origin"])
    for k in pb["settings"]:
        ctx.count("setting", f"{k}={pb['settings'][k]}")
    if pb.get("start_symbol"):
        ctx.count("setting", "start_symbol")
    if res.get("killed"):
        ctx.count("problem", "wall-guard (no verdict)")
        return
    if res.get("harness_error"):
        ctx.count("problem", "worker-error:" + res["harness_error"][:40])
        return
    if res.get("ctor_exc"):
        ctx.count("problem", "constructor-raises:" + res["ctor_exc"]["cls"])
        return
    if res.get("unsupported"):
        ctx.count("problem", "formula-outside-reference:" + res["unsupported"][:30])
    outs = [c["outcome"] for c in res["calls"]]
    ctx.count("problem", "solutions:" + str(outs.count("tree")))
    for c in res["calls"]:
        ctx.count("call", c["outcome"] if c["outcome"] != "exc" else "exc:" + c["exc"]["cls"])
    ctx.count("features", feature_sig(pb["constraint"]))


def corpus_problems():
    d = os.path.join(ROOT, "corpus", "C01")
    res = []
    if os.path.isdir(d):
        for fn in sorted(os.listdir(d)):
            if fn.endswith(".json"):
                o = json.load(open(os.path.join(d, fn)))
                res.append(o["problem"])
    return res


def run(ctx: Ctx):
    ok = ctx.proof_side()
    if not os.path.exists(os.path.join(ROOT, "lean", ".lake", "build", "bin", "isladrv")):
        return "infra"
    quick = ctx.tier == "quick"
    n = 110 if quick else 1200
    problems = []
    for pb in corpus_problems():
        pb = dict(pb)
        pb.setdefault("origin", "corpus")
        problems.append(pb)
    for i in range(n):
        pb = solverun.gen_problem(ctx.rng, i)
        pb["rseed"] = ctx.rng.randint(0, 10**6)
        pb["timeout"] = 5
        pb["calls"] = 5
        problems.append(pb)
    batch = []
    soft_deadline = ctx.t0 + (150 if quick else 2400)
    for pb, res in solverun.run_all(problems, wall_limit=45.0, deadline=soft_deadline):
        summarize(ctx, pb, res)
        batch.append((pb, res))
        if len(batch) >= 40:
            certify_results(ctx, batch)
            batch = []
    certify_results(ctx, batch)
    ctx.coverage["problems_run"] = sum(ctx.hist.get("origin", {}).values())
    ctx.obligation("certification: every tree returned by solve() on the explored problems is accepted by the proved certifier", not ctx.violations)
    if not ok and not ctx.violations:
        ctx.violation("proof-obligation-broken", "a proof obligation of C01 no longer checks", {"broken": [n for n, o, _ in ctx.obligations if not o]}, found_input=False)
    ctx.write_evidence(
        RULE,
        [
            "only the explored problems' outputs are certified; the solver's search procedure is not modelled, so nothing is claimed for unexplored inputs",
            "the certifier evaluates the formula object the solver itself holds (parse_isla + ensure_unique_bound_variables); concrete syntax -> formula is C07/C08",
            "numeric quantifiers: the reference searches 0..tree size+16; an undecided verdict is counted (certified.reference-undecided), not reported",
            "problems stopped by the 45 s wall guard or the solver's own 5 s timeout give no verdict and are counted",
        ],
    )


def replay(ctx: Ctx, obj):
    """re-run the recorded problem (same settings and random seed) and certify everything it returns; additionally
    re-certify the recorded tree itself"""
    pb = obj["problem"]
    res = None
    for _pb, r in solverun.run_all([pb], wall_limit=90.0, procs=1):
        res = r
    if res is not None:
        certify_results(ctx, [(pb, res)])
    if not ctx.violations and obj.get("formula") and obj.get("tree") is not None:
        # the property is about what solve() RETURNS: a recorded tree the solver no longer returns is not a violation of
        # the current code; its certifier verdict is shown for information only
        t = plain(obj["tree"])
        gs = enc(G.grammar_sexp(obj.get("grammar_used") or pb["grammar"]))
        a = drive([f"(sem certify {gs} {enc(T.to_sexp(t))} {obj['formula']} {enc(pb.get('start_symbol') or '<start>')} {enc('start')} {T.size(t) + 16})"])[0]
        print(f"replay: re-running the recorded problem (same settings and random seed) did not return a rejected tree; the recorded tree {T.tree_str(t)!r} itself gets (valid, closed, root, verdict) = {a} from the certifier")


def plain(t):
    return (t[0], t[1], None if t[2] is None else [plain(k) for k in t[2]])
