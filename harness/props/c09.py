"""C09 — formula negation and normal-form rewrites preserve meaning.

Proof side: lean/IslaVerif/Properties/C09.lean (Sat over arbitrary interpretations:
sat_negF, sat_nnf, sat_dnf, sat_andF, sat_orF, sat_feq, totality).
Tie: generated formula ASTs are built as real isla Formula objects, pushed through
`-f`, `&`, `|`, `==`, convert_to_nnf, convert_to_dnf, split_conjunction/disjunction, and the
result is compared (canonically: flattened, sorted) with the Lean model's result.
On a disagreement the search evaluates original and rewritten formula under sampled finite
interpretations (Lean `evalB`) to find an interpretation on which the *property* fails.
"""
from __future__ import annotations

import json
import os
from typing import Any, Dict, List, Tuple

from core import Ctx, ROOT, drive
from proto import Atom

LEVEL = "proof"

RULE = (
    "cases = generated formula ASTs (n-ary conjunctions/disjunctions of arity 2-5, nesting <= 5, negations, tree and numeric "
    "quantifiers, predicate atoms, SMT atoms incl. true/false literals, duplicate and complementary operands drawn from a small atom pool) "
    "x operations {neg, nnf(negate in {F,T}), dnf(deep in {F,T}) on NNF inputs and on nnf outputs, &, |, ==, split}; non-trivial = distinct "
    "(operation, formula) where the formula contains a combinator; distinctness by hash of the canonical AST"
)

# --------------------------------------------------------------------------
# ASTs as nested tuples: ('atom', a) ('smt', s, pos) ('tt',) ('ff',) ('neg', f) ('conj', [..]) ('disj', [..])
# ('all', q, f) ('ex', q, f) ('allint', v, f) ('exint', v, f)
# --------------------------------------------------------------------------


def gen_f(rng, depth: int, nnf_only: bool = False, top: bool = True):
    r = rng.random()
    if depth <= 0 or r < 0.22:
        k = rng.random()
        if k < 0.45:
            a = ("atom", rng.randint(0, 4))
            if rng.random() < 0.3:
                return ("neg", a)
            return a
        if k < 0.85:
            return ("smt", rng.randint(0, 3), rng.random() < 0.7)
        return ("tt",) if rng.random() < 0.5 else ("ff",)
    if r < 0.32 and not nnf_only:
        return ("neg", gen_f(rng, depth - 1, nnf_only, False))
    if r < 0.58:
        n = rng.choice([2, 2, 2, 3, 3, 4, 5])
        args = [gen_f(rng, depth - 1, nnf_only, False) for _ in range(n)]
        if rng.random() < 0.2:
            args[rng.randrange(n)] = args[rng.randrange(n)]  # duplicate operand
        return ("conj", args)
    if r < 0.82:
        n = rng.choice([2, 2, 2, 3, 3, 4])
        args = [gen_f(rng, depth - 1, nnf_only, False) for _ in range(n)]
        if rng.random() < 0.2:
            args[rng.randrange(n)] = args[rng.randrange(n)]
        return ("disj", args)
    if r < 0.93:
        return (rng.choice(["all", "ex"]), rng.randint(0, 2), gen_f(rng, depth - 1, nnf_only, False))
    return (rng.choice(["allint", "exint"]), rng.randint(0, 1), gen_f(rng, depth - 1, nnf_only, False))


def has_comb(f) -> bool:
    k = f[0]
    if k in ("conj", "disj", "neg"):
        return True
    if k in ("all", "ex", "allint", "exint"):
        return has_comb(f[2])
    return False


def size(f) -> int:
    k = f[0]
    if k in ("conj", "disj"):
        return 1 + sum(size(x) for x in f[1])
    if k == "neg":
        return 1 + size(f[1])
    if k in ("all", "ex", "allint", "exint"):
        return 1 + size(f[2])
    return 1


def to_sexp(f):
    k = f[0]
    if k in ("tt", "ff"):
        return Atom(k)
    if k == "atom":
        return [Atom("atom"), f[1]]
    if k == "smt":
        return [Atom("smt"), f[1], bool(f[2])]
    if k == "neg":
        return [Atom("neg"), to_sexp(f[1])]
    if k in ("conj", "disj"):
        return [Atom(k)] + [to_sexp(x) for x in f[1]]
    return [Atom(k), f[1], to_sexp(f[2])]


def from_sexp(s):
    if isinstance(s, Atom):
        return (str(s),)
    k = str(s[0])
    if k == "atom":
        return ("atom", s[1])
    if k == "smt":
        return ("smt", s[1], bool(s[2]))
    if k == "neg":
        return ("neg", from_sexp(s[1]))
    if k in ("conj", "disj"):
        return (k, [from_sexp(x) for x in s[1:]])
    return (k, s[1], from_sexp(s[2]))


def canon(f):
    """flatten nested conj/disj, sort, drop duplicates — the observable level compared"""
    k = f[0]
    if k in ("conj", "disj"):
        items = []
        for x in f[1]:
            c = canon(x)
            if c[0] == k:
                items.extend(c[1])
            else:
                items.append(c)
        uniq = sorted(set(map(repr, items)))
        lookup = {repr(i): i for i in items}
        return (k, tuple(lookup[u] for u in uniq))
    if k == "neg":
        return ("neg", canon(f[1]))
    if k in ("all", "ex", "allint", "exint"):
        return (k, f[1], canon(f[2]))
    return tuple(f)


# --------------------------------------------------------------------------
# real isla objects
# --------------------------------------------------------------------------


class Py:
    def __init__(self):
        import z3
        from isla import language as L
        from isla import isla_predicates as ip
        from isla.z3_helpers import z3_eq

        self.z3, self.L, self.ip, self.z3_eq = z3, L, ip, z3_eq
        self.start = L.Constant("start", "<start>")
        self.smt_ids: Dict[str, int] = {}
        self.smt_base = {}
        for s in range(4):
            v = L.BoundVariable(f"v{s}", "<a>")
            base = z3_eq(v.to_smt(), z3.StringVal(f"k{s}")) if s % 2 == 0 else z3.PrefixOf(z3.StringVal(f"k{s}"), v.to_smt())
            self.smt_base[s] = (base, v)
            self.smt_ids[base.sexpr()] = s

    def build(self, f):
        L, z3 = self.L, self.z3
        k = f[0]
        if k == "tt":
            return L.true()
        if k == "ff":
            return L.false()
        if k == "atom":
            a = f[1]
            x, y = L.BoundVariable(f"x{a}", "<a>"), L.BoundVariable(f"y{a}", "<a>")
            if a % 2 == 0:
                return L.StructuralPredicateFormula(self.ip.BEFORE_PREDICATE, x, y)
            return L.SemanticPredicateFormula(self.ip.COUNT_PREDICATE, x, "<a>", y)
        if k == "smt":
            base, v = self.smt_base[f[1]]
            return L.SMTFormula(base if f[2] else z3.Not(base), v)
        if k == "neg":
            return L.NegatedFormula(self.build(f[1]))
        if k == "conj":
            return L.ConjunctiveFormula(*[self.build(x) for x in f[1]])
        if k == "disj":
            return L.DisjunctiveFormula(*[self.build(x) for x in f[1]])
        if k in ("all", "ex"):
            bv = L.BoundVariable(f"q{f[1]}", "<a>")
            cls = L.ForallFormula if k == "all" else L.ExistsFormula
            return cls(bv, self.start, self.build(f[2]))
        if k in ("allint", "exint"):
            bv = L.BoundVariable(f"n{f[1]}", L.Variable.NUMERIC_NTYPE)
            cls = L.ForallIntFormula if k == "allint" else L.ExistsIntFormula
            return cls(bv, self.build(f[2]))
        raise ValueError(k)

    def decode(self, o):
        L, z3 = self.L, self.z3
        if isinstance(o, L.SMTFormula):
            if o.is_true or z3.is_true(o.formula):
                return ("tt",)
            if o.is_false or z3.is_false(o.formula):
                return ("ff",)
            z = o.formula
            if z3.is_not(z):
                s = self.smt_ids.get(z.children()[0].sexpr())
                return ("smt", s, False) if s is not None else ("unknown-smt", z.sexpr())
            s = self.smt_ids.get(z.sexpr())
            return ("smt", s, True) if s is not None else ("unknown-smt", z.sexpr())
        if isinstance(o, L.StructuralPredicateFormula):
            return ("atom", int(o.args[0].name[1:]))
        if isinstance(o, L.SemanticPredicateFormula):
            return ("atom", int(o.args[0].name[1:]))
        if isinstance(o, L.NegatedFormula):
            return ("neg", self.decode(o.args[0]))
        if isinstance(o, L.ConjunctiveFormula):
            return ("conj", [self.decode(x) for x in o.args])
        if isinstance(o, L.DisjunctiveFormula):
            return ("disj", [self.decode(x) for x in o.args])
        if isinstance(o, L.ForallFormula):
            return ("all", int(o.bound_variable.name[1:]), self.decode(o.inner_formula))
        if isinstance(o, L.ExistsFormula):
            return ("ex", int(o.bound_variable.name[1:]), self.decode(o.inner_formula))
        if isinstance(o, L.ForallIntFormula):
            return ("allint", int(o.bound_variable.name[1:]), self.decode(o.inner_formula))
        if isinstance(o, L.ExistsIntFormula):
            return ("exint", int(o.bound_variable.name[1:]), self.decode(o.inner_formula))
        return ("unknown", type(o).__name__)

    def apply(self, op: str, args) -> Any:
        """returns ('ok', ast) | ('raises', cls) | ('bool', b) | ('list', [ast])"""
        L = self.L
        try:
            objs = [self.build(a) if isinstance(a, tuple) else a for a in args]
            if op == "neg":
                return ("ok", self.decode(-objs[0]))
            if op == "nnf":
                return ("ok", self.decode(L.convert_to_nnf(objs[0], objs[1])))
            if op == "dnf":
                return ("ok", self.decode(L.convert_to_dnf(objs[0], objs[1])))
            if op == "nnfdnf":
                return ("ok", self.decode(L.convert_to_dnf(L.convert_to_nnf(objs[0]), objs[1])))
            if op == "and":
                return ("ok", self.decode(objs[0] & objs[1]))
            if op == "or":
                return ("ok", self.decode(objs[0] | objs[1]))
            if op == "eq":
                return ("bool", bool(objs[0] == objs[1]))
            if op == "splitc":
                return ("list", [self.decode(x) for x in L.split_conjunction(objs[0])])
            if op == "splitd":
                return ("list", [self.decode(x) for x in L.split_disjunction(objs[0])])
        except Exception as e:  # noqa
            return ("raises", type(e).__name__)
        raise ValueError(op)


def model_requests(op, args) -> List[Any]:
    c = Atom("c09")
    if op in ("neg", "splitc", "splitd"):
        return [[c, Atom(op), to_sexp(args[0])]]
    if op in ("nnf", "dnf"):
        return [[c, Atom(op), to_sexp(args[0]), bool(args[1])]]
    if op in ("and", "or", "eq"):
        return [[c, Atom(op), to_sexp(args[0]), to_sexp(args[1])]]
    raise ValueError(op)


def decode_model(op, ans):
    if op in ("and", "or"):
        return ("ok", from_sexp(ans))
    if isinstance(ans, Atom):
        return ("raises", str(ans))
    if op == "eq":
        return ("bool", bool(ans))
    if op in ("splitc", "splitd"):
        return ("list", [from_sexp(x) for x in ans])
    if op in ("and", "or"):
        return ("ok", from_sexp(ans))
    if isinstance(ans, list) and ans and ans[0] == Atom("ok"):
        return ("ok", from_sexp(ans[1]))
    return ("bad", str(ans))


def dnf_cost(f) -> int:
    """number of cubes a distribution would create (keeps the generated DNF problems small)"""
    k = f[0]
    if k == "conj":
        c = 1
        for x in f[1]:
            c *= dnf_cost(x)
        return c
    if k == "disj":
        return sum(dnf_cost(x) for x in f[1])
    if k == "neg":
        return dnf_cost(f[1])
    if k in ("all", "ex", "allint", "exint"):
        return dnf_cost(f[2])
    return 1


def gen_small(rng, d, nnf_only=False, limit=48):
    for _ in range(50):
        f = gen_f(rng, d, nnf_only)
        if dnf_cost(f) <= limit and size(f) <= 120:
            return f
    return gen_f(rng, 1, nnf_only)


def gen_cases(ctx: Ctx, n: int):
    rng = ctx.rng
    cases = []
    for i in range(n):
        d = rng.randint(1, 5)
        r = rng.random()
        if r < 0.15:
            cases.append(("neg", [gen_small(rng, d)]))
        elif r < 0.35:
            cases.append(("nnf", [gen_small(rng, d), rng.random() < 0.5]))
        elif r < 0.6:
            cases.append(("dnf", [gen_small(rng, d, nnf_only=True), rng.random() < 0.5]))
        elif r < 0.7:
            cases.append(("nnfdnf", [gen_small(rng, d, limit=24), rng.random() < 0.5]))
        elif r < 0.9:
            a = gen_f(rng, rng.randint(0, 3))
            k = rng.random()
            if k < 0.2:
                b = a
            elif k < 0.35:
                b = ("neg", a)
            elif k < 0.5:
                a, b = ("neg", a), a[1] if a[0] == "neg" else a
            else:
                b = gen_f(rng, rng.randint(0, 3))
            cases.append((rng.choice(["and", "or", "eq"]), [a, b]))
        else:
            cases.append((rng.choice(["splitc", "splitd"]), [gen_small(rng, d)]))
    # flatten variants for ==
    for _ in range(n // 25 + 1):
        x, y, z = gen_f(rng, 1), gen_f(rng, 1), gen_f(rng, 1)
        k = rng.choice(["conj", "disj"])
        cases.append(("eq", [(k, [x, (k, [y, z])]), (k, [(k, [x, y]), z])]))
        cases.append(("eq", [(k, [x, (k, [y, z])]), (k, [x, y, z])]))
    return cases


def corpus_cases():
    d = os.path.join(ROOT, "corpus", "C09")
    res = []
    if os.path.isdir(d):
        for fn in sorted(os.listdir(d)):
            if fn.endswith(".json"):
                o = json.load(open(os.path.join(d, fn)))
                res.append((o["op"], [untup(a) for a in o["args"]], fn))
    return res


def untup(a):
    if isinstance(a, list) and a and isinstance(a[0], str):
        k = a[0]
        if k in ("conj", "disj"):
            return (k, [untup(x) for x in a[1]])
        if k == "neg":
            return ("neg", untup(a[1]))
        if k in ("all", "ex", "allint", "exint"):
            return (k, a[1], untup(a[2]))
        return tuple(a)
    return a


def sig(op, args) -> str:
    """signature of a failing input: operation + coarse shape"""
    f = args[0]
    feats = []
    if op in ("dnf", "nnfdnf"):
        def walk(g, under_q, under_conj):
            k = g[0]
            if k == "conj":
                if len(g[1]) > 2 and any(x[0] == "disj" for x in g[1]):
                    feats.append("nary-conj-with-disj")
                for x in g[1]:
                    walk(x, under_q, True)
            elif k == "disj":
                for x in g[1]:
                    walk(x, under_q, under_conj)
            elif k == "neg":
                if g[1][0] in ("conj", "disj", "neg") and under_q:
                    feats.append("negated-combinator-under-quantifier")
                walk(g[1], under_q, under_conj)
            elif k in ("all", "ex", "allint", "exint"):
                walk(g[2], True, under_conj)
        walk(f, False, False)
    return op + (":" + "+".join(sorted(set(feats))) if feats else "")


def semantic_search(ctx: Ctx, op, args, py_ast) -> Tuple[bool, Any]:
    """does the rewritten formula produced by isla differ in meaning from what the property demands?"""
    n = 64
    f = args[0]
    reqs = [[Atom("c09"), Atom("verdicts"), to_sexp(f), ctx.seed * 1000, n], [Atom("c09"), Atom("verdicts"), to_sexp(py_ast), ctx.seed * 1000, n]]
    if op in ("and", "or"):
        reqs.append([Atom("c09"), Atom("verdicts"), to_sexp(args[1]), ctx.seed * 1000, n])
    vs = drive(reqs)
    orig, new = vs[0], vs[1]
    for i in range(n):
        if op == "neg" or (op == "nnf" and args[1]):
            want = not orig[i]
        elif op == "and":
            want = orig[i] and vs[2][i]
        elif op == "or":
            want = orig[i] or vs[2][i]
        else:
            want = orig[i]
        if new[i] != want:
            return True, {"interpretation_seed": ctx.seed * 1000 + i, "verdict_required": want, "verdict_of_isla_result": new[i]}
    return False, None


def check_cases(ctx: Ctx, cases, py: Py, origin: str):
    reqs = []
    idx = []
    pys = []
    for ci, (op, args) in enumerate(cases):
        pr = py.apply(op, args)
        pys.append(pr)
        if op == "nnfdnf":
            continue
        reqs.extend(model_requests(op, args))
        idx.append(ci)
    answers = drive(reqs)
    model = {ci: decode_model(cases[ci][0], a) for ci, a in zip(idx, answers)}
    # nnfdnf: two-step on the model
    two = [ci for ci, (op, _) in enumerate(cases) if op == "nnfdnf"]
    if two:
        a1 = drive([[Atom("c09"), Atom("nnf"), to_sexp(cases[ci][1][0]), False] for ci in two])
        r2, keep = [], []
        for ci, a in zip(two, a1):
            m = decode_model("nnf", a)
            if m[0] == "ok":
                r2.append([Atom("c09"), Atom("dnf"), to_sexp(m[1]), bool(cases[ci][1][1])])
                keep.append(ci)
            else:
                model[ci] = m
        for ci, a in zip(keep, drive(r2) if r2 else []):
            model[ci] = decode_model("dnf", a)
    for ci, (op, args) in enumerate(cases):
        ctx.evaluations += 1
        pr, mr = pys[ci], model[ci]
        ctx.count("operation", op)
        ctx.count("python_outcome", pr[0] if pr[0] != "raises" else "raises-" + pr[1])
        ctx.count("formula_size", min(size(args[0]) // 5 * 5, 60))
        if has_comb(args[0]):
            ctx.nontriv((op, repr(canon(args[0])), repr(args[1:])))
        if ci < 6:
            ctx.sample({"op": op, "args": repr(args)[:300], "isla": repr(pr)[:200]})
        same = False
        if pr[0] == mr[0]:
            if pr[0] == "ok":
                same = canon(pr[1]) == canon(mr[1])
                if same and pr[1] == mr[1]:
                    ctx.count("agreement", "exact-structure")
                elif same:
                    ctx.count("agreement", "canonical-only")
            elif pr[0] == "list":
                same = [canon(x) for x in pr[1]] == [canon(x) for x in mr[1]]
            elif pr[0] == "raises":
                same = pr[1] == mr[1]
            else:
                same = pr[1] == mr[1]
        if same:
            if pr[0] == "raises" and origin != "negative":
                # model and code agree that the rewrite raises: the property (no raise on well-formed input) fails
                ctx.violation(
                    sig(op, args),
                    f"{op} raises {pr[1]} on a well-formed formula (model agrees: the rewrite is partial here)",
                    {"op": op, "args": args, "isla": pr, "model": mr, "origin": origin},
                )
            continue
        # disagreement
        key = sig(op, args)
        replay = {"op": op, "args": args, "isla": pr, "model": mr, "origin": origin}
        if pr[0] == "raises" and mr[0] == "ok":
            ctx.violation(key, f"{op} raises {pr[1]} in isla; the model (proved total and meaning-preserving) returns a formula", replay)
        elif pr[0] == "ok" and mr[0] in ("ok",) and op in ("neg", "nnf", "dnf", "nnfdnf", "and", "or"):
            found, wit = semantic_search(ctx, "dnf" if op == "nnfdnf" else op, args, pr[1])
            if found:
                replay["witness"] = wit
                ctx.violation(key, f"{op}: isla's result has a different verdict than required under a sampled interpretation", replay)
            else:
                replay["broken"] = f"correspondence c09/{op}: isla and the Lean model return different formulas (canonical forms differ)"
                ctx.violation(key + ":shape", f"{op}: isla and model results differ syntactically; no interpretation separating them was found", replay, found_input=False)
        elif pr[0] == "bool":
            # == is not itself a property clause; a different answer only matters through &,| simplification
            replay["broken"] = "correspondence c09/eq: Formula.__eq__ differs from the model's feq"
            ctx.violation(key + ":eq", f"==: isla says {pr[1]}, model says {mr[1]}", replay, found_input=False)
        else:
            replay["broken"] = f"correspondence c09/{op}"
            ctx.violation(key + ":outcome", f"{op}: isla {pr[:2]} vs model {mr[:2]}", replay, found_input=(pr[0] == "raises"))


def push_in_negations_tie(ctx: Ctx, n: int):
    """hypothesis of the theorems about SMT atoms: z3_push_in_negations(s, negate=True) is the
    negation of s.  Sampled with Z3 (a tie for the assumption, not a proof)."""
    import z3
    from isla.z3_helpers import z3_push_in_negations, z3_eq

    rng = ctx.rng
    xs = [z3.String(f"s{i}") for i in range(3)]

    def gen(d):
        r = rng.random()
        if d <= 0 or r < 0.3:
            x = rng.choice(xs)
            k = rng.random()
            if k < 0.4:
                return z3_eq(x, z3.StringVal(rng.choice(["a", "b", ""])))
            if k < 0.7:
                return z3.Length(x) > z3.IntVal(rng.randint(0, 2))
            return z3.PrefixOf(z3.StringVal("a"), x)
        if r < 0.5:
            return z3.Not(gen(d - 1))
        if r < 0.75:
            return z3.And(*[gen(d - 1) for _ in range(rng.randint(2, 3))])
        return z3.Or(*[gen(d - 1) for _ in range(rng.randint(2, 3))])

    for i in range(n):
        f = gen(3)
        g = z3_push_in_negations(f, True)
        s = z3.Solver()
        s.set("timeout", 2000)
        s.add(g != z3.Not(f)) if False else s.add(z3.Xor(g, z3.Not(f)))
        r = s.check()
        ctx.evaluations += 1
        ctx.count("push_in_negations", str(r))
        if r == z3.sat:
            ctx.violation(
                "smt-push-in-negations",
                "z3_push_in_negations(f, negate=True) is not equivalent to Not(f)",
                {"formula": f.sexpr(), "pushed": g.sexpr(), "model": str(s.model())},
            )


def run(ctx: Ctx):
    ok = ctx.proof_side()
    if not ok and not os.path.exists(os.path.join(ROOT, "lean", ".lake", "build", "bin", "isladrv")):
        return "infra"
    py = Py()
    n = 3000 if ctx.tier == "quick" else 60000
    corp = corpus_cases()
    check_cases(ctx, [(op, args) for op, args, _ in corp], py, "corpus")
    cases = gen_cases(ctx, n)
    for i in range(0, len(cases), 2000):
        ctx.check_time()
        check_cases(ctx, cases[i : i + 2000], py, "generated")
    push_in_negations_tie(ctx, 60 if ctx.tier == "quick" else 600)
    import props.c09_rename as ren

    ren.check_renaming(ctx, 600 if ctx.tier == "quick" else 12000)
    ctx.obligation("correspondence: isla rewrites == model rewrites (canonical) on all explored formulas", not ctx.violations)
    if not ok and not ctx.violations:
        ctx.violation("proof-obligation-broken", "a proof obligation of C09 no longer checks", {"broken": [n for n, o, _ in ctx.obligations if not o]}, found_input=False)
    ctx.write_evidence(
        RULE,
        [
            "SMT atoms are opaque; the theorems assume z3_push_in_negations(s, True) denotes the negation of s (sampled against Z3 on every run)",
            "z3.simplify inside z3_push_in_negations leaves the generated atom shapes unchanged (checked by the decoder: unknown atoms are reported)",
            "bound-variable renaming: the real ensure_unique_bound_variables is not modelled; each of its results is checked against its input by the proved alpha-equivalence checker (alphaEq_sound) and for uniqueness of binder names",
        ],
    )


def replay(ctx: Ctx, obj):
    py = Py()
    check_cases(ctx, [(obj["op"], [untup(a) for a in obj["args"]])], py, "replay")
