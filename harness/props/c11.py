"""C11 — BNF grammars survive printing and re-parsing with the same language.

Proof side: lean/IslaVerif/Properties/C11.lean — for the escape tables regenerated from the source
on every run: un-escaping inverts escaping for EVERY string; the printed form of a terminal is one
STRING token; print-then-read of a terminal is the identity.
Tie: generated grammars with terminals over printable, control, quote, backslash, '<', non-ASCII
characters and empty alternatives go through unparse_grammar / parse_bnf; without '<' in terminals the
result must be the identical grammar; with '<' the languages of all original nonterminals are
compared (verified recognizer, all strings up to a bound plus derived strings).  The model's escape /
unescape are compared with the real functions character by character.
"""
from __future__ import annotations

import itertools
import json
import os
from typing import Any, Dict, List

from core import Ctx, ROOT, drive
from proto import Atom
from gen import grammars as G
from gen import trees as T
import translate

LEVEL = "proof"

RULE = (
    "cases = grammars whose terminals are drawn from printable ASCII, all control characters, quotes, backslashes, backslash-letter "
    "look-alikes ('\\\\n', '\\\\x41'), placeholder look-alikes, non-ASCII (Latin-1, BMP, astral) and '<' / '>' characters, with empty "
    "alternatives and 1-5 nonterminals; each is printed with unparse_grammar and re-read with parse_bnf; + every code point 0..0x2FF and "
    "samples up to 0x10FFFF through escape/unescape; non-trivial = distinct grammar with at least one terminal needing an escape, or distinct "
    "escaped string"
)

SPECIAL = ['"', "\\", "\n", "\t", "\r", "\x0b", "\x0c", "\x00", "\x07", "\x1b", "\x7f", "\x80", "ä", "ÿ", "€", "\U0001F600", "\\n", "\\x41", "\\\\", '\\"', "$$BESC$$", "$$BESC$\\$BESC$$", "$", " ", "'", "|", "::=", "x", "\\x", "\\x4", "\\b"]
PLAIN = ["a", "b", "0", "1", "xy", ";", "=", " "]


def gen_terminal(rng, allow_langle: bool) -> str:
    n = rng.randint(1, 4)
    parts = []
    for _ in range(n):
        r = rng.random()
        if r < 0.45:
            parts.append(rng.choice(PLAIN))
        elif r < 0.9:
            parts.append(rng.choice(SPECIAL))
        elif allow_langle:
            parts.append(rng.choice(["<", "< ", "<<", ">", "a<b", "<a b>", "<="]))
        else:
            parts.append(chr(rng.randint(0, 0x2FF)))
    t = "".join(parts)
    # a terminal must not look like a nonterminal
    if G.RE_NT.search(t):
        t = t.replace(">", ")")
    return t


def gen_bnf_grammar(rng, allow_langle: bool) -> G.Grammar:
    n = rng.randint(1, 4)
    nts = G.NT_NAMES[:n]
    g: G.Grammar = {"<start>": [nts[0]]}
    for i, nt in enumerate(nts):
        alts = []
        for _ in range(rng.randint(1, 3)):
            if rng.random() < 0.12:
                alts.append("")
                continue
            syms = []
            for _ in range(rng.randint(1, 3)):
                if rng.random() < 0.35 and i + 1 < n:
                    syms.append(rng.choice(nts[i + 1 :]))
                else:
                    t = gen_terminal(rng, allow_langle)
                    if syms and not G.is_nt(syms[-1]):
                        syms[-1] = syms[-1] + t  # adjacent terminals merge in canonical form anyway
                    else:
                        syms.append(t)
            if [x for x in G.split_expansion("".join(syms)) if G.is_nt(x)] != [x for x in syms if x in nts]:
                # merged adjacent terminals ("<" + ">;") read as a nonterminal ("<>") that is not
                # defined: in ISLa's grammar representation that text is not a terminal at all
                syms = [x if x in nts else x.replace(">", ")") for x in syms]
            alts.append("".join(syms))
        if i + 1 < n and not any(nts[i + 1] in a for a in alts):
            alts.append(gen_terminal(rng, False).replace("<", "(") + nts[i + 1])
        g[nt] = list(dict.fromkeys(alts))
    if allow_langle and rng.random() < 0.3:
        # a rule that is not reachable from <start> (ISLa accepts such grammars and prunes them where needed)
        g["<u>"] = [rng.choice(["x<y", "<", "a<", "<=b"]), "u"]
    return g


def gen_langle_named_grammar(rng) -> G.Grammar:
    """grammars that themselves define nonterminals called <langle>, <langle_0>, ... (as every grammar that went
    through parse_bnf once does), with "<" as the only or as one of several alternatives, and that use "<" inside
    other terminals as well"""
    names = rng.sample(["<langle>", "<langle_0>", "<langle_1>", "<langle_7>"], rng.randint(1, 2))
    g: G.Grammar = {"<start>": ["<a>"]}
    body = []
    for _ in range(rng.randint(2, 4)):
        body.append(rng.choice(names + ["a", "b", "a<b", "<", "<=", "x"]))
    alt = ""
    for sym in body:
        alt += sym
    g["<a>"] = [alt, rng.choice(["a", "b<", "<a>b"]) if rng.random() < 0.6 else "x"]
    if G.RE_NT.findall(g["<a>"][0]) != [s for s in body if s in names]:
        g["<a>"][0] = "".join(s if s in names else s.replace("<", "(") for s in body)
    g["<a>"] = [a for a in dict.fromkeys(g["<a>"]) if a != "<a>b"] + (["<a>b"] if "<a>b" in g["<a>"] else [])
    for nm in names:
        k = rng.random()
        if k < 0.35:
            g[nm] = ["<"]
        elif k < 0.7:
            g[nm] = ["<", rng.choice(["&lt;", "=", "(", "a"])]
        else:
            g[nm] = [rng.choice(["=", "a"]), "<", rng.choice(["b<", "<<"])]
    for nm in names:
        if not any(nm in a for a in g["<a>"]):
            g["<a>"].append("a" + nm)
    return g


def has_langle(g: G.Grammar) -> bool:
    return any("<" in sym for alts in G.canon(g).values() for alt in alts for sym in alt if not (G.is_nt(sym) and sym in g))


def well_formed(g: G.Grammar) -> bool:
    """every token that ISLa's RE_NONTERMINAL reads as a nonterminal is defined"""
    return all(sym in g for alts in G.canon(g).values() for alt in alts for sym in alt if G.is_nt(sym))


def check_grammar(ctx: Ctx, g: G.Grammar, origin: str):
    from isla.language import unparse_grammar, parse_bnf

    if not well_formed(g):
        # not a grammar the property speaks about (a "terminal" such as "<>" is an undefined nonterminal)
        ctx.count("grammar", "ill-formed-skipped")
        if origin == "replay":
            print("replay: the grammar uses an undefined nonterminal; it is outside the property's domain")
        return
    ctx.evaluations += 1
    langle = has_langle(g)
    ctx.count("grammar", "with-langle" if langle else "no-langle")
    ctx.nontriv(json.dumps(g, sort_keys=True))
    replay = {"grammar": g, "origin": origin}
    try:
        text = unparse_grammar(g)
    except Exception as e:  # noqa
        ctx.violation("unparse-raises:" + type(e).__name__, f"unparse_grammar raised {type(e).__name__}", replay)
        return
    replay["bnf"] = text
    try:
        g2 = parse_bnf(text)
    except BaseException as e:  # noqa
        ctx.violation("parse-raises:" + type(e).__name__ + (":langle" if langle else ""), f"parse_bnf(unparse_grammar(g)) raised {type(e).__name__}: {str(e)[:100]}", replay)
        return
    g2 = {k: list(v) for k, v in g2.items()}
    replay["reparsed"] = g2
    if not langle:
        if g2 != {k: list(v) for k, v in g.items()}:
            diff = [(k, g.get(k), g2.get(k)) for k in set(g) | set(g2) if g.get(k) != g2.get(k)]
            chars = sorted({c for _, a, b in diff for x in (a or []) + (b or []) for c in x if not c.isalnum() and c not in "<> "})
            ctx.violation(
                "not-identical:" + ("escape" if any(c in "\\\"\n\t\r" or not c.isprintable() for c in chars) else "structure"),
                f"parse_bnf(unparse_grammar(g)) differs from g (no terminal contains '<'): {diff[:2]}",
                replay,
            )
        return
    # with '<': a well-formed grammar again, and the same language from every original nonterminal
    if not well_formed(g2):
        undefined = sorted({sym for alts in G.canon(g2).values() for alt in alts for sym in alt if G.is_nt(sym) and sym not in g2})
        ctx.violation("langle:undefined-nonterminal", f"the re-parsed grammar refers to undefined nonterminals {undefined}", replay)
        return
    sigma = []
    for alts in G.canon(g).values():
        for alt in alts:
            for sym in alt:
                if not (G.is_nt(sym) and sym in g):
                    for ch in sym:
                        if ch not in sigma:
                            sigma.append(ch)
    sigma = sigma[:3]
    strings = [""] + ["".join(p) for n in range(1, 4) for p in itertools.product(sigma, repeat=n)]
    c = G.canon(g)
    if not G.is_cyclic(g):
        for _ in range(6):
            strings.append(T.tree_str(T.gen_tree(ctx.rng, c, "<start>", 5, T.IdGen())))
        for nt0 in g:
            # words of every nonterminal, also of those that <start> does not reach
            for _ in range(2):
                strings.append(T.tree_str(T.gen_tree(ctx.rng, c, nt0, 4, T.IdGen())))
    strings = list(dict.fromkeys(s for s in strings if len(s) <= 30))
    for nt in g:
        def lang(gr, start):
            import copy
            from isla.helpers import delete_unreachable

            gg = gr if start == "<start>" else delete_unreachable(copy.deepcopy(gr) | {"<start>": [start]})
            return drive([[Atom("c10"), Atom("lang"), G.grammar_sexp(gg), "<start>", strings]])[0]

        if nt not in g2:
            ctx.violation("langle:nonterminal-lost", f"nonterminal {nt} is missing after the round trip", replay)
            return
        a, b = lang(g, nt), lang(g2, nt)
        ctx.evaluations += len(strings)
        for s, x, y in zip(strings, a, b):
            if isinstance(x, Atom) or isinstance(y, Atom):
                continue
            if x != y:
                ctx.violation("langle:language-differs", f"L({nt}) differs after the round trip: {s!r} is {'in' if x else 'not in'} the original language", dict(replay, nonterminal=nt, string=s))
                return


def check_escapes(ctx: Ctx):
    """model escape / unescape vs the real code, per code point and on adversarial strings"""
    from isla.language import unparse_grammar, parse_bnf
    from isla.helpers import instantiate_escaped_symbols

    cps = list(range(0, 0x300)) + [0x2028, 0xD7FF, 0xE000, 0xFFFF, 0x10000, 0x10FFFF, 0x1F600]
    cps = [c for c in cps if not (0xD800 <= c <= 0xDFFF)]
    reqs = [[Atom("c11"), Atom("escape"), [c]] for c in cps]
    ans = drive(reqs)
    for c, a in zip(cps, ans):
        ctx.evaluations += 1
        ch = chr(c)
        if ch == "<":
            continue
        text = unparse_grammar({"<start>": ["q" + ch + "q"]})
        want = '<start> ::= "q' + "".join(chr(x) for x in a) + 'q"'
        if text != want:
            ctx.violation("obs:escape", f"escape of U+{c:04X}: isla prints {text!r}, model {want!r}", {"codepoint": c, "broken": "correspondence c11/escape"}, found_input=False)
        try:
            back = parse_bnf(text)
            if list(back.get("<start>", [])) != ["q" + ch + "q"]:
                ctx.violation("escape-roundtrip", f"terminal containing U+{c:04X} does not survive printing and re-parsing: {back}", {"codepoint": c, "bnf": text})
        except BaseException as e:  # noqa
            ctx.violation("escape-roundtrip-raises", f"re-parsing a terminal containing U+{c:04X} raised {type(e).__name__}", {"codepoint": c, "bnf": text})
    # unescape on arbitrary (hand-written style) texts
    rng = ctx.rng
    texts = []
    for _ in range(400):
        texts.append("".join(rng.choice(["\\", "\\\\", "n", "t", "x", "4", "1", "0", "b", "a", "f", "g", '"', "$", "B", "\\x", "\\x4", "\\x41", "\\xzz", "\\q", " "]) for _ in range(rng.randint(0, 8))))
    ans = drive([[Atom("c11"), Atom("unescape"), [ord(c) for c in t]] for t in texts])
    for t, a in zip(texts, ans):
        ctx.evaluations += 1
        ctx.nontriv(("unescape", t))
        try:
            r = instantiate_escaped_symbols(t)
        except Exception as e:  # noqa
            ctx.violation("unescape-raises:" + type(e).__name__, f"instantiate_escaped_symbols({t!r}) raised {type(e).__name__}", {"text": t})
            continue
        m = "".join(chr(x) for x in a)
        if r != m:
            ctx.violation("obs:unescape", f"instantiate_escaped_symbols({t!r}) = {r!r}, model {m!r}", {"text": t, "broken": "correspondence c11/unescape"}, found_input=False)


def run(ctx: Ctx):
    gen_ok, gen_note = translate.generate_all(only=["Escapes.lean"])
    ctx.obligation("translator: escape tables regenerated from language.py / helpers.py", gen_ok, gen_note)
    ok = ctx.proof_side() and gen_ok
    if not os.path.exists(os.path.join(ROOT, "lean", ".lake", "build", "bin", "isladrv")):
        return "infra"
    quick = ctx.tier == "quick"
    check_escapes(ctx)
    n = 250 if quick else 5000
    for i in range(n):
        ctx.check_time()
        if i % 10 == 9:
            g = gen_langle_named_grammar(ctx.rng)
            ctx.count("generator", "langle-named")
        else:
            g = gen_bnf_grammar(ctx.rng, allow_langle=(i % 4 == 0))
        check_grammar(ctx, g, "generated")
        if i < 3:
            ctx.sample({"grammar": g})
    ctx.obligation("correspondence: escape/unescape == model; grammars identical (no '<') / language-equivalent ('<') after the round trip", not ctx.violations)
    if not ok and not ctx.violations:
        ctx.violation("proof-obligation-broken", "a proof obligation of C11 no longer checks (escape tables changed?)", {"broken": [n for n, o, _ in ctx.obligations if not o]}, found_input=False)
    ctx.write_evidence(
        RULE,
        [
            "ANTLR lexing/parsing of the BNF text is not modelled beyond the STRING token; it is tied through the round trip itself",
            "the '<langle>' rewrite is validated by language comparison with the verified recognizer on bounded string sets (not proved)",
            "RE_NONTERMINAL splitting/joining of expansions (canonical) is trusted to be the identity on join(split(s))",
        ],
    )


def replay(ctx: Ctx, obj):
    if "grammar" in obj:
        check_grammar(ctx, obj["grammar"], "replay")
