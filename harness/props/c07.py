"""C07 — for every constraint accepted by parse_isla, unparse_isla produces text that parses again to an
equal constraint, both evaluate identically on every tree, and unparsing the re-parsed constraint
reproduces the same text.

Proof side: lean/IslaVerif/Properties/C07.lean — "equal constraint" is decided by the proved
alpha-equivalence checker on the formula structure with named variables (tree / match-expression /
numeric binders): rename_alphaEq_sound — equal nameless forms have the same meaning under EVERY
interpretation of the atoms and in every environment, so a round trip accepted by the checker
cannot change any verdict.  ANTLR parsing and the printer are not modelled.
Tie: parse -> unparse -> parse -> unparse on generated constraints in core and simplified syntax
(free nonterminals incl. <start>, XPath, infix/prefix SMT, numeric quantifiers, literals needing
escapes, match expressions); the two formula objects are compared by ISLa's own equality, by the
verified checker (atoms compared by their normalised text), by the second unparse, and by the
verified reference evaluator on sampled trees.
"""
from __future__ import annotations

import json
import os
from typing import Any, Dict, List

from core import Ctx, ROOT, drive
from proto import Atom, enc
from gen import grammars as G
from gen import trees as T
from gen.formulas import FormulaGen
import semconv
import props.c09_rename as ren

LEVEL = "proof"

RULE = (
    "cases = constraint texts accepted by parse_isla: core syntax from the typed formula generator over random grammars (nested quantifiers, "
    "match expressions, predicates with string arguments, count, SMT atoms in prefix form, numeric quantifiers) and simplified syntax over the "
    "assignment / number-list / config grammars (free nonterminals incl. <start>, omitted `in start` and variable names, XPath child / index / "
    "descendant axes, infix and prefix operators, negative literals, implies / iff / xor, literals with quote, backslash, newline, tab, "
    "non-ASCII); evaluations = round trips; non-trivial = distinct constraint texts that parse"
)

ASSGN = {"<start>": ["<stmt>"], "<stmt>": ["<assgn>", "<assgn> ; <stmt>"], "<assgn>": ["<var> := <rhs>"], "<rhs>": ["<var>", "<digit>"], "<var>": ["a", "b", "c"], "<digit>": ["0", "1", "2", "7"]}
NUMS = {"<start>": ["<list>"], "<list>": ["<num>", "<num>,<list>"], "<num>": ["<dig>", "<dig><num>"], "<dig>": ["0", "1", "2", "9"]}
TEXT = {"<start>": ["<line>"], "<line>": ["<word>", "<word> <line>"], "<word>": ["<ch>", "<ch><word>"], "<ch>": ["a", "b", '"', "\\", "\n", "\t", "ä", "'", "{", "}", "<"]}

CRLF = {"<start>": ["<rec>"], "<rec>": ["<fld>\r\n", "<fld>\r\n<rec>"], "<fld>": ["<w>", "<w> \n<fld>", "<w>\x0c<fld>"], "<w>": ["a", "b", "7"]}

BRK = {"<start>": ["<a>"], "<a>": ["{<b>}", "[<b>]", '"<b>"', "<b>-<b>", "(<b>)[<c>]", "<<b>>x", "\\<b>\\n<c>"], "<b>": ["x", "y"], "<c>": ["1", "2"]}

SUGAR = {
    "brk": [
        '<a>.<b> = "x"',
        '<a>.<c> = "1"',
        'forall <a> a in start: a.<b>[2] = "y"',
        'exists <a> a in start: (a.<b> = "y" and a.<c> = "2")',
        'forall <a> a="\\x7b{<b> b}}" in start: (= b "x")',
        'forall <a> a="\\x5b{<b> b}]" in start: (= b "x")',
        'forall <a> a="\\"{<b> b}\\"" in start: (= b "y")',
        'forall <a> a="\\\\{<b> b}\\\\n{<c> c}" in start: (not (= b c))',
        'forall <a> a="({<b> b})\\x5b{<c> c}]" in start: (not (= b c))',
    ],
    "crlf": [
        '<rec>.<fld> = "a"',
        '<rec>.<fld>.<w> = "b"',
        '<fld>.<fld>.<w> = "7"',
        'forall <rec> r: r.<fld>.<w> = "a"',
        'exists <fld> f: (f.<fld>.<w> = "b" and f.<w> = "a")',
        'forall <rec> r="{<fld> f}\r\n<rec>" in start: (not (f = "a"))',
        'forall <fld> f="{<w> x} \n{<fld> y}" in start: (not (= x y))',
        'forall <fld> f="{<w> x}\x0c<fld>" in start: (= x "7")',
    ],
    "assgn": [
        'forall <assgn> asg="{<var> lhs} := {<rhs> rhs}" in start: ((lhs = "a" implies rhs = "1") and (lhs = "a" implies not (rhs = "b")))',
        'forall <assgn> asg="{<var> lhs} := {<rhs> rhs}" in start: ((lhs = "a" and rhs = "1") or (lhs = "a" and rhs = "7") or (lhs = "a" and rhs = "b"))',
        '(<var> = "a" implies <digit> = "1") and (<var> = "a" implies not(<rhs> = "b"))',
        '(<var> = "a" and <digit> = "1") or (<var> = "a" and <digit> = "7")',
        'forall <var> v in start: ((v = "a" or v = "b") and (v = "a" or v = "c") and not (v = "a" and v = "b"))',
        'forall <var> v in start: has_text(v, "a")',
        'forall <var> v in start: (has_text(v, "\\t") or has_text(v, "\\\\") or has_text(v, "a\\nb"))',
        'exists <var> v in start: has_text(v, "\\"a\\"")',
        'exists <rhs> v in start: (has_text(v, "\\x41") and not has_text(v, "a b"))',
        '<var> = "a"',
        'str.len(<start>) > 3',
        'str.len(<start>) >= 8 and <var> = "b"',
        '<assgn>.<rhs>.<var> = "a"',
        '<assgn>..<var> = "b"',
        '<stmt>.<assgn>.<var> = "c"',
        'forall <assgn> a: a.<rhs>.<digit> = "1"',
        'forall <assgn>: <var> = "a"',
        'exists <assgn> a: (a.<var> = "a" and a..<digit> = "7")',
        'exists <digit>: str.to.int(<digit>) > 1',
        'str.to.int(<digit>) > -1',
        'str.to.int(<digit>) >= 0 implies <var> = "a"',
        '(<var> = "a") iff (<digit> = "1")',
        '(<var> = "a") xor (<var> = "b")',
        'not(<rhs> = "b")',
        'exists int n: (count(<start>, "<assgn>", n) and str.to.int(n) > 2)',
        'forall int n: (not count(<start>, "<assgn>", n) or str.to.int(n) >= 1)',
        'forall <assgn> a1: forall <assgn> a2: (same_position(a1, a2) or not(a1 = a2))',
        'forall <assgn> a="{<var> l} := {<rhs> r}": (not(l = r))',
        'forall <assgn> a="{<var> l} := {<rhs> r}" in start: exists <assgn> b="{<var> l2} := <rhs>" in start: (before(b, a) and l2 = r)',
        'exists <stmt> s: nth("2", <assgn>, s)',
        'level("GE", "<stmt>", <var>, <digit>)',
        '<assgn>.<rhs>[1] = "a"',
        'str.prefixof("a", <start>) or str.contains(<start>, "7")',
        'str.in_re(<var>, re.+(re.range("a", "b")))',
        '(= (str.len <start>) 6)',
        '(str.in_re <var> (re.union (str.to_re "a") (str.to_re "b")))',
        '<var> = "a" and <var> = "a"',
        'str.len(<start>) > 2 and str.len(<start>) < 30 and not(<var> = "c")',
    ],
    "ops": [
        'forall <digit> d in start: (= (ite (> (str.to.int d) 1) 1 0) 1)',
        'forall <var> v in start: (= (ite (= v "a") "x" v) "x")',
        'forall <var> v in start: (str.in_re v ((_ re.loop 1 3) (re.range "a" "c")))',
        'forall <var> v in start: (str.in_re v ((_ re.^ 2) (str.to_re "a")))',
        'forall <var> v in start: (str.in_re v (re.opt (str.to_re "a")))',
        'forall <var> v in start: (str.in_re v (re.comp (str.to_re "a")))',
        'forall <var> v in start: (str.in_re v (re.diff re.all (str.to_re "a")))',
        'forall <var> v in start: (str.in_re v (re.inter (re.* re.allchar) (str.to_re "a")))',
        'forall <var> v in start: (str.in_re v re.none)',
        'forall <var> v in start: (str.<= v "b")',
        'forall <var> v in start: (= (str.replace v "a" "b") "b")',
        'forall <var> v in start: (= (str.replace_all v "a" "b") "b")',
        'forall <var> v in start: (= (str.replace_re v (re.+ (str.to_re "a")) "b") "b")',
        'forall <var> v in start: (= (str.replace_re_all v (re.+ (str.to_re "a")) "b") "b")',
        'forall <var> v in start: (str.is_digit v)',
        'forall <var> v in start: (= (str.to_code v) 97)',
        'forall <var> v in start: (= (str.from_code 97) v)',
        'forall <var> v in start: (= (str.at v 0) "a")',
        'forall <var> v in start: (= (str.substr v 0 1) "a")',
        'forall <var> v in start: (= (str.indexof v "a" 0) 0)',
        'forall <var> v in start: (str.suffixof "a" v)',
        'forall <var> v in start: (= (str.++ v "x" v) "axa")',
        'forall <digit> d in start: (= (abs (str.to.int d)) 1)',
        'forall <digit> d in start: (= (str.from_int (str.to.int d)) d)',
        'forall <digit> d in start: (distinct (str.to.int d) 1)',
        'forall <digit> d in start: (=> (> (str.to.int d) 1) (< (str.to.int d) 5))',
        'forall <digit> d in start: (xor (> (str.to.int d) 1) (< (str.to.int d) 5))',
        'forall <digit> d in start: (= (div (str.to.int d) 2) 1)',
        'forall <digit> d in start: (= (mod (str.to.int d) 2) 1)',
        'forall <digit> d in start: (= (* (str.to.int d) 2 3) 6)',
        'forall <digit> d in start: (= (- (str.to.int d)) (- 1))',
        'forall <digit> d in start: (= (- (str.to.int d) 1 2) 0)',
        'forall <digit> d in start: (or (>= (str.to.int d) 1) (<= (str.to.int d) 5))',
    ],
    "nums": [
        'str.to.int(<num>) > 10',
        'str.to.int(<num>) > -5 and str.to.int(<num>) < 100',
        '<list>.<num> = "12"',
        '<list>..<dig> = "1"',
        'exists <num> n: str.to.int(n) = 29',
        'forall <num> a: forall <num> b: (before(a, b) implies str.to.int(a) <= str.to.int(b))',
        'exists int k: (count(<start>, "<num>", k) and str.to.int(k) = 2)',
        'str.to.int(<num>) + 1 > 2 * 3',
        'str.to.int(<num>) mod 2 = 0',
        'str.to.int(<num>) div 2 >= 1',
        '(>= (str.to.int <num>) (- 3))',
        'str.len(<num>) = 2 iff str.to.int(<num>) >= 10',
    ],
    "text": [
        '<word> = "a\\"b"',
        '<word> = "\\\\"',
        '<word> = "a\\\\b"',
        '<word> = "a\\nb"',
        '<word> = "\\t"',
        '<word> = "ä"',
        "<word> = \"'\"",
        '<word> = "{x}"',
        '<word> = "a<b"',
        'str.contains(<start>, "\\"")',
        'forall <line> l="{<word> w} <line>": (w = "a\\"")',
        'forall <line> l="{<word> w} {<line> r}" in start: (not (w = "\\\\"))',
        'str.in_re(<word>, re.+(re.union(str.to_re("\\""), str.to_re("a"))))',
    ],
}


def sem_pred_nf(f):
    from isla import language as L

    return [Atom("atom"), ren._tag("sempred:" + f.predicate.name + ":" + ",".join("v" if isinstance(a, L.Variable) else repr(a) for a in f.args)), [a.name for a in f.args if isinstance(a, L.Variable)]]


def to_nf(f):
    from isla import language as L

    if isinstance(f, L.SemanticPredicateFormula):
        return sem_pred_nf(f)
    if isinstance(f, L.NegatedFormula):
        return [Atom("neg"), to_nf(f.args[0])]
    if isinstance(f, L.ConjunctiveFormula):
        return [Atom("conj")] + [to_nf(a) for a in f.args]
    if isinstance(f, L.DisjunctiveFormula):
        return [Atom("disj")] + [to_nf(a) for a in f.args]
    if isinstance(f, (L.ForallFormula, L.ExistsFormula)):
        binders = [f.bound_variable.name]
        if f.bind_expression is not None:
            binders += [e.name for e in f.bind_expression.bound_elements if isinstance(e, L.BoundVariable) and not isinstance(e, L.DummyVariable)]
            # the match expression's text (with variable names abstracted) is part of the quantifier
            body = to_nf(f.inner_formula)
            shape = "".join("{" + e.n_type + "}" if isinstance(e, L.BoundVariable) and not isinstance(e, L.DummyVariable) else str(e) for e in f.bind_expression.bound_elements)
            body = [Atom("conj"), [Atom("atom"), ren._tag("mexpr:" + f.bound_variable.n_type + ":" + shape), []], body]
        else:
            body = to_nf(f.inner_formula)
        head = [Atom("atom"), ren._tag("qtype:" + f.bound_variable.n_type), []]
        return [Atom("all" if isinstance(f, L.ForallFormula) else "ex"), binders, f.in_variable.name, [Atom("conj"), head, body]]
    if isinstance(f, (L.ForallIntFormula, L.ExistsIntFormula)):
        return [Atom("allint" if isinstance(f, L.ForallIntFormula) else "exint"), f.bound_variable.name, to_nf(f.inner_formula)]
    return ren.to_nf(f)


def erase_smt(nf):
    """the same structure with every SMT atom reduced to the SET of variables it mentions (its text is dropped)"""
    if not isinstance(nf, list):
        return nf
    if nf and nf[0] == "atom":
        tag = nf[1]
        key = next((k for k, v in ren._TAGS.items() if v == tag), "")
        if key.startswith("smt:"):
            return [Atom("atom"), 0, sorted(set(nf[2]))]
        return nf
    return [erase_smt(x) if isinstance(x, list) else x for x in nf]


_HAS_TEXT = []


def has_text_predicate():
    """a user-defined structural predicate with a free-text string argument (the standard ones only take nonterminals,
    numerals and comparison keywords): has_text(node, "text")"""
    if not _HAS_TEXT:
        from isla.language import StructuralPredicate

        _HAS_TEXT.append(StructuralPredicate("has_text", 2, lambda tree, path, s: str(tree.get_subtree(path)) == s))
    return _HAS_TEXT[0]


def gen_tree_for(rng, g):
    c = G.canon(g)
    return [T.gen_tree(rng, c, "<start>", rng.randint(2, 6), T.IdGen()) for _ in range(3)]


def check_text(ctx: Ctx, g, gname: str, text: str, trees, origin: str):
    from isla.language import parse_isla, unparse_isla
    from isla.isla_predicates import STANDARD_STRUCTURAL_PREDICATES, STANDARD_SEMANTIC_PREDICATES

    P = lambda t: parse_isla(t, g, STANDARD_STRUCTURAL_PREDICATES | {has_text_predicate()}, STANDARD_SEMANTIC_PREDICATES)
    try:
        f1 = P(text)
    except Exception as e:  # noqa
        ctx.count("generator", f"not-accepted:{type(e).__name__}")
        return
    ctx.evaluations += 1
    ctx.nontriv((gname, text))
    ctx.count("origin", origin)
    replay = {"grammar": g, "constraint": text, "origin": origin}
    sig = origin
    try:
        u1 = unparse_isla(f1)
    except Exception as e:  # noqa
        ctx.violation(f"unparse-raises:{type(e).__name__}:{sig}", f"unparse_isla raised {type(e).__name__}: {str(e)[:100]} for {text!r}", replay)
        return
    replay["unparsed"] = u1
    try:
        f2 = P(u1)
    except Exception as e:  # noqa
        ctx.violation(f"reparse-raises:{type(e).__name__}:{sig}", f"the unparsed constraint is not accepted again ({type(e).__name__}: {str(e)[:100]}): {u1!r}", replay)
        return
    try:
        u2 = unparse_isla(f2)
    except Exception as e:  # noqa
        ctx.violation(f"unparse-raises:{type(e).__name__}:{sig}", f"unparse_isla of the re-parsed constraint raised {type(e).__name__}", replay)
        return
    try:
        eq = f1 == f2
    except Exception as e:  # noqa
        eq = ("raises", type(e).__name__)
    only_smt_text = False
    try:
        n1, n2 = ren.flatten(to_nf(f1)), ren.flatten(to_nf(f2))
        a = drive([[Atom("alpha"), Atom("check"), n1, n2]])[0]
        alpha = a[0] if isinstance(a, list) else None
        if alpha is False:
            b = drive([[Atom("alpha"), Atom("check"), erase_smt(n1), erase_smt(n2)]])[0]
            only_smt_text = isinstance(b, list) and b[0] is True
    except Exception as e:  # noqa
        alpha = None
        ctx.count("checker", "conversion-failed:" + type(e).__name__)
    ctx.count("equal", f"isla=={eq}/alpha={alpha}")
    cls = ":smt-atom-renormalised" if only_smt_text else ""
    if only_smt_text:
        sig = "any"  # the cause is in Z3's printing of the atom, independent of where the constraint came from
    if u2 != u1 and alpha is True and not cls:
        # the two formula objects have the same nameless form (verified checker): the texts differ in the NAMES of bound
        # variables only
        sig, cls = "any", ":bound-variable-names-only"
    if u2 != u1:
        ctx.violation(f"second-unparse-differs:{sig}{cls}", f"unparse(parse(unparse(f))) differs from unparse(f): {u1!r} vs {u2!r}", dict(replay, second=u2))
    if alpha is False:
        ctx.violation(f"reparsed-constraint-differs:{sig}{cls}", f"parse(unparse(f)) is a different constraint: {text!r} -> {u1!r}", dict(replay, isla_eq=str(eq)))
    elif eq is not True and alpha is not True:
        ctx.violation(f"reparsed-constraint-not-equal:{sig}", f"parse(unparse(f)) != f for {text!r} (unparsed: {u1!r})", dict(replay, isla_eq=str(eq)))
    # same verdicts on sampled trees, by the verified reference
    try:
        s1, s2 = semconv.formula_to_sexp(f1, g), semconv.formula_to_sexp(f2, g)
    except semconv.Unsupported:
        ctx.count("reference", "unsupported")
        return
    except Exception as e:  # noqa
        ctx.count("reference", "conversion-failed:" + type(e).__name__)
        return
    bound = max(T.size(t) for t in trees) + 16
    r = drive([semconv.eval_requests(g, trees, s1, int_bound=bound), semconv.eval_requests(g, trees, s2, int_bound=bound)])
    v1, v2 = [semconv.tv(x) for x in r[0]], [semconv.tv(x) for x in r[1]]
    for t, a1, a2 in zip(trees, v1, v2):
        if a1 is not None and a2 is not None and a1 != a2:
            ctx.violation(f"verdict-changes:{sig}", f"{text!r} evaluates to {a1}, its round trip {u1!r} to {a2} on {T.tree_str(t)!r}", dict(replay, tree=t))
            break
    ctx.sample({"constraint": text, "unparsed": u1[:200]}, limit=8)


def run(ctx: Ctx):
    import logging

    ok = ctx.proof_side()
    if not os.path.exists(os.path.join(ROOT, "lean", ".lake", "build", "bin", "isladrv")):
        return "infra"
    logging.disable(logging.CRITICAL)
    rng = ctx.rng
    fixed = {"assgn": ASSGN, "nums": NUMS, "text": TEXT, "crlf": CRLF, "ops": ASSGN, "brk": BRK}
    for gname, texts in SUGAR.items():
        trees = gen_tree_for(rng, fixed[gname])
        for text in texts:
            check_text(ctx, fixed[gname], gname, text, trees, "sugar")
    n = 220 if ctx.tier == "quick" else 6000
    for i in range(n):
        ctx.check_time()
        r = rng.random()
        if r < 0.25:
            g, gname = ASSGN, "assgn"
        elif r < 0.4:
            g, gname = NUMS, "nums"
        else:
            g, gname = G.gen_acyclic_grammar(rng, eps_prob=0.1, terminals=("a", "b", "0", "1", "x", " ", "ab", ";")), "random"
        c = G.canon(g)
        trees = [T.gen_tree(rng, c, "<start>", rng.randint(2, 6), T.IdGen()) for _ in range(3)]
        trees = [t for t in trees if T.size(t) <= 60] or trees[:1]
        fg = FormulaGen(rng, g, trees, allow_int=(i % 3 == 0))
        text = fg.constraint(depth=rng.randint(1, 3))
        check_text(ctx, g, gname, text, trees, "core")
        if gname in SUGAR and rng.random() < 0.5:
            # conjunctions / disjunctions of sugar forms
            a, b = rng.sample(SUGAR[gname], 2)
            op = rng.choice(["and", "or", "implies"])
            check_text(ctx, g, gname, f"({a}) {op} ({b})", trees, "sugar")
            if rng.random() < 0.5:
                # the SAME operand several times inside one propositional combination
                c2 = rng.choice(SUGAR[gname])
                shape = rng.choice(["(({a}) and ({b})) or (({a}) and ({c}))", "(({a}) implies ({b})) and (({a}) implies ({c}))", "(({a}) or ({b})) and (({a}) or not ({c})) and ({a})"])
                check_text(ctx, g, gname, shape.format(a=a, b=b, c=c2), trees, "sugar-repeated")
    ctx.obligation("round trip: parse(unparse(f)) is accepted, equal to f (verified alpha-equivalence checker), unparses to the same text, same reference verdicts", not ctx.violations)
    if not ok and not ctx.violations:
        ctx.violation("proof-obligation-broken", "a proof obligation of C07 no longer checks", {"broken": [n for n, o, _ in ctx.obligations if not o]}, found_input=False)
    ctx.write_evidence(
        RULE,
        [
            "PARTIAL: the ANTLR parser, the emitter and ISLaUnparser are not modelled; the theorem is about the equality checker applied to the two parsed formulas (same nameless form => same meaning under every interpretation); atoms are compared by their normalised text, quantifier types and match-expression shapes as opaque tags",
            "'evaluate identically on every tree' is additionally sampled with the verified reference evaluator on 3 random derivations per constraint",
        ],
    )


def replay(ctx: Ctx, obj):
    import logging

    logging.disable(logging.CRITICAL)
    g = obj["grammar"]
    check_text(ctx, g, "replay", obj["constraint"], gen_tree_for(ctx.rng, g), obj.get("origin", "replay"))
