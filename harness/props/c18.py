"""C18 — ISLaSolver.check on a string is true exactly when the string parses and the parsed tree
satisfies the constraint; parse raises SyntaxError / SemanticError accordingly; for unambiguous
inputs check(tree) == check(string); repair returns a valid input unchanged and otherwise only
valid inputs; every tree returned by mutate satisfies the constraint.

Proof side: lean/IslaVerif/Properties/C18.lean — the expected answers are compositions of the
verified recognizer (C10), tree checker and reference evaluator (C03): parse_ok / parse_syntaxError /
parse_semanticError tie each expected outcome to InLang and Sat; checkStr_true_iff / _false_iff;
results of repair / mutate go through the certifier of C01 (certified_result).
Tie: the real methods are run on valid, syntactically invalid and semantically invalid inputs of
generated and documented problems and compared with the compositions.
"""
from __future__ import annotations

import json
import os
from typing import Any, Dict, List, Optional

from core import Ctx, ROOT, drive
from proto import Atom, enc
from gen import grammars as G
from gen import trees as T
import semconv
import solverun

LEVEL = "proof"

RULE = (
    "cases = (grammar, constraint, input string): constraints as in C01/C03 (documented + generated, numeric quantifiers excluded from the "
    "verdict comparison when Z3 gives no answer); inputs = strings of random derivations (valid or semantically invalid by the reference), "
    "single-character mutations of them (mostly syntactically invalid), solver solutions; on each input check(str), parse(str), "
    "parse(skip_check), check(tree) are observed; repair on up to 3 inputs and mutate on 1 input per problem (fix_timeout 1 s) are certified; "
    "evaluations = observed method calls; non-trivial = distinct (constraint, input) whose constraint has both verdicts among its inputs"
)


def work(pb: Dict[str, Any]) -> Dict[str, Any]:
    """worker (forked): run the real methods, return plain observations"""
    import logging
    import random
    import warnings

    warnings.filterwarnings("ignore")
    logging.disable(logging.CRITICAL)
    from isla.solver import ISLaSolver, SemanticError, UnknownResultError
    from isla.parser import EarleyParser
    from returns.pipeline import is_successful
    import semconv

    random.seed(pb.get("rseed", 0))
    out: Dict[str, Any] = {"inputs": [], "repairs": [], "mutations": []}
    try:
        kw = {"start_symbol": pb["start_symbol"]} if pb.get("start_symbol") else {}
        solver = ISLaSolver(pb["grammar"], pb["constraint"], **kw)
    except BaseException as e:  # noqa
        out["ctor_exc"] = type(e).__name__
        return out
    out["grammar_used"] = {k: list(v) for k, v in solver.grammar.items()}
    try:
        out["formula"] = enc(semconv.formula_to_sexp(solver.formula, solver.grammar))
        out["const"] = solver.top_constant.map(lambda c: c.name).value_or("start")
    except semconv.Unsupported as e:
        out["unsupported"] = str(e)[:60]
        return out
    except BaseException as e:  # noqa
        out["unsupported"] = "conversion:" + type(e).__name__
        return out
    parser = EarleyParser(solver.grammar)
    from isla.derivation_tree import DerivationTree

    parsed_trees = []

    def outcome(fn):
        try:
            return ("value", fn())
        except SyntaxError:
            return ("SyntaxError",)
        except SemanticError:
            return ("SemanticError",)
        except UnknownResultError:
            return ("UnknownResultError",)
        except BaseException as e:  # noqa
            if isinstance(e, (KeyboardInterrupt, SystemExit)):
                raise
            return ("raises", type(e).__name__, str(e)[:100], solverun._exc_info(e)["where"])

    for s in pb["inputs"]:
        o: Dict[str, Any] = {"string": s}
        r = outcome(lambda: solver.parse(s, skip_check=True, silent=True))
        o["parse_skip"] = r[0] if r[0] != "value" else "tree"
        tree = r[1] if r[0] == "value" else None
        if tree is not None:
            o["tree"] = T.from_isla(tree)
            try:
                gen = parser.parse(s)
                n = 0
                for _ in gen:
                    n += 1
                    if n >= 2:
                        break
                o["n_parses"] = n
            except BaseException:  # noqa
                o["n_parses"] = -1
            r = outcome(lambda: solver.check(tree))
            o["check_tree"] = r[1] if r[0] == "value" else r
            parsed_trees.append(tree)
        r = outcome(lambda: solver.check(s))
        o["check_str"] = r[1] if r[0] == "value" else r
        r = outcome(lambda: solver.parse(s, silent=True))
        if r[0] == "value":
            o["parse"] = "tree"
            o["parse_tree"] = T.from_isla(r[1])
        else:
            o["parse"] = r[0] if r[0] != "raises" else r
        out["inputs"].append(o)
    # a DIFFERENT tree that carries the identity of a tree checked before (as produced by replace_path / substitute /
    # the mutator, which all keep the root's id): the verdict must be that of the new tree
    out["variants"] = []
    for i in range(len(parsed_trees)):
        a, b = parsed_trees[i], parsed_trees[(i + 1) % len(parsed_trees)]
        if a is b or str(a) == str(b):
            continue
        variant = DerivationTree(b.value, b.children, id=a.id)
        r = outcome(lambda: solver.check(variant))
        out["variants"].append({"tree": T.from_isla(variant), "string": str(variant), "same_id_as": str(a), "check": r[1] if r[0] == "value" else r})
        if len(out["variants"]) >= 4:
            break
    for s in pb.get("repair_inputs", []):
        r = outcome(lambda: solver.repair(s, fix_timeout_seconds=1))
        rec: Dict[str, Any] = {"string": s}
        if r[0] == "value":
            m = r[1]
            if is_successful(m):
                t = m.unwrap()
                rec["result"] = T.from_isla(t)
                rec["result_str"] = str(t)
            else:
                rec["result"] = None
        else:
            rec["error"] = r
        out["repairs"].append(rec)
    for s in pb.get("mutate_inputs", []):
        r = outcome(lambda: solver.mutate(s, min_mutations=1, max_mutations=2, fix_timeout_seconds=1))
        rec = {"string": s}
        if r[0] == "value":
            rec["result"] = T.from_isla(r[1])
            rec["result_str"] = str(r[1])
        else:
            rec["error"] = r
        out["mutations"].append(rec)
    return out


def _child(pb, conn):
    try:
        dn = os.open(os.devnull, os.O_WRONLY)
        os.dup2(dn, 2)
        os.dup2(dn, 1)
    except OSError:
        pass
    try:
        r = work(pb)
    except BaseException as e:  # noqa
        r = {"harness_error": f"{type(e).__name__}: {e}"}
    try:
        conn.send(r)
    except BaseException as e:  # noqa
        conn.send({"harness_error": f"send: {type(e).__name__}"})
    conn.close()


def run_all(problems, wall_limit, deadline):
    import multiprocessing as mp
    import time

    ctx = mp.get_context("fork")
    procs = max(2, min(12, (os.cpu_count() or 4) - 2))
    pending = list(enumerate(problems))
    pending.reverse()
    running = []
    while pending or running:
        while pending and len(running) < procs:
            if time.time() > deadline:
                pending.clear()
                break
            i, pb = pending.pop()
            parent, child = ctx.Pipe(duplex=False)
            p = ctx.Process(target=_child, args=(pb, child), daemon=True)
            p.start()
            child.close()
            running.append((i, p, parent, time.time()))
        still = []
        progressed = False
        for i, p, conn, t0 in running:
            if conn.poll(0):
                try:
                    r = conn.recv()
                except EOFError:
                    r = {"harness_error": "worker died"}
                p.join(5)
                conn.close()
                progressed = True
                yield problems[i], r
            elif not p.is_alive():
                p.join(1)
                conn.close()
                progressed = True
                yield problems[i], {"harness_error": f"worker exited with {p.exitcode}"}
            elif time.time() - t0 > wall_limit:
                p.kill()
                p.join(5)
                conn.close()
                progressed = True
                yield problems[i], {"killed": True}
            else:
                still.append((i, p, conn, t0))
        running = still
        if not progressed:
            time.sleep(0.02)


def gen_inputs(rng, g, n: int) -> List[str]:
    c = G.canon(g)
    out = []
    sigma = sorted({ch for alts in c.values() for alt in alts for sym in alt if sym not in c for ch in sym}) or ["a"]
    for _ in range(n):
        s = T.tree_str(T.gen_tree(rng, c, "<start>", rng.randint(2, 6), T.IdGen()))
        if len(s) > 40:
            continue
        out.append(s)
        if rng.random() < 0.25:
            out.append(s + "\n")
        if rng.random() < 0.5 and s:
            i = rng.randrange(len(s))
            k = rng.random()
            out.append(s[:i] + s[i + 1 :] if k < 0.4 else (s[:i] + rng.choice(sigma) + s[i:] if k < 0.8 else s[:i] + rng.choice(sigma) + s[i + 1 :]))
    return list(dict.fromkeys(out))


def evaluate_problem(ctx: Ctx, pb, res):
    text = pb["constraint"]
    if res.get("killed"):
        ctx.count("problem", "wall-guard (no verdict)")
        return
    if res.get("harness_error"):
        ctx.count("problem", "worker-error:" + res["harness_error"][:40])
        return
    if res.get("ctor_exc"):
        ctx.count("problem", "constructor-raises:" + res["ctor_exc"])
        return
    if res.get("unsupported"):
        ctx.count("problem", "formula-outside-reference")
        return
    ctx.count("problem", "ran")
    g = res.get("grammar_used") or pb["grammar"]
    gs = enc(G.grammar_sexp(g))
    fs, const = res["formula"], res.get("const", "start")
    z3_bound = " int " in text
    reqs = []
    for o in res["inputs"]:
        t = o.get("tree")
        bound = (T.size(t) if t else 0) + 16
        reqs.append(f"(sem parseoutcome {gs} {fs} {enc(const)} {enc(o['string'])} {enc(T.to_sexp(t)) if t else 'none'} {bound})")
    answers = drive(reqs) if reqs else []
    verdicts = set()
    for o, exp in zip(res["inputs"], answers):
        exp = str(exp)
        s = o["string"]
        ctx.evaluations += 3
        ctx.count("expected", exp)
        replay = {"grammar": g, "constraint": text, "string": s, "expected": exp, "observed": {k: (v if not isinstance(v, (list, tuple)) or k != "tree" else None) for k, v in o.items() if k not in ("tree", "parse_tree")}}
        if exp in ("undecided", "unfaithful-tree"):
            if exp == "unfaithful-tree":
                ctx.violation("parse-skip:unfaithful-tree", f"parse({s!r}, skip_check=True) returned a tree that is not a parse of the string", dict(replay, tree=o.get("tree")))
            continue
        verdicts.add(exp)
        want_check = exp == "ok"
        want_parse = {"ok": "tree", "syntax-error": "SyntaxError", "semantic-error": "SemanticError"}[exp]
        unknown_ok = z3_bound  # a Z3 'unknown' on a quantified query is no verdict (see C03)
        cs = o["check_str"]
        if isinstance(cs, (list, tuple)):
            if not (unknown_ok and cs[0] == "UnknownResultError"):
                ctx.violation(f"check-str:raises:{cs[0] if cs[0] != 'raises' else cs[1]}", f"check({s!r}) raised {cs} for {text!r}", replay)
        elif cs != want_check:
            ctx.violation(f"check-str:verdict:{exp}", f"check({s!r}) = {cs}, expected {want_check} ({exp}) for {text!r}", replay)
        ps = o["parse"]
        if isinstance(ps, (list, tuple)):
            ctx.violation(f"parse:raises:{ps[1]}", f"parse({s!r}) raised {ps[1]} ({ps[2]}) for {text!r}", replay)
        elif ps == "UnknownResultError":
            if not unknown_ok:
                ctx.violation("parse:raises:UnknownResultError", f"parse({s!r}) raised UnknownResultError for {text!r}", replay)
        elif ps != want_parse:
            ctx.violation(f"parse:outcome:{exp}->{ps}", f"parse({s!r}) gave {ps}, expected {want_parse} for {text!r}", replay)
        if exp != "syntax-error":
            if o.get("parse_skip") != "tree":
                ctx.violation("parse-skip:rejects-member", f"parse({s!r}, skip_check=True) gave {o.get('parse_skip')} for a member of the language", replay)
            ct = o.get("check_tree")
            if isinstance(ct, (list, tuple)):
                if not (unknown_ok and ct[0] == "UnknownResultError"):
                    ctx.violation(f"check-tree:raises:{ct[0] if ct[0] != 'raises' else ct[1]}", f"check(tree of {s!r}) raised {ct}", replay)
            elif ct is not None and o.get("n_parses") == 1 and not isinstance(cs, (list, tuple)) and ct != cs:
                ctx.violation("check-tree-vs-string", f"check(tree) = {ct} but check(str(tree)) = {cs} for the unambiguous input {s!r}, {text!r}", replay)
        elif o.get("parse_skip") == "tree":
            ctx.violation("parse-skip:accepts-non-member", f"parse({s!r}, skip_check=True) returned a tree for a string outside the language", replay)
    if len(verdicts) > 1:
        for o in res["inputs"]:
            ctx.nontriv((text, o["string"]))
    # variants sharing the identity of a previously checked tree
    vreqs = [f"(sem certify {gs} {enc(T.to_sexp(v['tree']))} {fs} {enc('<start>')} {enc(const)} {T.size(v['tree']) + 16})" for v in res.get("variants", [])]
    for v, a in zip(res.get("variants", []), drive(vreqs) if vreqs else []):
        ctx.evaluations += 1
        if not isinstance(a, list) or len(a) != 4 or a[0] is not True or a[1] is not True:
            continue
        verdict = semconv.tv(a[3])
        c = v["check"]
        replay = {"grammar": g, "constraint": text, "string": v["string"], "checked_before_with_same_root_id": v["same_id_as"], "reference": str(verdict)}
        if isinstance(c, (list, tuple)):
            if not (z3_bound and c[0] == "UnknownResultError"):
                ctx.count("variant", "check-raises")
            continue
        ctx.count("variant", "compared")
        if verdict is not None and c != verdict:
            ctx.violation(
                "check-tree:verdict-after-earlier-check",
                f"check(tree) = {c} for {v['string']!r} (the specification says {verdict}) after a different tree with the same root identity ({v['same_id_as']!r}) had been checked: {text!r}",
                replay,
            )
    # repair / mutate
    creqs, cmeta = [], []
    expected_of = {o["string"]: str(a) for o, a in zip(res["inputs"], answers)}
    for kind, recs in (("repair", res["repairs"]), ("mutate", res["mutations"])):
        for rec in recs:
            ctx.evaluations += 1
            s = rec["string"]
            replay = {"grammar": g, "constraint": text, "string": s, "method": kind}
            if "error" in rec:
                e = rec["error"]
                if e[0] == "SyntaxError" and expected_of.get(s) == "syntax-error":
                    ctx.count(kind, "input-outside-grammar")
                    continue
                if e[0] == "UnknownResultError" and z3_bound:
                    continue
                if e[0] == "raises" and len(e) > 3 and ("C02", f"solve-raises:{e[1]}:{e[3]}") in ctx.known:
                    # repair / mutate run a sub-solver: a crash site of solve() that is already a listed finding of C02
                    ctx.violation("repair-or-mutate:crash-site-listed-under-C02", f"{kind}({s!r}) raised {e[1]} at {e[3]} for {text!r}", replay)
                    continue
                feat = ":int-quantifier" if z3_bound else ""
                site = f":{e[3]}" if e[0] == "raises" and len(e) > 3 else ""
                ctx.violation(f"{kind}:raises:{e[0] if e[0] != 'raises' else e[1]}{site}{feat}", f"{kind}({s!r}) raised {e} for {text!r}", replay)
                continue
            if rec["result"] is None:
                ctx.count(kind, "nothing")
                if kind == "repair" and expected_of.get(s) == "ok":
                    ctx.violation("repair:valid-input-not-returned", f"repair({s!r}) returned Nothing although the input is valid for {text!r}", replay)
                continue
            ctx.count(kind, "result")
            if kind == "repair" and expected_of.get(s) == "ok" and rec["result_str"] != s:
                ctx.violation("repair:valid-input-changed", f"repair({s!r}) returned {rec['result_str']!r} although the input is already valid for {text!r}", dict(replay, result=rec["result_str"]))
            t = rec["result"]
            creqs.append(f"(sem certify {gs} {enc(T.to_sexp(t))} {fs} {enc('<start>')} {enc(const)} {T.size(t) + 16})")
            cmeta.append((kind, rec, replay))
    for (kind, rec, replay), a in zip(cmeta, drive(creqs) if creqs else []):
        if not isinstance(a, list) or len(a) != 4:
            continue
        valid, closed, root_ok, verdict = a
        if valid is not True or closed is not True or root_ok is not True:
            ctx.violation(f"{kind}:result-not-a-closed-derivation-tree", f"{kind}({rec['string']!r}) returned {rec['result_str']!r}, not a closed derivation tree of the grammar", dict(replay, result=rec["result"]))
        elif verdict is False:
            ctx.violation(f"{kind}:result-violates-constraint", f"{kind}({rec['string']!r}) returned {rec['result_str']!r}, which violates {text!r}", dict(replay, result=rec["result"]))
        else:
            ctx.count(kind, "certified" if verdict is True else "reference-undecided")
    ctx.sample({"constraint": text, "inputs": [(o["string"], str(a)) for o, a in zip(res["inputs"][:4], answers[:4])]}, limit=8)


def make_problems(ctx: Ctx, n: int):
    rng = ctx.rng
    pbs = []
    for i in range(n):
        # every fifth problem is configured with a start symbol other than <start>
        pb = solverun.gen_problem(rng, i, grid=False, allow_start_symbol=True, force_start_symbol=(i % 5 == 4))
        if i % 25 == 7:
            # constraints that do not depend on the input at all
            pb = dict(pb, constraint=rng.choice(["false", "true", "(= 1 2)", "(>= 3 2)", '(= "a" "b")']), origin="closed-constraint")
        g_in = dict(pb["grammar"])
        if pb.get("start_symbol"):
            g_in["<start>"] = [pb["start_symbol"]]
        ins = gen_inputs(rng, g_in, 6)
        if not ins:
            continue
        pb["inputs"] = ins[:10]
        pb["rseed"] = rng.randint(0, 10**6)
        pb["repair_inputs"] = rng.sample(pb["inputs"], min(len(pb["inputs"]), 3)) if i % 2 == 0 else []
        pb["mutate_inputs"] = rng.sample(pb["inputs"], 1) if i % 4 == 0 else []
        pbs.append(pb)
    return pbs


def run(ctx: Ctx):
    ok = ctx.proof_side()
    if not os.path.exists(os.path.join(ROOT, "lean", ".lake", "build", "bin", "isladrv")):
        return "infra"
    quick = ctx.tier == "quick"
    problems = make_problems(ctx, 110 if quick else 1200)
    for pb, res in run_all(problems, wall_limit=60.0, deadline=ctx.t0 + (170 if quick else 2400)):
        ctx.count("origin", pb["origin"])
        ctx.count("configuration", "start_symbol other than <start>" if pb.get("start_symbol") else "default start symbol")
        evaluate_problem(ctx, pb, res)
    ctx.obligation("correspondence: check / parse == composition of the verified recognizer, tree checker and reference evaluator; repair / mutate results certified", not ctx.violations)
    if not ok and not ctx.violations:
        ctx.violation("proof-obligation-broken", "a proof obligation of C18 no longer checks", {"broken": [n for n, o, _ in ctx.obligations if not o]}, found_input=False)
    ctx.write_evidence(
        RULE,
        [
            "the parser and the evaluator are not modelled here (C10, C03): the tree the real parser returns for a string is an input of the model and is checked to be a parse of it",
            "repair / mutate internals (abstraction + sub-solver) are not modelled: their results are certified (closed derivation tree, satisfies the constraint)",
            "inputs on which the reference is undecided (numeric quantifiers beyond the bounded search) or Z3 answers unknown give no verdict; problems stopped by the 60 s wall guard give no verdict",
        ],
    )


def replay(ctx: Ctx, obj):
    pb = {"grammar": obj["grammar"], "constraint": obj["constraint"], "inputs": [obj["string"]], "origin": "replay", "rseed": 0}
    if obj.get("method") == "repair":
        pb["repair_inputs"] = [obj["string"]]
    if obj.get("method") == "mutate":
        pb["mutate_inputs"] = [obj["string"]]
    import time

    for p, res in run_all([pb], wall_limit=120.0, deadline=time.time() + 600):
        evaluate_problem(ctx, p, res)
