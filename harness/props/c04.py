"""C04 — structural predicates have their documented meaning for every pair of nodes.

Proof side: lean/IslaVerif/Properties/C04.lean (each model predicate <-> declarative spec).
Tie: every ordered pair of nodes of generated trees goes through the real
`isla.isla_predicates` functions (via StructuralPredicate.evaluate, and a sample through
StructuralPredicateFormula.evaluate / evaluate()) and through the Lean model; a disagreement
is, by the theorems, a disagreement between the code and the specification, i.e. a failing input.
"""
from __future__ import annotations

import json
import os
from typing import Any, Dict, List, Tuple

from core import Ctx, ROOT, drive
from proto import Atom
from gen import grammars as G
from gen import trees as T

LEVEL = "proof"
NS = [0, 1, 2, 3, 5]
OPS = ["EQ", "GE", "LE", "GT", "LT"]
BASIC = ["before", "after", "same_position", "different_position", "inside", "direct_child", "consecutive"]

RULE = (
    "cases = all ordered pairs of pre-order node paths of generated derivation trees (random well-formed "
    "grammars incl. epsilon rules, recursion, wide nodes) x {before, after, same_position, different_position, "
    "inside, direct_child, consecutive, nth for n in 0,1,2,3,5, level for 5 operators x every nonterminal}; "
    "a case is non-trivial when it is a distinct (predicate, tree shape, pair) whose two paths differ; "
    "distinctness by hash of (tree structure, p, q)"
)


def relation(p, q) -> str:
    p, q = tuple(p), tuple(q)
    if p == q:
        return "identical"
    if q == p[: len(q)]:
        return "p-below-q"
    if p == q[: len(p)]:
        return "p-above-q"
    return "p-before-q" if p < q else "q-before-p"


def py_rows(tree_pt, nts: List[str]) -> Tuple[List[tuple], List[List[Any]]]:
    from isla import isla_predicates as ip

    preds = {p.name: p for p in ip.STANDARD_STRUCTURAL_PREDICATES}
    dt = T.to_isla(tree_pt)
    ps = [p for p, _ in T.paths(tree_pt)]
    labels = {p: n[1] for p, n in T.paths(tree_pt)}
    rows = []
    pairs = []

    def call(name, *args):
        try:
            r = preds[name].evaluate(dt, *args)
            return bool(r) if isinstance(r, (bool, int)) else Atom("non-bool")
        except AssertionError:
            return Atom("AssertionError")
        except Exception as e:  # noqa
            return Atom("raises-" + type(e).__name__)

    for p in ps:
        for q in ps:
            row = [call(n, p, q) for n in BASIC]
            for n in NS:
                row.append(call("nth", str(n), p, q))
            for op in OPS:
                for nt in nts:
                    row.append(call("level", op, nt, p, q))
            rows.append(row)
            pairs.append((p, q))
    return pairs, rows


def col_names(nts):
    return BASIC + [f"nth:{n}" for n in NS] + [f"level:{op}:{nt}" for op in OPS for nt in nts]


def mask(tree_pt, pairs, rows, nts):
    """nth is only meaningful when node 1 carries a nonterminal; drop the other cells"""
    labels = {p: n[1] for p, n in T.paths(tree_pt)}
    names = col_names(nts)
    for (p, q), row in zip(pairs, rows):
        if not G.is_nt(labels[p]):
            for i, n in enumerate(names):
                if n.startswith("nth:"):
                    row[i] = Atom("n/a")
    return rows


def gen_cases(ctx: Ctx, n_trees: int, max_nodes: int):
    rng = ctx.rng
    out = []
    tries = 0
    while len(out) < n_trees and tries < n_trees * 20:
        tries += 1
        kind = rng.random()
        if kind < 0.1:
            # wide node: one rule with many symbols
            g = {"<start>": ["<a>"], "<a>": ["<b>" * rng.randint(8, 14)], "<b>": ["x", "<c>y"], "<c>": ["", "<b>"]}
        else:
            g = G.gen_grammar(rng, eps_prob=0.2)
        c = G.canon(g)
        t = T.gen_tree(rng, c, "<start>", rng.randint(2, 7), T.IdGen(), eps_child=rng.random() < 0.2)
        if rng.random() < 0.15:
            t = T.cut_open(rng, t, 0.2)
        if T.size(t) > max_nodes or T.size(t) < 3:
            continue
        out.append((g, t))
    return out


def corpus_cases():
    d = os.path.join(ROOT, "corpus", "C04")
    res = []
    if os.path.isdir(d):
        for f in sorted(os.listdir(d)):
            if f.endswith(".json"):
                obj = json.load(open(os.path.join(d, f)))
                res.append((obj["grammar"], plain(obj["tree"]), f))
    return res


def plain(t):
    return (t[0], t[1], None if t[2] is None else [plain(k) for k in t[2]])


def check_tree(ctx: Ctx, g, t, origin: str):
    nts = sorted(k for k in g.keys())
    pairs, rows = py_rows(t, nts)
    rows = mask(t, pairs, rows, nts)
    ans = drive([[Atom("c04"), Atom("tree"), T.to_sexp(t), nts, NS]])[0]
    if not isinstance(ans, list) or len(ans) != len(rows):
        ctx.violation(
            "driver-shape",
            f"model driver answered {str(ans)[:80]} for a tree request",
            {"grammar": g, "tree": t, "model_answer": str(ans)[:500], "broken": "driver protocol c04"},
            found_input=False,
        )
        return
    names = col_names(nts)
    labels = {p: n[1] for p, n in T.paths(t)}
    shape = repr(strip_ids(t))
    for (p, q), prow, mrow in zip(pairs, rows, ans):
        mrow = list(mrow)
        for i, nme in enumerate(names):
            if prow[i] == Atom("n/a"):
                mrow[i] = Atom("n/a")
        ctx.evaluations += len(names)
        rel = relation(p, q)
        ctx.count("pair_relation", rel)
        if p != q:
            ctx.nontriv((shape, p, q))
        if prow != mrow:
            for i, nme in enumerate(names):
                if prow[i] != mrow[i]:
                    pred = nme.split(":")[0]
                    key = f"{pred}:{rel}"
                    ctx.violation(
                        key,
                        f"{nme}({list(p)}, {list(q)}) is {prow[i]} in isla but {mrow[i]} by the specification "
                        f"(model proved equivalent to the spec: theorems in Properties/C04.lean) [{origin}]",
                        {
                            "grammar": g,
                            "tree": t,
                            "tree_str": T.tree_str(t),
                            "predicate": nme,
                            "path_1": list(p),
                            "path_2": list(q),
                            "isla": str(prow[i]),
                            "spec": str(mrow[i]),
                            "origin": origin,
                        },
                    )
        for i, nme in enumerate(names):
            ctx.count("verdicts", f"{nme.split(':')[0]}={prow[i]}")
    ctx.count("tree_size", min(T.size(t) // 10 * 10, 100))
    ctx.count("max_branching", min(max(len(n[2] or []) for _, n in T.paths(t)), 30))
    ctx.sample({"tree": T.tree_str(t), "nodes": T.size(t), "pairs": len(pairs), "columns": len(names)})


def strip_ids(t):
    return (t[1], None if t[2] is None else tuple(strip_ids(k) for k in t[2]))


def formula_level(ctx: Ctx, cases, n: int):
    """the same predicates reached through StructuralPredicateFormula.evaluate (node lookup by id)
    and through evaluate() on a closed one-atom constraint"""
    from isla import isla_predicates as ip
    from isla import language as L

    preds = {p.name: p for p in ip.STANDARD_STRUCTURAL_PREDICATES}
    rng = ctx.rng
    reqs, expect = [], []
    for g, t in cases:
        dt = T.to_isla(t)
        nodes = dt.paths()
        nts = sorted(g.keys())
        for _ in range(n):
            (p, a), (q, b) = rng.choice(nodes), rng.choice(nodes)
            name = rng.choice(BASIC)
            f = L.StructuralPredicateFormula(preds[name], a, b)
            try:
                r = bool(f.evaluate(dt))
            except Exception as e:  # noqa
                r = Atom("raises-" + type(e).__name__)
            reqs.append([Atom("c04"), Atom("pair"), T.to_sexp(t), nts, NS, list(p), list(q)])
            expect.append((name, p, q, r, g, t))
    answers = drive(reqs) if reqs else []
    for (name, p, q, r, g, t), row in zip(expect, answers):
        ctx.evaluations += 1
        m = row[BASIC.index(name)]
        ctx.count("formula_level", name)
        if m != r:
            ctx.violation(
                f"{name}:{relation(p, q)}",
                f"StructuralPredicateFormula({name}).evaluate gives {r}, specification {m} for paths {p}, {q}",
                {"grammar": g, "tree": t, "predicate": name, "path_1": list(p), "path_2": list(q), "isla": str(r), "spec": str(m), "via": "StructuralPredicateFormula.evaluate"},
            )


def run(ctx: Ctx):
    ok = ctx.proof_side()
    if not ok and not os.path.exists(os.path.join(ROOT, "lean", ".lake", "build", "bin", "isladrv")):
        return "infra"
    quick = ctx.tier == "quick"
    n_trees, max_nodes = (40, 45) if quick else (400, 60)
    for g, t, name in corpus_cases():
        check_tree(ctx, g, t, "corpus/" + name)
    cases = gen_cases(ctx, n_trees, max_nodes)
    for g, t in cases:
        ctx.check_time()
        check_tree(ctx, g, t, "generated")
    formula_level(ctx, cases[: (20 if quick else 200)], 10)
    ctx.obligation("correspondence: isla_predicates == model on all explored pairs", not ctx.violations)
    if not ok and not ctx.violations:
        ctx.violation(
            "proof-obligation-broken",
            "a proof obligation of C04 no longer checks: " + "; ".join(n for n, o, _ in ctx.obligations if not o),
            {"broken": [n for n, o, _ in ctx.obligations if not o]},
            found_input=False,
        )
    ctx.write_evidence(
        RULE,
        [
            "paths passed to the predicates are valid paths of the context tree (as in evaluate())",
            "nth is compared only when node 1 carries a nonterminal symbol (the code asserts this)",
        ],
    )


def replay(ctx: Ctx, obj: Dict[str, Any]):
    g, t = obj["grammar"], plain(obj["tree"])
    check_tree(ctx, g, t, "replay")
