"""C16 — derivation-tree operations keep paths, strings, openness and identity consistent.

Proof side: lean/IslaVerif/Properties/C16.lean (cache invariant over every operation sequence,
yield = leaves, paths/get/find agreement, trie view = subtree paths, trie key round trip,
replace locality, structural equality => equal structural hash).
Tie: random operation sequences (constructor, replace_path with/without retain_id, is_open() on
subtrees, substitute, expand_one_step) are applied to real DerivationTree objects and to the Lean
model; after every operation the complete tree incl. the private __is_open caches, str(), paths(),
find_node, trie().get_subtrie(p).items() for every p, structurally_equal/structural_hash classes and
trie keys are compared.  Independently of the model, every observation is checked against the
property's own statement (caches vs actual openness, str vs leaves, ...): such a failure is a failing input.
"""
from __future__ import annotations

import json
import os
from typing import Any, Dict, List, Optional, Tuple

from core import Ctx, ROOT, drive
from proto import Atom
from gen import grammars as G
from gen import trees as T
import translate

LEVEL = "proof"
REPLAY_BY_SEED = True  # a replay file names (seed, tier); ./check --replay re-runs exactly that run

RULE = (
    "cases = random operation sequences (<= 12 ops quick / <= 30 thorough: replace_path(retain_id in {F,T}) with generated open/closed "
    "replacement trees, is_open() on a random subtree, substitute with 1-3 (possibly nested) replacements, expand_one_step) on generated "
    "open/closed derivation trees incl. nodes with 30-300 children; after every op all observations are compared; non-trivial = distinct "
    "(tree shape, op sequence) with at least one structure-changing op; plus trie-key round trips for boundary indices"
)


def plain_with_cache(dt) -> list:
    """real tree -> nested list incl. the private cache"""
    c = dt._DerivationTree__is_open
    if dt.children is None:
        return [Atom("o"), dt.id, dt.value]
    return [Atom("n"), dt.id, dt.value, c] + [plain_with_cache(k) for k in dt.children]


def actually_open(dt) -> bool:
    if dt.children is None:
        return True
    return any(actually_open(k) for k in dt.children)


def leaves_str(dt) -> str:
    if dt.children is None:
        return dt.value
    if not dt.children:
        return "" if G.is_nt(dt.value) else dt.value
    return "".join(leaves_str(k) for k in dt.children)


def clear_caches():
    """the lru_caches of DerivationTree are keyed by tree equality (ids + structure): a call on a fresh
    tree may return objects of an equal older tree.  That is invisible except for which physical object
    gets its private __is_open cache filled; clearing the caches keeps the observation deterministic."""
    from isla.derivation_tree import DerivationTree

    for name in ("get_subtree", "paths", "trie", "depth", "to_string"):
        f = getattr(DerivationTree, name, None)
        if f is not None and hasattr(f, "cache_clear"):
            f.cache_clear()


def observe_py(dt) -> list:
    from isla.trie import path_to_trie_key

    clear_caches()

    ps = dt.paths()
    ids = [s.id for _, s in ps]
    tri = []
    trie = dt.trie()
    for p, _ in ps:
        items = trie.get_subtrie(p).items()
        tri.append([[list(k), v[1].id] for k, v in items])
        # key path and stored relative path must agree
        for k, v in items:
            if tuple(k) != tuple(v[0]):
                tri[-1].append(["key-value-path-mismatch", list(k), list(v[0])])
    seq = []
    hashes = [s.structural_hash() for _, s in ps]
    for (_, a) in ps:
        for (_, b) in ps:
            seq.append(bool(a.structurally_equal(b)))
    keys = []
    for p, _ in ps:
        try:
            keys.append([ord(c) for c in path_to_trie_key(p)])
        except ValueError:
            keys.append(None)
    return [
        plain_with_cache(dt),
        str(dt),
        None,  # filled below (is_open must not be called before the caches were read)
        [[list(p), s.id] for p, s in ps],
        [_opt(dt.find_node(i)) for i in ids],
        tri,
        seq,
        keys,
    ], hashes, ps


def _opt(p):
    return None if p is None else [Atom("some"), list(p)]


def norm_model_obs(o):
    """decoded driver answer -> same shape as observe_py"""
    tree, s, is_open, paths, finds, tri, seq, keys = o
    return [
        tree,
        s,
        is_open,
        [[list(p), i] for p, i in paths],
        [None if f is None else [Atom("some"), list(f[1])] for f in finds],
        [[[list(k), i] for k, i in items] for items in tri],
        [bool(x) for x in seq],
        [None if k is None else list(k[1]) for k in keys],
    ]


def property_level(ctx: Ctx, dt, obs, hashes, ps, history):
    """the statement of C16 checked directly on the real object (independent of the model)"""
    def fail(key, what):
        ctx.violation(key, what, {"history": history, "tree": T.from_isla(dt) if True else None, "str": str(dt)})

    # caches never contradict actual openness
    for p, s in ps:
        c = s._DerivationTree__is_open
        if c is not None and c != actually_open(s):
            fail("stale-open-cache", f"cached __is_open={c} at path {p} but the subtree is {'open' if actually_open(s) else 'closed'}")
    if str(dt) != leaves_str(dt):
        fail("str-vs-leaves", f"str(tree)={str(dt)!r} but concatenated leaves give {leaves_str(dt)!r}")
    if dt.is_open() != actually_open(dt):
        fail("is-open-wrong", f"is_open()={dt.is_open()} but open leaf exists={actually_open(dt)}")
    for p, s in ps:
        if dt.get_subtree(p) != s:
            fail("paths-vs-get", f"paths() and get_subtree disagree at {p}")
    n = len(ps)
    seq = obs[6]
    for i in range(n):
        for j in range(n):
            if seq[i * n + j] and hashes[i] != hashes[j]:
                fail("struct-eq-hash", f"structurally equal subtrees at {ps[i][0]} and {ps[j][0]} have different structural hashes")
    # trie view = subtree paths
    for (p, s), items in zip(ps, obs[5]):
        want = [[list(q), u.id] for q, u in s.paths()]
        if items != want:
            missing = [w for w in want if w not in items]
            fail(
                "trie-view" + (":wide" if any(len(u.children or ()) >= 28 for _, u in ps) else ""),
                f"trie().get_subtrie({p}).items() differs from get_subtree({p}).paths(): {len(items)} vs {len(want)} entries, e.g. missing {missing[:2]}",
            )
            break
    uniq = len(set(s.id for _, s in ps)) == len(ps)
    if uniq:
        for (p, s), f in zip(ps, obs[4]):
            if f != [Atom("some"), list(p)]:
                fail("find-node", f"find_node({s.id}) = {f} but the node is at {p}")


def gen_replacement(rng, c, sym, ids, md):
    t = T.gen_tree(rng, c, sym, rng.randint(1, 3), ids, md)
    if rng.random() < 0.4:
        t = T.cut_open(rng, t, 0.4, root=rng.random() < 0.7)
    if rng.random() < 0.1 and G.is_nt(sym):
        t = (t[0], sym, None)
    return t


_SEQ = 0


def one_sequence(ctx: Ctx, g, t0, n_ops: int, wide: bool, search: bool = False):
    from isla.derivation_tree import DerivationTree

    rng = ctx.rng
    c = G.canon(g)
    md = G.min_depths(c)
    global _SEQ
    _SEQ += 1
    ids = T.IdGen(10_000 + _SEQ * 1000)
    DerivationTree.next_id = max(DerivationTree.next_id, 50_000_000)  # automatic ids never collide with ours
    dt = T.to_isla(t0)
    ops_sexp = []
    py_results = []
    history = [("init", t0)]
    obs0, h0, ps0 = observe_py(dt)
    pyobs = [(Atom("init"), obs0, h0, ps0, dt)]
    changed = False
    for _ in range(n_ops):
        clear_caches()
        ps = dt.paths()
        r = rng.random() * (0.6 if search else 1.0)
        try:
            if r < 0.35:
                p, sub = rng.choice(ps)
                if not G.is_nt(sub.value):
                    continue
                rt = gen_replacement(rng, c, sub.value, ids, md)
                retain = rng.random() < 0.4
                op = [Atom("replace"), list(p), T.to_sexp(rt), retain]
                dt = dt.replace_path(p, T.to_isla(rt), retain_id=retain)
                res = Atom("ok")
                history.append(("replace_path", list(p), rt, retain))
                changed = True
            elif r < 0.6:
                p, sub = rng.choice(ps)
                op = [Atom("isopen"), list(p)]
                res = bool(sub.is_open())
                history.append(("is_open", list(p)))
            elif r < 0.8:
                if not dt.has_unique_ids():
                    continue  # substitute() requires unique ids (asserted by the code)
                k = rng.randint(1, 3)
                cands = [(p, s) for p, s in ps if G.is_nt(s.value)]
                chosen = [rng.choice(cands) for _ in range(k)]
                m = {}
                ms = []
                for p, s in chosen:
                    if s in m:
                        continue
                    rt = gen_replacement(rng, c, s.value, ids, md)
                    if rng.random() < 0.25:
                        # nested replacement: the replacement contains another key of the map
                        other = rng.choice(chosen)[1]
                        rt = (rt[0], rt[1], rt[2])
                        if rt[2]:
                            rt[2][0] = T.from_isla(other)
                    m[s] = T.to_isla(rt)
                    ms.append([s.id, T.to_sexp(rt)])
                op = [Atom("substitute"), ms]
                dt = dt.substitute(m)
                res = Atom("ok")
                history.append(("substitute", ms))
                changed = True
            else:
                ols = list(dt.open_leaves())
                if not ols or len(ols) > 4:
                    continue
                before = DerivationTree.next_id
                results = dt.expand_one_step(c)
                if not results:
                    continue
                new = rng.choice(results)
                # describe the chosen expansion to the model: per open leaf, alternative and child ids
                for p, leaf in ols:
                    node = new.get_subtree(p)
                    alt = [k.value for k in node.children]
                    if not alt and c[leaf.value] and [] not in [list(a) for a in c[leaf.value]]:
                        alt = []
                    ops_sexp.append([Atom("expand"), list(p), alt, [k.id for k in node.children]])
                    history.append(("expand", list(p), alt))
                    # observation after each single expansion is taken on a tree we rebuild ourselves
                    pyobs.append(None)
                pyobs.pop()
                dt = new
                o, h, psn = observe_py(dt)
                pyobs.append((Atom("ok"), o, h, psn, dt))
                changed = True
                continue
        except Exception as e:  # noqa
            import traceback

            ctx.violation(
                "op-raises:" + type(e).__name__,
                f"tree operation raised {type(e).__name__}: {e}",
                {"history": history, "grammar": g, "traceback": traceback.format_exc()},
            )
            return changed
        ops_sexp.append(op)
        o, h, psn = observe_py(dt)
        pyobs.append((res, o, h, psn, dt))
    if search:
        for step, po in enumerate(pyobs):
            if po is None:
                continue
            res, obs, hashes, ps, tree = po
            ctx.evaluations += 1
            obs[2] = actually_open(tree)
            property_level(ctx, tree, obs, hashes, ps, history[: step + 1])
        return changed
    answers = drive([[Atom("c16"), Atom("run"), T.to_sexp(t0), ops_sexp]])[0]
    if not isinstance(answers, list) or len(answers) != len(pyobs):
        ctx.violation("driver-shape", "model could not replay the operation sequence", {"history": history, "answer": str(answers)[:400], "broken": "correspondence c16/run"}, found_input=False)
        return changed
    for step, (po, mo) in enumerate(zip(pyobs, answers)):
        if po is None:
            continue  # intermediate single-leaf expansion
        res, obs, hashes, ps, tree = po
        ctx.evaluations += 1
        # fill is_open after the caches were read
        obs[2] = actually_open(tree)
        property_level(ctx, tree, obs, hashes, ps, history[: step + 1])
        if isinstance(mo, Atom):
            ctx.violation("model-bad-path", f"model rejected op {step}", {"history": history, "broken": "correspondence c16"}, found_input=False)
            break
        mres, mobs = mo
        mobs = norm_model_obs(mobs)
        names = ["tree+caches", "str", "is_open", "paths", "find_node", "trie-items", "struct-eq", "trie-keys"]
        if res != mres:
            ctx.violation("op-result", f"result of op {step} differs: isla {res} model {mres}", {"history": history, "broken": "correspondence c16/op-result"}, found_input=False)
        for nme, a, b in zip(names, obs, mobs):
            if json.dumps(a, default=str) != json.dumps(b, default=str):
                ctx.violation(
                    "obs:" + nme,
                    f"after op {step} ({history[min(step, len(history)-1)][0]}): observation '{nme}' differs between isla and the model",
                    {"history": history, "grammar": g, "isla": json.loads(json.dumps(a, default=str))
                     if len(json.dumps(a, default=str)) < 3000 else "large", "model": json.loads(json.dumps(b, default=str)) if len(json.dumps(b, default=str)) < 3000 else "large",
                     "broken": f"correspondence c16/{nme}"},
                    found_input=False,
                )
    ctx.count("ops", len(ops_sexp))
    ctx.count("max_branching", min(max(len(s.children or ()) for _, s in dt.paths()), 300) // 10 * 10)
    return changed


def key_roundtrips(ctx: Ctx):
    from isla.trie import path_to_trie_key, trie_key_to_path

    try:
        consts = translate.trie_constants()
        lim, base, nd = consts["_SINGLE_CHAR_LIMIT"], consts["_BASE"], consts["_NUM_DIGITS"]
    except Exception:  # translator failed: explore the values of the last generated table
        lim, base, nd = 252, 250, 4
    idxs = [0, 1, 27, 28, 29, lim - 1, lim, lim + 1, lim + base - 1, lim + base, lim + base**2, lim + base**nd - 1]
    paths = [(i,) for i in idxs] + [(i, j) for i in idxs[:8] for j in idxs[4:10]] + [()]
    reqs = [[Atom("c16"), Atom("key"), list(p)] for p in paths]
    ans = drive(reqs)
    for p, a in zip(paths, ans):
        ctx.evaluations += 1
        try:
            k = [ord(c) for c in path_to_trie_key(p)]
            back = tuple(trie_key_to_path(path_to_trie_key(p)))
        except Exception as e:  # noqa
            k, back = "raises-" + type(e).__name__, None
        mk = None if a is None else list(a[1])
        if back is not None and back != p:
            ctx.violation("trie-key-roundtrip", f"trie_key_to_path(path_to_trie_key({p})) = {back}", {"path": list(p)})
        if k != mk:
            ctx.violation("obs:trie-key", f"key of {p}: isla {k} model {mk}", {"path": list(p), "broken": "correspondence c16/key"}, found_input=False)
    # too large an element: must be rejected loudly, not silently dropped
    ctx.count("key_roundtrips", len(paths))


def gen_tree_case(ctx: Ctx, wide: bool):
    rng = ctx.rng
    if wide:
        n = rng.choice([28, 29, 30, 40, 100, 260])
        g = {"<start>": ["<a>"], "<a>": ["<b>" * n], "<b>": ["x", "<c>y"], "<c>": ["", "<b>"]}
        depth = 3
    else:
        g = G.gen_grammar(rng, eps_prob=0.2)
        depth = rng.randint(2, 6)
    c = G.canon(g)
    for _ in range(30):
        t = T.gen_tree(rng, c, "<start>", depth, T.IdGen(), eps_child=rng.random() < 0.15)
        if rng.random() < 0.6:
            t = T.cut_open(rng, t, 0.3)
        if T.size(t) <= (700 if wide else 60):
            return g, t
    return g, t


def run(ctx: Ctx):
    gen_ok, gen_note = translate.generate_all()
    ctx.obligation("translator: trie constants regenerated from src/isla/trie.py", gen_ok, gen_note)
    ok = ctx.proof_side() and gen_ok
    if not os.path.exists(os.path.join(ROOT, "lean", ".lake", "build", "bin", "isladrv")):
        return "infra"
    quick = ctx.tier == "quick"
    n_seq = 120 if quick else 2500
    key_roundtrips(ctx)
    for i in range(n_seq):
        ctx.check_time()
        wide = ctx.rng.random() < 0.12
        g, t = gen_tree_case(ctx, wide)
        n_ops = ctx.rng.randint(2, 5 if wide else (12 if quick else 30))
        changed = one_sequence(ctx, g, t, n_ops, wide)
        if changed:
            ctx.nontriv((repr(t), i))
        if i < 4:
            ctx.sample({"initial_tree": T.tree_str(t), "nodes": T.size(t), "ops": n_ops})
    if ctx.violations or not ok:
        # a correspondence clause / proof obligation broke: search the real code for an input on which the
        # property itself fails (property-level checks only, replace/is_open-heavy sequences)
        before = len(ctx.violations)
        for i in range(1500 if quick else 6000):
            if any(k in ("stale-open-cache", "is-open-wrong", "str-vs-leaves", "paths-vs-get", "struct-eq-hash", "find-node") or k.startswith("trie-view") for k, _ in ctx.violations):
                break
            wide = ctx.rng.random() < 0.2
            g, t = gen_tree_case(ctx, wide)
            one_sequence(ctx, g, t, ctx.rng.randint(4, 14), wide, search=True)
        ctx.notes.append(f"failing-input search ran after a broken clause; new findings: {len(ctx.violations) - before}")
    ctx.obligation("correspondence: DerivationTree ops == model ops on all explored sequences", not ctx.violations)
    if not ok and not ctx.violations:
        ctx.violation("proof-obligation-broken", "a proof obligation of C16 no longer checks", {"broken": [n for n, o, _ in ctx.obligations if not o]}, found_input=False)
    ctx.write_evidence(
        RULE,
        [
            "datrie is modelled as an ideal prefix map over the keys it is given (alphabet constants regenerated from the source)",
            "Python hash() is abstracted as an arbitrary function of (value, child hashes)",
            "lru_cache'd methods (get_subtree, trie, to_string) are assumed to be pure functions of the immutable tree",
        ],
    )


def replay(ctx: Ctx, obj):
    print("C16 replays are histories; re-run the check with the recorded seed:", obj.get("seed"))
