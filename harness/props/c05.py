"""C05 — ground SMT-LIB atoms are judged exactly as Z3 judges them.

Proof side: lean/IslaVerif/Properties/C05.lean — theorems about the oracle model `Smt.eval`
(SMT-LIB 2.6 semantics of the operators ISLa accepts): integer div/mod satisfy the SMT-LIB
definition, regex membership is decided by the verified matcher (= denotation), the string
functions meet their SMT-LIB specifications, evaluation of well-typed terms is total except for
division by zero.
Tie (three-way, per generated ground atom): (a) the model vs Z3 itself (validates the model),
(b) every place where ISLa decides an instantiated atom — is_valid, evaluate_smt_formula
(variables as parameters of the translated closure), SMTFormula.substitute_expressions with
automatic evaluation — vs Z3.  A different truth value or an exception is a failing input.
"""
from __future__ import annotations

import json
import os
from typing import Any, Dict, List, Optional, Tuple

from core import Ctx, ROOT, drive
from proto import Atom
import props.c15 as c15

LEVEL = "proof"

RULE = (
    "cases = typed ground Boolean SMT-LIB terms (depth <= 4) over string ops (len, ++ n-ary, at, substr, prefixof, suffixof, contains, "
    "indexof, replace, to.int on numerals, from_int, to_code, is_digit, str.<=, in_re with regexes incl. ranges with special characters, "
    "unions of 2-4, loops over multi-character bodies, complement, intersection, difference, allchar, all), integer ops (+ - * n-ary, div, "
    "mod incl. negative and zero divisors, unary minus, abs), comparisons and Boolean connectives, with string variables instantiated from a "
    "pool containing empty strings, newlines, quotes, backslashes, non-ASCII, regex metacharacters, numerals; each decided by Z3, by the "
    "model and by three ISLa entry points; non-trivial = distinct term containing at least one non-literal operator"
)

STRS = ["", "a", "b", "ab", "aab", "abc", "a\nb", "\n", '"', "\\", "a\\tb", "ä", "€", "0", "7", "12", "007", "100", " ", "]", "^", "-", "a.b", "\t", "xx", "a]b", "z", "A", "a" * 5, "ab" * 3]
NUMERALS = ["0", "7", "12", "007", "100", "9999"]
INTS = [0, 1, -1, 2, -2, 3, 5, -5, 7, 10, -10, 100, -7, 12345678901234567890]
# beyond the 53 bits a float represents exactly
BIG = [2**53 + 1, 9999999999999999, -(2**53 + 1), 10**18 + 3, 2**64 + 1, 10**30 + 7, 12345678901234567890]


class Gen:
    def __init__(self, rng, nvars: int):
        self.rng = rng
        self.vars = [f"v{i}" for i in range(nvars)]
        self.inst = {v: rng.choice(STRS) for v in self.vars}
        self.num_vars = []
        if nvars and rng.random() < 0.5:
            self.inst[self.vars[0]] = rng.choice(NUMERALS)
            self.num_vars = [self.vars[0]]

    def s(self, d):
        r = self.rng
        k = r.random()
        if d <= 0 or k < 0.35:
            if self.vars and r.random() < 0.5:
                return ("var", r.choice(self.vars))
            return ("str", r.choice(STRS))
        if k < 0.5:
            return ("concat", [self.s(d - 1) for _ in range(r.choice([2, 2, 3]))])
        if k < 0.6:
            return ("at", self.s(d - 1), self.i(d - 1))
        if k < 0.72:
            return ("substr", self.s(d - 1), self.i(d - 1), self.i(d - 1))
        if k < 0.82:
            return ("replace", self.s(d - 1), self.s(d - 1), self.s(d - 1))
        if k < 0.9:
            return ("fromint", self.i(d - 1))
        return ("str", r.choice(STRS))

    def numeral(self):
        r = self.rng
        if self.num_vars and r.random() < 0.5:
            return ("var", r.choice(self.num_vars))
        return ("str", r.choice(NUMERALS))

    def i(self, d):
        r = self.rng
        k = r.random()
        if d <= 0 or k < 0.3:
            return ("int", r.choice(INTS[:-1]) if r.random() < 0.93 else r.choice(BIG))
        if k < 0.42:
            return ("len", self.s(d - 1))
        if k < 0.5:
            return ("toint", self.numeral())
        if k < 0.58:
            return ("indexof", self.s(d - 1), self.s(d - 1), self.i(d - 1))
        if k < 0.63:
            return ("tocode", self.s(d - 1))
        if k < 0.72:
            return (r.choice(["add", "mul", "sub"]), [self.i(d - 1) for _ in range(r.choice([2, 2, 3]))])
        if k < 0.84:
            return (r.choice(["div", "mod"]), self.i(d - 1), self.i(d - 1))
        if k < 0.9:
            return (r.choice(["neg", "abs"]), self.i(d - 1))
        return ("int", r.choice(INTS[:-1]))

    def re(self, d):
        r = self.rng
        k = r.random()
        if d <= 0 or k < 0.3:
            j = r.random()
            if j < 0.5:
                return ("str", r.choice(["a", "b", "ab", "", "\n", ".", "a.b", "]", "^", "-", "\\", "ä", "0", "12", "a\\tb"]))
            if j < 0.85:
                a, b = r.choice([("a", "c"), ("0", "9"), ("a", "z"), ("A", "z"), ("]", "a"), ("!", "/"), ("\\", "b"), ("b", "a"), ("", "a"), (" ", "~"), ("\t", "\r"),
                                   ("^", "z"), ("^", "^"), ("-", "a"), ("[", "]"), ("*", "+"), ("(", ")"), (".", "9"), ("$", "&"), ("{", "}"), ("|", "~"), ("?", "A"), ("\\", "^")])
                return ("range", a, b)
            return (r.choice(["allchar", "all", "none"]),)
        if k < 0.45:
            return ("union", [self.re(d - 1) for _ in range(r.choice([2, 2, 3, 4]))])
        if k < 0.6:
            return ("concat", [self.re(d - 1) for _ in range(r.choice([2, 2, 3]))])
        if k < 0.7:
            return (r.choice(["star", "plus", "opt"]), self.re(d - 1))
        if k < 0.8:
            lo = r.randint(0, 3)
            # (z3py treats an upper bound of 0 as "unbounded": keep it >= 1)
            return ("loop", self.re(d - 1), lo, max(1, lo + r.randint(-1, 2)))
        if k < 0.87:
            return ("comp", self.re(d - 1))
        if k < 0.93:
            return ("inter", [self.re(d - 1), self.re(d - 1)])
        return ("diff", self.re(d - 1), self.re(d - 1))

    def b(self, d):
        r = self.rng
        k = r.random()
        if d <= 0:
            k = r.random() * 0.8
        if k < 0.2:
            return ("eq", self.s(d - 1), self.s(d - 1))
        if k < 0.35:
            return (r.choice(["eq", "lt", "le", "gt", "ge"]), self.i(d - 1), self.i(d - 1))
        if k < 0.55:
            return ("inre", self.s(d - 1), self.re(2))
        if k < 0.67:
            return (r.choice(["prefixof", "suffixof", "contains"]), self.s(d - 1), self.s(d - 1))
        if k < 0.72:
            return ("strle", self.s(d - 1), self.s(d - 1))
        if k < 0.77:
            return ("isdigit", self.s(d - 1))
        if k < 0.8:
            return (r.choice(["true", "false"]),)
        if k < 0.87:
            return ("not", self.b(d - 1))
        if k < 0.95:
            return (r.choice(["and", "or"]), [self.b(d - 1) for _ in range(r.choice([2, 2, 3]))])
        return (r.choice(["implies", "xor"]), self.b(d - 1), self.b(d - 1))


def subst(t, inst):
    if not isinstance(t, tuple):
        return t
    if t[0] == "var":
        return ("str", inst[t[1]])
    return tuple(subst(x, inst) if isinstance(x, tuple) else ([subst(y, inst) for y in x] if isinstance(x, list) else x) for x in t)


def re_sexp(r):
    k = r[0]
    if k == "str":
        return [Atom("str"), r[1]]
    if k == "range":
        return [Atom("range"), r[1], r[2]]
    if k in ("allchar", "all", "none"):
        return Atom(k)
    if k in ("union", "concat", "inter"):
        return [Atom(k)] + [re_sexp(x) for x in r[1]]
    if k == "loop":
        return [Atom("loop"), re_sexp(r[1]), r[2], r[3]]
    if k == "diff":
        return [Atom("diff"), re_sexp(r[1]), re_sexp(r[2])]
    return [Atom(k), re_sexp(r[1])]


def t_sexp(t):
    k = t[0]
    if k == "str":
        return [Atom("str"), t[1]]
    if k == "int":
        return [Atom("int"), t[1]]
    if k in ("true", "false"):
        return Atom(k)
    if k == "inre":
        return [Atom("inre"), t_sexp(t[1]), re_sexp(t[2])]
    if k in ("concat", "add", "sub", "mul", "and", "or"):
        return [Atom(k)] + [t_sexp(x) for x in t[1]]
    return [Atom(k)] + [t_sexp(x) for x in t[1:]]


def re_z3(r):
    import z3

    k = r[0]
    if k == "str":
        return z3.Re(z3.StringVal(r[1]))
    if k == "range":
        return z3.Range(z3.StringVal(r[1]), z3.StringVal(r[2]))
    if k == "allchar":
        return z3.AllChar(z3.ReSort(z3.StringSort()))
    if k == "all":
        return z3.Full(z3.ReSort(z3.StringSort()))
    if k == "none":
        return z3.Empty(z3.ReSort(z3.StringSort()))
    if k == "union":
        return z3.Union(*[re_z3(x) for x in r[1]])
    if k == "concat":
        return z3.Concat(*[re_z3(x) for x in r[1]])
    if k == "inter":
        return z3.Intersect(*[re_z3(x) for x in r[1]])
    if k == "star":
        return z3.Star(re_z3(r[1]))
    if k == "plus":
        return z3.Plus(re_z3(r[1]))
    if k == "opt":
        return z3.Option(re_z3(r[1]))
    if k == "loop":
        return z3.Loop(re_z3(r[1]), r[2], r[3])
    if k == "comp":
        return z3.Complement(re_z3(r[1]))
    if k == "diff":
        return z3.Diff(re_z3(r[1]), re_z3(r[2]))
    raise ValueError(k)


def t_z3(t):
    import z3
    from isla.z3_helpers import z3_eq

    k = t[0]
    a = t[1:] if k not in ("concat", "add", "sub", "mul", "and", "or") else t[1]
    if k == "var":
        return z3.String(t[1])
    if k == "str":
        return z3.StringVal(t[1])
    if k == "int":
        return z3.IntVal(t[1])
    if k == "true":
        return z3.BoolVal(True)
    if k == "false":
        return z3.BoolVal(False)
    if k == "len":
        return z3.Length(t_z3(a[0]))
    if k == "concat":
        return z3.Concat(*[t_z3(x) for x in a])
    if k == "at":
        return z3.SubSeq(t_z3(a[0]), t_z3(a[1]), z3.IntVal(1)) if False else t_z3(a[0]).at(t_z3(a[1]))
    if k == "substr":
        return z3.SubString(t_z3(a[0]), t_z3(a[1]), t_z3(a[2]))
    if k == "prefixof":
        return z3.PrefixOf(t_z3(a[0]), t_z3(a[1]))
    if k == "suffixof":
        return z3.SuffixOf(t_z3(a[0]), t_z3(a[1]))
    if k == "contains":
        return z3.Contains(t_z3(a[0]), t_z3(a[1]))
    if k == "indexof":
        return z3.IndexOf(t_z3(a[0]), t_z3(a[1]), t_z3(a[2]))
    if k == "replace":
        return z3.Replace(t_z3(a[0]), t_z3(a[1]), t_z3(a[2]))
    if k == "toint":
        return z3.StrToInt(t_z3(a[0]))
    if k == "fromint":
        return z3.IntToStr(t_z3(a[0]))
    if k == "tocode":
        return z3.StrToCode(t_z3(a[0]))
    if k == "isdigit":
        x = t_z3(a[0])
        return z3.BoolRef(z3.Z3_mk_string_le(x.ctx_ref(), x.as_ast(), x.as_ast()), x.ctx) if False else _is_digit(x)
    if k == "strle":
        return t_z3(a[0]) <= t_z3(a[1])
    if k == "inre":
        return z3.InRe(t_z3(a[0]), re_z3(a[1]))
    if k == "add":
        return z3.Sum(*[t_z3(x) for x in a]) if False else _nary(lambda x, y: x + y, [t_z3(x) for x in a])
    if k == "mul":
        return _nary(lambda x, y: x * y, [t_z3(x) for x in a])
    if k == "sub":
        return _nary(lambda x, y: x - y, [t_z3(x) for x in a])
    if k == "div":
        return t_z3(a[0]) / t_z3(a[1])
    if k == "mod":
        return t_z3(a[0]) % t_z3(a[1])
    if k == "neg":
        return -t_z3(a[0])
    if k == "abs":
        x = t_z3(a[0])
        return z3.If(x >= 0, x, -x)
    if k == "eq":
        return z3_eq(t_z3(a[0]), t_z3(a[1]))
    if k == "lt":
        return t_z3(a[0]) < t_z3(a[1])
    if k == "le":
        return t_z3(a[0]) <= t_z3(a[1])
    if k == "gt":
        return t_z3(a[0]) > t_z3(a[1])
    if k == "ge":
        return t_z3(a[0]) >= t_z3(a[1])
    if k == "not":
        return z3.Not(t_z3(a[0]))
    if k == "and":
        return z3.And(*[t_z3(x) for x in a])
    if k == "or":
        return z3.Or(*[t_z3(x) for x in a])
    if k == "implies":
        return z3.Implies(t_z3(a[0]), t_z3(a[1]))
    if k == "xor":
        return z3.Xor(t_z3(a[0]), t_z3(a[1]))
    raise ValueError(k)


def _nary(f, xs):
    out = xs[0]
    for x in xs[1:]:
        out = f(out, x)
    return out


def _is_digit(x):
    import z3

    return z3.InRe(x, z3.Range("0", "9"))


def ops_of(t, acc=None):
    acc = set() if acc is None else acc
    if isinstance(t, tuple):
        if t and isinstance(t[0], str) and t[0] not in ("str", "int", "var", "true", "false"):
            acc.add(t[0])
        for x in t[1:]:
            if isinstance(x, tuple):
                ops_of(x, acc)
            elif isinstance(x, list):
                for y in x:
                    ops_of(y, acc)
    return acc


def z3_decide(e) -> Optional[bool]:
    import z3

    s = z3.simplify(e)
    if z3.is_true(s):
        return True
    if z3.is_false(s):
        return False
    r = []
    for f in (e, z3.Not(e)):
        sol = z3.Solver()
        sol.set("timeout", 3000)
        sol.add(f)
        r.append(sol.check())
    if r[0] == z3.sat and r[1] == z3.unsat:
        return True
    if r[0] == z3.unsat and r[1] == z3.sat:
        return False
    return None  # unspecified (both sat, e.g. division by zero) or unknown


def z3_decide_all(exprs) -> Tuple[List[Optional[bool]], List[int]]:
    """z3_decide for every expression, in a forked child: Z3 4.11.2 itself dies (SIGSEGV in Z3_simplify /
    Z3_solver_assert) on some ground terms, e.g. nested (_ re.loop 0 1).  A term on which the oracle dies has no
    oracle verdict (None, index reported); the child is restarted behind it."""
    res: List[Optional[bool]] = [None] * len(exprs)
    crashed: List[int] = []
    start = 0
    while start < len(exprs):
        r, w = os.pipe()
        pid = os.fork()
        if pid == 0:  # child: only computes and writes verdicts
            try:
                os.close(r)
                with os.fdopen(w, "w") as f:
                    for i in range(start, len(exprs)):
                        v = z3_decide(exprs[i])
                        f.write(f"{i} {'T' if v is True else 'F' if v is False else 'N'}\n")
                        f.flush()
            finally:
                os._exit(0)
        os.close(w)
        last = start - 1
        with os.fdopen(r) as f:
            for line in f:
                parts = line.split()
                if len(parts) == 2 and parts[1] in "TFN":
                    last = int(parts[0])
                    res[last] = {"T": True, "F": False, "N": None}[parts[1]]
        os.waitpid(pid, 0)
        if last + 1 < len(exprs):
            crashed.append(last + 1)
        start = last + 2
    return res, crashed


def isla_decisions(term, gen: Gen) -> Dict[str, Any]:
    """the three places where ISLa decides an instantiated atom"""
    import z3
    from isla import language as L
    from isla.z3_helpers import is_valid
    from isla.evaluator import evaluate_smt_formula
    from isla.derivation_tree import DerivationTree

    out: Dict[str, Any] = {}
    expr = t_z3(term)
    ground = z3.substitute(expr, *[(z3.String(v), z3.StringVal(s)) for v, s in gen.inst.items()]) if gen.inst else expr
    try:
        r = is_valid(ground)
        out["is_valid"] = True if r.is_true() else (False if r.is_false() else None)
    except Exception as e:  # noqa
        out["is_valid"] = ("raises", type(e).__name__, str(e)[:100])
    used = [v for v in gen.vars if any(str(c) == v for c in _consts(expr))]
    variables = {v: L.BoundVariable(v, "<a>") for v in used}
    trees = {v: DerivationTree(gen.inst[v], ()) for v in used}
    try:
        f = L.SMTFormula(expr, *[variables[v] for v in used], auto_eval=False)
        assignments = {variables[v]: ((), trees[v]) for v in used}
        r = evaluate_smt_formula(f, assignments, None, None, None, None).unwrap()
        out["evaluate_smt_formula"] = True if r.is_true() else (False if r.is_false() else None)
    except Exception as e:  # noqa
        out["evaluate_smt_formula"] = ("raises", type(e).__name__, str(e)[:100])
    try:
        f = L.SMTFormula(expr, *[variables[v] for v in used])
        g = f.substitute_expressions({variables[v]: trees[v] for v in used}) if used else None
        if g is None:
            out["substitute_expressions"] = Atom("n/a")
        elif isinstance(g, L.SMTFormula) and (g.is_true or g.is_false):
            out["substitute_expressions"] = bool(g.is_true)
        else:
            out["substitute_expressions"] = None
    except Exception as e:  # noqa
        out["substitute_expressions"] = ("raises", type(e).__name__, str(e)[:100])
    return out


def _consts(e):
    import z3
    from isla.z3_helpers import visit_z3_expr, is_z3_var

    return [x for x in visit_z3_expr(e) if is_z3_var(x)]


def sig(term, entry: str, kind: str) -> str:
    ops = sorted(ops_of(term))
    special = [o for o in ops if o in ("div", "mod", "at", "substr", "tocode", "toint", "inre", "indexof", "replace", "fromint", "strle")]
    return f"{entry}:{kind}:" + ("+".join(special[:3]) or "basic")


def check_terms(ctx: Ctx, cases, origin: str):
    reqs = [[Atom("c05"), Atom("eval"), t_sexp(subst(t, g.inst))] for t, g in cases]
    model = drive(reqs)
    exprs = [t_z3(subst(t, g.inst)) for t, g in cases]
    zs, crashed = z3_decide_all(exprs)
    for i in crashed:
        ctx.count("oracle", "z3-died-on-term")
        if len(ctx.notes) < 20:
            ctx.notes.append("Z3 (the oracle) crashed on " + " ".join(exprs[i].sexpr().split()) + " - no oracle verdict for it")
    for (t, g), m, expr, z in zip(cases, model, exprs, zs):
        ctx.evaluations += 1
        ops = ops_of(t)
        if ops:
            ctx.nontriv(repr(subst(t, g.inst)))
        for o in ops:
            ctx.count("operator", o)
        mv = None if isinstance(m, Atom) and m == "unspecified" else (bool(m) if isinstance(m, bool) else Atom("non-bool"))
        ctx.count("z3_verdict", str(z))
        if z is None:
            ctx.count("oracle", "unspecified-or-unknown")
            # Z3 leaves the atom open (division by zero): ISLa must still not raise
        elif mv is not None and mv != z:
            ctx.violation(
                "model-vs-z3:" + "+".join(sorted(ops))[:60],
                f"the oracle model evaluates {expr} to {mv}, Z3 to {z}",
                {"term": subst(t, g.inst), "z3": expr.sexpr(), "model": str(m), "z3_verdict": z, "broken": "correspondence c05/model-vs-z3"},
                found_input=False,
            )
        dec = isla_decisions(t, g)
        for entry, v in dec.items():
            ctx.count("isla_" + entry, "raises" if isinstance(v, tuple) else str(v))
            replay = {"term": t, "instantiation": g.inst, "z3": expr.sexpr(), "z3_verdict": z, "model": str(m), "isla": {k: str(x) for k, x in dec.items()}, "origin": origin}
            if isinstance(v, tuple):
                ctx.violation(sig(t, entry, "raises-" + v[1]), f"{entry} raised {v[1]} ({v[2]}) on {expr}", replay)
            elif isinstance(v, Atom):
                continue
            elif z is not None and v is not None and v != z:
                ctx.violation(sig(t, entry, "verdict"), f"{entry} says {v}, Z3 says {z} for {expr}", replay)
            elif z is not None and v is None:
                ctx.violation(sig(t, entry, "unknown"), f"{entry} gives no verdict although Z3 decides {expr} as {z}", replay)
    if cases:
        t, g = cases[0]
        ctx.sample({"term": t_z3(subst(t, g.inst)).sexpr()[:300]})


def zero_divisor_cases(rng, n):
    """atoms in which a divisor depends on a variable and is zero under the instantiation, but which Z3 decides whatever
    value the division takes (t = t, t <= t, tautological context): the instantiation path of evaluate_smt_formula must
    leave them to Z3 instead of answering False"""
    out = []
    for _ in range(n):
        g = Gen(rng, 2)
        g.inst["v0"] = ""
        g.num_vars = []
        k = rng.choice([1, 5, 7, -3, 10**17 + 1])
        op = rng.choice(["div", "mod"])
        divisor = rng.choice([("len", ("var", "v0")), ("indexof", ("var", "v0"), ("str", ""), ("int", 0)), ("sub", [("len", ("var", "v0")), ("len", ("var", "v0"))])])
        t = (op, ("int", k), divisor)
        shape = rng.random()
        if shape < 0.4:
            b = ("eq", t, t)
        elif shape < 0.6:
            b = (rng.choice(["le", "ge"]), t, t)
        elif shape < 0.8:
            b = ("or", [("eq", ("var", "v1"), ("var", "v1")), ("lt", t, ("int", 0))])
        else:
            b = ("not", ("lt", t, t))
        out.append((b, g))
    return out


def big_int_cases(rng, n):
    """integer arithmetic beyond 53 bits (exact in SMT-LIB and in Python ints, not in floats)"""
    out = []
    for _ in range(n):
        g = Gen(rng, 1)
        a = rng.choice(BIG) + rng.randint(-3, 3)
        b = rng.choice([2, 3, 7, -7, 10, 1000, rng.choice(BIG)])
        op = rng.choice(["div", "mod", "mod", "mul", "add", "sub"])
        t = (op, ("int", a), ("int", b)) if op in ("div", "mod") else (op, [("int", a), ("int", b)])
        py = {"div": None, "mod": None, "mul": a * b, "add": a + b, "sub": a - b}[op]
        if op == "mod":
            py = a % abs(b)
        if op == "div":
            q = (a - (a % abs(b))) // abs(b)
            py = q if b > 0 else -q
        rhs = ("int", py + rng.choice([0, 0, 1, -1]))
        out.append(((rng.choice(["eq", "le", "lt", "ge"]), t, rhs), g))
    return out


def metachar_range_cases(rng, n):
    """re.range whose bounds are characters with a meaning in Python's pattern / character-class syntax"""
    meta = list("^-]\\[.*+?(){}|$&~#/")
    out = []
    for _ in range(n):
        g = Gen(rng, 1)
        lo, hi = rng.choice(meta), rng.choice(meta + ["z", "a", "~"])
        probe = rng.choice([lo, hi, chr(ord(lo) - 1) if ord(lo) > 33 else lo, chr(ord(hi) + 1), "A", "^", "\\", "]", "-", "a"])
        g.inst["v0"] = probe
        r = ("range", lo, hi)
        if rng.random() < 0.3:
            r = rng.choice([("star", r), ("comp", r), ("union", [r, ("str", "zz")])])
        out.append((("inre", ("var", "v0") if rng.random() < 0.7 else ("str", probe), r), g))
    return out


def signed_numerals(ctx: Ctx):
    """str.to.int on signed numerals: in the property's scope; ISLa deliberately deviates from Z3"""
    g = Gen(ctx.rng, 0)
    for lit, n in [("-3", -3), ("+3", 3)]:
        t = ("eq", ("toint", ("str", lit)), ("int", n))
        dec = isla_decisions(t, g)
        z = z3_decide(t_z3(t))
        ctx.evaluations += 1
        if any(v is True for v in dec.values()) and z is False:
            ctx.violation(
                "str.to.int:signed-numeral",
                f'str.to.int("{lit}") is {n} for ISLa, -1 for Z3',
                {"term": t, "isla": {k: str(v) for k, v in dec.items()}, "z3_verdict": z},
            )


def run(ctx: Ctx):
    ok = ctx.proof_side()
    if not os.path.exists(os.path.join(ROOT, "lean", ".lake", "build", "bin", "isladrv")):
        return "infra"
    quick = ctx.tier == "quick"
    n = 700 if quick else 12000
    cdir = os.path.join(ROOT, "corpus", "C05")
    for fn in sorted(os.listdir(cdir)) if os.path.isdir(cdir) else []:
        if fn.endswith(".json"):
            o = json.load(open(os.path.join(cdir, fn), encoding="utf-8"))
            check_terms(ctx, [(_from_json(o["term"]), ReplayGen(o.get("instantiation") or {}))], "corpus/" + fn)
    cases = []
    for i in range(n):
        g = Gen(ctx.rng, ctx.rng.choice([0, 1, 2, 2]))
        cases.append((g.b(ctx.rng.randint(1, 3)), g))
    cases.extend(zero_divisor_cases(ctx.rng, n // 10))
    cases.extend(metachar_range_cases(ctx.rng, n // 10))
    cases.extend(big_int_cases(ctx.rng, n // 12))
    for i in range(0, len(cases), 200):
        ctx.check_time()
        check_terms(ctx, cases[i : i + 200], "generated")
    signed_numerals(ctx)
    ctx.obligation("correspondence: ISLa decisions == Z3 == model on all explored atoms; no exception", not ctx.violations)
    if not ok and not ctx.violations:
        ctx.violation("proof-obligation-broken", "a proof obligation of C05 no longer checks", {"broken": [n for n, o, _ in ctx.obligations if not o]}, found_input=False)
    ctx.write_evidence(
        RULE,
        [
            "Z3 (4.11.2) is the oracle of the property; atoms Z3 leaves unspecified (division by zero) or cannot decide in 3 s are only checked for exceptions",
            "the Python-side pattern translation is not modelled: it is tied to Z3 by differential testing only; the theorems are about the oracle model",
            "str.to.int is applied to unsigned numerals only (signed numerals: known deviation by design)",
        ],
    )


def _from_json(x):
    """terms are tuples (operator first) with lists for n-ary arguments; JSON turned both into lists"""
    if isinstance(x, list):
        if x and isinstance(x[0], str):
            return tuple(_from_json(y) for y in x)
        return [_from_json(y) for y in x]
    return x


class ReplayGen:
    def __init__(self, inst):
        self.inst = dict(inst)
        self.vars = sorted(self.inst)
        self.num_vars = []


def replay(ctx: Ctx, obj):
    t = _from_json(obj["term"])
    print("replaying atom:", obj.get("z3"), "instantiation:", obj.get("instantiation"))
    check_terms(ctx, [(t, ReplayGen(obj.get("instantiation") or {}))], "replay")
