"""C20 — library semantic predicates decide their documented relation on concrete trees.

Proof side: lean/IslaVerif/Properties/C20.lean (count verdict <-> equality; octal/decimal value
theorems incl. digit generation round trip; crop/just verdicts and replacement widths).
Tie: the real predicates (COUNT_PREDICATE, CROP/LJUST/RJUST(_CROP)/EXTEND_CROP, OCTAL_TO_DEC_PREDICATE)
are evaluated through SemanticPredicate.evaluate on generated closed argument trees; verdicts and the
strings of proposed replacement trees are compared with the model, and every replacement tree is
certified (valid derivation tree of the argument's nonterminal, via the verified tree checker).
"""
from __future__ import annotations

import os
from typing import Any, List

from core import Ctx, ROOT, drive
from proto import Atom
from gen import grammars as G
from gen import trees as T

LEVEL = "proof"
REPLAY_BY_SEED = True  # a replay file names (seed, tier); ./check --replay re-runs exactly that run

RULE = (
    "cases = predicate calls on generated closed argument trees: count (needle occurrences 0-8, targets incl. negative and off-by-one, "
    "number as string / closed tree / variable), octal_to_decimal (octal strings up to 12 digits incl. leading zeros, equal / unequal / "
    "swapped-direction decimals, each of the three argument modes), crop / ljust / rjust / ljust_crop / rjust_crop / extend_crop "
    "(argument lengths 0-12 x widths 0-12, fill characters incl. NUL); non-trivial = distinct (predicate, argument string, parameters)"
)

FIELD_GRAMMAR = {
    "<start>": ["<f>"],
    "<f>": ["<c><f>", ""],
    "<c>": ["a", "b", "0", " ", "\x00"],
}
# same nonterminal names, different rules: results for one grammar must not leak into the other
FIELD_GRAMMAR_LEFT = {
    "<start>": ["<f>"],
    "<f>": ["<f><c>", ""],
    "<c>": ["a", "b", "0", " ", "\x00"],
}
COUNT_GRAMMAR = {
    "<start>": ["<l>"],
    "<l>": ["<i>", "<i>,<l>"],
    "<i>": ["<d>", "<d><i>", "(<l>)"],
    "<d>": ["0", "1", "x"],
}


def field_tree(s: str, ids, left: bool = False) -> T.PT:
    def f(rest):
        if not rest:
            return (ids(), "<f>", [])
        if left:
            return (ids(), "<f>", [f(rest[:-1]), (ids(), "<c>", [(ids(), rest[-1], [])])])
        return (ids(), "<f>", [(ids(), "<c>", [(ids(), rest[0], [])]), f(rest[1:])])

    return f(s)


def res_of(r, py_tree=None):
    """SemPredEvalResult -> ('verdict', b) | ('notready',) | ('subst', {name: tree})"""
    if r.true():
        return ("verdict", True)
    if r.false():
        return ("verdict", False)
    if not r.ready():
        return ("notready",)
    return ("subst", r.result)


def certify_tree(ctx: Ctx, g, nt: str, dt, what: str, replay) -> None:
    """replacement tree must be a valid closed derivation tree of nonterminal nt"""
    import copy

    gg = {"<start>": [nt]}
    for k, v in g.items():
        if k != "<start>":
            gg[k] = v
    plain = T.from_isla(dt)
    wrapped = (0, "<start>", [plain])
    a = drive([[Atom("c10"), Atom("tree"), G.grammar_sexp(gg), "<start>", str(dt), T.to_sexp(wrapped)]])[0]
    ctx.count("replacement_trees_certified", what)
    if not all(a):
        ctx.violation(
            f"{what}:invalid-replacement-tree",
            f"{what}: the proposed replacement tree is not a valid closed derivation tree of {nt}: {a}",
            dict(replay, tree=plain),
        )


def check_count(ctx: Ctx, n: int):
    import isla.isla_predicates as ip
    from isla.language import Variable, BoundVariable
    import grammar_graph.gg as gg

    rng = ctx.rng
    graph = gg.GrammarGraph.from_grammar(COUNT_GRAMMAR)
    c = G.canon(COUNT_GRAMMAR)
    reqs, meta = [], []
    for _ in range(n):
        t = T.gen_tree(rng, c, "<start>", rng.randint(2, 7), T.IdGen())
        dt = T.to_isla(t)
        needle = rng.choice(["<i>", "<d>", "<l>", "<zzz>"])
        occ = sum(1 for _, s in T.paths(t) if s[1] == needle)
        target = rng.choice([occ, occ, occ + 1, occ - 1, rng.randint(-2, 9)])
        mode = rng.choice(["str", "tree", "var"])
        from isla.derivation_tree import DerivationTree

        try:
            if mode == "str":
                r = res_of(ip.COUNT_PREDICATE.evaluate(graph, dt, needle, str(target)))
            elif mode == "tree":
                r = res_of(ip.COUNT_PREDICATE.evaluate(graph, dt, needle, DerivationTree(str(target), ())))
            else:
                v = BoundVariable("n", Variable.NUMERIC_NTYPE)
                r = res_of(ip.COUNT_PREDICATE.evaluate(graph, dt, needle, v))
                if r[0] == "subst":
                    r = ("assign", str(list(r[1].values())[0]))
        except Exception as e:  # noqa
            r = ("raises", type(e).__name__)
        ctx.evaluations += 1
        ctx.count("count", mode + ":" + r[0])
        ctx.nontriv(("count", T.tree_str(t), needle, target, mode))
        replay = {"predicate": "count", "tree": t, "tree_str": T.tree_str(t), "needle": needle, "target": target, "mode": mode, "isla": repr(r)[:200]}
        if mode == "var":
            if r != ("assign", str(occ)):
                ctx.violation("count:assign", f"count with a variable proposes {r}, the needle occurs {occ} times", replay)
        else:
            reqs.append([Atom("c20"), Atom("count"), occ, target])
            meta.append((r, replay, occ, target))
    for (r, replay, occ, target), a in zip(meta, drive(reqs)):
        want = ("verdict", bool(a))
        if r != want:
            ctx.violation(
                "count:" + ("raises" if r[0] == "raises" else "verdict"),
                f"count(tree, {replay['needle']}, {target}) = {r} but the needle occurs {occ} times (count_iff: verdict must be {bool(a)})",
                replay,
            )
    ctx.sample({"predicate": "count", "calls": n})


def digits(s: str) -> List[int]:
    return [int(ch) for ch in s]


def check_octal(ctx: Ctx, n: int):
    import isla.isla_predicates as ip
    from isla.language import BoundVariable
    from isla_formalizations.tar import octal_conv_grammar
    import grammar_graph.gg as gg
    from isla.parser import EarleyParser

    rng = ctx.rng
    graph = gg.GrammarGraph.from_grammar(octal_conv_grammar)
    pred = ip.OCTAL_TO_DEC_PREDICATE(graph, "<octal_digits>", "<decimal_digits>")
    from isla.derivation_tree import DerivationTree

    def parse(nt, s):
        g = dict(octal_conv_grammar)
        g["<start>"] = [nt]
        from isla.helpers import delete_unreachable

        p = EarleyParser(delete_unreachable(g))
        return DerivationTree.from_parse_tree(next(p.parse(s))[1][0])

    cases = []
    for _ in range(n):
        k = rng.randint(1, 12)
        o = "".join(rng.choice("01234567") for _ in range(k))
        if rng.random() < 0.3:
            o = "0" * rng.randint(1, 3) + o
        val = int(o, 8)
        r = rng.random()
        if r < 0.35:
            d = str(val)
        elif r < 0.5:
            d = o  # same digits read as decimal
        elif r < 0.65:
            try:
                d = str(int(oct(int(o))[2:]))  # the swapped direction
            except ValueError:
                d = str(val + 1)
        else:
            d = str(max(0, val + rng.randint(-3, 3)))
        cases.append((o, d, rng.choice(["both", "both", "oct", "dec"])))
    reqs, meta = [], []
    for o, d, mode in cases:
        ctx.evaluations += 1
        ctx.nontriv(("octal", o, d, mode))
        replay = {"predicate": "octal_to_decimal", "octal": o, "decimal": d, "mode": mode}
        try:
            ot, dtr = parse("<octal_digits>", o), parse("<decimal_digits>", d)
            if mode == "both":
                r = res_of(pred.evaluate(graph, ot, dtr))
                reqs.append([Atom("c20"), Atom("octboth"), digits(o), digits(d)])
            elif mode == "oct":
                v = BoundVariable("d", "<decimal_digits>")
                r = res_of(pred.evaluate(graph, ot, v))
                reqs.append([Atom("c20"), Atom("oct2dec"), digits(o)])
            else:
                v = BoundVariable("o", "<octal_digits>")
                r = res_of(pred.evaluate(graph, v, dtr))
                reqs.append([Atom("c20"), Atom("dec2oct"), digits(d)])
        except Exception as e:  # noqa
            r = ("raises", type(e).__name__)
            reqs.append([Atom("ping")])
        replay["isla"] = repr(r)[:200]
        meta.append((o, d, mode, r, replay))
        ctx.count("octal", mode + ":" + r[0])
    for (o, d, mode, r, replay), a in zip(meta, drive(reqs)):
        if r[0] == "raises":
            ctx.violation("octal:raises:" + r[1], f"octal_to_decimal({o}, {d}) [{mode}] raised {r[1]}", replay)
        elif mode == "both":
            if r != ("verdict", bool(a)):
                ctx.violation(
                    "octal:both-verdict",
                    f"octal_to_decimal({o!r}, {d!r}) = {r}; octal value {int(o, 8)}, decimal value {int(d)} (octalBoth_iff demands {bool(a)})",
                    replay,
                )
        else:
            if r[0] != "subst":
                ctx.violation("octal:" + mode + "-no-replacement", f"octal_to_decimal [{mode}] returned {r}", replay)
                continue
            tree = list(r[1].values())[0]
            want = "".join(str(x) for x in a)
            if str(tree) != want:
                ctx.violation("octal:" + mode + "-replacement", f"octal_to_decimal [{mode}] proposes {str(tree)!r}, the model (proved value-preserving) {want!r}", replay)
            certify_tree(ctx, octal_conv_grammar, "<decimal_digits>" if mode == "oct" else "<octal_digits>", tree, "octal_to_decimal", replay)
    ctx.sample({"predicate": "octal_to_decimal", "calls": n, "example": cases[0]})


def check_just(ctx: Ctx, n: int):
    import isla.isla_predicates as ip
    from isla.derivation_tree import DerivationTree
    import grammar_graph.gg as gg

    rng = ctx.rng
    graphs = {False: gg.GrammarGraph.from_grammar(FIELD_GRAMMAR), True: gg.GrammarGraph.from_grammar(FIELD_GRAMMAR_LEFT)}
    preds = {
        "crop": (ip.CROP_PREDICATE, None, None),
        "ljust": (ip.LJUST_PREDICATE, True, False),
        "ljust_crop": (ip.LJUST_CROP_PREDICATE, True, True),
        "rjust": (ip.RJUST_PREDICATE, False, False),
        "rjust_crop": (ip.RJUST_CROP_PREDICATE, False, True),
        "extend_crop": (ip.EXTEND_CROP_PREDICATE, True, True),
    }
    reqs, meta = [], []
    for _ in range(n):
        name = rng.choice(list(preds))
        pred, lj, cr = preds[name]
        ln = rng.randint(0, 12)
        if name == "extend_crop":
            ch = rng.choice("ab0")
            s = ch * max(1, ln)
            fill = ch
        else:
            s = "".join(rng.choice("ab0 \x00") for _ in range(ln))
            fill = rng.choice(["a", "0", " ", "\x00"])
        w = rng.choice([len(s), len(s), max(0, len(s) - 1), len(s) + 1, rng.randint(0, 12)])
        left = rng.random() < 0.4
        graph = graphs[left]
        t = field_tree(s, T.IdGen(), left)
        dt = T.to_isla(t)
        wt = DerivationTree(str(w), ())
        ctx.evaluations += 1
        ctx.nontriv((name, s, w, fill))
        replay = {"predicate": name, "argument": s, "width": w, "fill": fill, "grammar": "left-recursive" if left else "right-recursive"}
        ctx.count("field_grammar", replay["grammar"])
        try:
            if name == "crop":
                r = res_of(pred.evaluate(graph, dt, wt))
                reqs.append([Atom("c20"), Atom("crop"), s, w])
            elif name == "extend_crop":
                r = res_of(pred.evaluate(graph, dt, wt))
                reqs.append([Atom("c20"), Atom("just"), True, True, s, w, ord(fill)])
            else:
                r = res_of(pred.evaluate(graph, dt, wt, fill))
                reqs.append([Atom("c20"), Atom("just"), lj, cr, s, w, ord(fill)])
        except Exception as e:  # noqa
            r = ("raises", type(e).__name__)
            reqs.append([Atom("ping")])
        replay["isla"] = repr(r)[:200]
        meta.append((name, s, w, r, replay, left))
        ctx.count("just_crop", name + ":" + r[0])
        ctx.count("len_vs_width", "equal" if len(s) == w else ("shorter" if len(s) < w else "longer"))
    for (name, s, w, r, replay, left), a in zip(meta, drive(reqs)):
        rel = "equal" if len(s) == w else ("shorter" if len(s) < w else "longer")
        if r[0] == "raises":
            ctx.violation(f"{name}:raises:{r[1]}:{rel}", f"{name}({s!r}, {w}) raised {r[1]}", replay)
            continue
        if isinstance(a, bool):
            if r != ("verdict", a):
                ctx.violation(f"{name}:verdict:{rel}", f"{name}({s!r}, {w}) = {r}, model (theorems just_true_iff/just_false_iff/crop_true_iff) says {a}", replay)
        else:
            want = a[1]
            if r[0] != "subst":
                ctx.violation(f"{name}:verdict:{rel}", f"{name}({s!r}, {w}) = {r}, model proposes the replacement {want!r}", replay)
                continue
            tree = list(r[1].values())[0]
            if str(tree) != want:
                ctx.violation(f"{name}:replacement:{rel}", f"{name}({s!r}, {w}) proposes {str(tree)!r}, model {want!r} (width {w})", replay)
            certify_tree(ctx, FIELD_GRAMMAR_LEFT if left else FIELD_GRAMMAR, "<f>", tree, name, replay)
    ctx.sample({"predicate": "just/crop family", "calls": n})


def run(ctx: Ctx):
    ok = ctx.proof_side()
    if not os.path.exists(os.path.join(ROOT, "lean", ".lake", "build", "bin", "isladrv")):
        return "infra"
    n = 350 if ctx.tier == "quick" else 7000
    check_count(ctx, n)
    check_octal(ctx, n)
    check_just(ctx, n)
    ctx.obligation("correspondence: semantic predicates == model on all explored calls; replacement trees certified", not ctx.violations)
    if not ok and not ctx.violations:
        ctx.violation("proof-obligation-broken", "a proof obligation of C20 no longer checks", {"broken": [n for n, o, _ in ctx.obligations if not o]}, found_input=False)
    ctx.write_evidence(
        RULE,
        [
            "closed argument trees only (open arguments / count completion belong to C14)",
            "crop is read as 'fits within the width' (verdict true iff len <= width), which is what its replacement establishes",
            "Python int()/str()/oct() on digit strings are modelled by positional digit arithmetic",
            "replacement trees are certified by the verified tree checker against the grammar of the argument's nonterminal",
        ],
    )


def replay(ctx: Ctx, obj):
    print("re-run ./check C20 with the recorded seed", obj.get("seed"), "- the failing call is", {k: obj.get(k) for k in ("predicate", "argument", "width", "fill", "octal", "decimal", "mode", "needle", "target")})
