"""C08 — constraints written with ISLa's simplified syntax evaluate on every tree exactly like their core
form as documented in the specification (omitted `in start` and variable names, universally closed
free nonterminals, XPath child / index / descendant axes, prefix / infix notation, negative
literals, implies / iff / xor).

Proof side: lean/IslaVerif/Properties/C08.lean — for EVERY interpretation and environment: the
derived connectives as built by the emitter (`-a | b`, `(-a & -b) | (a & b)`, `(a & -b) | (-a & b)`
over the simplifying combinators modelled in C09) mean implication, equivalence and exclusive or;
pushing the closing universal quantifier into a disjunction is sound, into a conjunction exactly
when the quantifier's domain is not empty (with a proved counterexample for the empty domain).
Tie: sugared constraints and their HAND-EXPANDED core forms (written from the documentation, not
from the emitter) are evaluated by the real evaluate() on random trees and must agree with each
other and with the verified reference evaluator applied to the core form.
"""
from __future__ import annotations

import json
import os
from typing import Any, Dict, List, Tuple

from core import Ctx, ROOT, drive
from proto import Atom, enc
from gen import grammars as G
from gen import trees as T
import semconv

LEVEL = "proof"

RULE = (
    "cases = (sugared constraint, hand-expanded core constraint, tree): templates instantiated with random nonterminals / literals / "
    "operators over the assignment, number-list and a nested tag grammar: free nonterminal atoms, omitted `in start` / names, XPath child "
    "(first / indexed occurrence), descendant axis, mixed chains, infix vs prefix SMT-LIB, negative literals, implies / iff / xor over sugared "
    "atoms, conjunctions and disjunctions of atoms over different free nonterminals (quantifier push-in); 4 random closed derivations each "
    "(incl. trees in which a mentioned nonterminal does not occur); non-trivial = distinct (sugared constraint, tree) whose constraint has "
    "both verdicts among its trees"
)

ASSGN = {"<start>": ["<stmt>"], "<stmt>": ["<assgn>", "<assgn> ; <stmt>"], "<assgn>": ["<var> := <rhs>"], "<rhs>": ["<var>", "<digit>"], "<var>": ["a", "b", "c"], "<digit>": ["0", "1", "2", "7"]}
NUMS = {"<start>": ["<list>"], "<list>": ["<num>", "<num>,<list>"], "<num>": ["<dig>", "<dig><num>"], "<dig>": ["0", "1", "2", "9"]}
PAIRS = {"<start>": ["<seq>"], "<seq>": ["<pair>", "<pair>;<seq>"], "<pair>": ["<key>=<val>", "<key>=<val>=<val>"], "<key>": ["k", "kk"], "<val>": ["v", "w", "<key>"]}


ROW = {"<start>": ["<rows>"], "<rows>": ["<row>", "<row>\n<rows>"], "<row>": ["<c>" * 12, "<c>,<c>"], "<c>": ["x", "y", "z"]}


def q(s):
    return '"' + s + '"'


def templates(rng) -> List[Tuple[str, Dict, str, str, str]]:
    """(family, grammar, sugared text, core text, note)"""
    out = []
    lit_var = rng.choice(["a", "b", "c"])
    lit_dig = rng.choice(["0", "1", "7"])
    op = rng.choice(["=", "=", "="])
    # free nonterminal, omitted in/name
    out.append(("free-nonterminal", ASSGN, f'<var> = {q(lit_var)}', f'forall <var> v in start: (= v {q(lit_var)})', ""))
    out.append(("free-nonterminal", ASSGN, f'not(<rhs> = {q(lit_var)})', f'forall <rhs> r in start: (not (= r {q(lit_var)}))', ""))
    out.append(("omitted-in-start", ASSGN, f'exists <digit> d: d = {q(lit_dig)}', f'exists <digit> d in start: (= d {q(lit_dig)})', ""))
    out.append(("omitted-name", ASSGN, f'exists <digit>: <digit> = {q(lit_dig)}', f'exists <digit> d in start: (= d {q(lit_dig)})', ""))
    out.append(("omitted-name", ASSGN, f'forall <assgn>: exists <var> v in <assgn>: v = {q(lit_var)}', f'forall <assgn> a in start: (exists <var> v in a: (= v {q(lit_var)}))', ""))
    out.append(("free-start", ASSGN, f'str.len(<start>) > {rng.randint(3, 12)}'.replace(">", ">", 1), None, "len"))
    n = rng.randint(3, 14)
    out[-1] = ("free-start", ASSGN, f'str.len(<start>) > {n}', f'forall <start> s in start: (> (str.len s) {n})', "")
    # infix / prefix
    k = rng.randint(0, 7)
    cmpop = rng.choice([">", ">=", "<", "<=", "="])
    out.append(("infix-prefix", ASSGN, f'str.to.int(<digit>) {cmpop} {k}', f'forall <digit> d in start: ({cmpop} (str.to.int d) {k})', ""))
    out.append(("infix-prefix", ASSGN, f'({cmpop} (str.to.int <digit>) {k})', f'forall <digit> d in start: ({cmpop} (str.to.int d) {k})', ""))
    out.append(("infix-prefix", NUMS, f'str.to.int(<num>) + 1 {cmpop} 2 * {k}', f'forall <num> n in start: ({cmpop} (+ (str.to.int n) 1) (* 2 {k}))', ""))
    out.append(("infix-prefix", NUMS, f'str.len(<num>) = {rng.randint(1, 3)} or str.prefixof("1", <num>)', None, ""))
    m = rng.randint(1, 3)
    out[-1] = ("infix-prefix", NUMS, f'str.len(<num>) = {m} or str.prefixof("1", <num>)', f'forall <num> n in start: ((= (str.len n) {m}) or (str.prefixof "1" n))', "")
    # negative literal
    out.append(("negative-literal", ASSGN, f'str.to.int(<digit>) > -1', 'forall <digit> d in start: (> (str.to.int d) (- 1))', ""))
    out.append(("negative-literal", NUMS, f'str.to.int(<num>) - 30 < -{k}', f'forall <num> n in start: (< (- (str.to.int n) 30) (- {k}))', ""))
    # XPath child axis (first occurrence), index, descendant
    out.append(("xpath-child", ASSGN, f'<assgn>.<rhs>.<digit> = {q(lit_dig)}', f'forall <assgn> a="<var> := {{<rhs> r}}" in start: (forall <rhs> r2="{{<digit> d}}" in r: (= d {q(lit_dig)}))', ""))
    out.append(("xpath-child", ASSGN, f'<assgn>.<var> = {q(lit_var)}', f'forall <assgn> a="{{<var> v}} := <rhs>" in start: (= v {q(lit_var)})', ""))
    out.append(("xpath-child", ASSGN, f'forall <assgn> a: a.<rhs> = {q(lit_var)}', f'forall <assgn> a="<var> := {{<rhs> r}}" in start: (= r {q(lit_var)})', ""))
    out.append(("xpath-index", PAIRS, '<pair>.<val>[2] = "w"', 'forall <pair> p="<key>=<val>={<val> x}" in start: (= x "w")', ""))
    out.append(("xpath-index", PAIRS, '<pair>.<val>[1] = "v"', '(forall <pair> p="<key>={<val> x}" in start: (= x "v") and forall <pair> p2="<key>={<val> y}=<val>" in start: (= y "v"))', ""))
    out.append(("xpath-descendant", ASSGN, f'<assgn>..<digit> = {q(lit_dig)}', f'forall <assgn> a in start: (forall <digit> d in a: (= d {q(lit_dig)}))', ""))
    out.append(("xpath-descendant", ASSGN, f'forall <stmt> s: s..<var> = {q(lit_var)}', f'forall <stmt> s in start: (forall <var> v in s: (= v {q(lit_var)}))', ""))
    out.append(("xpath-descendant", PAIRS, '<pair>..<key> = "k"', 'forall <pair> p in start: (forall <key> x in p: (= x "k"))', ""))
    # derived connectives over closed atoms
    A_s, A_c = f'exists <digit> d: d = {q(lit_dig)}', f'exists <digit> d in start: (= d {q(lit_dig)})'
    B_s, B_c = f'exists <var> v: v = {q(lit_var)}', f'exists <var> v in start: (= v {q(lit_var)})'
    out.append(("implies", ASSGN, f'({A_s}) implies ({B_s})', f'(not ({A_c}) or ({B_c}))', ""))
    out.append(("iff", ASSGN, f'({A_s}) iff ({B_s})', f'((({A_c}) and ({B_c})) or (not ({A_c}) and not ({B_c})))', ""))
    out.append(("xor", ASSGN, f'({A_s}) xor ({B_s})', f'((({A_c}) and not ({B_c})) or (not ({A_c}) and ({B_c})))', ""))
    # universal closure of free nonterminals in propositional combinations (closure at top level, as documented)
    out.append(("closure-or", ASSGN, f'<var> = {q(lit_var)} or <digit> = {q(lit_dig)}', f'forall <var> v in start: (forall <digit> d in start: ((= v {q(lit_var)}) or (= d {q(lit_dig)})))', ""))
    out.append(("closure-implies", ASSGN, f'<var> = {q(lit_var)} implies <digit> = {q(lit_dig)}', f'forall <var> v in start: (forall <digit> d in start: (not (= v {q(lit_var)}) or (= d {q(lit_dig)})))', ""))
    out.append(("closure-and", ASSGN, f'<var> = {q(lit_var)} and <digit> = {q(lit_dig)}', f'forall <var> v in start: (forall <digit> d in start: ((= v {q(lit_var)}) and (= d {q(lit_dig)})))', "push-in into a conjunction"))
    out.append(("closure-and", NUMS, f'<dig> = "1" and str.len(<num>) = 1', 'forall <dig> d in start: (forall <num> n in start: ((= d "1") and (= (str.len n) 1)))', "push-in into a conjunction"))
    # the same free nonterminal on its own and as the head of an XPath expression: one quantifier for both
    n2 = rng.randint(4, 8)
    out.append(("xpath-and-free-nonterminal", ASSGN, f'<assgn>.<var> = {q(lit_var)} or str.len(<assgn>) > {n2}', f'forall <assgn> a="{{<var> v}} := <rhs>" in start: ((= v {q(lit_var)}) or (> (str.len a) {n2}))', ""))
    out.append(("xpath-and-free-nonterminal", ASSGN, f'str.len(<assgn>) > {n2} and <assgn>.<var> = {q(lit_var)}', f'forall <assgn> a="{{<var> v}} := <rhs>" in start: ((> (str.len a) {n2}) and (= v {q(lit_var)}))', ""))
    # indexed child access with two-digit indices
    idx = rng.randint(9, 12)
    lit_c = rng.choice(["x", "y", "z"])
    out.append(("xpath-index", ROW, f'<row>.<c>[{idx}] = {q(lit_c)}', 'forall <row> r="' + "<c>" * (idx - 1) + "{<c> e}" + "<c>" * (12 - idx) + f'" in start: (= e {q(lit_c)})', "two-digit index"))
    out.append(("xpath-index", ROW, f'<row>.<c>[2] = {q(lit_c)}', f'(forall <row> r="<c>{{<c> e}}{"<c>" * 10}" in start: (= e {q(lit_c)}) and forall <row> r2="<c>,{{<c> f}}" in start: (= f {q(lit_c)}))', ""))
    # free nonterminals below numeric quantifiers: the closure stays at top level
    out.append(("closure-over-int-quantifier", NUMS, 'exists int n: str.len(<num>) = str.to.int(n)', 'forall <num> m in start: (exists int n: (= (str.len m) (str.to.int n)))', ""))
    out.append(("closure-over-int-quantifier", ASSGN, f'exists int n: (str.to.int(n) = str.to.int(<digit>) + {k})', f'forall <digit> d in start: (exists int n: (= (str.to.int n) (+ (str.to.int d) {k})))', ""))
    # infix string / regular-expression operators
    out.append(("infix-prefix", ASSGN, f'<var> str.++ "x" = {q(lit_var + "x")}', f'forall <var> v in start: (= (str.++ v "x") {q(lit_var + "x")})', "infix str.++"))
    out.append(("infix-prefix", NUMS, 'str.in_re(<num>, str.to_re("1") re.++ re.*(re.range("0", "9")))', 'forall <num> n in start: (str.in_re n (re.++ (str.to_re "1") (re.* (re.range "0" "9"))))', "infix re.++"))
    out.append(("infix-prefix", ASSGN, f'<var> str.<= {q(lit_var)}', f'forall <var> v in start: (str.<= v {q(lit_var)})', "infix str.<="))
    return [t for t in out if t[3] is not None]


# ---- the child-step translation itself: ISLa's match expressions vs the model's `XPath.childMTrees` ----------------

XP_GRAMMARS = [ASSGN, NUMS, PAIRS, ROW]


def isla_child_mtrees(g, V: str, T_: str, i: int):
    """the match expressions ISLa builds for `forall <V> n in start: n.<T>[i] = "..."`: a set of
    (children symbols of the match-expression tree, position of the bound child); None if rejected"""
    from isla.language import parse_isla, QuantifiedFormula, FilterVisitor

    text = f'forall {V} n in start: n.{T_}[{i}] = "x"'
    try:
        f = parse_isla(text, g)
    except Exception as e:  # noqa
        return ("rejected", type(e).__name__, str(e)[:80])
    out = set()
    qs = FilterVisitor(lambda x: isinstance(x, QuantifiedFormula) and x.bind_expression is not None).collect(f)
    for qf in qs:
        for tree, binds in qf.bind_expression.to_tree_prefix(V, g):
            if tree.value != V or tree.children is None:
                return ("unexpected-shape", str(tree))
            syms = []
            for ch in tree.children:
                if ch.children:  # deeper than one level
                    # the text of the alternative was parsed through ANOTHER nonterminal (ambiguous grammar; ISLa keeps
                    # the first parse of a match expression only)
                    frontier = tuple(l.value for _, l in tree.leaves())
                    return ("alternative-parsed-through-another-nonterminal", str(tree.to_parse_tree()), frontier)
                syms.append(ch.value)
            real = [pth for var, pth in binds.items() if not type(var).__name__.endswith("DummyVariable")]
            if len(real) != 1 or len(real[0]) != 1:
                return ("unexpected-binding", str(binds))
            out.add((tuple(syms), real[0][0]))
    return out


def translation_cases(ctx: Ctx):
    """for every nonterminal V, child type T and index i (incl. indices beyond the number of occurrences) of the fixed
    grammars and of random grammars: ISLa's match expressions == model's childMTrees (as sets)"""
    rng = ctx.rng
    grammars = list(XP_GRAMMARS) + [G.gen_acyclic_grammar(rng, eps_prob=0.0, terminals=("a", "b", "0", "x", " ", ";")) for _ in range(3 if ctx.tier == "quick" else 40)]
    for g in grammars:
        c = G.canon(g)
        cases = []
        for V, alts in c.items():
            kids = sorted({s for alt in alts for s in alt if s in c})
            for T_ in kids:
                mx = max(sum(1 for s in alt if s == T_) for alt in alts)
                for i in range(1, min(mx, 12) + 2):
                    cases.append((V, T_, i))
        if len(cases) > 40:
            cases = rng.sample(cases, 40)
        reqs = [[Atom("c08"), Atom("childmtrees"), G.grammar_sexp(g), V, T_, i] for V, T_, i in cases]
        if not reqs:
            continue
        answers = drive(reqs)
        for (V, T_, i), a in zip(cases, answers):
            ctx.evaluations += 1
            ctx.count("translation", "child-step compared")
            model = {(tuple(e), k) for e, k in a} if isinstance(a, list) else None
            real_ = isla_child_mtrees(g, V, T_, i)
            replay = {"grammar": g, "V": V, "T": T_, "i": i, "model": sorted(map(list, model)) if model is not None else str(a), "isla": sorted(map(list, real_)) if isinstance(real_, set) else list(real_)}
            if isinstance(real_, tuple):
                if real_[0] == "rejected" and model == set():
                    ctx.count("translation", "no alternative has that many occurrences: rejected by ISLa, empty in the model")
                    continue
                ctx.violation(f"xpath-translation:{real_[0]}", f"{V}.{T_}[{i}]: ISLa {real_}, model {replay['model']}", replay)
                continue
            ctx.nontriv(("xpath-translation", json.dumps(g, sort_keys=True), V, T_, i))
            if model != real_:
                ctx.violation("xpath-translation:match-expressions-differ", f"{V}.{T_}[{i}]: ISLa builds {sorted(real_)}, the documented translation (XPath.childMTrees) gives {sorted(model or [])}", replay)


def real(text, dts, grammar):
    from isla.evaluator import evaluate
    from isla.isla_predicates import STANDARD_STRUCTURAL_PREDICATES, STANDARD_SEMANTIC_PREDICATES

    out = []
    for dt in dts:
        try:
            r = evaluate(text, dt, grammar, structural_predicates=STANDARD_STRUCTURAL_PREDICATES, semantic_predicates=STANDARD_SEMANTIC_PREDICATES)
            out.append(True if r.is_true() else (False if r.is_false() else None))
        except Exception as e:  # noqa
            out.append(("raises", type(e).__name__, str(e)[:100]))
    return out


def empty_domain_case(g, core: str, t) -> bool:
    """some universally closed nonterminal of the core form does not occur in the tree"""
    import re

    nts = re.findall(r"forall (<[^> ]+>)", core)
    present = {n[1] for _, n in T.paths(t)}
    return any(nt not in present for nt in nts)


def run(ctx: Ctx):
    import logging
    from isla.language import parse_isla
    from isla.isla_predicates import STANDARD_STRUCTURAL_PREDICATES, STANDARD_SEMANTIC_PREDICATES

    ok = ctx.proof_side()
    if not os.path.exists(os.path.join(ROOT, "lean", ".lake", "build", "bin", "isladrv")):
        return "infra"
    logging.disable(logging.CRITICAL)
    rng = ctx.rng
    rounds = 9 if ctx.tier == "quick" else 250
    for rd in range(rounds):
        ctx.check_time()
        for fam, g, sugar, core, note in templates(rng):
            c = G.canon(g)
            trees = [T.gen_tree(rng, c, "<start>", rng.randint(2, 6), T.IdGen()) for _ in range(4)]
            trees = [t for t in trees if T.size(t) <= 70] or trees[:1]
            dts = [T.to_isla(t) for t in trees]
            try:
                fcore = parse_isla(core, g, STANDARD_STRUCTURAL_PREDICATES, STANDARD_SEMANTIC_PREDICATES)
                fs = semconv.formula_to_sexp(fcore, g)
            except Exception as e:  # noqa
                ctx.count("generator", f"core-form-unusable:{fam}:{type(e).__name__}")
                continue
            vs, vc = real(sugar, dts, g), real(core, dts, g)
            refs = [semconv.tv(a) for a in drive([semconv.eval_requests(g, trees, fs, int_bound=max(T.size(t) for t in trees) + 16)])[0]]
            ctx.count("family", fam)
            varied = len({r for r in refs if r is not None}) > 1
            for t, a, b, r in zip(trees, vs, vc, refs):
                ctx.evaluations += 1
                if varied:
                    ctx.nontriv((sugar, T.tree_str(t)))
                replay = {"grammar": g, "family": fam, "sugared": sugar, "core": core, "tree": t, "tree_str": T.tree_str(t), "evaluate_sugared": str(a), "evaluate_core": str(b), "reference_core": r}
                ed = ":empty-domain" if empty_domain_case(g, core, t) else ""
                if isinstance(a, tuple):
                    ctx.violation(f"sugared-raises:{a[1]}:{fam}", f"evaluate raised {a[1]} ({a[2]}) for the sugared constraint {sugar!r}", replay)
                    continue
                if isinstance(b, tuple):
                    ctx.count("core_form", f"raises:{b[1]}")
                    continue
                if a is None or r is None:
                    ctx.count("verdict", "unknown/undecided")
                    continue
                ctx.count("verdict", f"sugar={a}")
                if a != r:
                    ctx.violation(
                        f"sugar-differs-from-documented-core:{fam}{ed}",
                        f"{sugar!r} evaluates to {a} on {T.tree_str(t)!r}; its documented core form {core!r} means {r} (reference; evaluate on the core text: {b})",
                        replay,
                    )
                elif b is not None and b != r:
                    ctx.count("core_form", "evaluate(core) != reference (C03's subject)")
            ctx.sample({"family": fam, "sugared": sugar, "core": core}, limit=8)
    translation_cases(ctx)
    ctx.obligation("sugared constraints evaluate like their hand-expanded documented core forms (verified reference on the core form) on all explored trees", not ctx.violations)
    if not ok and not ctx.violations:
        ctx.violation("proof-obligation-broken", "a proof obligation of C08 no longer checks", {"broken": [n for n, o, _ in ctx.obligations if not o]}, found_input=False)
    ctx.write_evidence(
        RULE,
        [
            "PARTIAL: the emitter's XPath elimination, naming and closure code is not modelled; the theorems cover the logic it relies on (derived connectives, quantifier push-in); the translation itself is validated per template instance against core forms written by hand from the documentation",
            "the hand-expanded core forms are part of the trusted base of this check (templates in harness/props/c08.py)",
            "XPath child step: the translation is modelled (XPath.childMTrees) and proved to mean 'the i-th T-labelled child' (xpath_child_all / xpath_child_ex); ISLa's own match expressions for V.T[i] are compared with the model's as sets for every (V, T, i) of the fixed and of random grammars; the descendant axis and chains of steps are validated by templates only",
        ],
    )


def replay(ctx: Ctx, obj):
    import logging

    logging.disable(logging.CRITICAL)
    g = obj["grammar"]
    t = obj["tree"]
    t = (t[0], t[1], None if t[2] is None else t[2])

    def plain(x):
        return (x[0], x[1], None if x[2] is None else [plain(k) for k in x[2]])

    t = plain(obj["tree"])
    a = real(obj["sugared"], [T.to_isla(t)], g)[0]
    from isla.language import parse_isla
    from isla.isla_predicates import STANDARD_STRUCTURAL_PREDICATES, STANDARD_SEMANTIC_PREDICATES

    fs = semconv.formula_to_sexp(parse_isla(obj["core"], g, STANDARD_STRUCTURAL_PREDICATES, STANDARD_SEMANTIC_PREDICATES), g)
    r = semconv.tv(drive([semconv.eval_requests(g, [t], fs, int_bound=T.size(t) + 16)])[0][0])
    print("sugared:", a, "reference on the core form:", r)
    if a is not None and r is not None and not isinstance(a, tuple) and a != r:
        ctx.violation(obj.get("key", "sugar-differs-from-documented-core"), "reproduced", obj)
