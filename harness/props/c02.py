"""C02 — each ISLaSolver.solve() call returns a tree or raises StopIteration / TimeoutError, never
anything else; once StopIteration or TimeoutError has been raised, every later call raises it again.

Proof side: lean/IslaVerif/Properties/C02.lean — the exit logic of the solve() loop as a state
machine over the loop's events (Model/SolveLoop.lean); theorems for EVERY event stream and call
sequence: StopIteration is sticky, TimeoutError is sticky under a monotone clock, no TimeoutError
without a configured limit, every returned tree was found exactly once and in order.
Tie: real call sequences are traced without source hooks (recording proxies for the `time` and
`heapq` globals of isla.solver, a wrapper around process_new_states) and the recorded events are
replayed through the model: the model must produce the same outcome for every call.  Independently
of the model, every exception class escaping solve() and every non-sticky sequence is a failing
input of the property itself.
"""
from __future__ import annotations

import json
import os
from typing import Any, Dict, List, Optional

from core import Ctx, ROOT, drive
from proto import Atom, enc
from gen import trees as T
import solverun

LEVEL = "proof"

RULE = (
    "cases = call sequences of solve() (up to 8 calls, at least 2 more calls after the first StopIteration/TimeoutError) on solver problems "
    "(documented + generated constraints, settings grid as in C01) with timeout_seconds in {None, 0, 2, 3} under a controlled monotone clock "
    "(advancing 1 s every 1/3/7 readings) or 1 s of real time; evaluations = solve() calls observed; non-trivial = distinct call sequences "
    "(problem, outcome sequence) that contain at least one tree and one terminal outcome, or a timeout"
)


def to_events(call: Dict[str, Any], T_: Optional[int], start_before, q_before: int):
    """raw proxy log of one top-level call -> (callNow, [events]) for the model"""
    raw = list(call.get("raw") or [])
    call_now = 0
    if T_ is not None and start_before is None and raw and raw[0][0] == "clock":
        call_now = raw[0][1]
        raw = raw[1:]
    evts = []
    cur = None  # current iteration: dict(now, popped, found)
    q = q_before

    def close(next_q):
        nonlocal cur, q
        if cur is not None:
            if cur["popped"]:
                q = next_q
                evts.append([cur["now"], next_q, cur["found"]])
            else:
                evts.append([cur["now"], q, []])
            cur = None

    for ent in raw:
        kind = ent[0]
        if kind == "clock":
            close(ent[2])
            cur = {"now": ent[1], "popped": False, "found": []}
        elif kind == "pop":
            if T_ is None:
                # iterations are delimited by pops; an earlier iteration without pop cannot be followed by one
                close(ent[1])
                cur = {"now": 0, "popped": True, "found": []}
            else:
                if cur is None:
                    cur = {"now": 0, "popped": True, "found": []}
                cur["popped"] = True
        elif kind == "proc":
            if cur is not None:
                cur["found"] = list(ent[1])
    close(call.get("qlen_end", 0))
    if T_ is None and q != 0 and call["outcome"] == "tree":
        # the iteration that returned the tree at the `if self.solutions` test (no pop, no clock reading)
        evts.append([0, q, []])
    return call_now, evts


def check_sequence(ctx: Ctx, pb, res):
    text = pb["constraint"]
    calls = res["calls"]
    outs = []
    for c in calls:
        if c["outcome"] == "tree":
            outs.append("tree")
        else:
            outs.append(c["outcome"] if c["outcome"] != "exc" else "exc:" + c["exc"]["cls"])
    ctx.evaluations += len(calls)
    sett = ",".join(f"{k}={v}" for k, v in sorted(pb["settings"].items())) or "defaults"
    base_replay = {"problem": pb, "outcomes": outs}
    # ---- property level -----------------------------------------------------------------------
    for k, c in enumerate(calls):
        if c["outcome"] == "exc":
            e = c["exc"]
            ctx.violation(
                f"solve-raises:{e['cls']}:{e['where']}",
                f"solve() call {k+1} raised {e['cls']} ({e['msg'][:100]}) in {e['where']} for {text!r} [{sett}]",
                dict(base_replay, exception=e, call=k + 1),
            )
    first_end = next((i for i, o in enumerate(outs) if o in ("stop", "timeout")), None)
    if first_end is not None:
        for j in range(first_end + 1, len(outs)):
            if outs[j] != outs[first_end] and not outs[j].startswith("exc:"):
                unsat = ":unsat-support" if pb["settings"].get("activate_unsat_support") else ""
                ctx.violation(
                    f"not-sticky:{outs[first_end]}->{outs[j]}{unsat}",
                    f"solve() raised {outs[first_end]} at call {first_end+1} but call {j+1} gave {outs[j]} for {text!r} [{sett}, timeout={pb.get('timeout')}]",
                    dict(base_replay, first=first_end + 1, later=j + 1),
                )
                break
    if ("tree" in outs and first_end is not None) or "timeout" in outs:
        ctx.nontriv((text, sett, tuple(outs)))
    ctx.count("sequence", ",".join(o[:1] if o in ("tree", "stop") else ("T" if o == "timeout" else "E") for o in outs))
    # ---- model level ----------------------------------------------------------------------------
    if not pb.get("trace") or "state0" not in res:
        return None
    T_ = pb.get("timeout")
    s0 = res["state0"]
    call_nows, evts = [], []
    start, q = s0["start"], s0["qlen"]
    usable = []
    for c in calls:
        if c["outcome"] == "exc":
            break
        cn, ev = to_events(c, T_, start, q)
        call_nows.append(cn)
        evts.extend(ev)
        usable.append(c)
        start, q = c.get("start_end"), c.get("qlen_end", 0)
    if not usable:
        return None
    req = [
        Atom("c02"),
        Atom("run"),
        Atom("none") if T_ is None else T_,
        [s0["qlen"], list(s0["sols"]), Atom("none") if s0["start"] is None else s0["start"]],
        call_nows,
        evts,
    ]
    return req, usable, base_replay


def compare_model(ctx: Ctx, pending):
    if not pending:
        return
    answers = drive([p[0] for p in pending])
    for (req, usable, replay), ans in zip(pending, answers):
        real = []
        for c in usable:
            real.append(["tree", c["id"]] if c["outcome"] == "tree" else c["outcome"])
        model = []
        for a in ans if isinstance(ans, list) else []:
            if isinstance(a, list):
                model.append(["tree", a[1]])
            else:
                model.append(str(a))
        ctx.count("model", "agrees" if model == real else "differs")
        if model != real:
            ctx.model_diffs.append(dict(replay, model=model, real=real, request=enc(req)[:4000]))


def summarize(ctx: Ctx, pb, res):
    ctx.count("origin", pb["origin"])
    ctx.count("timeout", f"{pb.get('timeout')}/{'fake-clock' if pb.get('fake_clock') else 'real-clock'}")
    for k in pb["settings"]:
        ctx.count("setting", f"{k}={pb['settings'][k]}")
    if res.get("killed"):
        ctx.count("problem", "wall-guard (no verdict)")
        return False
    if res.get("harness_error"):
        ctx.count("problem", "worker-error:" + res["harness_error"][:60])
        return False
    if res.get("ctor_exc"):
        ctx.count("problem", "constructor-raises:" + res["ctor_exc"]["cls"] + ":" + res["ctor_exc"]["where"])
        return False
    ctx.count("problem", "ran")
    return True


def make_problems(ctx: Ctx, n: int):
    problems = []
    d = os.path.join(ROOT, "corpus", "C02")
    if os.path.isdir(d):
        for fn in sorted(os.listdir(d)):
            if fn.endswith(".json"):
                pb = json.load(open(os.path.join(d, fn)))["problem"]
                pb.setdefault("origin", "corpus")
                problems.append(pb)
    for i in range(n):
        pb = solverun.gen_problem(ctx.rng, i)
        pb["rseed"] = ctx.rng.randint(0, 10**6)
        pb["calls"] = 8
        pb["calls_after_end"] = 2
        pb["trace"] = True
        r = ctx.rng.random()
        if r < 0.07:
            # a timeout of 0 seconds is a configured timeout (trees until a full second has passed)
            pb["timeout"] = 0
            pb["fake_clock"] = {"start": 1000, "every": ctx.rng.choice([3, 7, 20]), "step": 1}
        elif r < 0.35:
            pb["timeout"] = None
        elif r < 0.85:
            pb["timeout"] = ctx.rng.choice([2, 3])
            pb["fake_clock"] = {"start": 1000, "every": ctx.rng.choice([1, 3, 7]), "step": 1}
        else:
            pb["timeout"] = 1
        problems.append(pb)
    return problems


def run(ctx: Ctx):
    ok = ctx.proof_side()
    if not os.path.exists(os.path.join(ROOT, "lean", ".lake", "build", "bin", "isladrv")):
        return "infra"
    quick = ctx.tier == "quick"
    ctx.model_diffs = []
    problems = make_problems(ctx, 120 if quick else 1200)
    pending = []
    soft_deadline = ctx.t0 + (150 if quick else 2400)
    for pb, res in solverun.run_all(problems, wall_limit=30.0, deadline=soft_deadline):
        if not summarize(ctx, pb, res):
            continue
        r = check_sequence(ctx, pb, res)
        if r is not None:
            pending.append(r)
        if len(ctx.samples) < 8:
            ctx.sample({"constraint": pb["constraint"], "settings": pb["settings"], "timeout": pb.get("timeout"), "outcomes": [c["outcome"] for c in res["calls"]]})
        if len(pending) >= 50:
            compare_model(ctx, pending)
            pending = []
    compare_model(ctx, pending)
    agree = not ctx.model_diffs
    ctx.obligation("correspondence: the state-machine model reproduces the outcome of every traced solve() call", agree, "" if agree else f"{len(ctx.model_diffs)} sequences differ")
    ctx.obligation("no exception other than StopIteration/TimeoutError escaped solve(); terminal outcomes were sticky (explored sequences)", not ctx.violations)
    if ctx.model_diffs and not ctx.violations:
        # the model and the code disagree but no call sequence violated the property itself
        d = ctx.model_diffs[0]
        ctx.violation(
            "correspondence-broken:solve-loop",
            f"the solve-loop model no longer reproduces the real outcomes (e.g. model {d['model']} vs real {d['real']} for {d['problem']['constraint']!r}); "
            "no call sequence violating the property was found",
            {"clause": "correspondence: solve() exit logic vs IslaVerif.SolveLoop.run", "examples": ctx.model_diffs[:3]},
            found_input=False,
        )
    if not ok and not ctx.violations:
        ctx.violation("proof-obligation-broken", "a proof obligation of C02 no longer checks", {"broken": [n for n, o, _ in ctx.obligations if not o]}, found_input=False)
    ctx.write_evidence(
        RULE,
        [
            "PARTIAL: 'never raises any other exception' is a theorem only for the modelled exit logic; for the 4000-line solver body it is explored (exception classes escaping solve() on the explored problems)",
            "the loop's events are observed through proxies for the module globals time/heapq of isla.solver and a wrapper of process_new_states (no source hooks)",
            "problems stopped by the 30 s wall guard give no verdict and are counted; exceptions raised by the ISLaSolver constructor are counted, not judged (the property is about solve())",
        ],
    )


def replay(ctx: Ctx, obj):
    ctx.model_diffs = []
    pb = obj["problem"]
    for _pb, res in solverun.run_all([pb], wall_limit=90.0, procs=1):
        if summarize(ctx, pb, res):
            r = check_sequence(ctx, pb, res)
            if r is not None:
                compare_model(ctx, [r])
    if ctx.model_diffs and not ctx.violations:
        ctx.violation("correspondence-broken:solve-loop", "model and real outcomes differ on the replayed sequence", {"examples": ctx.model_diffs[:1]}, found_input=False)
