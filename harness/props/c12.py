"""C12 — completing an open tree with the grammar fuzzer yields a closed derivation tree that keeps every
already expanded part unchanged; a mutation of a closed tree yields a closed derivation tree with
the same root symbol.

Proof side: lean/IslaVerif/Properties/C12.lean — for EVERY sequence of expansion choices the result
stays a valid tree with the input as identity-preserving prefix (expandRun_ok), replacement and
swapping of same-symbol subtrees keep validity and the root (replace_ok, swap_ok); the result
checkers are sound.  The strategies that pick the choices (cost phases, coverage, random) are not
modelled: every output of the real expand_tree / mutate is certified by the compiled checker.
"""
from __future__ import annotations

import json
import os
import random as pyrandom
from typing import Any, Dict, List

from core import Ctx, ROOT, drive
from proto import Atom, enc
from gen import grammars as G
from gen import trees as T

LEVEL = "proof"

RULE = (
    "cases = (a) open derivation trees (random derivations cut open at random nonterminal nodes, incl. the bare start symbol and trees with "
    "epsilon-expanded nodes) completed by GrammarFuzzer and GrammarCoverageFuzzer.expand_tree with random min/max_nonterminals under "
    "different random seeds; (b) closed trees mutated by Mutator.mutate (replace / generalize / swap strategies, 1-6 mutations) and by each "
    "strategy directly; grammars = random acyclic grammars with epsilon alternatives and recursion, the assignment language, a nested tag "
    "language; evaluations = results certified; non-trivial = distinct (grammar, input tree, result string)"
)

TAGS = {
    "<start>": ["<doc>"],
    "<doc>": ["<elem>"],
    "<elem>": ["<open><inner><close>", "<open><close>", "<leaf>"],
    "<inner>": ["<elem>", "<elem><inner>", "<text>"],
    "<open>": ["(<id>"],
    "<close>": [")"],
    "<leaf>": ["[<id>]"],
    "<id>": ["a", "b", "c"],
    "<text>": ["x", "y", "x<text>", ""],
}
ASSGN = {
    "<start>": ["<stmt>"],
    "<stmt>": ["<assgn> ; <stmt>", "<assgn>"],
    "<assgn>": ["<var> := <rhs>"],
    "<rhs>": ["<var>", "<digit>"],
    "<var>": ["a", "b", "c"],
    "<digit>": ["0", "1", "2"],
}


def pick_grammar(rng):
    r = rng.random()
    if r < 0.2:
        return ASSGN, "assgn"
    if r < 0.4:
        return TAGS, "tags"
    return G.gen_acyclic_grammar(rng, eps_prob=0.15, no_unit=True, terminals=("a", "b", "0", "x", " ", ";")), "random"


def check_completion(ctx: Ctx, g, gname: str, t: T.PT):
    from isla.fuzzer import GrammarFuzzer, GrammarCoverageFuzzer

    rng = ctx.rng
    dt = T.to_isla_fresh(t)
    t_plain = T.from_isla(dt)
    kind = rng.choice(["coverage", "plain"])
    # min_nonterminals stays at its default 0 (as everywhere in ISLa): with a positive value the inherited fuzzingbook
    # strategy does not terminate on grammars whose maximum-cost expansion keeps the number of open leaves at one
    # (<b> ::= <b>";" | ...) - termination is runtime behaviour outside the model, see DESIGN.md
    lo = 0
    hi = rng.choice([0, 1, 3, 10, 10])
    pyrandom.seed(rng.randint(0, 10**9))
    replay = {"grammar": g, "tree": t_plain, "tree_str": T.tree_str(t_plain), "fuzzer": kind, "min_nonterminals": lo, "max_nonterminals": hi}
    ctx.count("completion", f"{gname}/{kind}")
    ctx.count("open_leaves", min(10, sum(1 for _, n in T.paths(t_plain) if n[2] is None)))
    try:
        fz = (GrammarCoverageFuzzer if kind == "coverage" else GrammarFuzzer)(g, min_nonterminals=lo, max_nonterminals=hi)
        r = fz.expand_tree(dt)
    except Exception as e:  # noqa
        ctx.violation(f"expand_tree-raises:{type(e).__name__}", f"expand_tree raised {type(e).__name__}: {str(e)[:100]} on {replay['tree_str']!r}", replay)
        return None
    return ("completion", t_plain, T.from_isla(r), replay)


def check_mutation(ctx: Ctx, g, gname: str, t: T.PT):
    from isla.mutator import Mutator

    rng = ctx.rng
    dt = T.to_isla_fresh(t)
    t_plain = T.from_isla(dt)
    lo = rng.randint(1, 3)
    hi = lo + rng.randint(0, 3)
    how = rng.choice(["mutate", "mutate", "replace_subtree_randomly", "generalize_subtree", "swap_subtrees"])
    pyrandom.seed(rng.randint(0, 10**9))
    replay = {"grammar": g, "tree": t_plain, "tree_str": T.tree_str(t_plain), "how": how, "min_mutations": lo, "max_mutations": hi}
    ctx.count("mutation", f"{gname}/{how}")
    try:
        m = Mutator(g, min_mutations=lo, max_mutations=hi)
        if how == "mutate":
            r = m.mutate(dt)
        else:
            from returns.maybe import Nothing

            res = getattr(m, how)(dt)
            if res == Nothing:
                ctx.count("mutation", "strategy-not-applicable")
                return None
            r = res.unwrap()
    except Exception as e:  # noqa
        ctx.violation(f"mutate-raises:{type(e).__name__}:{how}", f"Mutator.{how} raised {type(e).__name__}: {str(e)[:100]} on {replay['tree_str']!r}", replay)
        return None
    return ("mutation", t_plain, T.from_isla(r), replay)


def certify(ctx: Ctx, g, items: List[Any]):
    if not items:
        return
    gs = enc(G.grammar_sexp(g))
    answers = drive([f"(tree {kind} {gs} {enc(T.to_sexp(t))} {enc(T.to_sexp(r))})" for kind, t, r, _ in items])
    for (kind, t, r, replay), a in zip(items, answers):
        ctx.evaluations += 1
        names = ["valid-derivation-tree", "closed", "expanded-part-unchanged" if kind == "completion" else "same-root"]
        bad = [n for n, ok in zip(names, a[:3]) if ok is not True]
        if bad:
            what = "expand_tree" if kind == "completion" else f"Mutator.{replay['how']}"
            ctx.violation(
                f"{kind}:{bad[0]}" + (f":{replay['how']}" if kind == "mutation" else f":{replay['fuzzer']}"),
                f"{what} on {replay['tree_str']!r} produced {T.tree_str(r)!r} failing {bad}",
                dict(replay, result=r, failed=bad),
            )
        else:
            ctx.count("certified", kind)
            ctx.nontriv((kind, json.dumps(g, sort_keys=True), replay["tree_str"], T.tree_str(r)))
        ctx.sample({"kind": kind, "input": replay["tree_str"], "result": T.tree_str(r)}, limit=8)


def plain(t):
    return (t[0], t[1], None if t[2] is None else [plain(k) for k in t[2]])


def run(ctx: Ctx):
    import logging

    ok = ctx.proof_side()
    if not os.path.exists(os.path.join(ROOT, "lean", ".lake", "build", "bin", "isladrv")):
        return "infra"
    logging.disable(logging.CRITICAL)
    rng = ctx.rng
    n = 130 if ctx.tier == "quick" else 3000
    for i in range(n):
        ctx.check_time()
        g, gname = pick_grammar(rng)
        c = G.canon(g)
        items = []
        for _ in range(3):
            full = T.gen_tree(rng, c, "<start>", rng.randint(2, 6), T.IdGen(), eps_child=rng.random() < 0.5)
            if T.size(full) > 80:
                continue
            r = rng.random()
            if r < 0.1:
                t = (1, "<start>", None)
            else:
                t = T.cut_open(rng, full, p_cut=rng.choice([0.2, 0.4, 0.7]))
            it = check_completion(ctx, g, gname, t)
            if it:
                items.append(it)
            if T.size(full) <= 50:
                it = check_mutation(ctx, g, gname, full)
                if it:
                    items.append(it)
                # trees rooted in other nonterminals are mutated as well (the solver mutates whole inputs, the API any tree)
                subs = [nd for pth, nd in T.paths(full) if pth and nd[1] in c and nd[2]]
                if subs and rng.random() < 0.5:
                    it = check_mutation(ctx, g, gname, rng.choice(subs))
                    if it:
                        items.append(it)
        certify(ctx, g, items)
    ctx.obligation("certification: every tree returned by expand_tree / the mutator on the explored inputs is accepted by the proved checkers", not ctx.violations)
    if not ok and not ctx.violations:
        ctx.violation("proof-obligation-broken", "a proof obligation of C12 no longer checks", {"broken": [n for n, o, _ in ctx.obligations if not o]}, found_input=False)
    ctx.write_evidence(
        RULE,
        [
            "the strategies that select expansions / mutation sites are not modelled (the theorems hold for every selection); outputs are certified one by one; termination of the real strategies is runtime behaviour outside the model",
            "'keeps every already expanded part unchanged' is read as: wherever the input is expanded, the result has the same node (identity, label, number of children) - open leaves are holes (the fuzzer gives an expanded leaf a new identity)",
        ],
    )


def replay(ctx: Ctx, obj):
    import logging

    logging.disable(logging.CRITICAL)
    g = obj["grammar"]
    t = plain(obj["tree"])
    items = []
    for _ in range(20):
        it = check_completion(ctx, g, "replay", t) if "fuzzer" in obj else check_mutation(ctx, g, "replay", t)
        if it:
            items.append(it)
    certify(ctx, g, items)
