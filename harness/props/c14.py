"""C14 — helpers that build trees to a target meet that target: create_fixed_length_tree gives a string of
exactly the requested length; numeric model values are parsed into a tree of the nonterminal that
denotes the requested integer; count completion gives exactly the requested number of needle nodes
with no open leaf that can still produce one.

Proof side: lean/IslaVerif/Properties/C14.lean — the three result checkers are proved sound
(fixedLenCheck_sound, numericCheck_sound, countCheck_sound), including grammar reachability decided by
a self-certifying saturation (reachSet_iff: membership in the certified set IS reachability).
The search procedures themselves are not modelled: every result of the real helpers is certified.
"""
from __future__ import annotations

import json
import os
import random as pyrandom
from typing import Any, Dict, List

from core import Ctx, ROOT, drive
from proto import Atom, enc
from gen import grammars as G
from gen import trees as T

LEVEL = "proof"
REPLAY_BY_SEED = True

RULE = (
    "cases = (a) create_fixed_length_tree(start, grammar, n) for every nonterminal of random acyclic grammars (epsilon alternatives, "
    "recursion) and number/assignment grammars, n in 0..14, several random seeds; (b) extract_model_value for integer-valued variables over "
    "numeral nonterminals (plain, zero-padded, signed, fixed-width, leading-non-zero) and values incl. 0, negatives, 10^k boundaries; "
    "(c) count(tree, needle, n) on open argument trees (random prefixes cut open, bare nonterminals) with needles reachable / unreachable "
    "from the open leaves, targets around the current count; evaluations = results certified; non-trivial = distinct (helper, grammar, "
    "arguments) with a result tree"
)

NUMS = {"<start>": ["<list>"], "<list>": ["<num>", "<num>,<list>"], "<num>": ["<dig>", "<dig><num>"], "<dig>": ["0", "1", "2", "9"]}
ASSGN = {
    "<start>": ["<stmt>"],
    "<stmt>": ["<assgn> ; <stmt>", "<assgn>"],
    "<assgn>": ["<var> := <rhs>"],
    "<rhs>": ["<var>", "<digit>"],
    "<var>": ["a", "b", "c"],
    "<digit>": ["0", "1", "2"],
}
CSVLIKE = {
    "<start>": ["<rows>"],
    "<rows>": ["<row>", "<row><rows>"],
    "<row>": ["<fields>\n"],
    "<fields>": ["<field>", "<field>;<fields>"],
    "<field>": ["", "x", "<field>y"],
}
NUMERIC_GRAMMARS = {
    "plain": ({"<start>": ["<n>"], "<n>": ["<d>", "<d><n>"], "<d>": [str(i) for i in range(10)]}, "<n>"),
    "nonzero-lead": ({"<start>": ["<n>"], "<n>": ["<l>", "<l><ds>", "0"], "<ds>": ["<d>", "<d><ds>"], "<l>": [str(i) for i in range(1, 10)], "<d>": [str(i) for i in range(10)]}, "<n>"),
    "signed": ({"<start>": ["<i>"], "<i>": ["<s><n>"], "<s>": ["", "+", "-"], "<n>": ["<d>", "<d><n>"], "<d>": [str(i) for i in range(10)]}, "<i>"),
    "plus-required": ({"<start>": ["<i>"], "<i>": ["+<n>", "-<n>"], "<n>": ["<d>", "<d><n>"], "<d>": [str(i) for i in range(10)]}, "<i>"),
    "width3": ({"<start>": ["<n>"], "<n>": ["<d><d><d>"], "<d>": [str(i) for i in range(10)]}, "<n>"),
    "padded2+": ({"<start>": ["<n>"], "<n>": ["<d><d>", "<d><n>"], "<d>": [str(i) for i in range(10)]}, "<n>"),
}


def fixed_length(ctx: Ctx, n: int):
    from isla.solver import create_fixed_length_tree
    from isla.helpers import canonical

    rng = ctx.rng
    reqs, meta = [], []
    for i in range(n):
        r = rng.random()
        if r < 0.15:
            g, gname = NUMS, "nums"
        elif r < 0.3:
            g, gname = CSVLIKE, "csv-like"
        else:
            g, gname = G.gen_acyclic_grammar(rng, eps_prob=0.15, no_unit=rng.random() < 0.5, terminals=("a", "b", "0", "x", " ", ";", "ab")), "random"
        cg = canonical(g)
        for nt in rng.sample(list(g), min(3, len(g))):
            target = rng.randint(0, 14)
            pyrandom.seed(rng.randint(0, 10**9))
            ctx.evaluations += 1
            ctx.count("fixed_length", gname)
            replay = {"helper": "create_fixed_length_tree", "grammar": g, "start": nt, "target_length": target}
            try:
                t = ctx_guard(lambda: create_fixed_length_tree(nt, cg, target))
            except (GuardTimeout, MemoryError):
                ctx.count("fixed_length", "no-answer-within-8s")
                continue
            except Exception as e:  # noqa
                ctx.violation(f"fixed-length:raises:{type(e).__name__}", f"create_fixed_length_tree({nt}, n={target}) raised {type(e).__name__}: {str(e)[:80]}", replay)
                continue
            if t is None:
                ctx.count("fixed_length_result", "None")
                continue
            ctx.count("fixed_length_result", "tree")
            p = T.from_isla(t)
            reqs.append(f"(tgt fixedlen {enc(G.grammar_sexp(g))} {enc(nt)} {target} {enc(T.to_sexp(p))})")
            meta.append((replay, p))
            ctx.nontriv(("fixedlen", json.dumps(g, sort_keys=True), nt, target))
    for (replay, p), a in zip(meta, drive(reqs) if reqs else []):
        names = ["valid-derivation-tree", "closed", "root-is-start", "length-equals-target"]
        bad = [nm for nm, ok in zip(names, a[:4]) if ok is not True]
        if bad:
            ctx.violation(f"fixed-length:{bad[0]}", f"create_fixed_length_tree({replay['start']}, n={replay['target_length']}) returned {T.tree_str(p)!r} failing {bad}", dict(replay, result=p))
    ctx.sample({"helper": "create_fixed_length_tree", "calls": n * 3})


class GuardTimeout(BaseException):
    """not an Exception: the helpers under test must not be able to swallow it"""


def ctx_guard(fn, seconds: int = 8):
    import signal

    def on_alarm(signum, frame):
        raise GuardTimeout()

    import resource

    old = signal.signal(signal.SIGALRM, on_alarm)
    soft, hard = resource.getrlimit(resource.RLIMIT_AS)
    try:
        # a runaway call ends in MemoryError instead of starving the machine (only around the call: lake / the
        # driver reserve a large address space)
        resource.setrlimit(resource.RLIMIT_AS, (16 << 30, hard))
    except (ValueError, OSError):
        pass
    signal.alarm(seconds)
    try:
        return fn()
    finally:
        signal.alarm(0)
        signal.signal(signal.SIGALRM, old)
        try:
            resource.setrlimit(resource.RLIMIT_AS, (soft, hard))
        except (ValueError, OSError):
            pass


def numeric_values(ctx: Ctx, n: int):
    import z3
    from isla.solver import ISLaSolver
    from isla import language as L
    from isla.z3_helpers import z3_eq

    rng = ctx.rng
    solvers = {}
    reqs, meta = [], []
    for i in range(n):
        name = rng.choice(list(NUMERIC_GRAMMARS))
        g, nt = NUMERIC_GRAMMARS[name]
        if name not in solvers:
            solvers[name] = ISLaSolver(g)
        solver = solvers[name]
        v = rng.choice([0, 1, 7, 9, 10, 11, 99, 100, 101, 999, 1000, 12345, -1, -7, -10, -100, rng.randint(-2000, 2000), 10 ** rng.randint(1, 12)])
        var = L.Variable("x", nt)
        x0 = z3.Int("x_0")
        s = z3.Solver()
        s.add(z3_eq(x0, z3.IntVal(v)))
        s.check()
        model = s.model()
        ctx.evaluations += 1
        ctx.count("numeric", name)
        replay = {"helper": "extract_model_value (int variable)", "grammar_name": name, "grammar": g, "nonterminal": nt, "value": v}
        try:
            t = ctx_guard(lambda: solver.extract_model_value(var, model, {var: x0}, set(), {var}))
        except (GuardTimeout, MemoryError):
            ctx.count("numeric_result", "no-answer-within-8s")
            continue
        except RuntimeError as e:
            # the documented refusal: no numeral of the nonterminal denotes the number
            ctx.count("numeric_result", "RuntimeError:" + str(e)[:30])
            continue
        except Exception as e:  # noqa
            ctx.violation(f"numeric:raises:{type(e).__name__}:{name}", f"extract_model_value({nt}, {v}) raised {type(e).__name__}: {str(e)[:80]}", replay)
            continue
        ctx.count("numeric_result", "tree")
        p = T.from_isla(t)
        reqs.append(f"(tgt numeric {enc(G.grammar_sexp(g))} {enc(nt)} {v} {enc(T.to_sexp(p))})")
        meta.append((replay, p))
        ctx.nontriv(("numeric", name, v))
    for (replay, p), a in zip(meta, drive(reqs) if reqs else []):
        names = ["valid-derivation-tree", "closed", "root-is-nonterminal", "denotes-the-number"]
        bad = [nm for nm, ok in zip(names, a[:4]) if ok is not True]
        if bad:
            ctx.violation(f"numeric:{bad[0]}:{replay['grammar_name']}", f"model value {replay['value']} for {replay['nonterminal']} became {T.tree_str(p)!r} failing {bad}", dict(replay, result=p))
    ctx.sample({"helper": "extract_model_value", "calls": n})


def count_completion(ctx: Ctx, n: int):
    from isla.isla_predicates import COUNT_PREDICATE
    from isla.derivation_tree import DerivationTree
    import grammar_graph.gg as gg

    rng = ctx.rng
    reqs, meta = [], []
    graphs = {}
    for i in range(n):
        r = rng.random()
        if r < 0.25:
            g, gname = CSVLIKE, "csv-like"
        elif r < 0.45:
            g, gname = ASSGN, "assgn"
        elif r < 0.6:
            g, gname = NUMS, "nums"
        else:
            g, gname = G.gen_acyclic_grammar(rng, eps_prob=0.1, no_unit=True, terminals=("a", "b", "0", "x", ";")), "random"
        key = json.dumps(g, sort_keys=True)
        if key not in graphs:
            graphs[key] = gg.GrammarGraph.from_grammar(g)
        graph = graphs[key]
        c = G.canon(g)
        nts = [k for k in g if k != "<start>"]
        root = rng.choice(nts + ["<start>"])
        full = T.gen_tree(rng, c, root, rng.randint(1, 5), T.IdGen())
        if T.size(full) > 50:
            continue
        k = rng.random()
        if k < 0.2:
            arg = (1, root, None)
        else:
            arg = T.cut_open(rng, full, p_cut=rng.choice([0.3, 0.5, 0.8]))
        needle = rng.choice(nts)
        have = sum(1 for _, nd in T.paths(arg) if nd[1] == needle)
        target = max(0, have + rng.choice([-1, 0, 0, 1, 1, 2, 3]))
        dt = T.to_isla_fresh(arg)
        arg_plain = T.from_isla(dt)
        pyrandom.seed(rng.randint(0, 10**9))
        ctx.evaluations += 1
        ctx.count("count", gname)
        replay = {"helper": "count", "grammar": g, "argument": arg_plain, "argument_str": T.tree_str(arg_plain), "needle": needle, "target": target}
        try:
            res = ctx_guard(lambda: COUNT_PREDICATE.evaluate(graph, dt, needle, DerivationTree(str(target), ())))
        except (GuardTimeout, MemoryError):
            ctx.count("count_result", "no-answer-within-8s")
            continue
        except AssertionError:
            # insert_tree's own tree_is_valid assertion (third-party validator false negatives, see C13)
            ctx.count("count_result", "AssertionError (insert_tree)")
            continue
        except Exception as e:  # noqa
            ctx.violation(f"count:raises:{type(e).__name__}", f"count({replay['argument_str']!r}, {needle}, {target}) raised {type(e).__name__}: {str(e)[:80]}", replay)
            continue
        if res.true() or res.false():
            ctx.count("count_result", f"verdict:{res.true()}")
            open_leaves = [nd[1] for _, nd in T.paths(arg_plain) if nd[2] is None]
            # a definite verdict on an open tree is judged by the reachability oracle
            reqs.append(f"(tgt count {enc(G.grammar_sexp(g))} {enc(T.to_sexp(arg_plain))} {enc(needle)} {target} {enc(T.to_sexp(arg_plain))})")
            meta.append(("verdict", res.true(), replay, arg_plain))
            continue
        if not res.ready():
            ctx.count("count_result", "not-ready")
            continue
        ctx.count("count_result", "completion")
        sub = res.result
        rt = list(sub.values())[0]
        p = T.from_isla(rt)
        reqs.append(f"(tgt count {enc(G.grammar_sexp(g))} {enc(T.to_sexp(arg_plain))} {enc(needle)} {target} {enc(T.to_sexp(p))})")
        meta.append(("completion", None, replay, p))
        ctx.nontriv(("count", key, replay["argument_str"], needle, target))
    for (kind, verdict, replay, p), a in zip(meta, drive(reqs) if reqs else []):
        if not isinstance(a, list):
            ctx.count("count_oracle", "reachability-not-certified")
            continue
        names = ["valid-derivation-tree", "same-root", "needle-count-equals-target", "no-open-leaf-reaches-needle", "argument-nodes-kept-with-their-expansion"]
        if kind == "completion":
            bad = [nm for nm, ok in zip(names, a[:5]) if ok is not True]
            if bad:
                ctx.violation(f"count:completion:{bad[0]}", f"count({replay['argument_str']!r}, {replay['needle']}, {replay['target']}) proposed {T.tree_str(p)!r} failing {bad}", dict(replay, result=p))
        else:
            count_ok, closed_for_needle = a[2], a[3]
            # True only if the count is right and nothing can be added; False only if it cannot become right
            if verdict is True and not (count_ok is True and closed_for_needle is True):
                ctx.violation("count:verdict-true", f"count({replay['argument_str']!r}, {replay['needle']}, {replay['target']}) answered True although the count is wrong or an open leaf can still produce a needle", replay)
            if verdict is False and count_ok is True and closed_for_needle is True:
                ctx.violation("count:verdict-false", f"count({replay['argument_str']!r}, {replay['needle']}, {replay['target']}) answered False although exactly {replay['target']} needles occur and no more can", replay)
    ctx.sample({"helper": "count", "calls": n})


def limit_memory(gib: int = 12):
    import resource

    try:
        soft, hard = resource.getrlimit(resource.RLIMIT_AS)
        resource.setrlimit(resource.RLIMIT_AS, (gib << 30, hard))
    except (ValueError, OSError):
        pass


def run(ctx: Ctx):
    import logging

    ok = ctx.proof_side()
    if not os.path.exists(os.path.join(ROOT, "lean", ".lake", "build", "bin", "isladrv")):
        return "infra"
    logging.disable(logging.CRITICAL)
    quick = ctx.tier == "quick"
    fixed_length(ctx, 60 if quick else 1500)
    numeric_values(ctx, 150 if quick else 3000)
    count_completion(ctx, 250 if quick else 4000)
    ctx.obligation("certification: every result of create_fixed_length_tree / extract_model_value / count on the explored inputs is accepted by the proved checkers", not ctx.violations)
    if not ok and not ctx.violations:
        ctx.violation("proof-obligation-broken", "a proof obligation of C14 no longer checks", {"broken": [n for n, o, _ in ctx.obligations if not o]}, found_input=False)
    ctx.write_evidence(
        RULE,
        [
            "the search procedures are not modelled: results are certified one by one; a None / RuntimeError / not-ready answer is not a result and is only counted",
            "count: 'no open leaf can still produce a needle' is decided by the certified reachability saturation (reachSet_iff); an uncertified saturation gives no verdict",
            "numeric values: the checker accepts an optional sign and leading zeros ([+-]?[0-9]+), as the helper's documented number format",
        ],
    )


def replay(ctx: Ctx, obj):
    print("C14 replays: re-run ./check C14 with seed", obj.get("seed"), "— recorded:", {k: obj.get(k) for k in ("helper", "start", "target_length", "nonterminal", "value", "needle", "target", "argument_str")})
    run(ctx)
