"""C21 — every input the solver generates from a shipped formalization (CSV, XML, reST, simple TAR) is valid
under an independent check of the formalized property: equal column counts (CSV); well-formedness,
namespace and attribute rules (XML); underline / link-target / numbering rules (reST); checksums
and field encodings (simple TAR).

Proof side: lean/IslaVerif/Properties/C21.lean — the independent checks are executable
specifications written in Lean from the formats' own rules (NOT from the ISLa constraints), with
sanity theorems (what the CSV scanner counts on quote-free records, padding / checksum facts,
examples of accepted and rejected documents).  They are specifications, not models of ISLa code.
Tie: the real solver runs on the shipped grammar + constraints under a grid of random seeds and cost
settings; every generated input is judged by the compiled specification.
The reST clause "docutils renders without errors" cannot be modelled in Lean (external library); when docutils is
importable it is run as an additional, clearly labelled external oracle (its system messages of level >= 2 and the
heading / enumerated-list counts), otherwise the clause is counted as not checked.
"""
from __future__ import annotations

import json
import os
from typing import Any, Dict, List

from core import Ctx, ROOT, drive
from proto import Atom, enc
from gen import grammars as G
from gen import trees as T

LEVEL = "proof"

RULE = (
    "cases = solutions of the shipped formalizations: CSV (CSV_GRAMMAR + CSV_COLNO_PROPERTY), XML (grammar with namespace prefixes + "
    "well-formedness & namespace & no-attribute-redefinition), reST (LENGTH_UNDERLINE & DEF_LINK_TARGETS & NO_LINK_TARGET_REDEF & "
    "LIST_NUMBERING_CONSECUTIVE), simple TAR (TAR_CONSTRAINTS), each under several random seeds and settings (free / SMT instantiation limits, "
    "cost weight vectors, unique trees); evaluations = generated inputs judged; non-trivial = distinct generated inputs"
)


def jobs(ctx: Ctx, quick: bool):
    rng = ctx.rng
    out = []
    reps = 8 if quick else 60
    for fam in ("csv", "xml", "rest", "tar"):
        for r in range(reps):
            out.append(
                {
                    "family": fam,
                    "rseed": rng.randint(0, 10**6),
                    "free": rng.choice([1, 1, 2, 5, 10]),
                    "smt": rng.choice([1, 2, 3, 5, 10]),
                    "unique": rng.choice([True, False]),
                    "weights": rng.choice([None, (12, 1, 2, 0, 0), (5, 2, 1, 1, 1), (1, 1, 1, 10, 10)]),
                    # CSV / XML: the first solutions are the smallest documents (header-only files, single tags); ask for
                    # enough of them that multi-record files and nested elements are reached
                    "n": ({"csv": 40, "xml": 20, "rest": 10, "tar": 8} if quick else {"csv": 150, "xml": 60, "rest": 30, "tar": 25})[fam],
                    "timeout": 30 if quick else 120,
                }
            )
    return out


def work(job):
    import logging
    import random
    import warnings

    warnings.filterwarnings("ignore")
    logging.disable(logging.CRITICAL)
    import sys

    sys.setrecursionlimit(20000)
    from isla.solver import ISLaSolver, GrammarBasedBlackboxCostComputer, CostSettings, CostWeightVector
    import grammar_graph.gg as gg

    fam = job["family"]
    if fam == "csv":
        from isla_formalizations.csv import CSV_GRAMMAR as g, CSV_COLNO_PROPERTY as c
    elif fam == "xml":
        from isla_formalizations.xml_lang import XML_GRAMMAR_WITH_NAMESPACE_PREFIXES as g, XML_WELLFORMEDNESS_CONSTRAINT, XML_NAMESPACE_CONSTRAINT, XML_NO_ATTR_REDEF_CONSTRAINT

        c = XML_WELLFORMEDNESS_CONSTRAINT & XML_NAMESPACE_CONSTRAINT & XML_NO_ATTR_REDEF_CONSTRAINT
    elif fam == "rest":
        from isla_formalizations import rest

        g = rest.REST_GRAMMAR
        c = rest.LENGTH_UNDERLINE & rest.DEF_LINK_TARGETS & rest.NO_LINK_TARGET_REDEF & rest.LIST_NUMBERING_CONSECUTIVE
    else:
        from isla_formalizations import simple_tar

        g, c = simple_tar.SIMPLE_TAR_GRAMMAR, simple_tar.TAR_CONSTRAINTS
    random.seed(job["rseed"])
    kw: Dict[str, Any] = dict(max_number_free_instantiations=job["free"], max_number_smt_instantiations=job["smt"], enforce_unique_trees_in_queue=job["unique"], timeout_seconds=job["timeout"])
    if fam == "tar":
        kw.update(max_number_free_instantiations=1, max_number_smt_instantiations=1, enforce_unique_trees_in_queue=False)
    if job["weights"]:
        w = job["weights"]
        kw["cost_computer"] = GrammarBasedBlackboxCostComputer(CostSettings(CostWeightVector(tree_closing_cost=w[0], constraint_cost=w[1], derivation_depth_penalty=w[2], low_k_coverage_penalty=w[3], low_global_k_path_coverage_penalty=w[4]), k=3), gg.GrammarGraph.from_grammar(g))
    res = {"family": fam, "solutions": [], "end": None}
    try:
        solver = ISLaSolver(g, c, **kw)
    except BaseException as e:  # noqa
        res["end"] = "constructor:" + type(e).__name__
        return res
    for i in range(job["n"]):
        try:
            t = solver.solve()
            res["solutions"].append({"str": str(t), "tree": T.from_isla(t) if fam == "rest" else None, "docutils": docutils_report(t) if fam == "rest" else None})
        except StopIteration:
            res["end"] = "stop"
            break
        except TimeoutError:
            res["end"] = "timeout"
            break
        except BaseException as e:  # noqa
            res["end"] = "raises:" + type(e).__name__
            break
    if fam == "rest":
        res["grammar"] = {k: list(v) for k, v in g.items()}
    return res


def docutils_report(t):
    """independent of isla_formalizations.rest.render_rst: docutils' own system messages of level >= 2 (what it prints
    to stderr at the default report level), and the number of headings / enumerated lists it recognised"""
    import io
    import re
    from contextlib import redirect_stderr

    try:
        from docutils.core import publish_doctree
    except ImportError:
        return None
    with redirect_stderr(io.StringIO()):
        try:
            doc = publish_doctree(str(t), settings_overrides={"input_encoding": "unicode"})
        except BaseException as e:  # noqa
            return {"crash": type(e).__name__}
    msgs = []
    for m in doc.findall():
        if getattr(m, "tagname", None) == "system_message" and m["level"] >= 2:
            txt = re.sub(r"[0-9]+", "N", re.sub(r'"[^"]*"', '"…"', m.astext().split("\n")[0]))[:70]
            msgs.append([m["level"], txt])
    tags = [getattr(n, "tagname", None) for n in doc.findall()]
    return {
        "messages": msgs,
        "headings": tags.count("title") + tags.count("subtitle"),
        "enumerated_lists": tags.count("enumerated_list"),
        "titles_in_tree": len(t.filter(lambda n: n.value == "<section-title>")),
        "enumerations_in_tree": len(t.filter(lambda n: n.value == "<enumeration>")),
    }


def _child(job, conn):
    try:
        dn = os.open(os.devnull, os.O_WRONLY)
        os.dup2(dn, 2)
        os.dup2(dn, 1)
    except OSError:
        pass
    try:
        r = work(job)
    except BaseException as e:  # noqa
        r = {"family": job["family"], "solutions": [], "end": f"harness:{type(e).__name__}:{e}"}
    try:
        conn.send(r)
    except BaseException:  # noqa
        conn.send({"family": job["family"], "solutions": [], "end": "harness:send"})
    conn.close()


def run_jobs(js, wall):
    import multiprocessing as mp
    import time

    mctx = mp.get_context("fork")
    procs = max(2, min(12, (os.cpu_count() or 4) - 2))
    pending = list(js)
    pending.reverse()
    running = []
    while pending or running:
        while pending and len(running) < procs:
            j = pending.pop()
            a, b = mctx.Pipe(duplex=False)
            p = mctx.Process(target=_child, args=(j, b), daemon=True)
            p.start()
            b.close()
            running.append((j, p, a, time.time()))
        still = []
        for j, p, conn, t0 in running:
            if conn.poll(0):
                try:
                    r = conn.recv()
                except EOFError:
                    r = {"family": j["family"], "solutions": [], "end": "worker died"}
                p.join(5)
                conn.close()
                yield j, r
            elif time.time() - t0 > wall:
                p.kill()
                p.join(5)
                conn.close()
                yield j, {"family": j["family"], "solutions": [], "end": "wall-guard"}
            elif not p.is_alive():
                p.join(1)
                conn.close()
                yield j, {"family": j["family"], "solutions": [], "end": f"exit {p.exitcode}"}
            else:
                still.append((j, p, conn, t0))
        running = still
        time.sleep(0.05)


def judge(ctx: Ctx, job, res):
    fam = res["family"]
    ctx.count("runs", f"{fam}:{res['end']}")
    sols = res["solutions"]
    if not sols:
        return
    reqs = []
    for s in sols:
        if fam == "rest":
            reqs.append(f"(fmt rest {enc(G.grammar_sexp(res['grammar']))} {enc(T.to_sexp(s['tree']))})")
        else:
            reqs.append([Atom("fmt"), Atom(fam), s["str"]])
    for s, a in zip(sols, drive(reqs)):
        ctx.evaluations += 1
        ctx.nontriv((fam, s["str"]))
        ctx.count("judged", fam)
        settings = {k: job[k] for k in ("rseed", "free", "smt", "unique", "weights")}
        replay = {"family": fam, "input": s["str"], "settings": settings}
        if fam == "csv":
            ok, rows = a[0], a[1]
            ctx.count("csv_records", "1" if len(rows) <= 1 else ("2" if len(rows) == 2 else "3+"))
            if ok is not True:
                ctx.violation("csv:column-counts-differ", f"generated CSV file has records with different numbers of fields {rows}: {s['str'][:120]!r}", replay)
        elif fam == "xml":
            if a is not True:
                ctx.violation("xml:not-well-formed-or-namespace/attribute-rule", f"generated XML document violates well-formedness / prefix declaration / attribute uniqueness: {s['str'][:160]!r}", replay)
        elif fam == "tar":
            if a is not True:
                ctx.violation("tar:field-widths-checksum-or-link", f"generated TAR archive violates field widths / checksum / link target rules: {s['str'][:80]!r}", replay)
        else:
            names = ["underline-shorter-than-title", "link-target-redefined", "reference-to-undefined-target", "enumeration-not-consecutive"]
            bad = [n for n, okk in zip(names, a) if okk is not True]
            if bad:
                ctx.violation(f"rest:{bad[0]}", f"generated reST document violates {bad}: {s['str'][:160]!r}", dict(replay, tree=s["tree"]))
            du = s.get("docutils")
            if du is None:
                ctx.count("docutils", "not installed (clause not checked)")
            elif du.get("crash"):
                ctx.violation(f"rest:docutils-crash:{du['crash']}", f"docutils raises {du['crash']} on the generated document {s['str'][:160]!r}", dict(replay, tree=s["tree"], docutils=du))
            else:
                ctx.count("docutils", "rendered:" + ("clean" if not du["messages"] else f"level-{max(m[0] for m in du['messages'])}"))
                errors = [m for m in du["messages"] if m[0] >= 3]
                for m in du["messages"]:
                    if m[0] == 2:
                        # "rendering without ERRORS": docutils' WARNING level is recorded, not judged
                        ctx.count("docutils_warning", m[1])
                        notes = ctx.coverage.setdefault("notes", [])
                        if len(notes) < 10:
                            notes.append(f"docutils WARNING {m[1]!r} on {s['str'][:80]!r}")
                if errors:
                    ctx.violation("rest:docutils-error:" + "_".join(errors[0][1].split()), f"docutils reports {errors[:2]} on the generated document {s['str'][:160]!r}", dict(replay, tree=s["tree"], docutils=du))
                elif du["messages"]:
                    pass  # warnings only: the structural comparisons below assume a clean rendering
                elif du["headings"] != du["titles_in_tree"]:
                    ctx.violation("rest:docutils-headings-differ", f"{du['titles_in_tree']} section titles were rendered to {du['headings']} headings: {s['str'][:160]!r}", dict(replay, tree=s["tree"], docutils=du))
                elif du["enumerations_in_tree"] > du["enumerated_lists"]:
                    ctx.violation("rest:docutils-enumerations-lost", f"{du['enumerations_in_tree']} enumerations were rendered to {du['enumerated_lists']} enumerated lists: {s['str'][:160]!r}", dict(replay, tree=s["tree"], docutils=du))
        ctx.sample({"family": fam, "input": s["str"][:100]}, limit=8)


def run(ctx: Ctx):
    ok = ctx.proof_side()
    if not os.path.exists(os.path.join(ROOT, "lean", ".lake", "build", "bin", "isladrv")):
        return "infra"
    quick = ctx.tier == "quick"
    for job, res in run_jobs(jobs(ctx, quick), wall=75 if quick else 300):
        judge(ctx, job, res)
    ctx.obligation("every generated input of the shipped formalizations is accepted by the independent executable specification", not ctx.violations)
    if not ok and not ctx.violations:
        ctx.violation("proof-obligation-broken", "a proof obligation of C21 no longer checks", {"broken": [n for n, o, _ in ctx.obligations if not o]}, found_input=False)
    ctx.write_evidence(
        RULE,
        [
            "the independent specifications (lean/IslaVerif/Model/Formats.lean) are part of the trusted base: they are specifications of the formats, checked only by sanity theorems and examples",
            "the reST clause 'docutils renders without errors' is outside what a Lean model can express; docutils itself is run as an external oracle when importable (distribution.docutils says how often), it is not part of the proof side; the underline / link / numbering rules are Lean specifications",
            "only generated inputs of the explored seeds / settings are judged; runs ending in timeout or a listed solver crash contribute the inputs generated until then",
        ],
    )


def replay(ctx: Ctx, obj):
    fam = obj["family"]
    if fam == "rest":
        print("reST replays need the derivation tree: re-run ./check C21 with the recorded seed", obj.get("seed"))
        return
    a = drive([[Atom("fmt"), Atom(fam), obj["input"]]])[0]
    ok = a[0] if fam == "csv" else a
    print("specification verdict on the recorded input:", ok)
    if ok is not True:
        ctx.violation(obj.get("key", fam), "the recorded generated input is rejected by the specification", obj)
