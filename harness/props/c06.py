"""C06 — if evaluate() returns TRUE or FALSE for a constraint on a derivation tree with open leaves, every
closed completion of that tree (same node identities) gets the same verdict; UNKNOWN is the only
verdict allowed while the outcome depends on how the open leaves are expanded.

Proof side: lean/IslaVerif/Properties/C06.lean — a conservative three-valued evaluator for open trees
(`evalOpen`: SMT atoms only on closed subtrees, path-only predicates, quantifier domains guarded by
certified grammar reachability from the open leaves) is proved STABLE: a definite answer is the answer
of the reference evaluator — hence of the specification — on EVERY closed completion
(evalOpen_stable, evalOpen_sat).  The real evaluator's own might-match logic is not modelled.
Tie: the real evaluate() is run on open prefixes; each definite verdict is compared with the verified
reference verdict on several closed completions (property level: a contradiction is a failing
input), and `evalOpen` is run alongside as a cross-check of the oracle (it must never contradict a
completion either).
"""
from __future__ import annotations

import json
import os
from typing import Any, Dict, List, Optional

from core import Ctx, ROOT, drive
from proto import Atom, enc
from gen import grammars as G
from gen import trees as T
from gen.formulas import FormulaGen
import semconv

LEVEL = "proof"

RULE = (
    "cases = (grammar, constraint, open tree, closed completion): open trees = random derivations cut open at random nonterminal nodes "
    "(p_cut 0.15-0.6) incl. almost closed and almost bare ones; completions = the original derivation plus 3 random completions of the open "
    "leaves with the same node identities; constraints as in C03 (quantifiers with/without match expressions, the nine structural "
    "predicates, count, SMT atoms, numeric quantifiers); evaluations = (constraint, open tree, completion) triples; non-trivial = triples "
    "where the real evaluator gave a definite verdict on the open tree"
)

WIDE = {"<start>": ["<a>"], "<a>": ["<d>" * 12], "<d>": ["0", "1", "7", "<e>"], "<e>": ["x<d>", "y"]}
ASSGN = {"<start>": ["<stmt>"], "<stmt>": ["<assgn>", "<assgn> ; <stmt>"], "<assgn>": ["<var> := <rhs>"], "<rhs>": ["<var>", "<digit>"], "<var>": ["a", "b", "c"], "<digit>": ["0", "1", "2", "7"]}
NUMS = {"<start>": ["<list>"], "<list>": ["<num>", "<num>,<list>"], "<num>": ["<dig>", "<dig><num>"], "<dig>": ["0", "1", "2", "9"]}

# constraints in the style of the documentation on the assignment language: match expressions rooted in the start
# symbol / a statement list, nested quantifiers ranging over an outer variable
TEMPLATES = [
    'forall <start> s="{<assgn> a} ; {<stmt> t}" in start: (not (= a "a := 1"))',
    'exists <start> s="{<assgn> a} ; {<stmt> t}" in start: (= (str.len a) 6)',
    'forall <start> s="{<var> v} := {<rhs> r}" in start: (not (= v r))',
    'exists <stmt> s="{<assgn> a} ; <stmt>" in start: (str.prefixof "a" a)',
    'forall <stmt> s="{<var> l} := <rhs> ; {<stmt> t}" in start: exists <var> w in t: (= w l)',
    'forall <assgn> a in start: exists <var> v in a: (= v "a")',
    'exists <assgn> a in start: forall <var> v in a: (= v "b")',
    'forall <assgn> a in start: exists <rhs> r in a: exists <digit> d in r: (= d "7")',
    'forall <assgn> a="{<var> l} := {<rhs> r}" in start: exists <assgn> b="{<var> l2} := <rhs>" in start: (before(b, a) and (= l2 r))',
    'exists <assgn> a in start: (str.contains a "7")',
    'exists <assgn> v2="{<var> m3} := <digit>" in start: (= m3 "b")',
    'forall <assgn> v2="{<var> m3} := <digit>" in start: (= m3 "c")',
    'forall <assgn> v1 in start: (exists <assgn> v2="{<var> m3} := <digit>" in v1: ((not (= v2 "b := b"))))',
    'forall <stmt> s="{<var> l} := <digit> ; {<stmt> t}" in start: (not (= l "a"))',
    'forall <stmt> s in start: direct_child(s, start)',
    'forall <stmt> s in start: forall <stmt> s2 in start: same_position(s, s2)',
    'exists <stmt> s in start: exists <stmt> s2 in start: (not same_position(s, s2))',
    'exists <stmt> s in start: (not direct_child(s, start))',
    'forall <stmt> s in start: exists <assgn> a in s: direct_child(a, s)',
    'forall <assgn> a in start: (str.prefixof "a" a)',
    'exists <stmt> s in start: (str.suffixof "2" s)',
    'forall <rhs> r in start: (>= (str.indexof r "a" 0) 0)',
]

UNSTABLE = ("nth(", "consecutive(", "level(", "count(")


def pick_grammar(rng):
    r = rng.random()
    if r < 0.1:
        return WIDE, "wide"
    if r < 0.35:
        return ASSGN, "assgn"
    if r < 0.5:
        return NUMS, "nums"
    return G.gen_acyclic_grammar(rng, eps_prob=0.1, terminals=("a", "b", "0", "1", "x", " ", "ab", ";")), "random"


def feature_key(text: str) -> str:
    if " int " in text:
        # numeric quantifiers switch the whole evaluation to the quantifier-elimination strategy
        return "int-quantifier"
    feats = [p[:-1] for p in UNSTABLE if p in text]
    if '="' in text:
        feats.append("match-expr")
    if " int " in text:
        feats.append("int-quantifier")
    return "+".join(feats) or "plain"


class _EvalTimeout(BaseException):
    pass


def _on_alarm(signum, frame):
    raise _EvalTimeout()


def real_verdict(formula, dt, grammar, limit_s: int = 60):
    """evaluate() with a wall-clock guard: an evaluation that does not come back is no verdict (termination is not
    what C06 states); it is counted and the case is written to the evidence notes"""
    import signal
    from isla.evaluator import evaluate

    old = signal.signal(signal.SIGALRM, _on_alarm)
    signal.alarm(limit_s)
    try:
        r = evaluate(formula, dt, grammar)
        return True if r.is_true() else (False if r.is_false() else None)
    except _EvalTimeout:
        return ("raises", "no-answer-within-%ds" % limit_s, "")
    except Exception as e:  # noqa
        return ("raises", type(e).__name__, str(e)[:100])
    finally:
        signal.alarm(0)
        signal.signal(signal.SIGALRM, old)


def check_case(ctx: Ctx, g, gname: str, text: str, open_t: T.PT, completions: List[T.PT], origin: str):
    from isla.language import parse_isla
    from isla.isla_predicates import STANDARD_STRUCTURAL_PREDICATES, STANDARD_SEMANTIC_PREDICATES

    try:
        f = parse_isla(text, g, STANDARD_STRUCTURAL_PREDICATES, STANDARD_SEMANTIC_PREDICATES)
        fs = semconv.formula_to_sexp(f, g)
    except semconv.Unsupported:
        ctx.count("generator", "unsupported")
        return
    except Exception as e:  # noqa
        ctx.count("generator", "unparsable:" + type(e).__name__)
        return
    if ctx.rng.random() < 0.4:
        # the same node identities are evaluated on a closed completion first (any state kept between calls must not leak)
        real_verdict(f, T.to_isla(completions[0]), g)
        ctx.count("order", "completion-evaluated-first")
    v = real_verdict(f, T.to_isla(open_t), g)
    ctx.count("real_on_open_tree", "raises" if isinstance(v, tuple) else str(v))
    bound = max(T.size(t) for t in completions) + 16
    gs = G.grammar_sexp(g)
    env = [["start", [Atom("path"), []]]]
    reqs = [semconv.eval_requests(g, completions, fs, int_bound=bound), [Atom("sem"), Atom("evalopen"), gs, T.to_sexp(open_t), fs, env, bound]]
    reqs += [[Atom("sem"), Atom("completes"), gs, T.to_sexp(open_t), T.to_sexp(c)] for c in completions]
    ans = drive(reqs)
    refs = [semconv.tv(a) for a in ans[0]]
    model_open = semconv.tv(ans[1])
    compl_ok = ans[2:]
    ctx.count("evalOpen", str(model_open))
    key = feature_key(text)
    for c, r, okc in zip(completions, refs, compl_ok):
        ctx.evaluations += 1
        if okc is not True:
            ctx.count("generator", "not-a-completion (skipped)")
            continue
        replay = {"grammar": g, "constraint": text, "open_tree": open_t, "open_tree_str": T.tree_str(open_t), "completion": c, "completion_str": T.tree_str(c), "real_on_open": str(v), "reference_on_completion": r, "origin": origin}
        if model_open is not None and r is not None and r != model_open:
            # would contradict theorem evalOpen_stable: a defect of the machinery (driver / encoding), never of ISLa
            ctx.violation("oracle-inconsistent", f"evalOpen says {model_open} on the open tree but the reference says {r} on a completion — machinery defect", replay, found_input=False)
        if isinstance(v, tuple):
            # the property speaks about the verdicts evaluate() RETURNS on open trees; an exception is no verdict
            # (that evaluation never raises is claimed for closed trees only - C03): counted, not reported
            ctx.count("evaluate_raises_on_open_tree", f"{v[1]}:{key}")
            if v[1].startswith("no-answer"):
                ctx.coverage.setdefault("notes", []).append(f"evaluate() gave no answer within the guard: {text[:160]!r} on {replay['open_tree_str'][:80]!r}")
            break
        if v is None:
            continue
        ctx.nontriv((text, replay["open_tree_str"], replay["completion_str"]))
        if r is None:
            ctx.count("reference_on_completion", "undecided")
            continue
        ctx.count("definite_vs_completion", "same" if r == v else "CONTRADICTED")
        if r != v:
            ctx.violation(
                f"definite-verdict-contradicted:{v}:{key}",
                f"evaluate says {v} on the open tree {replay['open_tree_str']!r}, but the completion {replay['completion_str']!r} gets {r} by the specification: {text!r}",
                replay,
            )
    ctx.sample({"constraint": text, "open_tree": T.tree_str(open_t), "real": str(v), "evalOpen": str(model_open), "completions": [T.tree_str(c) for c in completions[:2]], "reference": refs[:2]}, limit=8)


def plain(t):
    return (t[0], t[1], None if t[2] is None else [plain(k) for k in t[2]])


def corpus_cases():
    d = os.path.join(ROOT, "corpus", "C06")
    res = []
    if os.path.isdir(d):
        for fn in sorted(os.listdir(d)):
            if fn.endswith(".json"):
                o = json.load(open(os.path.join(d, fn)))
                res.append((o["grammar"], o["constraint"], plain(o["open_tree"]), [plain(c) for c in o["completions"]], fn))
    return res


def run(ctx: Ctx):
    import logging

    ok = ctx.proof_side()
    if not os.path.exists(os.path.join(ROOT, "lean", ".lake", "build", "bin", "isladrv")):
        return "infra"
    logging.disable(logging.CRITICAL)
    rng = ctx.rng
    for g, text, ot, comps, fn in corpus_cases():
        check_case(ctx, g, "corpus", text, ot, comps, "corpus/" + fn)
    # every documented-style template on ALL single-cut prefixes of a few derivations of the assignment language
    ca = G.canon(ASSGN)
    for text in TEMPLATES:
        fulls = []
        for _ in range(30):
            full = T.gen_tree(rng, ca, "<start>", rng.randint(2, 5), T.IdGen())
            if 8 <= T.size(full) <= 40:
                fulls.append(full)
            if len(fulls) >= (2 if ctx.tier == "quick" else 12):
                break
        for full in fulls:
            for open_t in T.single_cuts(full):
                ids = T.IdGen(T.max_id(full) + 1000)
                completions = [full] + [T.complete(rng, ca, open_t, ids, depth=rng.randint(2, 4)) for _ in range(3)]
                completions = [x for x in completions if T.size(x) <= 90]
                ctx.count("grammar", "assgn-template")
                check_case(ctx, ASSGN, "assgn", text, open_t, completions, "template")
    n = 450 if ctx.tier == "quick" else 12000
    for i in range(n):
        ctx.check_time()
        g, gname = pick_grammar(rng)
        c = G.canon(g)
        full = T.gen_tree(rng, c, "<start>", rng.randint(2, 6), T.IdGen())
        if T.size(full) > 60:
            continue
        open_t = T.cut_open(rng, full, p_cut=rng.choice([0.15, 0.3, 0.6]))
        if not any(n[2] is None for _, n in T.paths(open_t)):
            continue
        ids = T.IdGen(T.max_id(full) + 1000)
        completions = [full] + [T.complete(rng, c, open_t, ids, depth=rng.randint(2, 5)) for _ in range(3)]
        completions = [x for x in completions if T.size(x) <= 90]
        fg = FormulaGen(rng, g, [full] + completions[1:2], allow_int=(i % 5 == 0))
        text = fg.constraint(depth=rng.randint(1, 3))
        if gname == "assgn" and rng.random() < 0.5:
            text = rng.choice(TEMPLATES)
        ctx.count("grammar", gname)
        check_case(ctx, g, gname, text, open_t, completions, "generated")
    ctx.obligation("no definite verdict of evaluate() on an open tree was contradicted by the specification's verdict on a completion (explored cases)", not ctx.violations)
    if not ok and not ctx.violations:
        ctx.violation("proof-obligation-broken", "a proof obligation of C06 no longer checks", {"broken": [n for n, o, _ in ctx.obligations if not o]}, found_input=False)
    ctx.write_evidence(
        RULE,
        [
            "PARTIAL: the real evaluator's three-valued logic on open trees (has_potential_matches / quantified_formula_might_match / can_extend_leaf...) is not modelled; the theorem is about the conservative reference evalOpen, the real verdicts are judged per explored (open tree, completion) pair by the verified reference evaluator",
            "completions are sampled (the original derivation + 3 random ones per open tree); a contradiction that needs another completion is not seen",
            "undecided reference verdicts (numeric quantifiers beyond the bounded search) give no verdict",
        ],
    )


def replay(ctx: Ctx, obj):
    import logging

    logging.disable(logging.CRITICAL)
    check_case(ctx, obj["grammar"], "replay", obj["constraint"], plain(obj["open_tree"]), [plain(obj["completion"])], "replay")
