"""Bound-variable renaming part of C09: ensure_unique_bound_variables must return a formula that is
alpha-equivalent to its input (same nameless form — theorem alphaEq_sound: same meaning under every
interpretation) and in which no name is bound twice."""
from __future__ import annotations

import re
from typing import Any, Dict, List, Tuple

from core import Ctx, drive
from proto import Atom

NAMES = ["x", "y", "x_0", "x_1", "y_0", "z", "x_2", "elem", "elem_0"]
TYPES = ["<a>", "<b>"]


def gen_formula(rng, scope: List[str], depth: int):
    """plain AST: ('atom', kind, [vars]) | ('neg', f) | ('conj', [..]) | ('disj', [..]) | ('all'|'ex', v, [mvars], in, f) | ('allint'|'exint', v, f)"""
    k = rng.random()
    if depth <= 0 or k < 0.2:
        n = rng.choice([1, 1, 2, 2, 3])
        vs = [rng.choice(scope) for _ in range(n)]
        # every atom carries its own literal, so that no two operands are equal or complementary (the simplifying
        # combinators used to rebuild conjunctions would otherwise drop / collapse them, which is not renaming)
        return ("atom", rng.choice(["eq", "prefix", "len"]), vs, rng.randint(0, 10**9))
    if k < 0.3:
        return ("neg", gen_formula(rng, scope, depth - 1))
    if k < 0.5:
        return (rng.choice(["conj", "disj"]), [gen_formula(rng, scope, depth - 1) for _ in range(rng.choice([2, 2, 3]))])
    if k < 0.92:
        v = rng.choice(NAMES)
        mvars = []
        if rng.random() < 0.3:
            mvars = [m for m in rng.sample(NAMES, rng.randint(1, 2)) if m != v]
        inv = rng.choice(scope)
        return (rng.choice(["all", "ex"]), v, mvars, inv, gen_formula(rng, scope + [v] + mvars, depth - 1))
    v = rng.choice(NAMES)
    return (rng.choice(["allint", "exint"]), v, gen_formula(rng, scope + [v], depth - 1))


def gen_collision_case(rng):
    """the intended use of the renaming, without shadowing: sibling quantifiers bind the same name, so one of them
    gets a generated name `v_i` — while a quantifier nested one or more levels further down binds exactly such a
    generated name and its body mentions both variables"""
    v = rng.choice(["x", "y", "elem"])
    others = [n for n in ["p", "q", "r", "w"]]
    rng.shuffle(others)
    gen_names = [f"{v}_{i}" for i in range(3)]
    inner_name = rng.choice(gen_names[:2])
    body = ("atom", "eq", [inner_name, v], rng.randint(0, 10**9))
    f = (rng.choice(["all", "ex"]), inner_name, [], rng.choice(["start", v]), rng.choice([body, ("neg", body)]))
    scope_in = v
    for k in range(rng.randint(1, 2)):
        mid = others[k]
        f = (rng.choice(["all", "ex"]), mid, [], scope_in if rng.random() < 0.7 else "start", f)
    second = (rng.choice(["all", "ex"]), v, [], "start", f)
    first = (rng.choice(["all", "ex"]), v, [] if rng.random() < 0.7 else [others[3]], "start", ("atom", "len", [v], rng.randint(0, 10**9)))
    sibs = [first, second]
    if rng.random() < 0.4:
        sibs.append((rng.choice(["all", "ex"]), v, [], "start", ("atom", "prefix", [v, "start"], rng.randint(0, 10**9))))
        rng.shuffle(sibs)
    return (rng.choice(["conj", "disj"]), sibs)


class Builder:
    """plain AST -> real isla Formula objects"""

    def __init__(self):
        from isla import language as L

        self.L = L
        self.start = L.Constant("start", "<start>")

    def var(self, name: str, env: Dict[str, Any]):
        return env[name]

    def build(self, f, env: Dict[str, Any]):
        import z3
        from isla.z3_helpers import z3_eq
        from isla.isla_predicates import BEFORE_PREDICATE

        L = self.L
        k = f[0]
        if k == "atom":
            vs = [env[n] for n in f[2]]
            kind = f[1]
            lit = z3.StringVal(f"k{f[3]}")
            if kind == "prefix" and len(vs) >= 2:
                e = z3.And(z3.PrefixOf(vs[0].to_smt(), vs[1].to_smt()), z3.PrefixOf(lit, vs[0].to_smt()))
                if len(vs) > 2:
                    e = z3.And(e, z3_eq(vs[2].to_smt(), lit))
            elif kind == "len":
                e = z3.Length(vs[0].to_smt()) > z3.Length(lit)
                for w in vs[1:]:
                    e = z3.And(e, z3.Length(w.to_smt()) > z3.IntVal(2))
            else:
                e = z3_eq(vs[0].to_smt(), lit)
                for w in vs[1:]:
                    e = z3.Or(e, z3_eq(w.to_smt(), vs[0].to_smt()))
            free = []
            for v in vs:
                if v not in free:
                    free.append(v)
            return L.SMTFormula(e, *free)
        if k == "neg":
            return L.NegatedFormula(self.build(f[1], env))
        if k == "conj":
            return L.ConjunctiveFormula(*[self.build(g, env) for g in f[1]])
        if k == "disj":
            return L.DisjunctiveFormula(*[self.build(g, env) for g in f[1]])
        if k in ("all", "ex"):
            _, v, mvars, inv, body = f
            bv = L.BoundVariable(v, "<a>")
            env2 = dict(env)
            env2[v] = bv
            be = None
            if mvars:
                mv = [L.BoundVariable(m, "<b>") for m in mvars]
                for m, o in zip(mvars, mv):
                    env2[m] = o
                elems: List[Any] = []
                for o in mv:
                    elems.append(o)
                    elems.append(" ")
                be = L.BindExpression(*elems[:-1])
            cls = L.ForallFormula if k == "all" else L.ExistsFormula
            return cls(bv, env[inv], self.build(body, env2), bind_expression=be)
        if k in ("allint", "exint"):
            _, v, body = f
            bv = L.BoundVariable(v, L.Variable.NUMERIC_NTYPE)
            env2 = dict(env)
            env2[v] = bv
            cls = L.ForallIntFormula if k == "allint" else L.ExistsIntFormula
            return cls(bv, self.build(body, env2))
        raise ValueError(k)


_TAGS: Dict[str, int] = {}


def _tag(key: str) -> int:
    return _TAGS.setdefault(key, len(_TAGS) + 1)


def to_nf(f) -> Any:
    """real Formula -> wire format of IslaVerif.Alpha.NF; atoms: tag = the atom's text with variable names
    abstracted to their order of first occurrence, vars = the names in that order"""
    from isla import language as L

    if isinstance(f, L.SMTFormula):
        names = sorted({v.name for v in f.free_variables()}, key=len, reverse=True)
        text = " ".join(f.formula.sexpr().split())  # (the printer breaks lines depending on the names' lengths)
        order: List[str] = []
        if names:
            pat = re.compile("|".join(r"(?<![A-Za-z0-9_])" + re.escape(n) + r"(?![A-Za-z0-9_])" for n in names))

            def sub(m):
                n = m.group(0)
                if n not in order:
                    order.append(n)
                return f"@{order.index(n)}"

            text = pat.sub(sub, text)
        return [Atom("atom"), _tag("smt:" + text), order]
    if isinstance(f, L.StructuralPredicateFormula):
        return [Atom("atom"), _tag("pred:" + f.predicate.name + ":" + ",".join("v" if isinstance(a, L.Variable) else repr(a) for a in f.args)), [a.name for a in f.args if isinstance(a, L.Variable)]]
    if isinstance(f, L.NegatedFormula):
        return [Atom("neg"), to_nf(f.args[0])]
    if isinstance(f, L.ConjunctiveFormula):
        return [Atom("conj")] + [to_nf(a) for a in f.args]
    if isinstance(f, L.DisjunctiveFormula):
        return [Atom("disj")] + [to_nf(a) for a in f.args]
    if isinstance(f, (L.ForallFormula, L.ExistsFormula)):
        binders = [f.bound_variable.name]
        if f.bind_expression is not None:
            binders += [e.name for e in f.bind_expression.bound_elements if isinstance(e, L.BoundVariable)]
        return [Atom("all" if isinstance(f, L.ForallFormula) else "ex"), binders, f.in_variable.name, to_nf(f.inner_formula)]
    if isinstance(f, (L.ForallIntFormula, L.ExistsIntFormula)):
        return [Atom("allint" if isinstance(f, L.ForallIntFormula) else "exint"), f.bound_variable.name, to_nf(f.inner_formula)]
    raise ValueError(type(f).__name__)


def flatten(nf):
    """associativity of the n-ary connectives is not part of alpha-equivalence: the real rewrite rebuilds conjunctions
    with the simplifying `&` / `|`; compare flattened forms"""
    if not isinstance(nf, list):
        return nf
    head = nf[0]
    if head in ("conj", "disj"):
        args = []
        for a in nf[1:]:
            a = flatten(a)
            if isinstance(a, list) and a and a[0] == head:
                args.extend(a[1:])
            else:
                args.append(a)
        # the simplifying combinators drop an operand that is already present
        dedup = []
        for a in args:
            if a not in dedup:
                dedup.append(a)
        if len(dedup) == 1:
            return dedup[0]
        return [head] + dedup
    if head == "neg":
        return [head, flatten(nf[1])]
    if head in ("all", "ex"):
        return [head, nf[1], nf[2], flatten(nf[3])]
    if head in ("allint", "exint"):
        return [head, nf[1], flatten(nf[2])]
    return nf


def has_shadowing(ast, scope=("start",)) -> bool:
    """a quantifier or match expression re-binds a name that is already bound in an enclosing scope"""
    k = ast[0]
    if k == "atom":
        return False
    if k == "neg":
        return has_shadowing(ast[1], scope)
    if k in ("conj", "disj"):
        return any(has_shadowing(g, scope) for g in ast[1])
    if k in ("all", "ex"):
        _, v, mvars, inv, body = ast
        new = [v] + list(mvars)
        if any(n in scope for n in new) or len(set(new)) != len(new):
            return True
        return has_shadowing(body, tuple(scope) + tuple(new))
    _, v, body = ast
    if v in scope:
        return True
    return has_shadowing(body, tuple(scope) + (v,))


def check_renaming(ctx: Ctx, n: int):
    from isla.language import ensure_unique_bound_variables

    rng = ctx.rng
    b = Builder()
    reqs, meta = [], []
    for i in range(n):
        ast = gen_collision_case(rng) if i % 4 == 3 else gen_formula(rng, ["start"], rng.randint(2, 5))
        try:
            f = b.build(ast, {"start": b.start})
        except Exception as e:  # noqa
            ctx.count("rename_generator", "build-failed:" + type(e).__name__)
            continue
        ctx.evaluations += 1
        used = None
        if rng.random() < 0.3:
            used = set(rng.sample(NAMES, rng.randint(1, 3)))
        shadow = has_shadowing(ast)
        ctx.count("rename_input", "with-shadowing" if shadow else "distinct-scopes")
        replay = {"formula": repr(ast), "used_names": sorted(used) if used else None, "shadowing": shadow}
        try:
            g = ensure_unique_bound_variables(f, set(used) if used is not None else None)
        except Exception as e:  # noqa
            ctx.violation("rename:raises:" + type(e).__name__, f"ensure_unique_bound_variables raised {type(e).__name__}: {str(e)[:100]}", replay)
            continue
        try:
            nf_f, nf_g = flatten(to_nf(f)), flatten(to_nf(g))
        except Exception as e:  # noqa
            ctx.count("rename_generator", "convert-failed:" + type(e).__name__)
            continue
        ctx.nontriv(("rename", repr(ast)))
        reqs.append([Atom("alpha"), Atom("check"), nf_f, nf_g])
        meta.append((replay, str(f), str(g), nf_f, nf_g))
    for (replay, sf, sg, nf_f, nf_g), a in zip(meta, drive(reqs) if reqs else []):
        if not isinstance(a, list):
            ctx.count("rename_generator", "driver-bad-answer")
            continue
        alpha, unique = a
        ctx.count("rename", "changed" if nf_f != nf_g else "unchanged")
        if alpha is not True:
            # simplifying & / | may drop duplicate operands: only then the nameless forms may differ legitimately
            ctx.violation(
                "rename:not-alpha-equivalent" + (":shadowing" if replay["shadowing"] else ""),
                f"ensure_unique_bound_variables changed the meaning (captured or confused a variable): {sf[:160]}  ->  {sg[:160]}",
                dict(replay, before=sf, after=sg),
            )
        elif unique is not True:
            # (the property demands an unchanged verdict, not uniqueness: numeric quantifiers are not descended into)
            ctx.count("rename", "binders-not-unique-after-renaming")
