"""C19 — the isla command line honours its exit-code and output contract.

Proof side: lean/IslaVerif/Properties/C19.lean — the decision table of `isla check`/`parse`
(exit 0 iff grammar ok, constraints ok, exactly one input, input in the grammar and satisfying
the conjunction; 65 / 2 rows; totality), with the exit-code constants regenerated from cli.py.
Tie: `isla.cli.main` is run in-process (SystemExit captured) and in a few subprocesses on file sets
covering every row of the table; the abstract classification of each file set (in grammar? satisfies
all constraints?) is computed independently of ISLa: membership by the verified recognizer / tree
checker, satisfaction by a direct string-level oracle for the constraint templates used.
Anything but SystemExit with a documented code (i.e. an uncaught exception) is a failing input.
Pipes: every solution printed by `isla solve` must be accepted by `isla check`; the JSON written by
`isla parse` must be accepted by `isla check`.
"""
from __future__ import annotations

import io
import json
import os
import shutil
import subprocess
import tempfile
from typing import Any, Dict, List, Optional, Tuple

from core import Ctx, ROOT, drive
from proto import Atom
from gen import grammars as G
import translate

LEVEL = "proof"
REPLAY_BY_SEED = True  # a replay file names (seed, tier); ./check --replay re-runs exactly that run

RULE = (
    "cases = CLI invocations (check, parse; plus solve->check and parse->check pipes) on generated file sets: grammar in {missing, "
    "malformed, python file without grammar, ok as .bnf file or --grammar}, 0-3 constraints as --constraint args and .isla files each ok or "
    "malformed, input in {none, two files, one file, --input-string} with contents: members / non-members of the grammar, satisfying / "
    "violating the conjunction, empty file, trailing newline, JSON-looking text (12, \"x\", [1], true, null, {}), valid and invalid JSON "
    "derivation trees; non-trivial = distinct (command, grammar state, constraint states, input class, content)"
)

ASSGN = """<start> ::= <stmt>
<stmt> ::= <assgn> | <assgn> " ; " <stmt>
<assgn> ::= <var> " := " <rhs>
<rhs> ::= <var> | <digit>
<var> ::= "a" | "b" | "c"
<digit> ::= "0" | "1" | "2" | "7"
"""
DIGITS = """<start> ::= <num>
<num> ::= <d> <num> | <d>
<d> ::= "0" | "1" | "2" | "7"
"""

# a line-oriented language: every word ends in a newline, so trailing newlines of input FILES matter
LINES = """<start> ::= <line> | <line> <start>
<line> ::= <w> "\\n"
<w> ::= "a" | "b" | "ab"
"""

GRAMMARS = {
    "lines": (LINES, {"<start>": ["<line>", "<line><start>"], "<line>": ["<w>\n"], "<w>": ["a", "b", "ab"]}),
    "assgn": (ASSGN, {"<start>": ["<stmt>"], "<stmt>": ["<assgn>", "<assgn> ; <stmt>"], "<assgn>": ["<var> := <rhs>"], "<rhs>": ["<var>", "<digit>"], "<var>": ["a", "b", "c"], "<digit>": ["0", "1", "2", "7"]}),
    "digits": (DIGITS, {"<start>": ["<num>"], "<num>": ["<d><num>", "<d>"], "<d>": ["0", "1", "2", "7"]}),
}

# constraint templates with an independent string-level oracle
def templates(gname: str):
    if gname == "assgn":
        return [
            ('<var> = "a"', lambda s: all(ch == "a" for ch in s if ch in "abc")),
            ('exists <digit> d: d = "7"', lambda s: "7" in s),
            ("str.len(<start>) >= 8", lambda s: len(s) >= 8),
            ('not (<rhs> = "b")', lambda s: all(not part.strip().endswith(":= b") for part in s.split(" ; "))),
            ("true", lambda s: True),
        ]
    if gname == "lines":
        return [
            ('<w> = "a"', lambda s: all(w == "a" for w in s.split("\n")[:-1])),
            ('exists <w> w: w = "ab"', lambda s: "ab" in s.split("\n")),
            # <start> is recursive in this grammar: the free nonterminal ranges over every suffix of lines, the shortest
            # one being the last line with its line feed
            ("str.len(<start>) >= 3", lambda s: len(s.split("\n")[-2]) + 1 >= 3),
            ("true", lambda s: True),
        ]
    return [
        ('<d> = "1"', lambda s: all(ch == "1" for ch in s)),
        ('exists <d> d: d = "7"', lambda s: "7" in s),
        ("str.len(<start>) >= 3", lambda s: len(s) >= 3),
        ("true", lambda s: True),
    ]


MALFORMED_CONSTRAINTS = ['forall <var x: x = "a"', '<nosuchnonterminal> = "a"', "str.len(<start>) >=", ")"]
# constraints that PARSE but cannot be evaluated: predicates check the types of their arguments only when they are
# evaluated; {nt} = a nonterminal that occurs in every member of the grammar
ILL_TYPED_CONSTRAINTS = [
    'forall {nt} v in start: nth("x", v, start)',
    'forall {nt} v in start: nth(v, v, v)',
    'forall {nt} v in start: level("XX", "<start>", v, v)',
    'forall {nt} v in start: before("a", v)',
    'exists {nt} v in start: count(start, "{nt}", "n")',
]
ALWAYS_PRESENT = {"assgn": "<var>", "lines": "<w>", "digits": "<d>"}
MALFORMED_GRAMMARS = ['<start> ::= <a', '<start> ::= "x" <b>\n<<>', "this is not bnf"]

MEMBERS = {
    "lines": ["a\n", "a\na\n", "ab\n", "b\nab\n", "a\nab\na\n"],
    "assgn": ["a := 1", "a := a", "b := 7", "a := 1 ; a := a", "c := 2 ; a := 7 ; b := b", "a := 0 ; a := 2"],
    "digits": ["1", "12", "7", "111", "1171", "0"],
}
NONMEMBERS = {
    "lines": ["a", "", "a\n\n", "\n", "c\n", "a\nb", '"x"', "[1]", "true", '["<start>", []]'],
    "lines": ["a\n", "a\na\n", "ab\n", "b\nab\n", "a\nab\na\n"],
    "assgn": ["a :=", "x := 1", "a := 1 ;", "", " ", "a := 1\n\n", "12", '"x"', "[1]", "true", "null", "{}", '["<start>", []]'],
    "digits": ["", "a", "1 2", "12\n\n", '"x"', "[1]", "true", "null", "{}", "1.5", '["<start>", []]'],
}


def run_cli(argv: List[str]) -> Tuple[Any, str, str]:
    """-> (exit code | ('exception', cls, msg), stdout, stderr)"""
    from isla import cli

    out, err = io.StringIO(), io.StringIO()
    try:
        cli.main(*argv, stdout=out, stderr=err)
        code: Any = 0  # returned without exiting
    except SystemExit as e:
        code = e.code if isinstance(e.code, int) else (0 if e.code is None else 1)
    except BaseException as e:  # noqa
        import traceback

        code = ("exception", type(e).__name__, traceback.format_exc()[-1500:])
    return code, out.getvalue(), err.getvalue()


def json_tree_of(gname: str, text: str) -> str:
    from isla.solver import ISLaSolver
    from isla.cli import derivation_tree_to_json

    t = ISLaSolver(GRAMMARS[gname][1]).parse(text, skip_check=True, silent=True)
    return derivation_tree_to_json(t)


def in_language(gname: str, texts: List[str]) -> List[bool]:
    gs = G.grammar_sexp(GRAMMARS[gname][1])
    ans = drive([[Atom("c10"), Atom("lang"), gs, "<start>", texts]])[0]
    return [bool(a) for a in ans]


class Case:
    def __init__(self):
        self.argv: List[str] = []
        self.desc: Dict[str, Any] = {}


def build_case(ctx: Ctx, d: str, row: int) -> Tuple[List[str], Dict[str, Any], Any, List[str], Any]:
    """creates files in directory d; returns (argv, description, grammar state, constraint states, input state spec)"""
    rng = ctx.rng
    gname = rng.choice(list(GRAMMARS))
    bnf, gdict = GRAMMARS[gname]
    desc: Dict[str, Any] = {"grammar_name": gname}
    argv: List[str] = []
    files: List[str] = []

    # ---- grammar
    gstate = rng.choices(["ok", "ok", "ok", "missing", "malformed", "empty"], k=1)[0] if row % 3 == 0 else "ok"
    if gstate == "ok":
        if rng.random() < 0.5:
            p = os.path.join(d, "grammar.bnf")
            open(p, "w").write(bnf)
            files.append(p)
        else:
            argv += ["--grammar", bnf]
    elif gstate == "malformed":
        p = os.path.join(d, "grammar.bnf")
        open(p, "w").write(rng.choice(MALFORMED_GRAMMARS))
        files.append(p)
    elif gstate == "empty":
        p = os.path.join(d, "ext.py")
        open(p, "w").write("x = 1\n")
        files.append(p)
    desc["grammar"] = gstate

    # ---- constraints
    tmpl = templates(gname)
    n_c = rng.choice([1, 1, 2, 3, 0]) if row % 4 == 1 else rng.choice([1, 2])
    cstates, oracles, ctexts = [], [], []
    for i in range(n_c):
        bad = rng.random() < (0.35 if row % 5 == 2 else 0.0)
        ill = (not bad) and rng.random() < (0.4 if row % 5 == 3 else 0.0)
        if bad:
            text, orc = rng.choice(MALFORMED_CONSTRAINTS), None
        elif ill:
            text, orc = rng.choice(ILL_TYPED_CONSTRAINTS).replace("{nt}", ALWAYS_PRESENT[gname]), "raises"
        else:
            text, orc = rng.choice(tmpl)
        ctexts.append(text)
        cstates.append("malformed" if bad else "ok")  # an ill-typed constraint parses: its state is ok, it shows in the verdict
        oracles.append(orc)
    # order of evaluation in the CLI: --constraint args first, then .isla files
    as_arg = [rng.random() < 0.5 for _ in ctexts]
    order = [i for i, a in enumerate(as_arg) if a] + [i for i, a in enumerate(as_arg) if not a]
    for i in order:
        if as_arg[i]:
            argv += ["--constraint", ctexts[i]]
        else:
            p = os.path.join(d, f"c{i}.isla")
            open(p, "w").write(ctexts[i])
            files.append(p)
    cstates = [cstates[i] for i in order]
    desc["constraints"] = [ctexts[i] for i in order]
    desc["constraint_states"] = cstates

    # ---- input
    kind = rng.choice(["none", "several", "member", "member", "member", "nonmember", "nonmember", "jsontree", "badjsontree", "member-newline"])
    if row % 3 != 2 and kind in ("none", "several"):
        kind = "member"
    content: Optional[str] = None
    istate: Any
    if kind == "none":
        istate = "none"
    elif kind == "several":
        for j in range(2):
            p = os.path.join(d, f"input{j}.txt")
            open(p, "w").write(rng.choice(MEMBERS[gname]))
            files.append(p)
        istate = "several"
    else:
        via_arg = False
        if kind in ("member", "member-newline"):
            content = rng.choice(MEMBERS[gname])
            file_content = content + ("\n" if kind == "member-newline" or rng.random() < 0.3 else "")
            # the CLI drops ONE line terminator at the end of an input file
            text = file_content[:-1] if file_content.endswith("\n") else file_content
        elif kind == "nonmember":
            content = rng.choice(NONMEMBERS[gname])
            text = content[:-1] if content.endswith("\n") else content
            file_content = content
        elif kind == "jsontree":
            text = rng.choice(MEMBERS[gname])
            content = json_tree_of(gname, text)
            file_content = content
        else:  # a JSON tree that is not valid for the grammar: falls back to parsing the raw text
            content = json.dumps(["<start>", [["<nosuch>", [["q", []]]]]])
            text = content
            file_content = content
        if kind in ("member", "nonmember") and content and rng.random() < 0.3:
            via_arg = True
            argv += ["--input-string", content]
            text = content
        else:
            p = os.path.join(d, "input.txt")
            open(p, "w").write(file_content)
            files.append(p)
        # a FILE's content is tried without one trailing line terminator first and as it is second
        istate = ("given", kind, text, None if via_arg else file_content)
        desc["input_content"] = file_content if not via_arg else content
        desc["via_input_string"] = via_arg
    desc["input_kind"] = kind
    return argv + files, desc, gstate, cstates, (istate, oracles, gname)


def classify(istate, oracles, gname) -> Any:
    if istate in ("none", "several"):
        return Atom(istate)
    _, kind, text, raw = istate
    if kind == "jsontree":
        in_g = True  # a valid derivation tree of the grammar (certified below)
    else:
        in_g = in_language(gname, [text])[0]
        if not in_g and raw is not None and raw != text and in_language(gname, [raw])[0]:
            in_g, text = True, raw
    sat = in_g and all(o(text) for o in oracles if o is not None and o != "raises")
    if in_g and "raises" in oracles:
        # the conjunction cannot be decided without evaluating the ill-typed constraint when all others hold;
        # otherwise the order of evaluation decides between "violated" and "not evaluable": both are accepted
        return [Atom("given"), in_g, Atom("error")] if sat else [Atom("given"), in_g, Atom("error-or-unsat")]
    return [Atom("given"), in_g, sat]


def one_case(ctx: Ctx, row: int):
    d = tempfile.mkdtemp(prefix="islacli")
    try:
        files_argv, desc, gstate, cstates, (istate, oracles, gname) = build_case(ctx, d, row)
        cmd = ctx.rng.choice(["check", "check", "parse"])
        argv = [cmd] + files_argv
        code, out, err = run_cli(argv)
        inp = classify(istate, oracles, gname)
        if isinstance(inp, list) and inp[2] == "error-or-unsat":
            w2 = drive([[Atom("c19"), Atom("check"), Atom(gstate), [Atom(c) for c in cstates], [Atom("given"), inp[1], v]] for v in (Atom("error"), False)])
            want = code if code in w2 else w2[0]
        else:
            want = drive([[Atom("c19"), Atom("check"), Atom(gstate), [Atom(c) for c in cstates], inp]])[0]
        ctx.evaluations += 1
        icls = str(inp) if isinstance(inp, Atom) else f"given(inG={inp[1]},sat={inp[2]})"
        ctx.count("row", f"{cmd}|g={gstate}|c={','.join(cstates) or 'none'}|{icls}")
        ctx.count("expected_exit", want)
        ctx.count("input_kind", desc["input_kind"])
        ctx.nontriv((cmd, gstate, tuple(cstates), desc["input_kind"], desc.get("input_content"), tuple(desc["constraints"])))
        desc.update({"command": cmd, "argv": [a.replace(d, "<dir>") for a in argv], "exit": code, "expected_exit": want, "stdout": out[-300:], "stderr": err[-300:]})
        ctx.sample({k: desc[k] for k in ("command", "grammar", "constraint_states", "input_kind", "exit")}, limit=6)
        if isinstance(code, tuple):
            ctx.violation(
                f"traceback:{code[1]}:{desc['input_kind']}",
                f"isla {cmd} ended with an uncaught {code[1]} (input kind {desc['input_kind']}, content {desc.get('input_content')!r})",
                dict(desc, traceback=code[2]),
            )
            return
        if code != want:
            ctx.violation(
                f"exit:{cmd}:g={gstate}:c={'malformed' if 'malformed' in cstates else ('none' if not cstates else 'ok')}:{icls}",
                f"isla {cmd} exited {code}, the contract (check_exit0_iff / check_exit1 / malformed_exit / missing_exit) demands {want}",
                desc,
            )
            return
        if cmd == "parse" and code == 0:
            # the emitted JSON tree must be accepted by `isla check`
            p = os.path.join(d, "tree.json")
            open(p, "w").write(out)
            base = [a for a in files_argv if not a.endswith("input.txt")]
            # drop --input-string
            if "--input-string" in base:
                k = base.index("--input-string")
                base = base[:k] + base[k + 2 :]
            code2, out2, err2 = run_cli(["check"] + base + [p])
            ctx.evaluations += 1
            ctx.count("pipe", "parse->check")
            if code2 != 0:
                ctx.violation("pipe:parse->check", f"`isla parse` wrote a JSON tree that `isla check` rejects (exit {code2})", dict(desc, json=out[:500], check_exit=code2))
    finally:
        shutil.rmtree(d, ignore_errors=True)


def solve_check_pipe(ctx: Ctx, n: int):
    """`isla solve` -> `isla check`.  The exact solutions are taken from `--output-dir` files (stdout separates several
    solutions by line feeds, which is ambiguous for languages whose words contain line feeds); each is then given to
    `isla check` (a) as --input-string, (b) as a file holding what `isla solve` prints to stdout for it (the solution and
    print's line feed), (c) as the file `isla solve --output-dir` wrote itself."""
    rng = ctx.rng
    for _ in range(n):
        gname = rng.choice(list(GRAMMARS))
        bnf = GRAMMARS[gname][0]
        cons = [t for t, _ in rng.sample(templates(gname), 2)]
        d = tempfile.mkdtemp(prefix="islasolve")
        try:
            argv = ["solve", "--grammar", bnf]
            for c in cons:
                argv += ["--constraint", c]
            argv += ["-n", "4", "-t", "20", "-d", d]
            code, out, err = run_cli(argv)
            ctx.evaluations += 1
            ctx.count("pipe", "solve")
            if isinstance(code, tuple):
                ctx.violation(f"traceback:{code[1]}:solve", f"isla solve ended with an uncaught {code[1]}", {"argv": argv, "traceback": code[2]})
                continue
            # the same invocation printing to stdout must print exactly these solutions, each followed by a line feed
            code_p, out_p, _ = run_cli([a for a in argv[:-2]])
            sols = []
            for fn in sorted(os.listdir(d)):
                if fn.endswith(".txt"):
                    sols.append((fn, open(os.path.join(d, fn), "rb").read().decode("utf-8")))
            if not isinstance(code_p, tuple) and sols and out_p != "".join(s + "\n" for _, s in sols):
                ctx.count("pipe", "stdout differs from --output-dir files (solver not deterministic across runs: not judged)")
            for fn, sol in sols:
                base = ["check", "--grammar", bnf]
                for c in cons:
                    base += ["--constraint", c]
                variants = [("input-string", base + ["--input-string", sol])]
                p = os.path.join(d, "printed_" + fn)
                open(p, "w").write(sol + "\n")
                variants.append(("stdout-redirected-to-file", base + [p]))
                variants.append(("output-dir-file", base + [os.path.join(d, fn)]))
                for how, cargv in variants:
                    code2, _, _ = run_cli(cargv)
                    ctx.evaluations += 1
                    ctx.count("pipe", f"solve->check:{how}")
                    if code2 != 0:
                        tag = ":solution-ends-with-line-feed" if how == "output-dir-file" and sol.endswith("\n") else ""
                        ctx.violation(f"pipe:solve->check:{how}{tag}", f"`isla solve` produced {sol!r}, `isla check` ({how}) exits {code2}", {"grammar": gname, "constraints": cons, "solution": sol, "how": how, "check_exit": code2})
        finally:
            shutil.rmtree(d, ignore_errors=True)


def line_terminator_rows(ctx: Ctx):
    """input FILES of the line-oriented language with 0, 1, 2 line feeds appended to a word (whose own last character is a
    line feed): how an input file's trailing line terminator is treated must not depend on the random rows"""
    gname = "lines"
    bnf = GRAMMARS[gname][0]
    for word in MEMBERS[gname][:3]:
        for extra in (0, 1, 2):
            d = tempfile.mkdtemp(prefix="islacli")
            try:
                content = word + "\n" * extra
                p = os.path.join(d, "input.txt")
                open(p, "w").write(content)
                cmd = "check" if extra != 1 else ctx.rng.choice(["check", "parse"])
                argv = [cmd, "--grammar", bnf, "--constraint", "true", p]
                code, out, err = run_cli(argv)
                inp = classify(("given", "member", content[:-1] if content.endswith("\n") else content, content), [None], gname)
                want = drive([[Atom("c19"), Atom("check"), Atom("ok"), [Atom("ok")], inp]])[0]
                ctx.evaluations += 1
                ctx.count("row", f"line-terminator|{cmd}|word+{extra}LF")
                desc = {"command": cmd, "argv": [a.replace(d, "<dir>") for a in argv], "input_content": content, "exit": code, "expected_exit": want, "stdout": out[-200:], "stderr": err[-200:]}
                if isinstance(code, tuple):
                    ctx.violation(f"traceback:{code[1]}:line-terminator", f"isla {cmd} ended with an uncaught {code[1]} for the file content {content!r}", dict(desc, traceback=code[2]))
                elif code != want:
                    ctx.violation(f"exit:{cmd}:line-terminator:word+{extra}LF", f"isla {cmd} exited {code} for the file content {content!r} of the line-oriented language, the contract demands {want}", desc)
            finally:
                shutil.rmtree(d, ignore_errors=True)


def subprocess_sample(ctx: Ctx):
    """the real process exit status for a few rows"""
    d = tempfile.mkdtemp(prefix="islacli")
    try:
        g = os.path.join(d, "g.bnf")
        open(g, "w").write(DIGITS)
        empty = os.path.join(d, "empty.txt")
        open(empty, "w").write("")
        rows = [
            (["check", "--constraint", '<d> = "1"', "-i", "111", g], 0),
            (["check", "--constraint", '<d> = "1"', "-i", "12", g], 1),
            (["check", "--constraint", '<d> = "1"', g, empty], 1),
            (["check", "--constraint", '<d> = ', "-i", "1", g], 65),
            (["check", "--constraint", '<d> = "1"', "-i", "1"], 2),
        ]
        for argv, want in rows:
            p = subprocess.run(["/venv/bin/python", "-m", "isla.cli"] + argv, capture_output=True, text=True, timeout=120)
            ctx.evaluations += 1
            ctx.count("subprocess_exit", p.returncode)
            if "Traceback (most recent call last)" in p.stderr:
                ctx.violation("traceback:subprocess", f"isla {' '.join(argv[:1])} printed a traceback", {"argv": argv, "stderr": p.stderr[-1200:]})
            elif p.returncode != want:
                ctx.violation(f"exit:subprocess:{want}", f"isla {argv[0]} exited {p.returncode}, expected {want}", {"argv": argv, "stderr": p.stderr[-600:]})
    finally:
        shutil.rmtree(d, ignore_errors=True)


def run(ctx: Ctx):
    import logging

    gen_ok, gen_note = translate.generate_all(only=["Cli.lean"])
    ctx.obligation("translator: exit-code constants regenerated from src/isla/cli.py", gen_ok, gen_note)
    ok = ctx.proof_side() and gen_ok
    if not os.path.exists(os.path.join(ROOT, "lean", ".lake", "build", "bin", "isladrv")):
        return "infra"
    logging.disable(logging.CRITICAL)
    quick = ctx.tier == "quick"
    n = 90 if quick else 900
    for row in range(n):
        ctx.check_time()
        one_case(ctx, row)
    line_terminator_rows(ctx)
    solve_check_pipe(ctx, 3 if quick else 25)
    subprocess_sample(ctx)
    ctx.obligation("correspondence: CLI exit codes == decision table on all explored file sets; no traceback; pipes accepted", not ctx.violations)
    if not ok and not ctx.violations:
        ctx.violation("proof-obligation-broken", "a proof obligation of C19 no longer checks", {"broken": [n for n, o, _ in ctx.obligations if not o]}, found_input=False)
    ctx.write_evidence(
        RULE,
        [
            "membership of the input is decided by the verified recognizer, satisfaction by a string-level oracle for the constraint templates used (independent of ISLa's evaluator)",
            "commands repair/mutate/fuzz/find/create and option combinations beyond those listed are not covered by the decision-table model",
            "in-process runs capture SystemExit; 5 subprocess runs confirm the real exit status",
        ],
    )


def replay(ctx: Ctx, obj):
    print("re-run ./check C19 with seed", obj.get("seed"), "; failing invocation:", obj.get("argv"), "content:", repr(obj.get("input_content")))
