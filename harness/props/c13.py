"""C13 — each result of insert_tree is a valid derivation tree of the grammar with the same root that
still contains every node of the host tree (with its label) and contains the inserted tree.

Proof side: lean/IslaVerif/Properties/C13.lean — the result checker `insertCheck` is proved sound
(validity, same root, every (id, label) of the host present, an identity-preserving embedding of
the inserted tree), together with the generic lemmas the three insertion methods rely on
(replacement of a same-symbol valid subtree keeps validity and the root; expansion steps keep
validity and every expanded part).  The graph searches of the methods themselves are not modelled.
Tie: insert_tree is run on generated (grammar, host tree open/closed, inserted tree, method
combination, max_num_solutions) and EVERY returned tree goes through the compiled checker; an
AssertionError of insert_tree's own validity assertion is examined with the checker as well.
"""
from __future__ import annotations

import json
import os
from typing import Any, Dict, List

from core import Ctx, ROOT, drive
from proto import Atom, enc
from gen import grammars as G
from gen import trees as T

LEVEL = "proof"

RULE = (
    "cases = insert_tree(grammar, inserted, host, methods, max_num_solutions): grammars = random acyclic grammars, the assignment language, a "
    "nested tag language; hosts = random derivations (<= 60 nodes), closed or cut open at random nonterminal nodes, or a subtree position of "
    "them; inserted trees = derivations of a nonterminal reachable from the host's root (closed or partially open, disjoint ids); methods = "
    "each of the 7 non-empty combinations of DIRECT_EMBEDDING / SELF_EMBEDDING / CONTEXT_ADDITION; max_num_solutions in {1, 3, 10, 50}; "
    "evaluations = result trees certified; non-trivial = distinct (grammar, host string, inserted string, methods) with at least one result"
)

TAGS = {
    "<start>": ["<doc>"],
    "<doc>": ["<elem>"],
    "<elem>": ["<open><inner><close>", "<open><close>", "<leaf>"],
    "<inner>": ["<elem>", "<elem><inner>", "<text>"],
    "<open>": ["(<id>"],
    "<close>": [")"],
    "<leaf>": ["[<id>]"],
    "<id>": ["a", "b", "c"],
    "<text>": ["x", "y", "x<text>"],
}
# unit chains and bracketing recursion: connecting trees have the same labels as the chains they replace
CHAIN = {
    "<start>": ["<A>"],
    "<A>": ["<B>", "(<A>)", "<B>+<A>"],
    "<B>": ["<C>"],
    "<C>": ["c", "[<A>]"],
}
ASSGN = {
    "<start>": ["<stmt>"],
    "<stmt>": ["<assgn> ; <stmt>", "<assgn>"],
    "<assgn>": ["<var> := <rhs>"],
    "<rhs>": ["<var>", "<digit>"],
    "<var>": ["a", "b", "c"],
    "<digit>": ["0", "1", "2"],
}


def reach(c, a):
    seen, todo = set(), [a]
    while todo:
        x = todo.pop()
        for alt in c.get(x, []):
            for s in alt:
                if s in c and s not in seen:
                    seen.add(s)
                    todo.append(s)
    return seen


def chain_tree(rng, c, nt, ids):
    """an inserted tree with a single-child chain ending in an open leaf below a multi-child node, e.g.
    <elem>(<open>?, <inner>(<elem>(<leaf>?)), <close>?): context addition rebuilds such chains with connecting trees"""
    def chain(sym, depth):
        units = [alt for alt in c.get(sym, []) if len(alt) == 1 and alt[0] in c]
        if depth <= 0 or not units:
            return (ids(), sym, None)
        return (ids(), sym, [chain(rng.choice(units)[0], depth - 1)])

    multis = [alt for alt in c.get(nt, []) if len(alt) >= 2 and any(s in c for s in alt)]
    if not multis:
        t = chain(nt, rng.randint(1, 3))
        return t if t[2] is not None else None
    alt = rng.choice(multis)
    kids = []
    for s in alt:
        if s in c:
            kids.append(chain(s, rng.randint(0, 3)))
        else:
            kids.append((ids(), s, []))
    return (ids(), nt, kids)


def gen_case(ctx: Ctx):
    rng = ctx.rng
    r = rng.random()
    if r < 0.12:
        g, gname = CHAIN, "chain"
    elif r < 0.25:
        g, gname = ASSGN, "assgn"
    elif r < 0.5:
        g, gname = TAGS, "tags"
    elif r < 0.75:
        g, gname = G.gen_acyclic_grammar(rng, eps_prob=0.1, no_unit=True, terminals=("a", "b", "0", "x", " ", ";")), "random"
    else:
        # with unit alternatives: single-child chains in host and inserted trees
        g, gname = G.gen_acyclic_grammar(rng, eps_prob=0.1, no_unit=False, terminals=("a", "b", "0", "x", " ", ";")), "random-unit"
    c = G.canon(g)
    ids = T.IdGen()
    host = T.gen_tree(rng, c, "<start>", rng.randint(2, 7), ids)
    if T.size(host) > 60:
        return None
    if rng.random() < 0.5:
        host = T.cut_open(rng, host, p_cut=rng.choice([0.15, 0.3, 0.5]))
    # insertion happens into the tree bound to the quantifier's `in` variable: often a proper subtree
    if rng.random() < 0.3:
        subs = [n for p, n in T.paths(host) if p and n[1] in c and n[2]]
        if subs:
            host = rng.choice(subs)
    nts = sorted(reach(c, host[1]))
    if not nts:
        return None
    nt = rng.choice(nts)
    ins_ids = T.IdGen(10_000)
    ins = T.gen_tree(rng, c, nt, rng.randint(1, 4), ins_ids)
    if rng.random() < 0.25:
        ins = chain_tree(rng, c, nt, ins_ids) or ins
    elif rng.random() < 0.35:
        ins = T.cut_open(rng, ins, p_cut=0.4)
    if rng.random() < 0.1:
        ins = (ins[0], ins[1], None)
    methods = rng.randint(1, 7)
    mx = rng.choice([1, 3, 10, 50])
    return {"grammar": g, "gname": gname, "host": host, "inserted": ins, "methods": methods, "max_num_solutions": mx}


def run_case(ctx: Ctx, case: Dict[str, Any]):
    from isla.existential_helpers import insert_tree
    from isla.helpers import canonical
    import grammar_graph.gg as gg

    g = case["grammar"]
    graph = gg.GrammarGraph.from_grammar(g)
    # identities from ISLa's own counter: explicit small ids would collide with the ids of the trees insert_tree builds
    host_dt, ins_dt = T.to_isla_fresh(case["host"]), T.to_isla_fresh(case["inserted"])
    host_plain, ins_plain = T.from_isla(host_dt), T.from_isla(ins_dt)
    ctx.count("grammar", case["gname"])
    ctx.count("methods", case["methods"])
    ctx.count("host", "open" if host_dt.is_open() else "closed")
    ctx.count("inserted", "open" if ins_dt.is_open() else "closed")
    replay = {k: case[k] for k in ("grammar", "host", "inserted", "methods", "max_num_solutions")}
    replay["host_str"], replay["inserted_str"] = T.tree_str(case["host"]), T.tree_str(case["inserted"])
    sig = f"methods={case['methods']}"
    recorded: List[Any] = []
    try:
        results = insert_tree(canonical(g), ins_dt, host_dt, graph=graph, max_num_solutions=case["max_num_solutions"], methods=case["methods"])
        outcome = "ok"
    except AssertionError:
        # insert_tree's own assertions (validity of a candidate / presence of the host's nodes) failed: look at the
        # candidates with the verified checker
        orig = gg.GrammarGraph.tree_is_valid

        def spy(self, tree):
            recorded.append(tree)
            return True

        gg.GrammarGraph.tree_is_valid = spy
        try:
            try:
                results = insert_tree(canonical(g), ins_dt, host_dt, graph=graph, max_num_solutions=case["max_num_solutions"], methods=case["methods"])
                outcome = "validity-assertion"
            except AssertionError:
                results = list(recorded)
                outcome = "node-loss-assertion"
        finally:
            gg.GrammarGraph.tree_is_valid = orig
    except Exception as e:  # noqa
        ctx.count("outcome", "raises:" + type(e).__name__)
        ctx.violation(f"insert_tree-raises:{type(e).__name__}:{sig}", f"insert_tree raised {type(e).__name__}: {str(e)[:100]}", replay)
        return
    ctx.count("outcome", outcome)
    ctx.count("results", min(len(results), 10))
    if outcome == "node-loss-assertion":
        ctx.violation(f"host-node-lost:{sig}", "insert_tree's assertion that all host nodes are present in a candidate failed", replay)
    if not results:
        return
    gs = enc(G.grammar_sexp(g))
    hs, is_ = enc(T.to_sexp(host_plain)), enc(T.to_sexp(ins_plain))
    plains = [T.from_isla(r) for r in results] if outcome == "ok" else [T.from_isla(r) for r in (recorded or results)]
    answers = drive([f"(tree insertcheck {gs} {hs} {is_} {enc(T.to_sexp(p))})" for p in plains])
    any_bad_valid = False
    for p, a in zip(plains, answers):
        ctx.evaluations += 1
        names = ["valid-derivation-tree", "same-root", "host-nodes-kept-with-their-expansion", "contains-inserted-tree"]
        bad = [n for n, ok in zip(names, a[:4]) if ok is not True]
        if outcome != "ok":
            # candidates seen by the validity assertion: only validity is judged here (rejected candidates are not results)
            bad = [b for b in bad if b == "valid-derivation-tree"]
        if bad:
            any_bad_valid = any_bad_valid or "valid-derivation-tree" in bad
            ctx.violation(
                f"result:{bad[0]}:{sig}",
                f"insert_tree(inserted={replay['inserted_str']!r} [{case['inserted'][1]}], host={replay['host_str']!r}, methods={case['methods']}) produced {T.tree_str(p)!r} failing {bad}",
                dict(replay, result=p, failed=bad),
            )
        else:
            ctx.count("certified", "accepted")
    if outcome == "validity-assertion" and not any_bad_valid:
        # the third-party validator rejected a tree the verified checker accepts
        ctx.count("third_party", "grammar_graph.tree_is_valid false negative (AssertionError in insert_tree)")
        ctx.notes.append(f"grammar_graph.tree_is_valid rejected a valid candidate: host {replay['host_str']!r}, inserted {replay['inserted_str']!r}, grammar {json.dumps(g)[:200]}")
    if outcome == "ok":
        ctx.nontriv((json.dumps(g, sort_keys=True), replay["host_str"], replay["inserted_str"], case["methods"]))
    ctx.sample({"host": replay["host_str"], "inserted": replay["inserted_str"], "inserted_type": case["inserted"][1], "methods": case["methods"], "results": [T.tree_str(p) for p in plains[:3]]}, limit=8)


def plain(t):
    return (t[0], t[1], None if t[2] is None else [plain(k) for k in t[2]])


def corpus_cases():
    d = os.path.join(ROOT, "corpus", "C13")
    res = []
    if os.path.isdir(d):
        for fn in sorted(os.listdir(d)):
            if fn.endswith(".json"):
                o = json.load(open(os.path.join(d, fn)))
                o["host"], o["inserted"] = plain(o["host"]), plain(o["inserted"])
                o.setdefault("gname", "corpus")
                res.append(o)
    return res


def run(ctx: Ctx):
    import logging

    ok = ctx.proof_side()
    if not os.path.exists(os.path.join(ROOT, "lean", ".lake", "build", "bin", "isladrv")):
        return "infra"
    logging.disable(logging.CRITICAL)
    n = 800 if ctx.tier == "quick" else 6000
    for case in corpus_cases():
        run_case(ctx, case)
    for _ in range(n):
        ctx.check_time()
        case = gen_case(ctx)
        if case is None:
            ctx.count("generator", "skipped")
            continue
        run_case(ctx, case)
    ctx.obligation("certification: every tree returned by insert_tree on the explored cases is accepted by the proved checker", not ctx.violations)
    if not ok and not ctx.violations:
        ctx.violation("proof-obligation-broken", "a proof obligation of C13 no longer checks", {"broken": [n for n, o, _ in ctx.obligations if not o]}, found_input=False)
    ctx.write_evidence(
        RULE,
        [
            "the three insertion methods (graph searches) are not modelled: their outputs are certified one by one; nothing is claimed for unexplored inputs",
            "'contains the inserted tree' is read as: some subtree of the result has the inserted tree as identity-preserving prefix (same ids and labels wherever the inserted tree is expanded)",
            "an AssertionError of insert_tree's own tree_is_valid assertion on a candidate the verified checker accepts is a false negative of the third-party grammar_graph validator; it is counted and noted, not reported",
        ],
    )


def replay(ctx: Ctx, obj):
    import logging

    logging.disable(logging.CRITICAL)
    case = {"grammar": obj["grammar"], "gname": "replay", "host": plain(obj["host"]), "inserted": plain(obj["inserted"]), "methods": obj["methods"], "max_num_solutions": obj["max_num_solutions"]}
    run_case(ctx, case)
