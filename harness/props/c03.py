"""C03 — evaluate() / ISLaSolver.check() agree with the ISLa language specification on closed trees.

Proof side: lean/IslaVerif/Properties/C03.lean — the executable reference evaluator `evalRef`
(transcription of islaspec.rst: tree quantifiers with/without match expressions, numeric
quantifiers, structural predicates, count, SMT-LIB atoms) is proved sound w.r.t. the Prop-valued
specification `Sat`: a definite answer is the truth value of the specification.
Tie: generated constraints in concrete syntax x closed derivation trees (incl. nodes with many
children) are evaluated by the real evaluate() and ISLaSolver.check() and by evalRef on the formula
ISLa parsed; a different verdict, UNKNOWN where the reference decides, or an exception is a
failing input.
"""
from __future__ import annotations

import json
import subprocess
import os
from typing import Any, Dict, List, Optional

from core import Ctx, ROOT, drive
from proto import Atom
from gen import grammars as G
from gen import trees as T
from gen.formulas import FormulaGen
import semconv

LEVEL = "proof"

RULE = (
    "cases = (grammar, constraint text, closed tree): constraints generated from the grammar in core concrete syntax (nested forall/exists "
    "with and without match expressions built from real alternatives, numeric quantifiers in the count / str.to.int patterns, the nine "
    "structural predicates incl. nth and level, count, SMT atoms over =, str.len, prefixof, contains, in_re, str.to.int on numeral "
    "nonterminals; not/and/or nesting <= 3) x 4 random closed derivation trees each (<= 70 nodes, plus trees with 30-40-children nodes); "
    "both evaluation strategies reached (with / without numeric quantifiers); non-trivial = distinct (constraint, tree) whose constraint has "
    "verdicts that differ across its sampled trees"
)

WIDE = {"<start>": ["<a>"], "<a>": ["<d>" * 34], "<d>": ["0", "1", "7", "<e>"], "<e>": ["x<d>", "y"]}
# a node with 260 children: child indices beyond every single-character bound of the subtree trie's key encoding
VERY_WIDE = {"<start>": ["<a>"], "<a>": ["<d>" * 260], "<d>": ["0", "1", "7"]}
ASSGN = {"<start>": ["<stmt>"], "<stmt>": ["<assgn>", "<assgn> ; <stmt>"], "<assgn>": ["<var> := <rhs>"], "<rhs>": ["<var>", "<digit>"], "<var>": ["a", "b", "c"], "<digit>": ["0", "1", "2", "7"]}
NUMS = {"<start>": ["<list>"], "<list>": ["<num>", "<num>,<list>"], "<num>": ["<dig>", "<dig><num>"], "<dig>": ["0", "1", "2", "9"]}


def pick_grammar(ctx: Ctx):
    r = ctx.rng.random()
    if r < 0.03:
        return VERY_WIDE, "very-wide"
    if r < 0.1:
        return WIDE, "wide"
    if r < 0.3:
        return ASSGN, "assgn"
    if r < 0.45:
        return NUMS, "nums"
    return G.gen_acyclic_grammar(ctx.rng, eps_prob=0.1, terminals=("a", "b", "0", "1", "x", " ", "ab", ";")), "random"


def isla_verdicts(text: str, grammar, dts) -> List[Dict[str, Any]]:
    from isla.evaluator import evaluate
    from isla.solver import ISLaSolver

    out = []
    solver = None
    solver_err = None
    try:
        solver = ISLaSolver(grammar, text)
    except Exception as e:  # noqa
        solver_err = ("raises", type(e).__name__, str(e)[:120])
    for dt in dts:
        d: Dict[str, Any] = {}
        try:
            r = evaluate(text, dt, grammar)
            d["evaluate"] = True if r.is_true() else (False if r.is_false() else None)
        except Exception as e:  # noqa
            d["evaluate"] = ("raises", type(e).__name__, str(e)[:120])
        if solver is not None:
            try:
                d["check"] = bool(solver.check(dt))
            except Exception as e:  # noqa
                d["check"] = ("raises", type(e).__name__, str(e)[:120])
        else:
            d["check"] = solver_err
        out.append(d)
    return out


def feature_sig(text: str) -> str:
    feats = []
    if " int " in text:
        feats.append("int-quantifier")
    if '="' in text:
        feats.append("match-expr")
    for p in ("nth(", "level(", "count(", "consecutive(", "before(", "after(", "inside(", "direct_child(", "same_position(", "different_position("):
        if p in text:
            feats.append(p[:-1])
    for p in ("str.to.int", "str.in_re", "str.len", "str.prefixof", "str.contains"):
        if p in text:
            feats.append(p)
    return "+".join(feats[:4]) or "plain"


def check_case(ctx: Ctx, grammar, gname: str, text: str, trees: List[T.PT], origin: str):
    from isla.language import parse_isla
    import logging

    try:
        from isla.isla_predicates import STANDARD_STRUCTURAL_PREDICATES, STANDARD_SEMANTIC_PREDICATES

        f = parse_isla(text, grammar, STANDARD_STRUCTURAL_PREDICATES, STANDARD_SEMANTIC_PREDICATES)
    except Exception as e:  # noqa
        ctx.count("generator", "unparsable:" + type(e).__name__)
        return
    try:
        fs = semconv.formula_to_sexp(f, grammar)
    except semconv.Unsupported as e:
        ctx.count("generator", "unsupported:" + str(e)[:30])
        return
    size_bound = max(T.size(t) for t in trees) + 16
    try:
        ref = drive([semconv.eval_requests(grammar, trees, fs, int_bound=size_bound)], timeout=90.0)[0]
    except subprocess.TimeoutExpired:
        # the reference's bounded search for numeric quantifiers is exponential in their nesting depth
        ctx.count("reference", "not finished within 90 s (no verdict)")
        ctx.coverage.setdefault("notes", []).append("reference evaluation not finished within 90 s: " + text[:200])
        return
    dts = [T.to_isla(t) for t in trees]
    isla = isla_verdicts(text, grammar, dts)
    refs = [semconv.tv(a) for a in ref]
    varied = len(set(r for r in refs if r is not None)) > 1
    for t, r, d in zip(trees, refs, isla):
        ctx.evaluations += 1
        ctx.count("reference_verdict", str(r))
        ctx.count("strategy", "numeric-quantifiers" if " int " in text else "legacy")
        if varied:
            ctx.nontriv((text, repr(T.tree_str(t)), T.size(t)))
        if r is None:
            ctx.count("oracle", "undecided")
        for entry in ("evaluate", "check"):
            v = d[entry]
            ctx.count("isla_" + entry, "raises" if isinstance(v, tuple) else str(v))
            replay = {"grammar": grammar, "constraint": text, "tree": t, "tree_str": T.tree_str(t), "reference": r, "isla": {k: str(x) for k, x in d.items()}, "origin": origin}
            key_feat = feature_sig(text) + (":wide" if gname in ("wide", "very-wide") else "")
            z3_bound = " int " in text
            if z3_bound and (v is None or (isinstance(v, tuple) and v[1] == "UnknownResultError")):
                # numeric quantifiers are decided by ONE Z3 query over quantified string variables; whether Z3 answers within
                # its time limit depends on the machine's load.  The property demands a verdict only "when Z3 can decide":
                # no verdict here, counted
                ctx.count("z3_quantified_query", f"{entry}: no verdict (unknown)")
                continue
            if isinstance(v, tuple):
                ctx.violation(f"{entry}:raises-{v[1]}:{key_feat}", f"{entry} raised {v[1]} ({v[2]}) for {text!r} on {T.tree_str(t)!r}", replay)
            elif r is not None and v is None:
                ctx.violation(f"{entry}:unknown:{key_feat}", f"{entry} is UNKNOWN, the specification decides {r}: {text!r} on {T.tree_str(t)!r}", replay)
            elif r is not None and v != r:
                ctx.violation(f"{entry}:verdict:{key_feat}", f"{entry} says {v}, the specification says {r}: {text!r} on {T.tree_str(t)!r}", replay)
    ctx.sample({"constraint": text, "trees": [T.tree_str(t) for t in trees][:2], "reference": refs}, limit=6)


def wide_witness_cases(ctx: Ctx):
    """a node with 260 children all spelling 0 except one, at an index around the bounds of the subtree trie's key
    encoding (28 = old single-character alphabet, 252-254 = escape boundary): the only witness / counterexample of a
    quantifier sits exactly there"""
    for k in (0, 27, 28, 29, 251, 252, 253, 254, 259):
        ids = T.IdGen()
        kids = []
        for i in range(260):
            kids.append((ids(), "<d>", [(ids(), "7" if i == k else "0", [])]))
        t = (ids(), "<start>", [(ids(), "<a>", kids)])
        for text in (
            'exists <d> d in start: ((= d "7"))',
            'forall <d> d in start: ((= d "0"))',
            'forall <a> a in start: (exists <d> d in a: ((= d "7")))',
            'exists <d> d in start: (((= d "7") and (not (= d "0"))))',
        ):
            check_case(ctx, VERY_WIDE, "very-wide", text, [t], f"wide-witness-at-{k}")


def corpus_cases():
    d = os.path.join(ROOT, "corpus", "C03")
    res = []
    if os.path.isdir(d):
        for fn in sorted(os.listdir(d)):
            if fn.endswith(".json"):
                o = json.load(open(os.path.join(d, fn)))
                res.append((o["grammar"], o["constraint"], [plain(t) for t in o["trees"]], fn))
    return res


def plain(t):
    return (t[0], t[1], None if t[2] is None else [plain(k) for k in t[2]])


def run(ctx: Ctx):
    import logging

    ok = ctx.proof_side()
    if not os.path.exists(os.path.join(ROOT, "lean", ".lake", "build", "bin", "isladrv")):
        return "infra"
    logging.disable(logging.CRITICAL)
    quick = ctx.tier == "quick"
    n = 500 if quick else 12000
    for g, text, trees, fn in corpus_cases():
        check_case(ctx, g, "corpus", text, trees, "corpus/" + fn)
    wide_witness_cases(ctx)
    for i in range(n):
        ctx.check_time()
        g, gname = pick_grammar(ctx)
        c = G.canon(g)
        trees = []
        for _ in range(4):
            t = T.gen_tree(ctx.rng, c, "<start>", ctx.rng.randint(2, 7), T.IdGen())
            if T.size(t) <= (600 if gname == "very-wide" else 140 if gname == "wide" else 70):
                trees.append(t)
        if not trees:
            continue
        if gname == "very-wide":
            # 260 children: quantifier domains only (predicates over all node pairs would dominate the run time)
            fg = FormulaGen(ctx.rng, g, trees, allow_int=False, allow_preds=False)
            text = fg.constraint(depth=1)
        else:
            fg = FormulaGen(ctx.rng, g, trees, allow_int=(i % 3 == 0))
            text = fg.constraint(depth=ctx.rng.randint(1, 3))
        ctx.count("grammar", gname)
        check_case(ctx, g, gname, text, trees, "generated")
    ctx.obligation("correspondence: evaluate()/check() == reference semantics on all explored (constraint, tree) pairs", not ctx.violations)
    if not ok and not ctx.violations:
        ctx.violation("proof-obligation-broken", "a proof obligation of C03 no longer checks", {"broken": [n for n, o, _ in ctx.obligations if not o]}, found_input=False)
    ctx.write_evidence(
        RULE,
        [
            "the reference evaluates the formula as parsed by parse_isla (concrete syntax -> formula is the subject of C07/C08); match-expression trees are taken from ISLa's own parse of the match expression",
            "numeric quantifiers: the reference searches 0..(tree size + 16); an undecided reference verdict is skipped and counted",
            "SMT atoms are judged by the SMT-LIB oracle model of C05 (tied to Z3 there)",
        ],
    )


def replay(ctx: Ctx, obj):
    check_case(ctx, obj["grammar"], "replay", obj["constraint"], [plain(obj["tree"])], "replay")
