"""C10 — the parser accepts exactly the grammar's language and returns faithful trees.

Proof side: lean/IslaVerif/Properties/C10.lean — the reference recognizer is proved correct
(`recognize g A s = some b -> (b <-> Der g s A 0 |s|)`), `Der` is proved equivalent to the
existence of a valid closed derivation tree with that yield, and the tree checker is proved
sound and complete for "valid closed tree of A yielding s".
Tie (per input, exhaustive up to a length bound): EarleyParser.parse / ISLaSolver.parse accept
<=> the verified recognizer accepts; anything else than a tree or SyntaxError is a failing input;
every yielded tree goes through the verified checker.
"""
from __future__ import annotations

import itertools
import json
import os
from typing import Any, Dict, List

from core import Ctx, ROOT, drive
from proto import Atom
from gen import grammars as G
from gen import trees as T

LEVEL = "proof"

RULE = (
    "cases = (grammar, start symbol or requested nonterminal, string): for each generated non-cyclic grammar (epsilon rules, left/right/"
    "mutual recursion, ambiguity, multi-character terminals, several <start> alternatives) ALL strings up to length L over the grammar's "
    "terminal characters (exhaustive for that grammar and length) + strings derived from random derivations (length <= 40) + mutated "
    "derived strings; each case = accept/reject compared with the verified recognizer and every yielded tree checked by the verified "
    "tree checker; non-trivial = distinct (grammar, string) with a non-empty string"
)


def alphabet(g: G.Grammar) -> List[str]:
    chars = []
    for alts in G.canon(g).values():
        for alt in alts:
            for sym in alt:
                if not G.is_nt(sym) or sym not in g:
                    for ch in sym:
                        if ch not in chars:
                            chars.append(ch)
    return chars


PARSE_WALL_S = 120  # per string; exceeding it is "no verdict observed", never a violation
PARSE_MEM_EXTRA = 2 << 30  # address space the parser may take on top of what the process uses already


class ParseBudget(BaseException):  # not an Exception: must not be swallowed by the code under test
    pass


def _vm_size() -> int:
    try:
        with open("/proc/self/statm") as f:
            return int(f.read().split()[0]) * os.sysconf("SC_PAGE_SIZE")
    except Exception:  # noqa
        return 2 << 30


def guarded(fn):
    """Run fn() under a soft address-space limit and a wall-clock alarm, so that a parser that explodes on
    one input ends in MemoryError / ParseBudget for that input instead of the whole check being killed."""
    import resource
    import signal

    soft, hard = resource.getrlimit(resource.RLIMIT_AS)
    cap = _vm_size() + PARSE_MEM_EXTRA
    if hard != resource.RLIM_INFINITY:
        cap = min(cap, hard)

    def on_alarm(signum, frame):
        raise ParseBudget()

    old = signal.signal(signal.SIGALRM, on_alarm)
    resource.setrlimit(resource.RLIMIT_AS, (cap, hard))
    signal.setitimer(signal.ITIMER_REAL, PARSE_WALL_S)
    try:
        return fn()
    finally:
        signal.setitimer(signal.ITIMER_REAL, 0)
        resource.setrlimit(resource.RLIMIT_AS, (soft, hard))
        signal.signal(signal.SIGALRM, old)


def parse_all(parser, s: str, max_trees: int = 3):
    """-> ('trees', [plain trees]) | ('SyntaxError',) | ('raises', cls) | ('budget',)"""

    def go():
        out = []
        for i, t in enumerate(parser.parse(s)):
            out.append(t)
            if i + 1 >= max_trees:
                break
        return ("trees", out)

    try:
        return guarded(go)
    except SyntaxError:
        return ("SyntaxError",)
    except RecursionError:
        return ("raises", "RecursionError")
    except MemoryError:
        return ("raises", "MemoryError")
    except ParseBudget:
        return ("budget",)
    except Exception as e:  # noqa
        return ("raises", type(e).__name__)


def pt_to_plain(pt, ids) -> T.PT:
    name, kids = pt
    return (ids(), name, None if kids is None else [pt_to_plain(k, ids) for k in kids])


def check_grammar(ctx: Ctx, g: G.Grammar, start: str, strings: List[str], origin: str, exhaustive_len: int):
    from isla.parser import EarleyParser
    from isla.helpers import delete_unreachable
    import copy

    if start == "<start>":
        gg = g
    else:
        gg = delete_unreachable(copy.deepcopy(g) | {"<start>": [start]})
    try:
        parser = EarleyParser(gg)
    except Exception as e:  # noqa
        ctx.violation("parser-construction:" + type(e).__name__, f"EarleyParser(grammar) raised {type(e).__name__}", {"grammar": g, "start": start})
        return
    gs = G.grammar_sexp(gg)
    results = [parse_all(parser, s) for s in strings]
    answers = drive([[Atom("c10"), Atom("lang"), gs, "<start>", strings]])[0]
    tree_reqs, tree_idx = [], []
    for i, (s, r, a) in enumerate(zip(strings, results, answers)):
        ctx.evaluations += 1
        ctx.count("string_length", len(s))
        if s:
            ctx.nontriv((json.dumps(g, sort_keys=True), start, s))
        if isinstance(a, Atom) and a == "unknown":
            ctx.count("oracle", "unknown")
            continue
        want = bool(a)
        if r[0] == "budget":
            # the real parser did not answer within PARSE_WALL_S: no verdict to compare
            ctx.count("parser", f"no-answer-within-{PARSE_WALL_S}s")
            ctx.notes.append(f"no parser answer within {PARSE_WALL_S} s for {s!r} (in language: {want}) on {json.dumps(g)}")
            continue
        ctx.count("verdict", f"in-language={want}")
        replay = {"grammar": g, "start": start, "string": s, "isla": r[0] if r[0] != "raises" else r, "in_language": want, "origin": origin}
        if r[0] == "raises":
            ctx.violation(f"parse-raises:{r[1]}", f"parse({s!r}) raised {r[1]} (in language: {want})", replay)
        elif r[0] == "SyntaxError" and want:
            ctx.violation("rejects-member" + (":multi-start" if len(g.get("<start>", [])) > 1 else ""), f"parse({s!r}) raised SyntaxError but the string is in L({start})", replay)
        elif r[0] == "trees" and not want:
            ctx.violation("accepts-non-member", f"parse({s!r}) yielded a tree but the string is not in L({start})", replay)
        elif r[0] == "trees" and not r[1]:
            ctx.violation("no-tree", f"parse({s!r}) neither raised SyntaxError nor yielded a tree", replay)
        if r[0] == "trees":
            ids = T.IdGen()
            for pt in r[1]:
                plain = pt_to_plain(pt, ids)
                tree_reqs.append([Atom("c10"), Atom("tree"), gs, "<start>", s, T.to_sexp(plain)])
                tree_idx.append((s, plain))
    if tree_reqs:
        for (s, plain), a in zip(tree_idx, drive(tree_reqs)):
            ctx.evaluations += 1
            ctx.count("trees_checked", "n")
            names = ["valid-derivation-tree", "closed", "root-is-start", "yield-equals-input"]
            bad = [n for n, ok in zip(names, a) if not ok]
            if bad:
                ctx.violation(
                    "unfaithful-tree:" + bad[0],
                    f"tree yielded for {s!r} fails: {bad}",
                    {"grammar": g, "start": start, "string": s, "tree": plain, "failed": bad, "origin": origin},
                )
    ctx.sample({"grammar": g, "start": start, "strings": len(strings), "exhaustive_up_to": exhaustive_len, "accepted": sum(1 for r in results if r[0] == "trees")}, limit=5)
    interleaved(ctx, parser, g, start, [(s, r[1]) for s, r in zip(strings, results) if r[0] == "trees" and len(r[1]) >= 2])


def interleaved(ctx: Ctx, parser, g, start, multi):
    """the trees of one input must not depend on other parses of the same parser object being consumed in between"""
    if len(multi) < 2:
        return
    pairs = [(multi[i], multi[(i + 1 + ctx.rng.randrange(len(multi) - 1)) % len(multi)]) for i in range(min(4, len(multi)))]
    for (a, ta), (b, tb) in pairs:
        if a == b:
            continue

        def go():
            ga = parser.parse(a)
            first = [next(ga)]
            gb = parser.parse(b)
            other = [next(gb)]
            for t in ga:
                first.append(t)
                if len(first) >= len(ta):
                    break
            return first

        ctx.evaluations += 1
        ctx.count("interleaved", "pairs")
        try:
            got = guarded(go)
        except ParseBudget:
            continue
        except Exception as e:  # noqa
            got = ("raises", type(e).__name__)
        if got != ta:
            ctx.violation(
                "interleaved-parses",
                f"the trees yielded for {a!r} change when a parse of {b!r} on the same parser object is consumed in between",
                {"grammar": g, "start": start, "string": a, "other": b, "sequential": repr(ta)[:300], "interleaved": repr(got)[:300]},
            )


def solver_parse(ctx: Ctx, g: G.Grammar, strings: List[str]):
    """ISLaSolver.parse(inp, nonterminal) inherits the behaviour"""
    from isla.solver import ISLaSolver
    import logging

    rng = ctx.rng
    try:
        solver = ISLaSolver(g)
    except Exception as e:  # noqa
        ctx.count("solver_construct", type(e).__name__)
        return
    logging.getLogger("ISLaSolver").setLevel(logging.CRITICAL)
    nts = [k for k in g if k != "<start>"]
    for nt in [None] + rng.sample(nts, min(2, len(nts))):
        import copy
        from isla.helpers import delete_unreachable

        start = nt or "<start>"
        gg = g if nt is None else delete_unreachable(copy.deepcopy(g) | {"<start>": [nt]})
        sub = rng.sample(strings, min(len(strings), 25))
        ans = drive([[Atom("c10"), Atom("lang"), G.grammar_sexp(gg), "<start>", sub]])[0]
        reqs, idx = [], []
        for s, a in zip(sub, ans):
            if isinstance(a, Atom):
                continue
            ctx.evaluations += 1
            ctx.count("solver_parse", start == "<start>" and "start" or "nonterminal")
            try:
                t = guarded(lambda: solver.parse(s, start, skip_check=True, silent=True))
                r = "tree"
            except SyntaxError:
                r = "SyntaxError"
            except ParseBudget:
                ctx.count("parser", f"no-answer-within-{PARSE_WALL_S}s")
                continue
            except MemoryError:
                r = "raises-MemoryError"
            except Exception as e:  # noqa
                r = "raises-" + type(e).__name__
            replay = {"grammar": g, "start": start, "string": s, "isla": r, "in_language": bool(a), "via": "ISLaSolver.parse"}
            if r.startswith("raises"):
                ctx.violation("solver-parse-" + r, f"ISLaSolver.parse({s!r}, {start}) {r}", replay)
            elif (r == "tree") != bool(a):
                ctx.violation("solver-parse-verdict", f"ISLaSolver.parse({s!r}, {start}) -> {r}, in language: {bool(a)}", replay)
            elif r == "tree":
                # tree of the requested nonterminal
                gsub = G.grammar_sexp(gg)
                plain = T.from_isla(t)
                if nt is None:
                    reqs.append([Atom("c10"), Atom("tree"), gsub, "<start>", s, T.to_sexp(plain)])
                else:
                    wrapped = (0, "<start>", [plain])
                    reqs.append([Atom("c10"), Atom("tree"), gsub, "<start>", s, T.to_sexp(wrapped)])
                idx.append((s, plain, start))
        for (s, plain, start), a in zip(idx, drive(reqs) if reqs else []):
            if not all(a):
                ctx.violation("solver-parse-unfaithful-tree", f"ISLaSolver.parse({s!r}, {start}) returned an unfaithful tree {a}", {"grammar": g, "start": start, "string": s, "tree": plain})


def derived_strings(rng, g: G.Grammar, n: int) -> List[str]:
    c = G.canon(g)
    out = []
    for _ in range(n):
        t = T.gen_tree(rng, c, "<start>", rng.randint(2, 8), T.IdGen())
        s = T.tree_str(t)
        if len(s) <= 40:
            out.append(s)
            if s and rng.random() < 0.5:
                i = rng.randrange(len(s))
                k = rng.random()
                out.append(s[:i] + s[i + 1 :] if k < 0.5 else s[:i] + rng.choice(alphabet(g) or ["a"]) + s[i:])
    return out


def corpus_cases():
    d = os.path.join(ROOT, "corpus", "C10")
    res = []
    if os.path.isdir(d):
        for fn in sorted(os.listdir(d)):
            if fn.endswith(".json"):
                o = json.load(open(os.path.join(d, fn)))
                res.append((o["grammar"], o.get("start", "<start>"), o["strings"], fn))
    return res


def gen_nullable_chain(rng, terms):
    """<start> uses nonterminals that are nullable only through nonterminals defined LATER (unit chains ending
    in an epsilon alternative), several times and at the same input position"""
    k = rng.randint(1, 3)
    chain = [f"<n{i}>" for i in range(k + 1)]
    t = rng.choice(terms)
    body = []
    for _ in range(rng.randint(2, 4)):
        body.append(rng.choice([chain[0], chain[0], rng.choice(chain), "<w>", rng.choice(terms)]))
    if "<w>" not in body:
        body.append("<w>")
    g = {"<start>": ["".join(body)]}
    for i, nt in enumerate(chain[:-1]):
        alts = [chain[i + 1]]
        if rng.random() < 0.4:
            alts.append(rng.choice(terms) + chain[i + 1])
        g[nt] = alts
    g[chain[-1]] = ["", t + chain[-1]] if rng.random() < 0.7 else [t + chain[-1], ""]
    g["<w>"] = [rng.choice(terms), rng.choice(terms) + "<w>"] if rng.random() < 0.5 else [rng.choice(terms) + rng.choice(terms)]
    g["<w>"] = list(dict.fromkeys(g["<w>"]))
    return g


def gen_grammar(ctx: Ctx):
    rng = ctx.rng
    for _ in range(200):
        if rng.random() < 0.2:
            g = gen_nullable_chain(rng, rng.choice([("a", "b"), ("a", "b", " "), ("0", "1", "-")]))
            if not G.is_cyclic(g):
                return g
            continue
        multi = rng.random() < 0.2
        terms = rng.choice([("a", "b"), ("a", "b", "c"), ("a", "ab", "b"), ("0", "1", "x"), ("a", "b", " ")])
        g = G.gen_grammar(rng, n_nt=(1, 5), terminals=terms, eps_prob=0.2, multi_start=multi, max_syms=3)
        if rng.random() < 0.25:
            # a recursive start symbol (the chart then also holds inner <start> items)
            t, u = rng.choice(terms), rng.choice(terms)
            g["<start>"] = g["<start>"] + [rng.choice([t + "<start>", "<start>" + t, t + "<start>" + u])]
        if G.is_cyclic(g):
            ctx.count("generator", "cyclic-skipped")
            continue
        return g
    raise RuntimeError("no acyclic grammar found")


def run(ctx: Ctx):
    ok = ctx.proof_side()
    if not os.path.exists(os.path.join(ROOT, "lean", ".lake", "build", "bin", "isladrv")):
        return "infra"
    quick = ctx.tier == "quick"
    n_grammars, L = (30, 4) if quick else (300, 6)
    for g, start, strings, fn in corpus_cases():
        check_grammar(ctx, g, start, strings, "corpus/" + fn, 0)
    exhaustive_cases = 0
    for gi in range(n_grammars):
        ctx.check_time()
        g = gen_grammar(ctx)
        sigma = alphabet(g)[:4]
        Lg = L if len(sigma) <= 3 else L - 1
        strings = [""] + ["".join(p) for n in range(1, Lg + 1) for p in itertools.product(sigma, repeat=n)]
        exhaustive_cases += len(strings)
        strings += [s for s in derived_strings(ctx.rng, g, 12) if s not in set(strings)]
        ctx.count("grammar", "nullable-chain" if "<n0>" in g else "recursive-start" if any("<start>" in a for a in g["<start>"]) else ("multi-start" if len(g["<start>"]) > 1 else "single-start"))
        check_grammar(ctx, g, "<start>", strings, "generated", Lg)
        if gi % 3 == 0:
            solver_parse(ctx, g, strings)
    ctx.coverage["exhaustive_strings"] = exhaustive_cases
    ctx.coverage["exhaustive"] = False
    ctx.coverage["exhaustive_note"] = f"for each of the {n_grammars} grammars every string up to length {L} ({L-1} for 4-letter alphabets) over its terminal characters was tried"
    ctx.obligation("correspondence: parser verdict == verified recognizer, all yielded trees certified", not ctx.violations)
    if not ok and not ctx.violations:
        ctx.violation("proof-obligation-broken", "a proof obligation of C10 no longer checks", {"broken": [n for n, o, _ in ctx.obligations if not o]}, found_input=False)
    ctx.write_evidence(
        RULE,
        [
            "grammars with infinitely ambiguous (cyclic unit/nullable) derivations are excluded, as in the property's quantifier (decided by the generator)",
            "completeness of the Earley algorithm itself is validated per input against the proved recognizer, not proved",
            "at most 3 trees are drawn from the parse generator per input",
        ],
    )


def replay(ctx: Ctx, obj):
    check_grammar(ctx, obj["grammar"], obj.get("start", "<start>"), [obj["string"]], "replay", 0)
