"""C17 — serialized trees and constraints round-trip without damaging the original.

Proof side: lean/IslaVerif/Properties/C17.lean — the tree codec (`decode (encode t) = clearK t`,
structure/identities preserved, serialized form independent of computed k-paths) and the
object-state machine (every op succeeds in every reachable state, serialization never changes the
live object, no history changes structure/identities/string).
Tie: histories of cache computations (k_paths / concrete k_paths on random subtrees, str/len/hash/
structural_hash/is_open) and serializations (to_json, pickle round trip) on real DerivationTree
objects; before/after every op the complete private state of every node is snapshotted and compared
with the model's prediction (JSON output, decoded tree, unchanged live object).  Property-level checks
on the real objects (round trip keeps structure, ids, string; original still usable) are failing inputs
directly.  SMT formulas: pickling round trip for generated literals (quotes, backslashes, non-ASCII,
control characters); CLI JSON output read back as the same tree.
"""
from __future__ import annotations

import json
import os
import pickle
from typing import Any, Dict, List, Tuple

from core import Ctx, ROOT, drive
from proto import Atom
from gen import grammars as G
from gen import trees as T

LEVEL = "proof"
REPLAY_BY_SEED = True  # a replay file names (seed, tier); ./check --replay re-runs exactly that run

RULE = (
    "cases = histories (<= 10 ops quick / <= 25 thorough) over {k_paths(k in 1..3) and concrete k_paths on a random subtree, "
    "str/len/hash/structural_hash/is_open, to_json, pickle round trip (then continue using the ORIGINAL object)} on generated open/closed "
    "trees; + SMT formula pickles over generated string literals (quotes, backslashes, non-ASCII, control chars, \\u{..} look-alikes) in "
    "several operator contexts; + CLI JSON round trips; non-trivial = distinct (tree, history) containing at least one serialization after a "
    "cache computation, or distinct literal"
)

KEYS = ["_DerivationTree__len", "_DerivationTree__hash", "_DerivationTree__structural_hash", "_DerivationTree__is_open"]


def snap(dt) -> list:
    """complete private state of every node"""
    d = dt.__dict__

    def opt(k):
        if k not in d:
            return Atom("missing")
        return d[k]

    f = [opt(KEYS[0]), opt(KEYS[1]), opt(KEYS[2]), opt(KEYS[3])]
    for k in ("_DerivationTree__k_paths", "_DerivationTree__concrete_k_paths"):
        f.append(Atom("missing") if k not in d else bool(d[k]))
    if dt.children is None:
        return [Atom("o"), dt.id, dt.value, f]
    return [Atom("n"), dt.id, dt.value, f] + [snap(k) for k in dt.children]


def has_missing(s) -> bool:
    if isinstance(s, Atom):
        return s == "missing"
    if isinstance(s, list):
        return any(has_missing(x) for x in s)
    return False


def jval(o) -> Any:
    """python json value -> the driver's encoding"""
    if o is None:
        return Atom("null")
    if isinstance(o, bool):
        return o
    if isinstance(o, int):
        return o
    if isinstance(o, str):
        return o
    if isinstance(o, list):
        return [Atom("arr")] + [jval(x) for x in o]
    if isinstance(o, dict):
        return [Atom("obj")] + [[k, jval(v)] for k, v in o.items()]
    return Atom("unsupported-" + type(o).__name__)


def norm(x):
    return json.loads(json.dumps(x, default=str))


def outcome(fn):
    """('ok', value) | ('raises', exception class name)"""
    try:
        return ("ok", fn())
    except Exception as e:  # noqa
        return ("raises", type(e).__name__)


def history(ctx: Ctx, g, t0, n_ops: int):
    import grammar_graph.gg as gg

    rng = ctx.rng
    graph = gg.GrammarGraph.from_grammar(g)
    dt = T.to_isla(t0)
    hist: List[Any] = []
    serial_after_cache = False
    cache_done = False

    def fail(key, what, extra=None):
        ctx.violation(key, what, dict({"grammar": g, "tree": t0, "history": hist}, **(extra or {})))

    for _ in range(n_ops):
        r = rng.random()
        before = snap(dt)
        try:
            if r < 0.3:
                p, sub = rng.choice([(p, s) for p, s in dt.paths() if G.is_nt(s.value)])
                k = rng.randint(1, 3)
                conc = rng.random() < 0.4
                hist.append(["concrete_k_paths" if conc else "k_paths", list(p), k])
                live = outcome(lambda: sub.k_paths(graph, k, include_potential_paths=not conc))
                if live[0] == "raises":
                    # "serializing never changes the behaviour of the original": the reference is a twin
                    # that was never serialized.  grammar_graph rejects some trees of ambiguous-looking
                    # alternatives whatever their history; that is not a serialization matter.
                    twin = outcome(lambda: T.to_isla(t0).get_subtree(tuple(p)).k_paths(graph, k, include_potential_paths=not conc))
                    if twin != live:
                        fail(f"op-raises:{hist[-1][0]}:{live[1]}", f"{hist[-1][0]} raised {live[1]} after history {hist[:-1]}, but not on a never-serialized twin")
                        return serial_after_cache
                    ctx.count("op", "k_paths-raises-on-fresh-twin-too:" + live[1])
                    hist.pop()
                    continue
                cache_done = True
            elif r < 0.5:
                what = rng.choice(["str", "len", "hash", "structural_hash", "is_open"])
                hist.append([what])
                {"str": lambda: str(dt), "len": lambda: len(dt), "hash": lambda: hash(dt), "structural_hash": dt.structural_hash, "is_open": dt.is_open}[what]()
            elif r < 0.75:
                hist.append(["to_json"])
                out = json.loads(dt.to_json())
                after = snap(dt)
                serial_after_cache |= cache_done
                if norm(after) != norm(before):
                    fail("to_json-changes-original", "to_json() changed the private state of the live tree" + (" (attributes deleted)" if has_missing(after) else ""), {"before": norm(before), "after": norm(after)})
                ans = drive([[Atom("c17"), Atom("encode"), before]])[0]
                ctx.evaluations += 1
                if norm(jval(out)) != norm(ans):
                    ctx.violation("obs:to_json", "to_json() output differs from the model's encoding", {"history": hist, "tree": t0, "isla": out, "model": norm(ans), "broken": "correspondence c17/encode"}, found_input=False)
            else:
                hist.append(["pickle"])
                copy = pickle.loads(pickle.dumps(dt))
                copy_state = snap(copy)  # before any use of the copy (lru_cache'd methods hash their receiver)
                after = snap(dt)
                serial_after_cache |= cache_done
                if norm(after) != norm(before):
                    fail("pickle-changes-original", "pickling changed the private state of the live tree" + (" (attributes deleted)" if has_missing(after) else ""), {"before": norm(before), "after": norm(after)})
                # property level: same structure, identities, string
                if T.from_isla(copy) != T.from_isla(dt) or str(copy) != str(dt):
                    fail("pickle-roundtrip", "unpickled tree differs in structure / identities / string")
                ans = drive([[Atom("c17"), Atom("roundtrip"), before]])[0]
                ctx.evaluations += 1
                if isinstance(ans, Atom) or norm(ans[1]) != norm(copy_state):
                    ctx.violation("obs:pickle", "unpickled tree's private state differs from the model's decode(encode(t))", {"history": hist, "tree": t0, "isla": norm(copy_state), "model": norm(ans), "broken": "correspondence c17/roundtrip"}, found_input=False)
                # the copy must be as usable as a tree that was never serialized
                a = outcome(lambda: copy.k_paths(graph, 2))
                b = outcome(lambda: T.to_isla(t0).k_paths(graph, 2))
                if a != b:
                    fail("pickle-copy-behaviour", f"k_paths on the unpickled copy: {a[0]} {a[1] if a[0] == 'raises' else ''}, on a never-serialized twin: {b[0]} {b[1] if b[0] == 'raises' else ''}")
                elif a[0] == "raises":
                    ctx.count("op", "k_paths-raises-on-fresh-twin-too:" + a[1])
                str(copy)
        except Exception as e:  # noqa
            import traceback

            fail(f"op-raises:{hist[-1][0]}:{type(e).__name__}", f"{hist[-1][0]} raised {type(e).__name__}: {str(e)[:120]} after history {hist[:-1]}", {"traceback": traceback.format_exc()[-1200:]})
            return serial_after_cache
        ctx.evaluations += 1
        ctx.count("op", hist[-1][0])
    return serial_after_cache


LITERAL_PARTS = ['"', "\\", "a", "b", " ", "\n", "\t", "\x00", "ä", "€", "\U0001F600", "\\u{41}", '""', '\\"', "'", "(", ")", ";", "\x7f", "ÿ", "\\\\"]


def smt_pickles(ctx: Ctx, n: int):
    import z3
    from isla.language import SMTFormula, BoundVariable
    from isla.z3_helpers import z3_eq

    rng = ctx.rng
    v = BoundVariable("v", "<a>")
    w = BoundVariable("w", "<a>")
    for i in range(n):
        lit = "".join(rng.choice(LITERAL_PARTS) for _ in range(rng.randint(0, 5)))
        sv = z3.StringVal(lit)
        ctxkind = rng.choice(["eq", "prefix", "concat", "inre", "and", "z3-forall", "z3-exists"])
        if ctxkind == "eq":
            f = SMTFormula(z3_eq(v.to_smt(), sv), v)
        elif ctxkind == "prefix":
            f = SMTFormula(z3.PrefixOf(sv, v.to_smt()), v)
        elif ctxkind == "concat":
            f = SMTFormula(z3_eq(z3.Concat(v.to_smt(), sv), w.to_smt()), v, w)
        elif ctxkind == "inre":
            f = SMTFormula(z3.InRe(v.to_smt(), z3.Concat(z3.Re(sv), z3.Star(z3.Re(z3.StringVal("x"))))), v)
        elif ctxkind in ("z3-forall", "z3-exists"):
            # literals below a Z3 quantifier (as built by the evaluator's quantifier elimination)
            x = z3.String("x")
            body = z3.Or(z3_eq(x, sv), z3.PrefixOf(sv, v.to_smt()))
            f = SMTFormula((z3.ForAll if ctxkind == "z3-forall" else z3.Exists)([x], body), v)
        else:
            f = SMTFormula(z3.And(z3_eq(v.to_smt(), sv), z3.Length(w.to_smt()) > z3.IntVal(len(lit))), v, w)
        ctx.evaluations += 1
        ctx.nontriv(("smt", lit, ctxkind))
        ctx.count("smt_literal", "quote" if '"' in lit else ("backslash" if "\\" in lit else ("non-ascii" if not lit.isascii() else "plain")))
        replay = {"literal": lit, "literal_codepoints": [ord(c) for c in lit], "context": ctxkind}
        try:
            f2 = pickle.loads(pickle.dumps(f))
        except Exception as e:  # noqa
            ctx.violation(f"smt-pickle-raises:{type(e).__name__}", f"pickling an SMT formula with literal {lit!r} raised {type(e).__name__}", replay)
            continue
        quantified = ctxkind.startswith("z3-")
        # (Z3 gives a re-parsed quantifier a new identity, so `==` is not meaningful below quantifiers: compare the text)
        if (not quantified and not (f2 == f)) or f2.formula.sexpr() != f.formula.sexpr():
            ctx.violation(
                "smt-pickle-changed:" + ("quote" if '"' in lit else "backslash" if "\\" in lit else "non-ascii" if not lit.isascii() else "plain"),
                f"SMT formula changed by pickling: {f.formula.sexpr()} -> {f2.formula.sexpr()}",
                replay,
            )
        if f2.free_variables() != f.free_variables():
            ctx.violation("smt-pickle-free-vars", "free variables changed by pickling", replay)
    ctx.sample({"smt_pickles": n, "example_literal": [ord(c) for c in lit]})


def cli_json(ctx: Ctx, cases):
    from isla.cli import derivation_tree_to_json
    from isla.derivation_tree import DerivationTree

    for g, t in cases:
        dt = T.to_isla(t)
        ctx.evaluations += 1
        try:
            back = DerivationTree.from_parse_tree(json.loads(derivation_tree_to_json(dt, pretty_print=ctx.rng.random() < 0.5)))
        except Exception as e:  # noqa
            ctx.violation("cli-json-raises:" + type(e).__name__, "reading back the CLI's JSON tree output raised", {"tree": t})
            continue
        if not back.structurally_equal(dt) or str(back) != str(dt):
            ctx.violation("cli-json-roundtrip", "the CLI's JSON tree output does not read back as the same tree", {"tree": t, "back": T.from_isla(back)})


FREE_TEXT = {
    "<start>": ["<text>"],
    "<text>": ["<char><text>", "<char>"],
    "<char>": [c for c in ' !"#$%&()*+,-./0123456789:;=?@ABCDEFGHIJKLMNOPQRSTUVWXYZ[]^_abcdefghijklmnopqrstuvwxyz{|}~' + "\\'" + "<>\n"],
}


def cli_pipe(ctx: Ctx, n: int):
    """`isla parse` prints a JSON tree; fed back to `isla parse` / `isla check` it must be read as that tree —
    also when the JSON text itself is a word of the grammar (free-text languages, JSON-like languages)"""
    import io
    import tempfile
    from isla import cli
    from isla.language import unparse_grammar

    import signal

    class Budget(Exception):
        pass

    def on_alarm(signum, frame):
        raise Budget()

    def run_cli(argv):
        out, err = io.StringIO(), io.StringIO()
        old = signal.signal(signal.SIGALRM, on_alarm)
        signal.alarm(40)
        try:
            cli.main(*argv, stdout=out, stderr=err)
            code = 0
        except Budget:
            code = "no-answer-within-40s"
        except SystemExit as e:
            code = e.code if isinstance(e.code, int) else (0 if e.code is None else 1)
        except BaseException as e:  # noqa
            code = ("exception", type(e).__name__)
        finally:
            signal.alarm(0)
            signal.signal(signal.SIGALRM, old)
        return code, out.getvalue(), err.getvalue()

    rng = ctx.rng
    with tempfile.TemporaryDirectory(prefix="c17cli_") as d:
        gfile = os.path.join(d, "g.bnf")
        with open(gfile, "w") as f:
            f.write(unparse_grammar(FREE_TEXT))
        for i in range(n):
            word = "".join(rng.choice("ab c{}[]\":,01") for _ in range(rng.randint(1, 2)))
            ctx.evaluations += 1
            ctx.count("cli_pipe", "free-text")
            code1, out1, err1 = run_cli(["parse", gfile, "-c", "true", "-i", word])
            replay = {"grammar": "free text over printable ASCII", "word": word}
            if code1 != 0:
                ctx.count("cli_pipe", f"parse-exit-{code1}")
                continue
            try:
                tree1 = json.loads(out1)
            except Exception:  # noqa
                ctx.violation("cli-pipe:parse-output-not-json", f"isla parse printed no JSON tree for {word!r}", dict(replay, out=out1[:300]))
                continue
            ifile = os.path.join(d, f"in{i}.json")
            with open(ifile, "w") as f:
                f.write(out1)
            code2, out2, err2 = run_cli(["parse", "-c", "true", gfile, ifile])
            if code2 == "no-answer-within-40s":
                ctx.count("cli_pipe", "re-read: no answer within 40 s (no verdict)")
                continue
            if code2 != 0:
                ctx.violation("cli-pipe:json-tree-rejected", f"isla parse rejected the JSON tree it printed for {word!r} (exit {code2})", dict(replay, err=err2[:300]))
                continue
            try:
                tree2 = json.loads(out2)
            except Exception:  # noqa
                tree2 = None
            if tree2 != tree1:
                ctx.violation(
                    "cli-pipe:json-tree-reread-differently",
                    f"the JSON tree printed by isla parse for {word!r} is read back as a different tree (the JSON text taken as a word of the grammar?)",
                    dict(replay, first=out1[:300], second=out2[:300]),
                )


def run(ctx: Ctx):
    ok = ctx.proof_side()
    if not os.path.exists(os.path.join(ROOT, "lean", ".lake", "build", "bin", "isladrv")):
        return "infra"
    quick = ctx.tier == "quick"
    n_hist, max_ops = (120, 10) if quick else (2500, 25)
    cases = []
    for i in range(n_hist):
        ctx.check_time()
        g = G.gen_acyclic_grammar(ctx.rng, no_unit=True, eps_prob=0.0)
        c = G.canon(g)
        t = T.gen_tree(ctx.rng, c, "<start>", ctx.rng.randint(2, 5), T.IdGen())
        if ctx.rng.random() < 0.4:
            t = T.cut_open(ctx.rng, t, 0.3)
        if T.size(t) > 40:
            continue
        cases.append((g, t))
        if history(ctx, g, t, ctx.rng.randint(3, max_ops)):
            ctx.nontriv(("hist", repr(t), i))
        if i < 3:
            ctx.sample({"tree": T.tree_str(t), "nodes": T.size(t)})
    smt_pickles(ctx, 300 if quick else 6000)
    cli_json(ctx, cases[: 60 if quick else 1000])
    cli_pipe(ctx, 25 if quick else 400)
    ctx.obligation("correspondence: to_json / pickle == model codec; live object unchanged; all ops succeed", not ctx.violations)
    if not ok and not ctx.violations:
        ctx.violation("proof-obligation-broken", "a proof obligation of C17 no longer checks", {"broken": [n for n, o, _ in ctx.obligations if not o]}, found_input=False)
    ctx.write_evidence(
        RULE,
        [
            "json.dumps/json.loads, pickle and zlib are trusted (the model works on JSON values)",
            "cached len/hash/structural_hash/is_open values are taken from the real object; the model predicts the serialized form, the decoded object and the unchanged live object",
            "SMT formula pickling is checked at property level on the real objects (Z3's printing/reading of literals is not modelled)",
        ],
    )


def replay(ctx: Ctx, obj):
    print("C17 replays are histories; re-run ./check C17 with seed", obj.get("seed"), "history:", obj.get("history"), "literal:", obj.get("literal_codepoints"))
