"""C15 — integer intervals inferred from a regex are exactly the numbers it matches;
compressing a concatenation never changes the language.

Proof side: lean/IslaVerif/Properties/C15.lean (regex matcher = denotation; compress preserves the
language of every concatenation; merge_intervals keeps the union and yields sorted, separated
intervals; exactness lemmas for the interval inference).
Tie: regex ASTs in the documented shape (and a separate out-of-shape stream) are built with the z3 API;
numeric_intervals_from_regex / compress_concatenation_elements are compared with the model; and,
independently of the model's interval function, the *property itself* is probed on the real output:
for numbers around every interval boundary, "some decimal rendering (sign / zero padding variants)
is matched by the regex" (decided by the verified matcher) must coincide with membership in the
intervals returned by the real function.
"""
from __future__ import annotations

import os
import sys
from typing import Any, List, Optional, Tuple

from core import Ctx, ROOT, drive
from proto import Atom

LEVEL = "proof"
MAXSIZE = sys.maxsize

RULE = (
    "cases = regex ASTs generated from the documented grammar of numeric_intervals_from_regex (single digits, ordered ranges, zero "
    "sequences, full ranges, unions, the four sequence forms with optional signs / sign unions; nesting <= 3) + an out-of-shape stream "
    "(recorded only) + concatenation element lists for compress (runs of r, r*, r+ over 1-3 distinct r, mixed with other elements); each "
    "in-shape case is probed on ~20-40 integers around all interval boundaries and random ones; non-trivial = distinct regex AST"
)

# AST: ('str', s) ('range', a, b) ('union', [..]) ('concat', [..]) ('star', r) ('plus', r) ('opt', r)


def to_z3(r):
    import z3

    k = r[0]
    if k == "str":
        return z3.Re(z3.StringVal(r[1]))
    if k == "range":
        return z3.Range(r[1], r[2])
    if k == "union":
        return z3.Union(*[to_z3(x) for x in r[1]])
    if k == "concat":
        return z3.Concat(*[to_z3(x) for x in r[1]])
    if k == "star":
        return z3.Star(to_z3(r[1]))
    if k == "plus":
        return z3.Plus(to_z3(r[1]))
    if k == "opt":
        return z3.Option(to_z3(r[1]))
    raise ValueError(k)


def from_z3(e):
    import z3

    k = e.decl().kind()
    ch = e.children()
    if k == z3.Z3_OP_SEQ_TO_RE:
        from isla.z3_helpers import smt_string_val_to_string

        return ("str", smt_string_val_to_string(ch[0]))
    if k == z3.Z3_OP_RE_RANGE:
        return ("range", ch[0].as_string(), ch[1].as_string())
    if k == z3.Z3_OP_RE_UNION:
        return ("union", [from_z3(c) for c in ch])
    if k == z3.Z3_OP_RE_CONCAT:
        return ("concat", [from_z3(c) for c in ch])
    if k == z3.Z3_OP_RE_STAR:
        return ("star", from_z3(ch[0]))
    if k == z3.Z3_OP_RE_PLUS:
        return ("plus", from_z3(ch[0]))
    if k == z3.Z3_OP_RE_OPTION:
        return ("opt", from_z3(ch[0]))
    return ("unknown", str(e))


def to_sexp(r):
    k = r[0]
    if k == "str":
        return [Atom("str"), r[1]]
    if k == "range":
        return [Atom("range"), r[1], r[2]]
    if k in ("union", "concat"):
        return [Atom(k)] + [to_sexp(x) for x in r[1]]
    return [Atom(k), to_sexp(r[1])]


def from_sexp(s):
    k = str(s[0])
    if k == "str":
        return ("str", s[1])
    if k == "range":
        return ("range", s[1], s[2])
    if k in ("union", "concat"):
        return (k, [from_sexp(x) for x in s[1:]])
    return (k, from_sexp(s[1]))


D = "0123456789"


def g_single(rng):
    return ("str", rng.choice(D))


def g_range(rng):
    a, b = sorted([rng.choice(D), rng.choice(D)])
    return ("range", a, b)


def g_zeroes(rng):
    return (rng.choice(["star", "plus"]), ("str", "0"))


def g_full(rng):
    return (rng.choice(["star", "plus"]), ("range", "0", "9"))


def g_pm(rng):
    return ("str", rng.choice("+-"))


def g_opt_pm(rng):
    r = rng.random()
    if r < 0.3:
        return [("opt", g_pm(rng))]
    if r < 0.6:
        return [g_pm(rng)]
    return []


def g_seq_zeroes(rng):
    return [g_zeroes(rng) if rng.random() < 0.5 else ("str", "0") for _ in range(rng.randint(1, 3))]


def g_one_or_zero_nine(rng):
    # mostly the documented leading classes [0-9] / [1-9]; sometimes a narrower leading class or a single leading
    # digit (for which "[d-9][0-9]*" does NOT denote an interval from d upwards)
    r = rng.random()
    if r < 0.75:
        return ("range", rng.choice("01"), "9")
    if r < 0.92:
        return ("range", rng.choice("2345789"), "9")
    return ("str", rng.choice("1259"))


def g_first_union(rng):
    elems = []
    for _ in range(rng.randint(2, 3)):
        r = rng.random()
        elems.append(g_pm(rng) if r < 0.5 else (g_zeroes(rng) if r < 0.75 else ("str", "0")))
    return ("union", elems)


def g_regex(rng, depth: int):
    r = rng.random()
    if depth <= 0:
        return rng.choice([g_single, g_range, g_zeroes, g_full])(rng)
    if r < 0.12:
        return g_single(rng)
    if r < 0.27:
        return g_range(rng)
    if r < 0.34:
        return g_zeroes(rng)
    if r < 0.42:
        return g_full(rng)
    if r < 0.6:
        return ("union", [g_regex(rng, depth - 1) for _ in range(rng.randint(2, 3))])
    return g_sequence(rng, depth)


def g_sequence(rng, depth: int):
    form = rng.choice("abcd")
    if form == "a":
        pre = g_opt_pm(rng) + (g_seq_zeroes(rng) if rng.random() < 0.4 else [])
        return ("concat", pre + [g_one_or_zero_nine(rng), g_full(rng)])
    if form == "b":
        return ("concat", g_opt_pm(rng) + g_seq_zeroes(rng) + [g_regex(rng, depth - 1)])
    if form == "c":
        return ("concat", [g_first_union(rng), g_one_or_zero_nine(rng), g_full(rng)])
    return ("concat", [g_first_union(rng), g_regex(rng, depth - 1)])


def g_out_of_shape(rng):
    base = g_regex(rng, 2)
    r = rng.random()
    if r < 0.25:
        return ("concat", [("str", rng.choice(["a", " 7", "1_0", "x"])), base])
    if r < 0.5:
        return ("star", ("str", rng.choice(["a", "1", "12"])))
    if r < 0.75:
        return ("concat", [base, g_pm(rng), g_single(rng)])
    return ("union", [base, ("str", rng.choice(["a", ""]))])


def py_intervals(r):
    from isla.z3_helpers import numeric_intervals_from_regex
    from returns.maybe import Nothing

    try:
        res = numeric_intervals_from_regex(to_z3(r))
    except Exception as e:  # noqa
        return ("raises", type(e).__name__)
    if res == Nothing:
        return ("nothing",)
    return ("some", [tuple(iv) for iv in res.unwrap()])


def in_ivs(ivs, n: int) -> bool:
    return any((lo == -MAXSIZE or lo <= n) and (hi == MAXSIZE or n <= hi) for lo, hi in ivs)


def probe_numbers(rng, ivs) -> List[int]:
    ns = {0, 1, -1, 9, 10, 11, -9, -10, 99, 100, 5}
    for lo, hi in ivs:
        for b in (lo, hi):
            if abs(b) != MAXSIZE:
                ns.update({b - 2, b - 1, b, b + 1, b + 2})
    for _ in range(6):
        ns.add(rng.randint(-130, 130))
    ns.add(rng.choice([1000, 12345, -1000, 10**12]))
    return sorted(ns)


def shape_sig(r) -> str:
    """coarse signature of a regex for known-finding matching"""
    feats = set()

    def walk(x, first_in_concat=False, after_zero=False):
        k = x[0]
        if k == "concat":
            seen_nonsign = False
            for i, c in enumerate(x[1]):
                if c[0] == "str" and c[1] in "+-" or (c[0] == "opt" and c[1][0] == "str" and c[1][1] in "+-"):
                    if seen_nonsign:
                        feats.add("sign-not-leading")
                else:
                    if c[0] == "union" and any(e[0] == "str" and e[1] in "+-" for e in c[1]) and seen_nonsign:
                        feats.add("sign-not-leading")
                    if i > 0 and c[0] == "concat":
                        feats.add("nested-concat")
                    seen_nonsign = True
                walk(c)
        elif k in ("union",):
            for c in x[1]:
                walk(c)
        elif k in ("star", "plus", "opt"):
            walk(x[1])

    walk(r)
    return "+".join(sorted(feats)) or "plain"


def contains_sign(r) -> bool:
    k = r[0]
    if k == "str":
        return "+" in r[1] or "-" in r[1]
    if k == "range":
        return False
    if k in ("union", "concat"):
        return any(contains_sign(x) for x in r[1])
    return contains_sign(r[1])


def flat_concat(r):
    if r[0] != "concat":
        return [r]
    out = []
    for x in r[1]:
        out.extend(flat_concat(x))
    return out


def misplaced_sign_rendering(r, n: int):
    """syntactic signature: after flattening nested concatenations (as the code does), some element
    that can contribute a sign stands at a non-leading position, i.e. the regex matches strings such as
    "0-7" or "+-7" in which a sign follows zero padding or another sign"""
    k = r[0]
    if k == "concat":
        elems = flat_concat(r)
        if any(contains_sign(e) for e in elems[1:]):
            return "sign at a non-leading position of " + str(to_z3(("concat", elems)))[:80]
        return next((m for m in (misplaced_sign_rendering(e, n) for e in elems) if m), None)
    if k == "union":
        return next((m for m in (misplaced_sign_rendering(e, n) for e in r[1]) if m), None)
    if k in ("star", "plus", "opt"):
        return misplaced_sign_rendering(r[1], n)
    return None


def check_in_shape(ctx: Ctx, cases, origin: str):
    pys = [py_intervals(r) for r in cases]
    model = drive([[Atom("c15"), Atom("intervals"), to_sexp(r)] for r in cases])
    probes, pidx = [], []
    for i, (r, p, m) in enumerate(zip(cases, pys, model)):
        ctx.evaluations += 1
        ctx.nontriv(repr(r))
        ctx.count("python_result", p[0])
        mm = ("nothing",) if (m is None or isinstance(m, Atom)) else ("some", [tuple(iv) for iv in m])
        replay = {"regex": r, "z3": str(to_z3(r)), "isla": p, "model": mm, "origin": origin}
        if p[0] == "raises":
            ctx.violation("intervals-raises:" + p[1], f"numeric_intervals_from_regex raised {p[1]} on an in-shape regex", replay)
            continue
        if p != mm:
            # not by itself a property failure: probe the real output below
            replay["broken"] = "correspondence c15/intervals"
            ctx.violation("obs:intervals:" + shape_sig(r), f"numeric_intervals_from_regex = {p}, model = {mm}", replay, found_input=False)
        if p[0] == "nothing":
            # "no inference" is allowed by the property (it constrains the intervals that ARE inferred)
            ctx.count("in_shape_nothing", shape_sig(r))
            continue
        ns = probe_numbers(ctx.rng, p[1])
        probes.append([Atom("c15"), Atom("probe"), to_sexp(r), ns, 6])
        pidx.append((r, p[1], ns))
    for (r, ivs, ns), ans in zip(pidx, drive(probes) if probes else []):
        for n, (matched, _model_in) in zip(ns, ans):
            ctx.evaluations += 1
            claimed = in_ivs(ivs, n)
            if bool(matched) != claimed:
                kind = "claims-unmatched-number" if claimed else "misses-matched-number"
                if claimed and misplaced_sign_rendering(r, n):
                    # the regex matches a string in which a sign follows zero padding or another sign
                    # ("0-7", "+-7"); the inference reads it as the number
                    ctx.violation(
                        "inexact:sign-not-leading",
                        f"{to_z3(r)}: intervals {ivs} contain {n}; the regex matches no numeral of {n}, only {misplaced_sign_rendering(r, n)!r} (sign not in leading position)",
                        {"regex": r, "z3": str(to_z3(r)), "intervals": ivs, "number": n, "matched_string": misplaced_sign_rendering(r, n), "origin": origin},
                    )
                    break
                ctx.violation(
                    f"inexact:{kind}:{shape_sig(r)}",
                    f"{to_z3(r)}: intervals {ivs} {'contain' if claimed else 'do not contain'} {n}, but "
                    f"{'no' if not matched else 'a'} decimal rendering of {n} (sign/zero-padding variants, <= 6 zeros) is matched by the regex",
                    {"regex": r, "z3": str(to_z3(r)), "intervals": ivs, "number": n, "matched_by_regex": bool(matched), "origin": origin},
                )
                break
        # sortedness / separation of the result (merge_intervals contract)
        for (a, b), (c, d) in zip(ivs, ivs[1:]):
            if not (a <= b and c <= d and b + 1 < c):
                ctx.violation("unsorted-or-adjacent-intervals", f"{to_z3(r)}: result {ivs} is not sorted/separated", {"regex": r, "intervals": ivs})
                break


def gen_compress_case(rng):
    atoms = [("str", "a"), ("range", "0", "9"), ("str", "0"), ("union", [("str", "a"), ("str", "b")]), ("str", "ab")]
    base = rng.sample(atoms, rng.randint(1, 3))
    out = []
    for _ in range(rng.randint(1, 6)):
        a = rng.choice(base)
        k = rng.random()
        out.append(a if k < 0.4 else (("star", a) if k < 0.7 else ("plus", a)))
    return out


def check_compress(ctx: Ctx, n: int):
    import itertools
    from isla.z3_helpers import compress_concatenation_elements

    cases = [gen_compress_case(ctx.rng) for _ in range(n)]
    model = drive([[Atom("c15"), Atom("compress"), [to_sexp(x) for x in c]] for c in cases])
    reqs, meta = [], []
    strings = [""] + ["".join(p) for k in range(1, 5) for p in itertools.product("a0b", repeat=k)]
    for c, m in zip(cases, model):
        ctx.evaluations += 1
        ctx.nontriv(("compress", repr(c)))
        try:
            p = [from_z3(e) for e in compress_concatenation_elements([to_z3(x) for x in c])]
        except Exception as e:  # noqa
            ctx.violation("compress-raises:" + type(e).__name__, f"compress_concatenation_elements raised {type(e).__name__}", {"elements": c})
            continue
        mm = [from_sexp(x) for x in m]
        if p != mm:
            ctx.violation("obs:compress", f"compress: isla {p} vs model {mm}", {"elements": c, "isla": p, "model": mm, "broken": "correspondence c15/compress"}, found_input=False)
        # property level: same language (verified matcher on both sides, all strings <= 4 over {a,0,b})
        reqs.append([Atom("c15"), Atom("matchall"), to_sexp(("concat", c)), strings])
        reqs.append([Atom("c15"), Atom("matchall"), to_sexp(("concat", p) if len(p) != 1 else p[0]), strings])
        meta.append((c, p))
    ans = drive(reqs)
    for i, (c, p) in enumerate(meta):
        a, b = ans[2 * i], ans[2 * i + 1]
        ctx.evaluations += len(strings)
        if a != b:
            w = next(s for s, x, y in zip(strings, a, b) if x != y)
            ctx.violation("compress-changes-language", f"compress changes the language: {c} -> {p}; witness {w!r}", {"elements": c, "compressed": p, "witness": w})
    ctx.sample({"compress_cases": n, "example": repr(cases[0])[:200]})


def run(ctx: Ctx):
    ok = ctx.proof_side()
    if not os.path.exists(os.path.join(ROOT, "lean", ".lake", "build", "bin", "isladrv")):
        return "infra"
    quick = ctx.tier == "quick"
    n = 700 if quick else 14000
    cases = [g_regex(ctx.rng, ctx.rng.randint(0, 3)) for _ in range(n)]
    for i in range(0, n, 500):
        ctx.check_time()
        check_in_shape(ctx, cases[i : i + 500], "generated")
    for r in cases[:5]:
        ctx.sample({"regex": str(to_z3(r)), "intervals": py_intervals(r)})
    # out-of-shape stream: recorded only
    for _ in range(200 if quick else 3000):
        r = g_out_of_shape(ctx.rng)
        p = py_intervals(r)
        ctx.evaluations += 1
        ctx.count("out_of_shape_result", p[0])
    check_compress(ctx, 300 if quick else 6000)
    ctx.obligation("correspondence + property probes: interval inference exact on all probed numbers; compress keeps the language", not ctx.violations)
    if not ok and not ctx.violations:
        ctx.violation("proof-obligation-broken", "a proof obligation of C15 no longer checks", {"broken": [n for n, o, _ in ctx.obligations if not o]}, found_input=False)
    ctx.write_evidence(
        RULE,
        [
            "exactness of the real function's output is probed on finitely many numbers per regex with renderings of up to 6 leading zeros (a search, not a proof); the theorems are about the model",
            "Python int() leniency (whitespace, underscores) lies outside the documented shape and is not modelled",
            "out-of-shape regexes are recorded only (the property quantifies over the documented shape)",
        ],
    )


def replay(ctx: Ctx, obj):
    def untup(x):
        if isinstance(x, list) and x and isinstance(x[0], str):
            if x[0] in ("union", "concat"):
                return (x[0], [untup(y) for y in x[1]])
            if x[0] in ("star", "plus", "opt"):
                return (x[0], untup(x[1]))
            return tuple(x)
        return x

    if "regex" in obj:
        check_in_shape(ctx, [untup(obj["regex"])], "replay")
