"""Wire format between the harness and the Lean model driver (`isladrv`).

One S-expression per line.  Python values are encoded as
  str    -> (s cp cp ...)      (list of code points; no escaping layer)
  Atom   -> bare symbol
  int    -> decimal
  bool   -> true/false
  None   -> none
  list/tuple -> ( ... )
"""
from __future__ import annotations

import os
import subprocess
import tempfile
from typing import Any, Iterable, List


class Atom(str):
    """A bare symbol."""

    def __repr__(self):
        return f"Atom({str.__repr__(self)})"


def enc(v: Any) -> str:
    if isinstance(v, Atom):
        return str(v)
    if v is True:
        return "true"
    if v is False:
        return "false"
    if v is None:
        return "none"
    if isinstance(v, int):
        return str(v)
    if isinstance(v, str):
        return "(s" + "".join(" %d" % ord(c) for c in v) + ")"
    if isinstance(v, (list, tuple)):
        return "(" + " ".join(enc(x) for x in v) + ")"
    raise TypeError(f"cannot encode {type(v)}")


def dec(text: str) -> Any:
    """Parse an answer into nested lists / ints / Atoms; `(s ...)` becomes str."""
    toks = text.replace("(", " ( ").replace(")", " ) ").split()
    pos = 0

    def parse():
        nonlocal pos
        t = toks[pos]
        pos += 1
        if t == "(":
            out = []
            while toks[pos] != ")":
                out.append(parse())
            pos += 1
            if out and isinstance(out[0], Atom) and out[0] == "s" and all(
                isinstance(x, int) for x in out[1:]
            ):
                return "".join(chr(x) for x in out[1:])
            return out
        if t == ")":
            raise ValueError("unbalanced")
        try:
            return int(t)
        except ValueError:
            pass
        if t == "true":
            return True
        if t == "false":
            return False
        if t == "none":
            return None
        return Atom(t)

    v = parse()
    return v


class DriverError(RuntimeError):
    pass


def run_driver(exe: str, requests: Iterable[str], timeout: float = 600.0) -> List[str]:
    """Send all request lines to the compiled model driver, return the answer lines."""
    reqs = list(requests)
    if not reqs:
        return []
    with tempfile.NamedTemporaryFile("w", suffix=".req", delete=False) as f:
        for r in reqs:
            assert "\n" not in r
            f.write(r)
            f.write("\n")
        name = f.name
    try:
        with open(name, "rb") as fin:
            p = subprocess.run([exe], stdin=fin, capture_output=True, timeout=timeout)
    finally:
        os.unlink(name)
    if p.returncode != 0:
        raise DriverError(f"driver exit {p.returncode}: {p.stderr.decode(errors='replace')[:2000]}")
    out = p.stdout.decode().splitlines()
    if len(out) != len(reqs):
        raise DriverError(f"driver answered {len(out)} lines for {len(reqs)} requests")
    return out
