"""Running the real ISLaSolver on generated problems (shared by C01, C02, C18, C21).

* problems: (grammar, constraint text, settings) — generated from the grammar (gen.formulas) plus a
  fixed list of documented examples;
* every problem runs in its own forked process under a wall-clock guard (a runaway search gives no
  verdict for that problem, it is counted, never reported);
* optionally the solve() loop is traced WITHOUT source hooks: the module globals `time` and `heapq`
  of isla.solver are replaced by recording proxies in the worker process and `process_new_states`
  is wrapped on the instance, which yields the loop's events (clock readings, pops, solutions found,
  queue lengths) for the state-machine model of C02.
"""
from __future__ import annotations

import multiprocessing as mp
import os
import signal
import sys
import time as _time
import traceback
from typing import Any, Callable, Dict, Iterable, List, Optional, Tuple

from gen import grammars as G
from gen import trees as T
from gen.formulas import FormulaGen

ASSGN = {
    "<start>": ["<stmt>"],
    "<stmt>": ["<assgn> ; <stmt>", "<assgn>"],
    "<assgn>": ["<var> := <rhs>"],
    "<rhs>": ["<var>", "<digit>"],
    "<var>": ["a", "b", "c", "d"],
    "<digit>": ["0", "1", "2", "3", "4", "5", "6", "7", "8", "9"],
}
NUMS = {"<start>": ["<list>"], "<list>": ["<num>", "<num>,<list>"], "<num>": ["<dig>", "<dig><num>"], "<dig>": ["0", "1", "2", "9"]}
CFGCONF = {
    "<start>": ["<config>"],
    "<config>": ["pagesize=<pagesize>\nbufsize=<bufsize>"],
    "<pagesize>": ["<int>"],
    "<bufsize>": ["<int>"],
    "<int>": ["<leaddigit><digits>"],
    "<digits>": ["", "<digit><digits>"],
    "<digit>": ["0", "1", "2", "3", "4", "5", "6", "7", "8", "9"],
    "<leaddigit>": ["1", "2", "3", "4", "5", "6", "7", "8", "9"],
}

REC = {"<start>": ["<rec>"], "<rec>": ["<hd>;<bs>"], "<hd>": ["<a>", "<a><hd>"], "<a>": ["a"], "<bs>": ["<b>", "<b><bs>"], "<b>": ["b"]}

# documented / typical constraints (core syntax) — (grammar, constraint)
FIXED: List[Tuple[Dict[str, List[str]], str]] = [
    (ASSGN, 'forall <assgn> assgn_1="{<var> lhs_1} := {<rhs> rhs_1}" in start: (forall <var> var in rhs_1: (exists <assgn> assgn_2="{<var> lhs_2} := {<rhs> rhs_2}" in start: ((before(assgn_2, assgn_1) and (= lhs_2 var)))))'),
    (ASSGN, 'exists <assgn> a in start: (exists <var> v in a: ((= v "c")))'),
    (ASSGN, 'forall <var> v in start: ((= v "a"))'),
    (ASSGN, 'exists <assgn> a="{<var> l} := {<rhs> r}" in start: ((= l r))'),
    (ASSGN, 'forall <digit> d in start: ((>= (str.to.int d) 7))'),
    (ASSGN, 'exists int n: (count(start, "<assgn>", n) and (>= (str.to.int n) 3))'),
    (ASSGN, 'count(start, "<assgn>", "3")'),
    (ASSGN, '(= (str.len start) 13)'),
    (ASSGN, 'forall <assgn> a in start: (exists <digit> d in a: ((= d "7")))'),
    (ASSGN, 'exists <rhs> r in start: (exists <digit> d in r: ((= (str.to.int d) 5)))'),
    (ASSGN, 'forall <assgn> a1 in start: (forall <assgn> a2 in start: ((same_position(a1, a2) or (not (= a1 a2)))))'),
    (ASSGN, 'exists <stmt> s in start: (exists <assgn> a in s: (nth("2", a, s)))'),
    (ASSGN, 'exists <stmt> s in start: (count(s, "<assgn>", "2"))'),
    (ASSGN, 'forall <stmt> s in start: (count(s, "<var>", "2") or count(s, "<var>", "3") or count(s, "<var>", "4"))'),
    (NUMS, 'exists <list> l in start: (count(l, "<num>", "2"))'),
    (NUMS, 'exists <num> n in start: (count(n, "<dig>", "3"))'),
    (REC, 'exists <rec> r in start: (exists <hd> h in r: ((count(h, "<a>", "2") and count(r, "<b>", "3"))))'),
    (REC, 'forall <rec> r in start: (forall <hd> h in r: ((count(r, "<b>", "2") and count(h, "<a>", "3"))))'),
    (ASSGN, '(exists <assgn> a in start: (exists <var> v in a: ((= v "c"))) and forall <digit> d in start: ((= d "7")))'),
    (ASSGN, '(forall <var> v in start: ((= v "a")) and exists <assgn> a in start: (exists <digit> d in a: ((= d "1"))))'),
    (NUMS, '(exists <num> n in start: ((= n "12")) and forall <dig> d in start: ((not (= d "9"))))'),
    (NUMS, 'forall <num> n in start: ((= (mod 7 (str.to.int n)) 1))'),
    (NUMS, 'exists <num> a in start: (exists <num> b in start: ((= (mod (str.to.int a) (str.to.int b)) 1)))'),
    (ASSGN, 'forall <digit> d in start: ((= (mod 5 (str.to.int d)) 1))'),
    (ASSGN, 'exists <digit> d in start: ((= (div 8 (str.to.int d)) 4))'),
    (NUMS, 'forall <num> n in start: ((> (str.to.int n) 10))'),
    (NUMS, 'exists <num> n in start: ((= (str.to.int n) 29))'),
    (NUMS, 'forall <num> n in start: ((= (str.len n) 2))'),
    (NUMS, 'exists int k: (count(start, "<num>", k) and (= (str.to.int k) 2))'),
    (NUMS, 'forall <num> a in start: (forall <num> b in start: ((before(a, b) and (not (inside(a, b)))) or (>= (str.to.int a) 0)))'),
    (CFGCONF, '(>= (str.to.int (str.substr start 9 1)) 3)'),
    (CFGCONF, 'forall <pagesize> p in start: (forall <bufsize> b in start: ((= p b)))'),
    (CFGCONF, 'forall <pagesize> p in start: ((>= (str.to.int p) 100))'),
    (CFGCONF, 'exists <int> i in start: ((= (str.to.int i) 17))'),
]

INSERTION = [None, None, 1, 2, 4, 3, 5, 6, 7]


def gen_settings(rng, grid: bool) -> Dict[str, Any]:
    if not grid:
        return {}
    s: Dict[str, Any] = {}
    if rng.random() < 0.6:
        s["max_number_free_instantiations"] = rng.choice([1, 2, 3, 10])
    if rng.random() < 0.6:
        s["max_number_smt_instantiations"] = rng.choice([1, 2, 3, 10])
    if rng.random() < 0.4:
        s["enable_optimized_z3_queries"] = rng.choice([True, False])
    if rng.random() < 0.4:
        s["enforce_unique_trees_in_queue"] = rng.choice([True, False])
    m = rng.choice(INSERTION)
    if m is not None:
        s["tree_insertion_methods"] = m
    if rng.random() < 0.2:
        s["activate_unsat_support"] = True
    if rng.random() < 0.15:
        s["max_number_tree_insertion_results"] = rng.choice([1, 2, 5])
    return s


def gen_problem(rng, i: int, grid: bool = True, allow_start_symbol: bool = True, force_start_symbol: bool = False) -> Dict[str, Any]:
    """one (grammar, constraint, settings) problem; about a third from the fixed list (never with force_start_symbol)"""
    r = rng.random()
    if force_start_symbol:
        r = 0.3 + 0.7 * r
    settings = gen_settings(rng, grid)
    if r < 0.3:
        g, text = rng.choice(FIXED)
        if grid and text.startswith("(") and " and " in text and "exists" in text and rng.random() < 0.6:
            # conjunctions of an existential with another quantifier: the nested unsatisfiability check applies
            settings = dict(settings, activate_unsat_support=True, max_number_free_instantiations=rng.choice([2, 3, 10]))
        return {"grammar": g, "constraint": text, "settings": settings, "origin": "documented", "start_symbol": None}
    if r < 0.45:
        g, gname = rng.choice([(ASSGN, "assgn"), (NUMS, "nums")])
    else:
        g, gname = G.gen_acyclic_grammar(rng, eps_prob=0.1, no_unit=True, terminals=("a", "b", "0", "1", "x", " ", "ab", ";")), "random"
    c = G.canon(g)
    start_symbol = None
    root = "<start>"
    if (allow_start_symbol and gname != "random" and rng.random() < 0.2) or force_start_symbol:
        root = rng.choice([k for k in g if k != "<start>" and any(G.is_nt(s) for alt in c[k] for s in alt)] or ["<start>"])
        start_symbol = None if root == "<start>" else root
    trees = [T.gen_tree(rng, c, root, rng.randint(2, 6), T.IdGen()) for _ in range(4)]
    fg = FormulaGen(rng, g, trees, allow_int=(i % 4 == 0))
    text = fg.constraint(depth=rng.randint(1, 2), root_type=root)
    return {"grammar": g, "constraint": text, "settings": settings, "origin": gname, "start_symbol": start_symbol}


# ----------------------------------------------------------------------------------------------
# tracing proxies (worker process only)
# ----------------------------------------------------------------------------------------------


class _Trace:
    def __init__(self):
        self.raw: List[tuple] = []
        self.depth = 0
        self.solver = None
        self.fake_clock: Optional[Callable[[], float]] = None

    def qlen(self):
        try:
            return len(self.solver.queue)
        except Exception:  # noqa
            return -1


class _TimeProxy:
    def __init__(self, real, tr: _Trace):
        self._real, self._tr = real, tr

    def time(self):
        tr = self._tr
        v = tr.fake_clock() if tr.fake_clock is not None else self._real.time()
        # only the readings taken by solve() itself (start time, timeout test) are loop events; the
        # unsat-support code in process_new_state reads the clock for its own nested search
        if tr.depth == 1 and sys._getframe(1).f_code.co_name in ("solve", "orig_solve"):
            tr.raw.append(("clock", int(v), tr.qlen()))
        return v

    def __getattr__(self, name):
        return getattr(self._real, name)


class _HeapqProxy:
    def __init__(self, real, tr: _Trace):
        self._real, self._tr = real, tr

    def heappop(self, q):
        tr = self._tr
        if tr.depth == 1 and tr.solver is not None and q is tr.solver.queue:
            tr.raw.append(("pop", len(q)))
        return self._real.heappop(q)

    def __getattr__(self, name):
        return getattr(self._real, name)


def install_trace(solver, fake_clock=None) -> _Trace:
    import isla.solver as S
    import time as real_time
    import heapq as real_heapq

    tr = _Trace()
    tr.solver = solver
    tr.fake_clock = fake_clock
    S.time = _TimeProxy(real_time, tr)
    S.heapq = _HeapqProxy(real_heapq, tr)
    orig_pns = solver.process_new_states
    orig_solve = solver.solve

    def pns(new_states):
        res = orig_pns(new_states)
        if tr.depth == 1:
            tr.raw.append(("proc", [t.id for t in res]))
        return res

    def solve():
        tr.depth += 1
        try:
            return orig_solve()
        finally:
            tr.depth -= 1

    solver.process_new_states = pns
    solver.solve = solve
    return tr


def uninstall_trace():
    import isla.solver as S
    import time as real_time
    import heapq as real_heapq

    S.time = real_time
    S.heapq = real_heapq


class FakeClock:
    """monotone clock: advances by `step` seconds every `every` readings"""

    def __init__(self, start: int = 1000, every: int = 5, step: int = 1):
        self.t, self.n, self.every, self.step = start, 0, every, step

    def __call__(self):
        self.n += 1
        if self.n % self.every == 0:
            self.t += self.step
        return float(self.t)


# ----------------------------------------------------------------------------------------------
# running one problem (worker)
# ----------------------------------------------------------------------------------------------


def _exc_info(e: BaseException) -> Dict[str, Any]:
    tb = traceback.extract_tb(e.__traceback__)
    where = ""
    for fr in reversed(tb):
        if "/isla/" in fr.filename or "/isla_formalizations/" in fr.filename:
            where = f"{os.path.basename(fr.filename)}:{fr.name}"
            break
    if tb and where and not ("/isla/" in tb[-1].filename or "/isla_formalizations/" in tb[-1].filename):
        # raised inside a dependency: name the dependency's function too
        where += f"<{os.path.basename(tb[-1].filename)}:{tb[-1].name}"
    return {"cls": type(e).__name__, "msg": str(e)[:200], "where": where}


def run_problem(pb: Dict[str, Any]) -> Dict[str, Any]:
    """executed in a forked worker"""
    import logging
    import random
    import warnings

    warnings.filterwarnings("ignore")
    logging.disable(logging.CRITICAL)
    sys.setrecursionlimit(20000)
    from isla.solver import ISLaSolver
    import semconv
    from proto import enc

    res: Dict[str, Any] = {"calls": [], "ctor_exc": None, "formula": None, "unsupported": None, "trace": None}
    random.seed(pb.get("rseed", 0))
    t0 = _time.time()
    kw = dict(pb.get("settings") or {})
    if pb.get("start_symbol"):
        kw["start_symbol"] = pb["start_symbol"]
    if pb.get("timeout") is not None:
        kw["timeout_seconds"] = pb["timeout"]
    try:
        solver = ISLaSolver(pb["grammar"], pb["constraint"], **kw)
    except BaseException as e:  # noqa
        res["ctor_exc"] = _exc_info(e)
        res["wall"] = _time.time() - t0
        return res
    try:
        res["formula"] = enc(semconv.formula_to_sexp(solver.formula, solver.grammar))
        res["const"] = solver.top_constant.map(lambda c: c.name).value_or("start")
    except semconv.Unsupported as e:
        res["unsupported"] = str(e)[:80]
    except BaseException as e:  # noqa
        res["unsupported"] = "conversion:" + type(e).__name__
    res["grammar_used"] = {k: list(v) for k, v in solver.grammar.items()}
    tr = None
    if pb.get("trace"):
        fc = FakeClock(**pb["fake_clock"]) if pb.get("fake_clock") else None
        tr = install_trace(solver, fc)
        res["state0"] = {"qlen": len(solver.queue), "sols": [t.id for t in solver.solutions], "start": solver.start_time}
    for k in range(pb.get("calls", 4)):
        call: Dict[str, Any] = {}
        mark = len(tr.raw) if tr else 0
        try:
            t = solver.solve()
            call["outcome"] = "tree"
            call["tree"] = T.from_isla(t)
            call["id"] = t.id
        except StopIteration:
            call["outcome"] = "stop"
        except TimeoutError:
            call["outcome"] = "timeout"
        except BaseException as e:  # noqa
            if isinstance(e, (KeyboardInterrupt, SystemExit)):
                raise
            call["outcome"] = "exc"
            call["exc"] = _exc_info(e)
        if tr:
            call["raw"] = tr.raw[mark:]
            call["qlen_end"] = len(solver.queue)
            call["sols_end"] = [t.id for t in solver.solutions]
            call["start_end"] = solver.start_time
        res["calls"].append(call)
        if call["outcome"] == "exc":
            break
        if call["outcome"] in ("stop", "timeout") and k >= pb.get("calls_after_end", 2) + _first_end(res["calls"]):
            break
    if tr:
        uninstall_trace()
    res["wall"] = _time.time() - t0
    return res


def _first_end(calls) -> int:
    for i, c in enumerate(calls):
        if c["outcome"] in ("stop", "timeout"):
            return i
    return 10**9


# ----------------------------------------------------------------------------------------------
# scheduler: one forked process per problem, wall-clock guard
# ----------------------------------------------------------------------------------------------


def _child(pb, conn):
    try:
        dn = os.open(os.devnull, os.O_WRONLY)
        os.dup2(dn, 2)
        os.dup2(dn, 1)
    except OSError:
        pass
    try:
        r = run_problem(pb)
    except BaseException as e:  # noqa
        r = {"calls": [], "ctor_exc": None, "harness_error": f"{type(e).__name__}: {e}"}
    try:
        conn.send(r)
    except BaseException as e:  # noqa
        conn.send({"calls": [], "ctor_exc": None, "harness_error": f"send: {type(e).__name__}: {e}"})
    conn.close()


def run_all(problems: List[Dict[str, Any]], wall_limit: float = 40.0, procs: Optional[int] = None, deadline: Optional[float] = None):
    """yields (problem, result) in completion order; result {'killed': True} if the wall guard fired"""
    ctx = mp.get_context("fork")
    procs = procs or max(2, min(12, (os.cpu_count() or 4) - 2))
    pending = list(enumerate(problems))
    pending.reverse()
    running: List[Tuple[int, Any, Any, float]] = []
    while pending or running:
        while pending and len(running) < procs:
            if deadline is not None and _time.time() > deadline:
                pending.clear()
                break
            i, pb = pending.pop()
            parent, child = ctx.Pipe(duplex=False)
            p = ctx.Process(target=_child, args=(pb, child), daemon=True)
            p.start()
            child.close()
            running.append((i, p, parent, _time.time()))
        still = []
        progressed = False
        for i, p, conn, t0 in running:
            if conn.poll(0):
                try:
                    r = conn.recv()
                except EOFError:
                    r = {"calls": [], "ctor_exc": None, "harness_error": "worker died"}
                p.join(5)
                conn.close()
                progressed = True
                yield problems[i], r
            elif not p.is_alive():
                p.join(1)
                conn.close()
                progressed = True
                yield problems[i], {"calls": [], "ctor_exc": None, "harness_error": f"worker exited with {p.exitcode}"}
            elif _time.time() - t0 > wall_limit:
                p.kill()
                p.join(5)
                conn.close()
                progressed = True
                yield problems[i], {"calls": [], "ctor_exc": None, "killed": True}
            else:
                still.append((i, p, conn, t0))
        running = still
        if not progressed:
            _time.sleep(0.02)
