"""Seeded generator of ISLa constraints in *core* concrete syntax (explicit quantifiers, explicit
`in`, S-expression SMT atoms), built from the grammar so that they are well scoped and so that a
measured share of atoms is non-constant on the sampled trees (literals are drawn from the trees)."""
from __future__ import annotations

from typing import Dict, List, Optional, Tuple

from gen import grammars as G
from gen import trees as T


def q(s: str) -> str:
    return '"' + s.replace("\\", "\\\\").replace('"', '\\"') + '"'


class FormulaGen:
    def __init__(self, rng, grammar: G.Grammar, sample_trees: List[T.PT], allow_mexpr=True, allow_int=True, allow_preds=True):
        self.rng = rng
        self.g = grammar
        self.c = G.canon(grammar)
        self.nts = [k for k in grammar if k != "<start>"]
        self.counter = 0
        self.allow_mexpr, self.allow_int, self.allow_preds = allow_mexpr, allow_int, allow_preds
        # strings of subtrees per nonterminal, from the sample trees
        self.strings: Dict[str, List[str]] = {}
        for t in sample_trees:
            for _, n in T.paths(t):
                if n[1] in grammar:
                    s = T.tree_str(n)
                    if all(ch.isalnum() or ch in " ;=+-.,:()" for ch in s) and len(s) <= 12:
                        self.strings.setdefault(n[1], []).append(s)
        self.numeric = [nt for nt in self.nts if self._numeric(nt)]
        self.reach = {a: self._reach(a) for a in grammar}

    def _numeric(self, nt) -> bool:
        ss = self.strings.get(nt, [])
        return bool(ss) and all(s.isdigit() for s in ss) and self._only_digits(nt, set())

    def _only_digits(self, nt, seen) -> bool:
        if nt in seen:
            return True
        seen.add(nt)
        for alt in self.c[nt]:
            if not alt:
                return False
            for sym in alt:
                if sym in self.c:
                    if not self._only_digits(sym, seen):
                        return False
                elif not sym.isdigit():
                    return False
        return True

    def _reach(self, a):
        seen, todo = set(), [a]
        while todo:
            x = todo.pop()
            for alt in self.c.get(x, []):
                for s in alt:
                    if s in self.c and s not in seen:
                        seen.add(s)
                        todo.append(s)
        return seen

    def fresh(self, base="v") -> str:
        self.counter += 1
        return f"{base}{self.counter}"

    # ---- atoms -------------------------------------------------------------
    def lit_for(self, ty: str) -> str:
        ss = self.strings.get(ty)
        if ss and self.rng.random() < 0.8:
            return self.rng.choice(ss)
        return self.rng.choice(["a", "b", "ab", "0", "1", "x", "", " "])

    def smt_atom(self, scope: List[Tuple[str, str]]) -> str:
        r = self.rng
        v, ty = r.choice(scope)
        k = r.random()
        if k < 0.3:
            return f"(= {v} {q(self.lit_for(ty))})"
        if k < 0.45:
            op = r.choice([">", ">=", "<", "<=", "="])
            return f"({op} (str.len {v}) {r.randint(0, 4)})"
        if k < 0.55:
            lit = self.lit_for(ty)
            return f"(str.prefixof {q(lit[:1])} {v})"
        if k < 0.63:
            return f"(str.contains {v} {q(self.lit_for(ty)[:2])})"
        if k < 0.72 and len(scope) > 1:
            w, _ = r.choice(scope)
            return r.choice([f"(= {v} {w})", f"(= (str.len {v}) (str.len {w}))", f"(str.prefixof {w} {v})"])
        if k < 0.82:
            rex = r.choice(['(re.+ (re.range "a" "z"))', '(re.* (re.range "0" "9"))', '(re.++ (str.to_re "a") re.all)', '(re.union (str.to_re "0") (str.to_re "1") (str.to_re "x"))', "(re.* re.allchar)"])
            return f"(str.in_re {v} {rex})"
        nums = [(x, t) for x, t in scope if t in self.numeric]
        if nums and k < 0.95:
            x, _ = r.choice(nums)
            op = r.choice([">", ">=", "<", "<=", "="])
            return f"({op} (str.to.int {x}) {r.choice([0, 1, 5, 10, 12])})"
        return f"(not (= {v} {q(self.lit_for(ty))}))"

    def pred_atom(self, scope: List[Tuple[str, str]]) -> Optional[str]:
        r = self.rng
        tree_vars = [(v, t) for v, t in scope]
        if len(tree_vars) < 1:
            return None
        a, ta = r.choice(tree_vars)
        b, tb = r.choice(tree_vars)
        k = r.random()
        if k < 0.5:
            name = r.choice(["before", "after", "inside", "same_position", "different_position", "direct_child", "consecutive"])
            return f"{name}({a}, {b})"
        if k < 0.65:
            if ta == "<start>":
                return None
            return f"nth({q(str(r.randint(0, 3)))}, {a}, {b})"
        if k < 0.8:
            return f"level({q(r.choice(['EQ', 'GE', 'LE', 'GT', 'LT']))}, {q(r.choice(self.nts))}, {a}, {b})"
        needle = r.choice(self.nts)
        return f"count({a}, {q(needle)}, {q(str(r.randint(0, 3)))})"

    # ---- formulas ------------------------------------------------------------
    def mexpr_for(self, ty: str) -> Optional[Tuple[str, List[Tuple[str, str]]]]:
        """a match expression built from a real alternative of `ty`: some nonterminals are bound to
        fresh variables, one may be expanded one level deeper, a trailing part may be optional"""
        r = self.rng
        alts = [a for a in self.c[ty] if a]
        if not alts:
            return None
        alt = list(r.choice(alts))
        if r.random() < 0.3:
            # expand one nonterminal of the alternative one level deeper (the match expression then describes a
            # tree of depth 2 below the matched node)
            idx = [i for i, sym in enumerate(alt) if sym in self.c and any(self.c[sym])]
            if idx:
                i = r.choice(idx)
                sub = [a for a in self.c[alt[i]] if a]
                alt[i : i + 1] = list(r.choice(sub))
        parts, bound = [], []
        for sym in alt:
            if sym in self.c:
                if r.random() < 0.6:
                    name = self.fresh("m")
                    parts.append("{" + sym + " " + name + "}")
                    bound.append((name, sym))
                else:
                    parts.append(sym)
            else:
                if any(ch in sym for ch in '{}[]"\\<>'):
                    return None
                parts.append(sym)
        if not bound:
            return None
        return "".join(parts), bound

    def formula(self, scope: List[Tuple[str, str]], depth: int) -> str:
        r = self.rng
        k = r.random()
        if depth <= 0 or k < 0.25:
            if self.allow_preds and r.random() < 0.35:
                p = self.pred_atom(scope)
                if p:
                    return p
            return self.smt_atom(scope)
        if k < 0.35:
            return f"not ({self.formula(scope, depth - 1)})"
        if k < 0.55:
            op = r.choice(["and", "or"])
            return "(" + f" {op} ".join(self.formula(scope, depth - 1) for _ in range(r.choice([2, 2, 3]))) + ")"
        if k < 0.8 or not self.allow_int:
            return self.quantifier(scope, depth)
        return self.int_quantifier(scope, depth)

    def quantifier(self, scope, depth) -> str:
        r = self.rng
        inv, inty = r.choice(scope)
        cands = [t for t in self.nts if t in self.reach.get(inty, set())] or self.nts
        ty = r.choice(cands) if r.random() < 0.9 else r.choice(self.nts)
        if inty not in self.nts and inty in self.c and r.random() < 0.08:
            ty = inty  # a quantifier over the symbol of the tree it ranges over (the root itself is in the domain)
        v = self.fresh()
        kind = r.choice(["forall", "exists"])
        if self.allow_mexpr and r.random() < 0.3:
            m = self.mexpr_for(ty)
            if m:
                text, bound = m
                inner = self.formula(scope + [(v, ty)] + bound, depth - 1)
                return f'{kind} {ty} {v}="{text}" in {inv}: ({inner})'
        inner = self.formula(scope + [(v, ty)], depth - 1)
        return f"{kind} {ty} {v} in {inv}: ({inner})"

    def int_quantifier(self, scope, depth) -> str:
        r = self.rng
        n = self.fresh("n")
        v, _ = r.choice(scope)
        needle = r.choice(self.nts)
        kind = r.choice(["exists", "exists", "forall"])
        k = r.random()
        if kind == "exists":
            if k < 0.5:
                body = f'(count({v}, {q(needle)}, {n}) and (>= (str.to.int {n}) {r.randint(0, 3)}))'
            elif k < 0.8:
                body = f'(count({v}, {q(needle)}, {n}) and (= (str.len {v}) (str.to.int {n})))'
            else:
                body = f"(= (str.to.int {n}) (str.len {v}))"
        else:
            if k < 0.5:
                body = f'(not (count({v}, {q(needle)}, {n})) or (<= (str.to.int {n}) {r.randint(0, 3)}))'
            else:
                body = f"(>= (str.to.int {n}) 0)"
        return f"{kind} int {n}: {body}"

    def constraint(self, depth: int = 3, root_type: str = "<start>") -> str:
        self.counter = 0
        if self.allow_int and self.rng.random() < 0.25:
            return self.int_quantifier([("start", root_type)], depth)
        return self.quantifier([("start", root_type)], depth)
