"""Seeded derivation-tree generator working on plain nested tuples, plus conversion
to real `isla.derivation_tree.DerivationTree` objects and to the driver's encoding.

Plain tree: (id, sym, kids) with kids = None (open leaf) or list of plain trees."""
from __future__ import annotations

from typing import Any, Dict, List, Optional, Tuple

from proto import Atom
from gen.grammars import Canon, canon, min_depths, is_nt

PT = Tuple[int, str, Optional[list]]


class IdGen:
    def __init__(self, start: int = 1):
        self.n = start

    def __call__(self) -> int:
        self.n += 1
        return self.n - 1


def gen_tree(rng, c: Canon, sym: str, depth: int, ids: IdGen, md: Optional[Dict[str, int]] = None,
             eps_child: bool = False) -> PT:
    """random closed derivation of `sym`, roughly bounded by `depth`"""
    if md is None:
        md = min_depths(c)
    if sym not in c:
        return (ids(), sym, [])
    alts = c[sym]

    def alt_depth(alt):
        return 1 + max([md[s] for s in alt if s in c] + [0])

    if depth <= md[sym]:
        best = min(alt_depth(a) for a in alts)
        cands = [a for a in alts if alt_depth(a) == best]
    else:
        cands = [a for a in alts if alt_depth(a) <= depth] or alts
    alt = rng.choice(cands)
    my = ids()
    kids = [gen_tree(rng, c, s, depth - 1, ids, md, eps_child) for s in alt]
    if not alt and eps_child:
        # the fuzzer's representation of an epsilon expansion: one child ("", [])
        kids = [(ids(), "", [])]
    return (my, sym, kids)


def cut_open(rng, t: PT, p_cut: float = 0.25, root: bool = True) -> PT:
    """open prefix of t: nonterminal nodes are cut (children := None) at random; same ids"""
    i, s, kids = t
    if kids is None:
        return t
    if not root and is_nt(s) and rng.random() < p_cut:
        return (i, s, None)
    return (i, s, [cut_open(rng, k, p_cut, False) for k in kids])


def single_cuts(t: PT) -> List[PT]:
    """all open prefixes of t in which exactly ONE nonterminal inner node (not the root) is cut open; same ids"""
    out: List[PT] = []

    def rec(node: PT, rebuild):
        i, s, kids = node
        if kids is None:
            return
        for k_idx, k in enumerate(kids):
            ki, ks, kk = k
            if kk is not None and is_nt(ks):
                out.append(rebuild((i, s, kids[:k_idx] + [(ki, ks, None)] + kids[k_idx + 1 :])))
            rec(k, lambda sub, k_idx=k_idx, i=i, s=s, kids=kids: rebuild((i, s, kids[:k_idx] + [sub] + kids[k_idx + 1 :])))

    rec(t, lambda x: x)
    return out


def complete(rng, c: Canon, t: PT, ids: IdGen, depth: int = 4) -> PT:
    """a closed completion of the open tree t: every open leaf is expanded by a random derivation; all nodes of t
    (open leaves included) keep their identities, new nodes get fresh ones"""
    i, s, kids = t
    if kids is None:
        sub = gen_tree(rng, c, s, rng.randint(1, depth), ids)
        return (i, s, sub[2])
    return (i, s, [complete(rng, c, k, ids, depth) for k in kids])


def max_id(t: PT) -> int:
    return max([t[0]] + [max_id(k) for k in (t[2] or [])])


def size(t: PT) -> int:
    return 1 + sum(size(k) for k in (t[2] or []))


def paths(t: PT, pre=()) -> List[Tuple[tuple, PT]]:
    out = [(pre, t)]
    for i, k in enumerate(t[2] or []):
        out.extend(paths(k, pre + (i,)))
    return out


def to_sexp(t: PT):
    i, s, kids = t
    if kids is None:
        return [Atom("o"), i, s]
    return [Atom("n"), i, s] + [to_sexp(k) for k in kids]


def to_isla(t: PT):
    from isla.derivation_tree import DerivationTree

    i, s, kids = t
    return DerivationTree(s, None if kids is None else [to_isla(k) for k in kids], id=i)


def to_isla_fresh(t: PT):
    """like to_isla, but with identities drawn from DerivationTree's own global counter (as every tree built by
    ISLa itself has), so that they can never collide with identities ISLa generates later"""
    from isla.derivation_tree import DerivationTree

    i, s, kids = t
    return DerivationTree(s, None if kids is None else [to_isla_fresh(k) for k in kids])


def from_isla(dt) -> PT:
    return (dt.id, dt.value, None if dt.children is None else [from_isla(k) for k in dt.children])


def tree_str(t: PT) -> str:
    i, s, kids = t
    if kids is None:
        return s
    if not kids:
        return "" if is_nt(s) else s
    return "".join(tree_str(k) for k in kids)
