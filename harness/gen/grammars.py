"""Seeded grammar generator (fuzzingbook-style grammars: nonterminal -> list of
expansion strings).  All generated grammars are well formed: every nonterminal is
reachable from <start> and productive."""
from __future__ import annotations

import re
from typing import Dict, List, Sequence, Tuple

RE_NT = re.compile(r"(<[^<> ]*>)")

Grammar = Dict[str, List[str]]
Canon = Dict[str, List[List[str]]]


def split_expansion(exp: str) -> List[str]:
    return [tok for tok in RE_NT.split(exp) if tok]


def canon(g: Grammar) -> Canon:
    return {k: [split_expansion(a) for a in alts] for k, alts in g.items()}


def is_nt(s: str) -> bool:
    return RE_NT.match(s) is not None


NT_NAMES = ["<a>", "<b>", "<c>", "<d>", "<e>", "<f>", "<g>", "<h>"]


def gen_grammar(
    rng,
    n_nt: Tuple[int, int] = (2, 6),
    terminals: Sequence[str] = ("a", "b", "c", "0", "1", "x", " ", "ab", ";"),
    max_alts: int = 4,
    max_syms: int = 4,
    eps_prob: float = 0.15,
    multi_start: bool = False,
    rec_prob: float = 0.5,
) -> Grammar:
    n = rng.randint(*n_nt)
    nts = NT_NAMES[:n]
    g: Grammar = {}

    def rand_alt(i: int, allowed_nts: Sequence[str]) -> str:
        if rng.random() < eps_prob:
            return ""
        k = rng.randint(1, max_syms)
        syms = []
        for _ in range(k):
            if allowed_nts and rng.random() < 0.5:
                syms.append(rng.choice(allowed_nts))
            else:
                syms.append(rng.choice(terminals))
        return "".join(syms)

    for i, nt in enumerate(nts):
        alts: List[str] = []
        # first alternative: only later nonterminals -> productive, acyclic
        later = nts[i + 1 :]
        first = rand_alt(i, later)
        if i + 1 < n and nts[i + 1] not in first:
            # make the next nonterminal reachable
            pos = rng.randint(0, 1)
            first = (nts[i + 1] + first) if pos == 0 else (first + nts[i + 1])
        alts.append(first)
        for _ in range(rng.randint(0, max_alts - 1)):
            allowed = nts if rng.random() < rec_prob else later
            a = rand_alt(i, allowed)
            if a not in alts:
                alts.append(a)
        rng.shuffle(alts)
        g[nt] = alts
    if multi_start:
        starts = [nts[0]] + [rng.choice(nts) + rng.choice(terminals) for _ in range(rng.randint(1, 2))]
        out = {"<start>": list(dict.fromkeys(starts))}
    else:
        out = {"<start>": [nts[0]]}
    out.update(g)
    return out


def gen_acyclic_grammar(rng, no_unit: bool = False, **kw) -> Grammar:
    """well-formed grammar without cyclic unit/nullable derivations (A =>+ A), which neither the Earley
    parser's tree extraction nor the external grammar_graph library support.  `no_unit` additionally
    excludes unit alternatives below <start> (the external grammar_graph library mis-handles some of them)."""
    for _ in range(2000):
        g = gen_grammar(rng, **kw)
        if is_cyclic(g):
            continue
        if no_unit and any(is_nt(a) and len(split_expansion(a)) == 1 for k, alts in g.items() if k != "<start>" for a in alts):
            continue
        return g
    raise RuntimeError("no acyclic grammar generated")


def nullable_set(c: Canon) -> set:
    nullable = set()
    changed = True
    while changed:
        changed = False
        for nt, alts in c.items():
            if nt in nullable:
                continue
            for alt in alts:
                if all((s in nullable) for s in alt):
                    nullable.add(nt)
                    changed = True
                    break
    return nullable


def is_cyclic(g: Grammar) -> bool:
    """A =>+ A through unit / nullable steps (infinitely ambiguous)."""
    c = canon(g)
    nullable = nullable_set(c)
    edges = {nt: set() for nt in c}
    for nt, alts in c.items():
        for alt in alts:
            for i, s in enumerate(alt):
                if s in c:
                    rest = alt[:i] + alt[i + 1 :]
                    if all((r in nullable) for r in rest):
                        edges[nt].add(s)
    # reachability
    for start in c:
        seen = set()
        todo = list(edges[start])
        while todo:
            x = todo.pop()
            if x == start:
                return True
            if x in seen:
                continue
            seen.add(x)
            todo.extend(edges[x])
    return False


def min_depths(c: Canon) -> Dict[str, int]:
    """minimal derivation depth per nonterminal"""
    INF = 10**9
    d = {nt: INF for nt in c}
    changed = True
    while changed:
        changed = False
        for nt, alts in c.items():
            for alt in alts:
                v = 1 + max([d[s] for s in alt if s in c] + [0])
                if v < d[nt]:
                    d[nt] = v
                    changed = True
    return d


def grammar_sexp(g: Grammar):
    """canonical grammar as nested lists for the driver"""
    c = canon(g)
    return [[nt, [list(alt) for alt in alts]] for nt, alts in c.items()]
