"""Writes /verif/seeded/README.md: one row per kept seeded fault (from seeded/*/meta.json)."""
import json, os, glob

ROOT = os.path.dirname(os.path.dirname(os.path.abspath(__file__)))
rows = []
for d in sorted(glob.glob(os.path.join(ROOT, "seeded", "*"))):
    mp = os.path.join(d, "meta.json")
    if not os.path.exists(mp):
        continue
    m = json.load(open(mp))
    name = os.path.basename(d)
    cb = m.get("confirmed_by_me", {})
    det = m.get("detected_by") or []
    keys = []
    for c, rs in (m.get("checks_run") or {}).items():
        for r in rs:
            for l in r.get("lines", []):
                if l.startswith("VIOLATION") and "replay=" in l:
                    k = l.split("replay=")[1].rsplit(".", 1)[0]
                    if k not in keys:
                        keys.append(k)
    def cell(x):
        return (x or "").replace("|", "\\|").replace("\n", " ")
    if m.get("rebased"):
        name = name + " (also patch_rebased.diff)"
    rows.append(f"| {name} | {cell(m.get('summary'))[:400]} | {cell(m.get('needs'))[:300]} | demo {cb.get('demo_clean_exit')}/{cb.get('demo_mutated_exit')}, suite {'kept' if cb.get('suite_no_stable_test_lost') else cb.get('suite_no_stable_test_lost')} | {', '.join(det) or 'MISSED'} | {cell('; '.join(keys[:3]))[:200]} |")
with open(os.path.join(ROOT, "seeded", "README.md"), "w") as f:
    f.write("# Seeded faults kept after confirmation\n\n")
    f.write("Each directory holds `patch.diff` (applies to /repo HEAD at the time of confirmation; where a later `fix:` commit rewrote the surrounding code, `patch_rebased.diff` is the same change on the later tree, see `meta.json` → `rebased`), `demo.py` (exit 0 on the clean tree, 1 with the patch) and `meta.json`.\n")
    f.write("Authors: independent sub-agents that saw only the property text and their own scratch worktree. Confirmed with `tools/keep_seed.py` (demo clean / mutated, pinned suite: no stably passing test lost, registered quick check with seed 1 against the patched worktree).\n")
    f.write("None of these changes is ever applied to /repo itself. Regenerate this table with `python3 tools/seedtable.py`.\n\n")
    f.write("| seed | change | needs | confirmation (demo clean/mutated, suite) | detected by | violation keys reported |\n|---|---|---|---|---|---|\n")
    f.write("\n".join(rows) + "\n")
print(len(rows), "rows")
