"""Confirm a sub-agent's seeded fault (demo clean/mutated, pinned suite, our checks) and keep it under
/verif/seeded/<PROP>-<name>/ (patch.diff, demo.py, meta.json).
usage: python3 tools/keep_seed.py <PROP> <mutant-dir> [--checks C03,C04] [--seeds 1,2] [--no-suite]"""
import json, os, shutil, subprocess, sys

ROOT = os.path.dirname(os.path.dirname(os.path.abspath(__file__)))


def main():
    prop, mdir = sys.argv[1], os.path.abspath(sys.argv[2])
    extra = sys.argv[3:]
    cmd = ["python3", os.path.join(ROOT, "tools", "seedtest.py"), prop, mdir] + [a for a in extra if a != "--no-suite"]
    if "--no-suite" not in extra:
        cmd.append("--suite")
    r = subprocess.run(cmd, capture_output=True, text=True)
    line = [l for l in r.stdout.splitlines() if l.startswith("SEEDTEST ")]
    if not line:
        print("seedtest failed:", r.stdout[-500:], r.stderr[-500:])
        sys.exit(2)
    o = json.loads(line[-1][9:])
    ok = o.get("demo_clean_exit") == 0 and o.get("patch_applies") and o.get("demo_mutated_exit") not in (0, None) and o.get("suite_ok", "--no-suite" in extra)
    name = f"{prop}-{os.path.basename(mdir)}"
    print(name, "confirmed" if ok else "NOT CONFIRMED", "detected_by", o.get("detected_by"), "| demo", o.get("demo_clean_exit"), o.get("demo_mutated_exit"), "suite", o.get("suite_ok"))
    if not ok:
        print(json.dumps(o)[:1500])
        sys.exit(1)
    dst = os.path.join(ROOT, "seeded", name)
    os.makedirs(dst, exist_ok=True)
    shutil.copy(os.path.join(mdir, "patch.diff"), dst)
    shutil.copy(os.path.join(mdir, "demo.py"), dst)
    meta = {}
    try:
        meta = json.load(open(os.path.join(mdir, "meta.json")))
    except Exception:  # noqa
        pass
    keep = {
        "property": prop,
        "summary": meta.get("summary"),
        "needs": meta.get("needs"),
        "files": meta.get("files"),
        "author": "independent sub-agent given only the property text and a scratch worktree",
        "confirmed_by_me": {
            "how": "tools/seedtest.py in a scratch worktree of /repo HEAD (removed afterwards): demo.py on the clean tree, git apply patch.diff, demo.py again, pinned test suite via tools/suite_in.py (comparison with BASELINE.json stable_pass), then ./check with ISLA_REPO/PYTHONPATH pointing at the patched worktree",
            "demo_clean_exit": o.get("demo_clean_exit"),
            "demo_mutated_exit": o.get("demo_mutated_exit"),
            "suite_no_stable_test_lost": o.get("suite_ok"),
            "suite_tail": (o.get("suite_tail") or "")[-200:],
        },
        "checks_run": {c: [{"seed": x["seed"], "exit": x["exit"], "lines": [l.split(" replay=")[0] + " replay=" + os.path.basename(l.split(" replay=")[1]) if " replay=" in l else l for l in x["lines"][:4]], "detail": x.get("detail", [])[:2], "wall_s": x["wall_s"]} for x in rs] for c, rs in o["checks"].items()},
        "detected_by": o.get("detected_by"),
    }
    json.dump(keep, open(os.path.join(dst, "meta.json"), "w"), indent=1)


if __name__ == "__main__":
    main()
