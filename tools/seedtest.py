"""Confirm a seeded fault and run the registered check(s) against it — without touching /repo.

usage: python3 tools/seedtest.py <PROP> <mutant-dir> [--suite] [--seeds 1,2] [--checks C03,C04] [--keep]

<mutant-dir> holds patch.diff, demo.py, meta.json (as produced by a fault-seeding sub-agent).
Steps (all in a scratch git worktree of /repo under /tmp, removed afterwards):
  1. demo.py on the clean worktree  -> must exit 0
  2. git apply patch.diff; demo.py  -> must exit != 0
  3. (--suite) the pinned test suite with the patch: no stably passing test may be lost
  4. ./check <PROP> --tier quick with ISLA_REPO / PYTHONPATH pointing at the patched worktree, for
     each seed; evidence and replays go to a scratch directory.  Reports detected / missed.
Prints one JSON line `SEEDTEST {...}` at the end.
"""
import json, os, shutil, subprocess, sys, tempfile, time

ROOT = os.path.dirname(os.path.dirname(os.path.abspath(__file__)))


def sh(cmd, **kw):
    return subprocess.run(cmd, capture_output=True, text=True, **kw)


def main():
    args = sys.argv[1:]
    prop, mdir = args[0], os.path.abspath(args[1])
    suite = "--suite" in args
    seeds = [1]
    checks = [prop]
    if "--seeds" in args:
        seeds = [int(x) for x in args[args.index("--seeds") + 1].split(",")]
    if "--checks" in args:
        checks = args[args.index("--checks") + 1].split(",")
    tag = f"{prop}_{os.path.basename(mdir)}_{os.getpid()}"
    wt = f"/tmp/seed_{tag}"
    out = {"property": prop, "mutant": mdir, "checks": {}}
    sh(["git", "-C", "/repo", "worktree", "add", "--detach", wt, "HEAD"])
    scratch = tempfile.mkdtemp(prefix="seedout_")
    try:
        env = dict(os.environ, PYTHONPATH=os.path.join(wt, "src"), PYTHONHASHSEED="0")
        demo = os.path.join(mdir, "demo.py")
        r = sh(["/venv/bin/python", demo], env=env, cwd=wt, timeout=1800)
        out["demo_clean_exit"] = r.returncode
        a = sh(["git", "-C", wt, "apply", os.path.join(mdir, "patch.diff")])
        out["patch_applies"] = a.returncode == 0
        if a.returncode != 0:
            out["apply_err"] = a.stderr[-300:]
            print("SEEDTEST " + json.dumps(out))
            return
        r = sh(["/venv/bin/python", demo], env=env, cwd=wt, timeout=1800)
        out["demo_mutated_exit"] = r.returncode
        out["demo_mutated_tail"] = (r.stdout + r.stderr)[-300:]
        if suite:
            t0 = time.time()
            r = sh(["/venv/bin/python", os.path.join(ROOT, "tools", "suite_in.py"), wt, "-n", "8"], timeout=3600)
            out["suite_ok"] = r.returncode == 0
            out["suite_tail"] = r.stdout[-400:]
            out["suite_s"] = round(time.time() - t0)
        for chk in checks:
            res = []
            for seed in seeds:
                cenv = dict(
                    os.environ,
                    ISLA_REPO=wt,
                    PYTHONPATH=os.path.join(wt, "src"),
                    VERIF_SEED=str(seed),
                    VERIF_EVIDENCE_DIR=os.path.join(scratch, "evidence"),
                    VERIF_REPLAY_DIR=os.path.join(scratch, "replays"),
                )
                t0 = time.time()
                r = sh([os.path.join(ROOT, "check"), chk, "--tier", "quick"], env=cenv, cwd=ROOT, timeout=3600)
                lines = [l for l in r.stdout.splitlines() if l.startswith("VIOLATION") or l.startswith("KNOWN-FINDING")]
                detail = [l for l in r.stdout.splitlines() if l.startswith("  ")][:3]
                res.append({"seed": seed, "exit": r.returncode, "lines": lines[:6], "detail": detail, "wall_s": round(time.time() - t0), "tail": r.stdout[-300:] if r.returncode not in (0, 1) else ""})
            out["checks"][chk] = res
        out["detected_by"] = [c for c, rs in out["checks"].items() if any(x["exit"] == 1 for x in rs)]
    finally:
        sh(["git", "-C", "/repo", "worktree", "remove", "--force", wt])
        shutil.rmtree(scratch, ignore_errors=True)
        # regenerate translator outputs from the real /repo
        pass
    print("SEEDTEST " + json.dumps(out))


if __name__ == "__main__":
    main()
