"""usage: /venv/bin/python /tmp/mutprompts/suite.py <worktree> [-n 4]
Runs the project's test suite in <worktree> (importing <worktree>/src) and compares with the list of
tests that pass stably on the clean tree.  Prints REGRESSION lines; exit 0 = no stable test lost."""
import json, subprocess, sys, tempfile, os
import xml.etree.ElementTree as ET
wt = sys.argv[1]
n = sys.argv[3] if len(sys.argv) > 3 and sys.argv[2] == "-n" else "4"
base = json.load(open("/root/.vp/BASELINE.json"))
stable = set(base["stable_pass"])
out = tempfile.mktemp(suffix=".xml")
env = dict(os.environ, PYTHONPATH=os.path.join(wt, "src"))
cmd = ["/venv/bin/python", "-m", "pytest", "-q", "-p", "no:cacheprovider", "--timeout=900", "--continue-on-collection-errors", "-n", n, f"--junitxml={out}"]
WT, ENV = wt, env
p = subprocess.run(cmd, cwd=wt, capture_output=True, text=True, env=env)
passed, failed = set(), set()
for tc in ET.parse(out).getroot().iter("testcase"):
    name = f"{tc.get('classname')}::{tc.get('name')}"
    if any(c.tag in ("failure", "error") for c in tc):
        failed.add(name)
    elif any(c.tag == "skipped" for c in tc):
        pass
    else:
        passed.add(name)
os.unlink(out)
missing = sorted(stable - passed)
# RETRY: tests with wall-clock budgets fail under machine load; re-run the lost ones alone before counting them
if missing and len(missing) <= 8:
    still = []
    for m in missing:
        cls, name = m.split("::")
        parts = cls.split(".")
        node = "/".join(parts[:-1]) + ".py::" + parts[-1] + "::" + name
        r = subprocess.run(["/venv/bin/python", "-m", "pytest", "-q", "-p", "no:cacheprovider", "--timeout=900", node], cwd=WT, capture_output=True, text=True, env=ENV)
        if r.returncode != 0:
            still.append(m)
        else:
            print("  (passed when re-run alone:", m + ")")
            passed.add(m)
    missing = still
print(f"passed={len(passed)} failed={len(failed)} stable_pass={len(stable)} stable_now_not_passing={len(missing)}")
for m in missing:
    print("  REGRESSION:", m)
print("OK: no stable test lost" if not missing else "NOT OK")
sys.exit(1 if missing else 0)
