"""Run /repo's test suite (guard off) and compare with /root/.vp/BASELINE.json stable_pass.
usage: /venv/bin/python tools/baseline_compare.py [-n 8]"""
import json, subprocess, sys, tempfile, os
import xml.etree.ElementTree as ET

base = json.load(open("/root/.vp/BASELINE.json"))
stable = set(base["stable_pass"])
out = tempfile.mktemp(suffix=".xml")
n = sys.argv[2] if len(sys.argv) > 2 and sys.argv[1] == "-n" else "8"
cmd = ["/venv/bin/python", "-m", "pytest", "-q", "-p", "no:cacheprovider", "--timeout=900", "--continue-on-collection-errors", "-n", n, f"--junitxml={out}"]
WT, ENV = "/repo", None
p = subprocess.run(cmd, cwd="/repo", capture_output=True, text=True)
passed = set()
failed = set()
for tc in ET.parse(out).getroot().iter("testcase"):
    name = f"{tc.get('classname')}::{tc.get('name')}"
    if any(c.tag in ("failure", "error") for c in tc):
        failed.add(name)
    elif any(c.tag == "skipped" for c in tc):
        pass
    else:
        passed.add(name)
os.unlink(out)
missing = sorted(stable - passed)
# RETRY: tests with wall-clock budgets fail under machine load; re-run the lost ones alone before counting them
if missing and len(missing) <= 8:
    still = []
    for m in missing:
        cls, name = m.split("::")
        parts = cls.split(".")
        node = "/".join(parts[:-1]) + ".py::" + parts[-1] + "::" + name
        r = subprocess.run(["/venv/bin/python", "-m", "pytest", "-q", "-p", "no:cacheprovider", "--timeout=900", node], cwd=WT, capture_output=True, text=True, env=ENV)
        if r.returncode != 0:
            still.append(m)
        else:
            print("  (passed when re-run alone:", m + ")")
            passed.add(m)
    missing = still
print(f"passed={len(passed)} failed={len(failed)} stable_pass={len(stable)} stable_now_not_passing={len(missing)}")
for m in missing:
    print("  REGRESSION:", m)
newly = sorted(passed - stable)
print(f"newly passing (not in stable_pass): {len(newly)}")
for m in newly[:40]:
    print("  +", m)
sys.exit(1 if missing else 0)
