"""Run /verif the way it is used and refuse stale or invalid evidence.

For every check registered in MANIFEST.json: remove its evidence file, run its
quick (or thorough) command with VERIF_SEED / VERIF_TIER exported, and then require
  * exit status 0 and no VIOLATION line,
  * a rewritten evidence file that validates against EVIDENCE.schema.json (validated
    with jsonschema when importable, and always by the explicit rules below),
  * property_id / tier / seed / level as requested and as claimed in the manifest,
  * proof level: obligations >= 1 and discharged == obligations, violations == 0,
  * distinct_nontrivial <= evaluations, samples a non-empty list.
Afterwards every file under evidence/ must belong to a registered check (no stray
record of an unclaimed property) and must be the product of a quiet run.

Run this before every commit of /verif:  python3 tools/selfcheck.py [--tier quick]
[--seeds 1,2] [--only C17,C19] [--setup].  The last seed's evidence is what stays
in evidence/.  `--validate-only` checks the files that are there without running.

exit 0: everything quiet and valid; exit 1: something needs attention (listed).
"""
from __future__ import annotations

import argparse
import json
import os
import subprocess
import sys
import time

ROOT = os.path.dirname(os.path.dirname(os.path.abspath(__file__)))
SCHEMA = "/root/.vp/EVIDENCE.schema.json"


def schema_validator():
    try:
        import jsonschema  # only in the tooling venv; optional
    except Exception:
        return None
    if not os.path.exists(SCHEMA):
        return None
    schema = json.load(open(SCHEMA, encoding="utf-8"))
    return jsonschema.Draft202012Validator(schema)


def validate(path: str, prop: str, level: str, tier: str | None, seed: int | None, validator) -> list[str]:
    problems: list[str] = []
    if not os.path.exists(path):
        return [f"{path} was not written"]
    try:
        ev = json.load(open(path, encoding="utf-8"))
    except Exception as e:  # noqa: BLE001
        return [f"{path} is not JSON: {e}"]
    if validator is not None:
        for err in validator.iter_errors(ev):
            problems.append(f"schema: {'/'.join(map(str, err.path))}: {err.message[:200]}")
    for key in ("property_id", "tier", "seed", "level", "coverage", "wall_s"):
        if key not in ev:
            problems.append(f"missing key {key}")
    if problems:
        return problems
    cov = ev["coverage"]
    if ev["property_id"] != prop:
        problems.append(f"property_id {ev['property_id']} != {prop}")
    if ev["level"] != level:
        problems.append(f"level {ev['level']} != manifest level {level}")
    if tier is not None and ev["tier"] != tier:
        problems.append(f"tier {ev['tier']} != {tier}")
    if seed is not None and ev["seed"] != seed:
        problems.append(f"seed {ev['seed']} != {seed}")
    if ev.get("violations", 0) != 0:
        problems.append(f"violations = {ev.get('violations')} (record of a run that raised an alarm)")
    if ev["level"] == "proof":
        missing = [k for k in ("obligations", "discharged", "checker_cmd", "trusted_base") if k not in cov]
        problems += [f"coverage.{k} missing" for k in missing]
        if not missing:
            if cov["obligations"] < 1:
                problems.append("coverage.obligations < 1")
            if cov["discharged"] != cov["obligations"]:
                problems.append(f"coverage.discharged ({cov['discharged']}) != obligations ({cov['obligations']})")
            if not str(cov["checker_cmd"]).strip():
                problems.append("coverage.checker_cmd empty")
            undischarged = [o.get("name") for o in cov.get("obligation_list", []) if not o.get("discharged")]
            if undischarged:
                problems.append(f"undischarged obligations: {undischarged}")
    missing = [k for k in ("evaluations", "distinct_nontrivial", "rule", "samples") if k not in cov]
    problems += [f"coverage.{k} missing" for k in missing]
    if not missing:
        if not isinstance(cov["samples"], list) or not cov["samples"]:
            problems.append("coverage.samples is not a non-empty list")
        if cov["distinct_nontrivial"] > cov["evaluations"]:
            problems.append("distinct_nontrivial > evaluations")
        if cov["evaluations"] < 1 or cov["distinct_nontrivial"] < 1:
            problems.append("no (non-trivial) case was explored")
    return problems


def main() -> int:
    ap = argparse.ArgumentParser()
    ap.add_argument("--tier", default="quick", choices=["quick", "thorough"])
    ap.add_argument("--seeds", default="1")
    ap.add_argument("--only", default="")
    ap.add_argument("--setup", action="store_true", help="run MANIFEST.setup_cmd first")
    ap.add_argument("--validate-only", action="store_true")
    args = ap.parse_args()

    manifest = json.load(open(os.path.join(ROOT, "MANIFEST.json"), encoding="utf-8"))
    checks = {c["property_id"]: c for c in manifest["checks"]}
    only = [s for s in args.only.upper().split(",") if s]
    validator = schema_validator()
    if validator is None:
        print("note: jsonschema not importable here; explicit rules only (python3-vt has it)")
    attention: list[str] = []

    if args.setup and not args.validate_only:
        t0 = time.time()
        p = subprocess.run(manifest["setup_cmd"], shell=True, cwd=ROOT, capture_output=True, text=True)
        print(f"setup: rc={p.returncode} in {time.time() - t0:.0f} s")
        if p.returncode != 0:
            print((p.stdout + p.stderr)[-3000:])
            return 1

    if not args.validate_only:
        for seed in [int(s) for s in args.seeds.split(",")]:
            env = dict(os.environ, VERIF_SEED=str(seed), VERIF_TIER=args.tier,
                       CARGO_NET_OFFLINE="true", GOPROXY="off", PIP_NO_INDEX="1")
            for prop, c in checks.items():
                if only and prop not in only:
                    continue
                evpath = os.path.join(ROOT, c["evidence_file"])
                if os.path.exists(evpath):
                    os.unlink(evpath)
                t0 = time.time()
                p = subprocess.run(c[f"{args.tier}_cmd"], shell=True, cwd=ROOT, env=env,
                                   capture_output=True, text=True)
                out = "\n".join(l for l in (p.stdout + p.stderr).splitlines() if not l.startswith("WARNING"))
                dt = time.time() - t0
                probs = []
                if p.returncode != 0:
                    probs.append(f"exit status {p.returncode}")
                if any(l.startswith("VIOLATION") for l in out.splitlines()):
                    probs.append("VIOLATION line printed")
                probs += validate(evpath, prop, c["level_claimed"]["category"], args.tier, seed, validator)
                last = out.strip().splitlines()[-1] if out.strip() else ""
                print(f"{prop} seed={seed} {args.tier}: {'ok' if not probs else 'ATTENTION'} ({dt:.0f} s) {last[:160]}")
                for pr in probs:
                    print(f"    - {pr}")
                    attention.append(f"{prop} seed={seed}: {pr}")
                if probs:
                    print("\n".join("    | " + l for l in out.splitlines()[-15:]))

    # whatever is in evidence/ now must be a valid record of a registered check
    evdir = os.path.join(ROOT, "evidence")
    for name in sorted(os.listdir(evdir)):
        prop = name[:-5]
        if not name.endswith(".json"):
            continue
        if prop not in checks:
            attention.append(f"evidence/{name}: no check registered for {prop} in MANIFEST.json (stray record)")
            continue
        for pr in validate(os.path.join(evdir, name), prop, checks[prop]["level_claimed"]["category"], None, None, validator):
            attention.append(f"evidence/{name}: {pr}")
    for prop, c in checks.items():
        if not os.path.exists(os.path.join(ROOT, c["evidence_file"])):
            attention.append(f"{c['evidence_file']} missing")

    if attention:
        print("\nNEEDS ATTENTION:")
        for a in sorted(set(attention)):
            print("  " + a)
        return 1
    print(f"\nall {len(checks) if not only else len(only)} registered checks quiet; every evidence file valid")
    return 0


if __name__ == "__main__":
    sys.exit(main())
