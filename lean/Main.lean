import IslaVerif.Driver.Dispatch
open IslaVerif

partial def loop (hin : IO.FS.Stream) (hout : IO.FS.Stream) : IO Unit := do
  let line ← hin.getLine
  if line.isEmpty then return ()
  let ans := match Sexp.parse line with
    | none => Sexp.atom "bad-request"
    | some req => Driver.dispatch req
  hout.putStrLn (toString ans)
  loop hin hout

def main : IO Unit := do
  let hin ← IO.getStdin
  let hout ← IO.getStdout
  loop hin hout
  hout.flush
