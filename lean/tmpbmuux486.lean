import IslaVerif.Properties.C17
#print axioms IslaVerif.C17.decode_encode
#print axioms IslaVerif.C17.erase_clearK
#print axioms IslaVerif.C17.encode_clearK
#print axioms IslaVerif.C17.step_total
#print axioms IslaVerif.C17.toJson_pure
#print axioms IslaVerif.C17.pickle_pure
#print axioms IslaVerif.C17.run_erase
#print axioms IslaVerif.C17.pickle_after_history
