import IslaVerif.Model.Grammar
import IslaVerif.Model.PTree
/-
Tree-building operations shared by the fuzzer, the mutator and the insertion procedures
(C12, C13, C14), on plain derivation trees, and the result checkers the outputs of the real
procedures are passed through.

* `expandAt`   — `GrammarFuzzer.expand_node_randomly` / `DerivationTree` expansion: an open leaf is
                 replaced by a node whose children realise one alternative (`expansion_to_children`:
                 nonterminals become open leaves, terminals closed leaves, ε the single child `("", [])`);
* `expandRun`  — any sequence of such steps (the fuzzer's three-phase strategy only *selects* them);
* `replace`    — `replace_path` (Model/PTree.lean); `swap` — `Mutator.swap_subtrees`;
* `idPrefixOf` — "every already expanded part is unchanged": same identities, labels and children
                 wherever the first tree is expanded;
* `insertCheck`, `completionCheck`, `mutationCheck` — the checkers.
-/
namespace IslaVerif
namespace DTree
open Grammar

/-- children realising an alternative; `ids` supplies the fresh identities -/
def altKids (g : Grammar) : List String → List Nat → List DTree
  | [], i :: _ => [node i "" []]                        -- ε: the child ("", [])
  | [], [] => [node 0 "" []]
  | syms, ids => (syms.zip (ids ++ List.replicate syms.length 0)).map fun (s, i) =>
      if isNT g s then openLeaf i s else node i s []

/-- expand the open leaf at `p` by alternative `alt` -/
def expandAt (g : Grammar) (t : DTree) (p : Path) (alt : List String) (ids : List Nat) : Option DTree :=
  match t.get p with
  | some (openLeaf i s) => t.replace p (node i s (altKids g alt ids))
  | _ => none

/-- a sequence of expansion steps; a step that does not apply is skipped -/
def expandRun (g : Grammar) : DTree → List (Path × List String × List Nat) → DTree
  | t, [] => t
  | t, (p, alt, ids) :: rest =>
    match expandAt g t p alt ids with
    | some t' => expandRun g t' rest
    | none => expandRun g t rest

/-- `swap_subtrees`: exchange the subtrees at `p` and `q` -/
def swap (t : DTree) (p q : Path) : Option DTree :=
  match t.get p, t.get q with
  | some a, some b =>
    match t.replace p b with
    | some t1 => t1.replace q a
    | none => none
  | _, _ => none

mutual
/-- `a` is an identity-preserving prefix of `b`: wherever `a` is expanded, `b` has the same node
(id and symbol) with children extending `a`'s; an open leaf of `a` only fixes id and symbol -/
def idPrefixOf : DTree → DTree → Bool
  | openLeaf i s, b => i == b.id && s == b.sym
  | node i s ks, node j s' ks' => i == j && s == s' && idPrefixOfL ks ks'
  | node _ _ _, openLeaf _ _ => false
def idPrefixOfL : List DTree → List DTree → Bool
  | [], [] => true
  | a :: as, b :: bs => idPrefixOf a b && idPrefixOfL as bs
  | _, _ => false
end

mutual
/-- `a` is embedded at the root of `b`: wherever `a` is expanded, `b` has the same node (id and
symbol) with children embedding `a`'s; an OPEN leaf of `a` is a hole — it may have been filled by any
subtree with the same symbol (tree insertion plugs the host's own subtree into such a hole) -/
def embedsAt : DTree → DTree → Bool
  | openLeaf _ s, b => s == b.sym
  | node i s ks, node j s' ks' => i == j && s == s' && embedsAtL ks ks'
  | node _ _ _, openLeaf _ _ => false
def embedsAtL : List DTree → List DTree → Bool
  | [], [] => true
  | a :: as, b :: bs => embedsAt a b && embedsAtL as bs
  | _, _ => false
end

/-- the (id, label) pairs of all nodes -/
def idLabels (t : DTree) : List (Nat × String) := t.paths.map fun pu => (pu.2.id, pu.2.sym)

/-- node `v` of the result is node `u` of the host: same identity and label, and if `u` is expanded
then `v` is expanded by the same alternative (same sequence of child labels) — an open leaf of the
host may have been expanded, an expanded node (also one expanded to the empty string) stays as it is -/
def keepsNode (u v : DTree) : Bool :=
  v.id == u.id && v.sym == u.sym &&
  (match u, v with
   | openLeaf _ _, _ => true
   | node _ _ ks, node _ _ ks' => ks'.map DTree.sym == ks.map DTree.sym
   | node _ _ _, openLeaf _ _ => false)

/-- result checker for `insert_tree(grammar, ins, host)` -/
def insertCheck (g : Grammar) (host ins r : DTree) : Bool :=
  r.valid g && r.sym == host.sym &&
  host.paths.all (fun pu => r.paths.any (fun qv => keepsNode pu.2 qv.2)) &&
  r.paths.any (fun pu => embedsAt ins pu.2)

/-- result checker for the fuzzer's completion of an open tree -/
def completionCheck (g : Grammar) (t r : DTree) : Bool :=
  r.valid g && r.closed && embedsAt t r

/-- result checker for a mutation of a closed tree -/
def mutationCheck (g : Grammar) (t r : DTree) : Bool :=
  r.valid g && r.closed && r.sym == t.sym

end DTree
end IslaVerif
