/-
Bound-variable renaming (C09, `ensure_unique_bound_variables`): formulas with NAMED variables, their
nameless (de Bruijn) form, and the checker `alphaEq` through which every result of the real renaming
is passed together with its input.  Proofs/Alpha.lean: formulas with the same nameless form have
the same meaning under every interpretation, in every environment.

A quantifier binds its own variable and the variables of its match expression (`binders`, in
binding order); its `in` variable is an occurrence in the scope outside.  Atoms are opaque: an
atom's meaning depends only on its tag and on the VALUES of the variables it mentions, in order.
-/
namespace IslaVerif.Alpha

inductive NF where
  | atom (tag : Nat) (vars : List String)
  | neg (f : NF)
  | conj (fs : List NF)
  | disj (fs : List NF)
  | all (binders : List String) (inVar : String) (f : NF)      -- binders = bound variable :: match-expression variables
  | ex (binders : List String) (inVar : String) (f : NF)
  | allInt (v : String) (f : NF)
  | exInt (v : String) (f : NF)
  deriving Repr, Inhabited, BEq

/-- a variable occurrence in nameless form: bound (index into the binder stack, innermost first) or free -/
inductive Ref where
  | bound (i : Nat)
  | free (n : String)
  deriving Repr, BEq, DecidableEq, Inhabited

inductive DB where
  | atom (tag : Nat) (vars : List Ref)
  | neg (f : DB)
  | conj (fs : List DB)
  | disj (fs : List DB)
  | all (n : Nat) (inVar : Ref) (f : DB)       -- n = number of binders
  | ex (n : Nat) (inVar : Ref) (f : DB)
  | allInt (f : DB)
  | exInt (f : DB)
  deriving Repr, Inhabited, BEq

def resolve (stack : List String) (v : String) : Ref :=
  match stack.idxOf? v with
  | some i => .bound i
  | none => .free v

mutual
/-- nameless form relative to the binder stack (innermost binder first; the binders of one
quantifier are pushed in reverse so that the LAST binder is innermost) -/
def toDB : List String → NF → DB
  | st, .atom t vs => .atom t (vs.map (resolve st))
  | st, .neg f => .neg (toDB st f)
  | st, .conj fs => .conj (toDBL st fs)
  | st, .disj fs => .disj (toDBL st fs)
  | st, .all bs iv f => .all bs.length (resolve st iv) (toDB (bs.reverse ++ st) f)
  | st, .ex bs iv f => .ex bs.length (resolve st iv) (toDB (bs.reverse ++ st) f)
  | st, .allInt v f => .allInt (toDB (v :: st) f)
  | st, .exInt v f => .exInt (toDB (v :: st) f)
def toDBL : List String → List NF → List DB
  | _, [] => []
  | st, f :: fs => toDB st f :: toDBL st fs
end

mutual
/-- structural equality of nameless forms -/
def DB.eqb : DB → DB → Bool
  | .atom t vs, .atom t' vs' => t == t' && vs == vs'
  | .neg f, .neg g => DB.eqb f g
  | .conj fs, .conj gs => DB.eqbL fs gs
  | .disj fs, .disj gs => DB.eqbL fs gs
  | .all n iv f, .all n' iv' g => n == n' && iv == iv' && DB.eqb f g
  | .ex n iv f, .ex n' iv' g => n == n' && iv == iv' && DB.eqb f g
  | .allInt f, .allInt g => DB.eqb f g
  | .exInt f, .exInt g => DB.eqb f g
  | _, _ => false
def DB.eqbL : List DB → List DB → Bool
  | [], [] => true
  | f :: fs, g :: gs => DB.eqb f g && DB.eqbL fs gs
  | _, _ => false
end

/-- α-equivalence of closed-scope formulas (free variables must coincide by name) -/
def alphaEq (f g : NF) : Bool := DB.eqb (toDB [] f) (toDB [] g)

mutual
/-- all binder names, in pre-order -/
def binderNames : NF → List String
  | .atom _ _ => []
  | .neg f => binderNames f
  | .conj fs => binderNamesL fs
  | .disj fs => binderNamesL fs
  | .all bs _ f => bs ++ binderNames f
  | .ex bs _ f => bs ++ binderNames f
  | .allInt v f => v :: binderNames f
  | .exInt v f => v :: binderNames f
def binderNamesL : List NF → List String
  | [] => []
  | f :: fs => binderNames f ++ binderNamesL fs
end

/-- no name is bound twice -/
def uniqueBinders (f : NF) : Bool := (binderNames f).eraseDups.length == (binderNames f).length

end IslaVerif.Alpha
