import IslaVerif.Model.Grammar
import IslaVerif.Model.Preds
import IslaVerif.Model.Smt
import IslaVerif.Model.SemPreds
/-
The reference semantics of ISLa constraints on CLOSED derivation trees, transcribed from
`sphinx/islaspec.rst` (Semantics sections): tree quantifiers with and without match expressions,
numeric quantifiers, structural predicates, `count`, SMT-LIB atoms, propositional connectives.
`evalRef` is the executable reference evaluator the real `evaluate()`, `check()` and the solver's
outputs are compared with (C01, C03, C06, C08, C18); Proofs/Sem.lean relates it to the
Prop-valued specification `Sat`.
-/
namespace IslaVerif.Sem
open IslaVerif

/-- SMT terms with variables -/
inductive TermV where
  | var (n : String)
  | str (s : List Char)
  | int (n : Int)
  | bool (b : Bool)
  | app (op : String) (args : List TermV)
  | inre (s : TermV) (r : Re)
  deriving Repr, Inhabited

/-- what a variable is bound to: a node of the reference tree (by path) or a numeral -/
inductive Bind where
  | path (p : Path)
  | num (n : Nat)
  deriving Repr, DecidableEq, Inhabited

abbrev Env := List (String × Bind)

def Env.get (β : Env) (v : String) : Option Bind := β.lookup v

/-- predicate arguments -/
inductive Arg where
  | var (v : String)
  | str (s : String)
  deriving Repr, Inhabited

/-- a parsed match expression tree: an open derivation tree plus the paths of the bound variables -/
structure MTree where
  tree : DTree
  binds : List (String × Path)
  deriving Repr, Inhabited

inductive Fm where
  | smt (t : TermV)
  | pred (name : String) (args : List Arg)       -- structural predicate
  | count (tree : String) (needle : String) (num : Arg)
  | neg (f : Fm)
  | conj (fs : List Fm)
  | disj (fs : List Fm)
  | all (v ty inVar : String) (mexpr : Option (List MTree)) (f : Fm)
  | ex (v ty inVar : String) (mexpr : Option (List MTree)) (f : Fm)
  | allInt (v : String) (f : Fm)
  | exInt (v : String) (f : Fm)
  deriving Repr, Inhabited

/-! ### SMT atoms -/

def natStr (n : Nat) : List Char := Smt.natDigits n

mutual
/-- instantiate the variables by the strings they denote and build a ground term -/
def toTerm (σ : String → Option (List Char)) : TermV → Option Smt.Term
  | .var n => (σ n).map Smt.Term.strLit
  | .str s => some (.strLit s)
  | .int n => some (.intLit n)
  | .bool b => some (.boolLit b)
  | .inre s r => (toTerm σ s).map fun s' => .inRe s' r
  | .app op args =>
    match toTermL σ args with
    | none => none
    | some ts =>
      match op, ts with
      | "len", [a] => some (.len a)
      | "concat", ts => some (.concat ts)
      | "at", [a, b] => some (.strAt a b)
      | "substr", [a, b, c] => some (.substr a b c)
      | "prefixof", [a, b] => some (.prefixof a b)
      | "suffixof", [a, b] => some (.suffixof a b)
      | "contains", [a, b] => some (.contains a b)
      | "indexof", [a, b, c] => some (.indexof a b c)
      | "replace", [a, b, c] => some (.replace a b c)
      | "toint", [a] => some (.toInt a)
      | "fromint", [a] => some (.fromInt a)
      | "tocode", [a] => some (.toCode a)
      | "isdigit", [a] => some (.isDigit a)
      | "strle", [a, b] => some (.strLe a b)
      | "add", ts => some (.add ts)
      | "sub", ts => some (.sub ts)
      | "mul", ts => some (.mul ts)
      | "div", [a, b] => some (.div a b)
      | "mod", [a, b] => some (.mod a b)
      | "neg", [a] => some (.neg a)
      | "abs", [a] => some (.abs a)
      | "eq", [a, b] => some (.eq a b)
      | "lt", [a, b] => some (.lt a b)
      | "le", [a, b] => some (.le a b)
      | "gt", [a, b] => some (.gt a b)
      | "ge", [a, b] => some (.ge a b)
      | "not", [a] => some (.not a)
      | "and", ts => some (.and ts)
      | "or", ts => some (.or ts)
      | "implies", [a, b] => some (.implies a b)
      | "xor", [a, b] => some (.xor a b)
      | _, _ => none
def toTermL (σ : String → Option (List Char)) : List TermV → Option (List Smt.Term)
  | [] => some []
  | t :: ts => match toTerm σ t, toTermL σ ts with
    | some a, some as => some (a :: as)
    | _, _ => none
end

/-! ### matching a match-expression tree against a subtree (islaspec `match`) -/

/-- `P_i`: the paths starting with `i`, with that first element removed -/
def bindsAt (P : List (String × Path)) (i : Nat) : List (String × Path) :=
  P.filterMap fun (v, p) => match p with
    | j :: rest => if j == i then some (v, rest) else none
    | [] => none

mutual
/-- `match(t, t', P)`: `none` = ⊥; otherwise the assignment of the bound variables to paths,
relative to the position `pos` of `t` in the reference tree -/
def matchM (pos : Path) : DTree → DTree → List (String × Path) → Option (List (String × Path))
  | t, t', P =>
    if t.sym != t'.sym || (t'.kids.length > 0 && t.kids.length != t'.kids.length) then none
    else match P with
      | [(v, [])] => some [(v, pos)]
      | _ =>
        match t' with
        | .openLeaf _ _ => some []
        | .node _ _ [] => some []
        | .node _ _ (k' :: ks') => matchKids pos 0 t.kids (k' :: ks') P
def matchKids (pos : Path) (i : Nat) : List DTree → List DTree → List (String × Path) → Option (List (String × Path))
  | k :: ks, k' :: ks', P =>
    match matchM (pos ++ [i]) k k' (bindsAt P i), matchKids pos (i + 1) ks ks' P with
    | some a, some b => some (a ++ b)
    | _, _ => none
  | _, _, _ => some []
end

/-! ### evaluation -/

/-- three-valued result of the reference evaluator: `none` = not decided by the bounded search
for numeric quantifiers / variable unbound / atom unspecified -/
abbrev TV := Option Bool

def tvNot : TV → TV
  | some b => some (!b)
  | none => none
def tvAnd (a b : TV) : TV :=
  match a, b with
  | some false, _ => some false
  | _, some false => some false
  | some true, some true => some true
  | _, _ => none
def tvOr (a b : TV) : TV :=
  match a, b with
  | some true, _ => some true
  | _, some true => some true
  | some false, some false => some false
  | _, _ => none

structure World where
  g : Grammar
  root : DTree
  isNT : String → Bool        -- `is_nonterminal` (syntactic)
  intBound : Nat              -- numeric quantifiers are searched over 0 .. intBound-1

/-- the string a variable denotes -/
def World.strOf (w : World) (β : Env) (v : String) : Option (List Char) :=
  match β.get v with
  | some (.path p) => (w.root.get p).map fun t => (t.yieldOpen w.isNT).toList
  | some (.num n) => some (natStr n)
  | none => none

def argPath (β : Env) : Arg → Option Path
  | .var v => match β.get v with | some (.path p) => some p | _ => none
  | .str _ => none

def levelOp : String → Option Preds.LevelOp
  | "EQ" => some .EQ | "GE" => some .GE | "LE" => some .LE | "GT" => some .GT | "LT" => some .LT
  | _ => none

def presToTV : Preds.PRes → TV
  | .val b => some b
  | _ => none

/-- structural predicate atoms (the nine standard predicates) -/
def evalPred (w : World) (β : Env) (name : String) (args : List Arg) : TV :=
  match name, args with
  | "before", [a, b] => do pure (Preds.isBefore (← argPath β a) (← argPath β b))
  | "after", [a, b] => do pure (Preds.isAfter (← argPath β a) (← argPath β b))
  | "same_position", [a, b] => do pure (Preds.isSamePosition (← argPath β a) (← argPath β b))
  | "different_position", [a, b] => do pure (Preds.isDifferentPosition (← argPath β a) (← argPath β b))
  | "inside", [a, b] => do pure (Preds.inTree (← argPath β a) (← argPath β b))
  | "direct_child", [a, b] => do pure (Preds.isDirectChild (← argPath β a) (← argPath β b))
  | "consecutive", [a, b] => do presToTV (Preds.consecutive w.root (← argPath β a) (← argPath β b))
  | "nth", [.str n, a, b] => do
      presToTV (Preds.isNth w.isNT w.root (← n.toNat?) (← argPath β a) (← argPath β b))
  | "level", [.str op, .str nt, a, b] => do
      pure (Preds.levelCheck w.root (← levelOp op) nt (← argPath β a) (← argPath β b))
  | _, _ => none

/-- the domain of a tree quantifier: paths (absolute) of the subtrees of `in` labelled `ty` -/
def domain (w : World) (β : Env) (ty inVar : String) : Option (List Path) :=
  match β.get inVar with
  | some (.path p) =>
    (w.root.get p).map fun sub => (sub.paths.filter fun qu => qu.2.sym == ty).map fun qu => p ++ qu.1
  | _ => none

/-- for a quantifier with match expression: all (path, assignment) pairs — one per subtree and per
matching match-expression tree -/
def mexprInstances (w : World) (β : Env) (v : String) (paths : List Path) (ms : List MTree) : List Env :=
  paths.flatMap fun p =>
    match w.root.get p with
    | none => []
    | some t =>
      ms.filterMap fun m =>
        (matchM p t m.tree m.binds).map fun bs =>
          (v, Bind.path p) :: (bs.map fun (x, q) => (x, Bind.path q)) ++ β

/-- SMT atom: instantiate the variables by the strings they denote, evaluate by the SMT-LIB oracle model -/
def evalSmt (w : World) (β : Env) (t : TermV) : TV :=
  match toTerm (w.strOf β) t with
  | none => none
  | some term => match Smt.eval term with
    | some (.bool b) => some b
    | _ => none

/-- `count(tree, needle, num)` on a closed tree -/
def evalCount (w : World) (β : Env) (tv needle : String) (num : Arg) : TV :=
  match β.get tv with
  | some (.path p) =>
    match w.root.get p with
    | none => none
    | some sub =>
      let occ := (sub.paths.filter fun qu => qu.2.sym == needle).length
      match num with
      | .str s => (s.toInt?).map fun target => SemPreds.countVerdict occ target
      | .var nv => match β.get nv with
        | some (.num n) => some (SemPreds.countVerdict occ n)
        | some (.path q) => ((w.root.get q).bind fun t => (t.yieldOpen w.isNT).toInt?).map fun target =>
            SemPreds.countVerdict occ target
        | none => none
  | _ => none

mutual
def evalRef (w : World) : Env → Fm → TV
  | β, .smt t => evalSmt w β t
  | β, .pred name args => evalPred w β name args
  | β, .count tv needle num => evalCount w β tv needle num
  | β, .neg f => tvNot (evalRef w β f)
  | β, .conj fs => evalAll w β fs
  | β, .disj fs => evalAny w β fs
  | β, .all v ty inVar none f =>
    match domain w β ty inVar with
    | none => none
    | some ps => (ps.map fun p => (v, Bind.path p) :: β).foldr (fun β' acc => tvAnd (evalRef w β' f) acc) (some true)
  | β, .ex v ty inVar none f =>
    match domain w β ty inVar with
    | none => none
    | some ps => (ps.map fun p => (v, Bind.path p) :: β).foldr (fun β' acc => tvOr (evalRef w β' f) acc) (some false)
  | β, .all v ty inVar (some ms) f =>
    match domain w β ty inVar with
    | none => none
    | some ps => (mexprInstances w β v ps ms).foldr (fun β' acc => tvAnd (evalRef w β' f) acc) (some true)
  | β, .ex v ty inVar (some ms) f =>
    match domain w β ty inVar with
    | none => none
    | some ps => (mexprInstances w β v ps ms).foldr (fun β' acc => tvOr (evalRef w β' f) acc) (some false)
  | β, .allInt v f =>
    -- a counterexample below the bound refutes; otherwise undecided
    match ((List.range w.intBound).map fun n => (v, Bind.num n) :: β).foldr (fun β' acc => tvAnd (evalRef w β' f) acc) (some true) with
    | some false => some false
    | _ => none
  | β, .exInt v f =>
    match ((List.range w.intBound).map fun n => (v, Bind.num n) :: β).foldr (fun β' acc => tvOr (evalRef w β' f) acc) (some false) with
    | some true => some true
    | _ => none
def evalAll (w : World) : Env → List Fm → TV
  | _, [] => some true
  | β, f :: fs => tvAnd (evalRef w β f) (evalAll w β fs)
def evalAny (w : World) : Env → List Fm → TV
  | _, [] => some false
  | β, f :: fs => tvOr (evalRef w β f) (evalAny w β fs)
end

end IslaVerif.Sem
