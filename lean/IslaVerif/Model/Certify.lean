import IslaVerif.Model.Sem
/-
The solution certifier (C01, C18, C21): a tree is accepted exactly when it is a closed derivation
tree of the grammar rooted in the requested start symbol and the reference evaluator decides the
constraint to be TRUE on it.  Proofs/Certify.lean: acceptance implies membership in the grammar's
language and satisfaction of the specification `Sat`.
-/
namespace IslaVerif.Sem
open IslaVerif

/-- the four clauses, separately (the harness reports which one fails) -/
structure CertFlags where
  valid : Bool
  closed : Bool
  rootOk : Bool
  verdict : TV
  deriving Repr

def certFlags (w : World) (startSym const : String) (f : Fm) : CertFlags :=
  { valid := w.root.valid w.g
    closed := w.root.closed
    rootOk := w.root.sym == startSym
    verdict := evalRef w [(const, Bind.path [])] f }

def certify (w : World) (startSym const : String) (f : Fm) : Bool :=
  let c := certFlags w startSym const f
  c.valid && c.closed && c.rootOk && (c.verdict == some true)

end IslaVerif.Sem
