import IslaVerif.Model.Sem
/-
The documented translation of the XPath CHILD step `n.<T>[i]` (islaspec.rst, "Simplified syntax":
"X-Path-like expressions"): the `i`-th (1-based) child labelled `<T>` of a node `n` labelled `<V>`,
counted among the `<T>`-labelled children only.  `forall <V> n in c: φ(n.<T>[i])` is translated to
one quantifier with match expression per alternative `e` of `<V>` that contains at least `i`
occurrences of `<T>`: `forall <V> n="e with the i-th <T> bound to x" in c: φ(x)`; the quantifiers
are combined by conjunction (`exists`: disjunction).  In this model a quantifier carries the LIST of
its match-expression trees, so the translation is the single quantifier
`Fm.all n V c (some (childMTrees g V T i x)) φ`.
Executable definitions only; the theorems are in Proofs/XPath.lean and Properties/C08x.lean.
-/
namespace IslaVerif.XPath
open IslaVerif

/-- `nthOcc T i e pos`: the position (counted from `pos`) in `e` of the `i`-th (1-based) occurrence
of `T`; `none` if `e` has fewer than `i` occurrences of `T` or `i = 0` -/
def nthOcc (T : String) : Nat → List String → Nat → Option Nat
  | 0, _, _ => none
  | _ + 1, [], _ => none
  | i + 1, s :: rest, pos =>
    if s == T then (if i == 0 then some pos else nthOcc T i rest (pos + 1))
    else nthOcc T (i + 1) rest (pos + 1)

/-- the match-expression tree of an alternative: nonterminals are open leaves, terminals are closed
leaves (ids are irrelevant for matching) -/
def altLeaf (g : Grammar) (s : String) : DTree :=
  if g.isNT s then .openLeaf 0 s else .node 0 s []

def altTree (g : Grammar) (V : String) (e : List String) : DTree :=
  .node 0 V (e.map (altLeaf g))

/-- one match-expression tree per alternative of `V` with at least `i` occurrences of `T`;
the `i`-th occurrence is bound to `x` -/
def childMTrees (g : Grammar) (V T : String) (i : Nat) (x : String) : List Sem.MTree :=
  ((g.alts V).getD []).filterMap fun e =>
    (nthOcc T i e 0).map fun k => { tree := altTree g V e, binds := [(x, [k])] }

/-- the position of the `i`-th (1-based) child of `t` labelled `T` -/
def nthChild (T : String) (i : Nat) (t : DTree) : Option Nat :=
  nthOcc T i (t.kids.map DTree.sym) 0

/-- the documented translations -/
def childAll (g : Grammar) (n V c T : String) (i : Nat) (x : String) (φ : Sem.Fm) : Sem.Fm :=
  .all n V c (some (childMTrees g V T i x)) φ

def childEx (g : Grammar) (n V c T : String) (i : Nat) (x : String) (φ : Sem.Fm) : Sem.Fm :=
  .ex n V c (some (childMTrees g V T i x)) φ

end IslaVerif.XPath
