import IslaVerif.Generated.Escapes
/-
C11: escaping of terminals when a grammar is printed as BNF (`unparse_grammar.escape_string`,
table regenerated from the source), un-escaping when it is read back
(`helpers.instantiate_escaped_symbols`, single left-to-right pass after fix 73eeb7f; its two tables
regenerated from the source), and the STRING token of `bnf.g4` ('"' (ESC|.)*? '"', ESC : '\\' [btnr"\\]).
Strings are lists of code points.
-/
namespace IslaVerif.Bnf
open IslaVerif.Generated.Escapes

def lookupEsc (c : Nat) : List (Nat × List Nat) → Option (List Nat)
  | [] => none
  | (k, v) :: rest => if k == c then some v else lookupEsc c rest

/-- `escape_char`: `subst_map.get(char, char)` -/
def escapeChar (c : Nat) : List Nat := (lookupEsc c escapeTable).getD [c]

/-- `escape_string` -/
def escapeStr : List Nat → List Nat
  | [] => []
  | c :: cs => escapeChar c ++ escapeStr cs

def lookupSimple (c : Nat) : List (Nat × Nat) → Option Nat
  | [] => none
  | (k, v) :: rest => if k == c then some v else lookupSimple c rest

def hexVal (c : Nat) : Nat := if 48 ≤ c && c ≤ 57 then c - 48 else c - 87   -- '0'..'9', 'a'..'f'

def isHex (c : Nat) : Bool := hexDigits.contains c

/-- `instantiate_escaped_symbols`: one pass from left to right; `fuel` = length of the text -/
def unescapeF : Nat → List Nat → List Nat
  | 0, _ => []
  | _, [] => []
  | fuel + 1, 92 :: n :: rest =>
    match lookupSimple n simpleEscapes with
    | some v => v :: unescapeF fuel rest
    | none =>
      if n == 120 then
        match rest with
        | h1 :: h2 :: rest' =>
          if isHex h1 && isHex h2 then (hexVal h1 * 16 + hexVal h2) :: unescapeF fuel rest'
          else 92 :: unescapeF fuel (n :: rest)
        | _ => 92 :: unescapeF fuel (n :: rest)
      else 92 :: unescapeF fuel (n :: rest)
  | fuel + 1, c :: rest => c :: unescapeF fuel rest

def unescape (s : List Nat) : List Nat := unescapeF s.length s

/-- the body of a STRING token starting after the opening quote: ESC pairs are consumed as a unit,
the token ends at the first quote that is not part of an ESC; returns (body, rest after the closing quote) -/
def lexBodyF : Nat → List Nat → Option (List Nat × List Nat)
  | 0, _ => none
  | _, [] => none
  | _ + 1, 34 :: rest => some ([], rest)
  | fuel + 1, 92 :: n :: rest =>
    if n == 98 || n == 116 || n == 110 || n == 114 || n == 34 || n == 92 then
      (lexBodyF fuel rest).map fun (b, r) => (92 :: n :: b, r)
    else (lexBodyF fuel (n :: rest)).map fun (b, r) => (92 :: b, r)
  | fuel + 1, c :: rest => (lexBodyF fuel rest).map fun (b, r) => (c :: b, r)

/-- lex one STRING token: `"` body `"` -/
def lexString : List Nat → Option (List Nat × List Nat)
  | 34 :: rest => lexBodyF (rest.length + 1) rest
  | _ => none

/-- how a terminal is printed: quoted escaped text -/
def printTerminal (s : List Nat) : List Nat := 34 :: escapeStr s ++ [34]

/-- how it is read back: lex the STRING token, strip the quotes, un-escape -/
def readTerminal (text : List Nat) : Option (List Nat × List Nat) :=
  (lexString text).map fun (b, r) => (unescape b, r)

end IslaVerif.Bnf
