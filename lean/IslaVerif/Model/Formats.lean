import IslaVerif.Model.Grammar
/-
C21 — independent executable specifications of the properties formalized by the shipped case studies
(CSV, XML, reST, simple TAR).  They are written from the formats' own rules, NOT derived from the ISLa
constraints, and judge the STRING (CSV, XML, TAR) or the derivation tree (reST) of every input the
solver generates.
-/
namespace IslaVerif.Formats
open IslaVerif

/-! ### CSV: all records have the same number of fields (quote-aware) -/

/-- number of fields per record; `"` toggles quoting, `;` separates fields and a line feed ends a
record outside quotes -/
def csvScan : List Char → Bool → Nat → List Nat → List Nat
  | [], _, _, acc => acc.reverse
  | c :: cs, inQ, n, acc =>
    if c == '"' then csvScan cs (!inQ) n acc
    else if inQ then csvScan cs inQ n acc
    else if c == ';' then csvScan cs inQ (n + 1) acc
    else if c == '\n' then csvScan cs inQ 1 (n :: acc)
    else csvScan cs inQ n acc

def csvOk (s : List Char) : Bool :=
  match csvScan s false 1 [] with
  | [] => false
  | r :: rs => rs.all (· == r)

/-! ### XML: well-formedness, attribute uniqueness per tag, namespace prefixes declared in scope -/

inductive TagKind where | opening | closing | selfClosing
  deriving DecidableEq, Repr

structure Tag where
  kind : TagKind
  name : List Char
  attrs : List (List Char × List Char)
  deriving Repr

def takeUntil (stop : Char → Bool) : List Char → List Char × List Char
  | [] => ([], [])
  | c :: cs => if stop c then ([], c :: cs) else let (a, b) := takeUntil stop cs; (c :: a, b)

theorem takeUntil_length (stop : Char → Bool) (s : List Char) : (takeUntil stop s).2.length ≤ s.length := by
  induction s with
  | nil => simp [takeUntil]
  | cons c cs ih =>
    simp only [takeUntil]
    split
    · simp
    · simp only [List.length_cons]; omega

/-- attributes `name="value"` separated by blanks, up to `>` or `/>`; fuel = remaining length -/
def parseAttrs : Nat → List Char → List (List Char × List Char) → Option (TagKind × List (List Char × List Char) × List Char)
  | 0, _, _ => none
  | _ + 1, '>' :: rest, acc => some (.opening, acc.reverse, rest)
  | _ + 1, '/' :: '>' :: rest, acc => some (.selfClosing, acc.reverse, rest)
  | f + 1, ' ' :: rest, acc => parseAttrs f rest acc
  | f + 1, s, acc =>
    let (nm, r1) := takeUntil (fun c => c == '=' || c == '>' || c == ' ') s
    match r1 with
    | '=' :: '"' :: r2 =>
      let (v, r3) := takeUntil (· == '"') r2
      match r3 with
      | '"' :: r4 => if nm.isEmpty then none else parseAttrs f r4 ((nm, v) :: acc)
      | _ => none
    | _ => none

/-- a tag, the input starting right after `<` -/
def parseTag (s : List Char) : Option (Tag × List Char) :=
  match s with
  | '/' :: rest =>
    let (nm, r) := takeUntil (· == '>') rest
    match r with
    | '>' :: r' => if nm.isEmpty then none else some ({ kind := .closing, name := nm, attrs := [] }, r')
    | _ => none
  | _ =>
    let (nm, r) := takeUntil (fun c => c == ' ' || c == '>' || c == '/') s
    if nm.isEmpty then none
    else match parseAttrs (r.length + 1) r [] with
      | some (k, attrs, r') => some ({ kind := k, name := nm, attrs := attrs }, r')
      | none => none

def prefixOf (nm : List Char) : Option (List Char) :=
  if nm.contains ':' then some (takeUntil (· == ':') nm).1 else none

def xmlns : List Char := "xmlns".toList

/-- prefixes declared by the tag's own attributes `xmlns:p="…"` -/
def declared (t : Tag) : List (List Char) :=
  t.attrs.filterMap fun (n, _) =>
    match prefixOf n with
    | some p => if p == xmlns then some ((takeUntil (· == ':') n).2.drop 1) else none
    | none => none

def noDup : List (List Char) → Bool
  | [] => true
  | x :: xs => !xs.contains x && noDup xs

/-- attribute names unique; every prefix used by the tag name or an attribute name (other than
`xmlns` itself) is declared by this element or an enclosing one -/
def tagOk (scope : List (List Char)) (t : Tag) : Bool :=
  let sc := declared t ++ scope
  noDup (t.attrs.map (·.1)) &&
  (match prefixOf t.name with | some p => sc.contains p | none => true) &&
  t.attrs.all fun (n, _) => match prefixOf n with
    | some p => p == xmlns || sc.contains p
    | none => true

/-- scan with the stack of open elements (name, prefixes in scope); `seenRoot`: one root element -/
def xmlScan : Nat → List Char → List (List Char × List (List Char)) → Bool → Bool
  | 0, _, _, _ => false
  | _ + 1, [], stack, seenRoot => stack.isEmpty && seenRoot
  | f + 1, '<' :: rest, stack, seenRoot =>
    match parseTag rest with
    | none => false
    | some (t, rest') =>
      let scope := match stack with | [] => [] | (_, sc) :: _ => sc
      match t.kind with
      | .closing =>
        match stack with
        | (nm, _) :: st => nm == t.name && xmlScan f rest' st seenRoot
        | [] => false
      | .opening =>
        (stack.isEmpty → !seenRoot) && tagOk scope t && xmlScan f rest' ((t.name, declared t ++ scope) :: stack) true
      | .selfClosing =>
        (stack.isEmpty → !seenRoot) && tagOk scope t && xmlScan f rest' stack true
  | f + 1, c :: rest, stack, seenRoot =>
    -- character data: only inside an element, never a raw `>` mismatch check needed (text cannot contain `<`)
    !stack.isEmpty && c != '<' && xmlScan f rest stack seenRoot

def xmlOk (s : List Char) : Bool := xmlScan (s.length + 1) s [] false

/-! ### simple TAR: field widths, checksum, link targets -/

def octVal (ds : List Char) : Option Nat :=
  if ds.isEmpty || !ds.all (fun c => '0' ≤ c && c ≤ '7') then none
  else some (ds.foldl (fun a c => 8 * a + (c.toNat - 48)) 0)

def nul : Char := Char.ofNat 0

/-- a NUL-padded name field: a non-empty name without NUL followed by NULs only -/
def nameField (f : List Char) : Option (List Char) :=
  let (nm, pad) := takeUntil (· == nul) f
  if pad.all (· == nul) then some nm else none

structure TarEntry where
  name : List Char
  typeflag : Char
  linked : List Char
  deriving Repr

/-- one 216-character entry: name[100] checksum[8] typeflag[1] linked name[100] "CONTENT" -/
def tarEntry (e : List Char) : Option TarEntry :=
  if e.length != 216 then none else
  let name := e.take 100
  let chk := (e.drop 100).take 8
  let tf := (e.drop 108).headD ' '
  let linked := (e.drop 109).take 100
  let content := e.drop 209
  let header := e.take 209
  let blanked := name ++ List.replicate 8 ' ' ++ [tf] ++ linked
  let sum := (blanked.map Char.toNat).foldl (· + ·) 0
  match nameField name, nameField linked, octVal (chk.take 6) with
  | some nm, some ln, some v =>
    if !nm.isEmpty && header.length == 209 && chk.drop 6 == [nul, ' '] && v == sum && (tf == '0' || tf == '2') &&
       content == "CONTENT".toList
    then some { name := nm, typeflag := tf, linked := ln } else none
  | _, _, _ => none

def chunks (n : Nat) : Nat → List Char → List (List Char)
  | 0, _ => []
  | _, [] => []
  | f + 1, s => s.take n :: chunks n f (s.drop n)

def tarOk (s : List Char) : Bool :=
  if s.isEmpty || s.length % 216 != 0 then false else
  let es := (chunks 216 (s.length / 216 + 1) s).map tarEntry
  es.all Option.isSome &&
  let entries := es.filterMap id
  (List.range entries.length).all fun i =>
    match entries[i]? with
    | some e => e.typeflag != '2' || e.linked.isEmpty || (List.range entries.length).any fun j => j != i && (match entries[j]? with | some e' => e'.name == e.linked | none => false)
    | none => true

/-! ### reST (tree level): underline at least as long as the title, link targets unique and defined, numbering consecutive -/

def nodesOf (t : DTree) (sym : String) : List DTree := (t.paths.filter fun pu => pu.2.sym == sym).map (·.2)

def restUnderlineOk (g : Grammar) (t : DTree) : Bool :=
  (nodesOf t "<section-title>").all fun n =>
    match n.kids with
    | [ti, _, ul] => 0 < (ti.yieldC g).length && (ti.yieldC g).length ≤ (ul.yieldC g).length
    | _ => false

def idsBelow (g : Grammar) (t : DTree) (sym : String) : List (List Char) :=
  (nodesOf t sym).flatMap fun n => (nodesOf n "<id>").map fun i => i.yieldC g

def restLabelsUnique (g : Grammar) (t : DTree) : Bool := noDup (idsBelow g t "<label>")

def restRefsDefined (g : Grammar) (t : DTree) : Bool :=
  let defs := idsBelow g t "<label>"
  (idsBelow g t "<internal_reference>" ++ idsBelow g t "<internal_reference_nospace>").all defs.contains

def natVal (ds : List Char) : Option Nat :=
  if ds.isEmpty || !ds.all Char.isDigit then none else some (ds.foldl (fun a c => 10 * a + (c.toNat - 48)) 0)

/-- the numbers of the items of one enumeration, in document order -/
def enumNumbers (g : Grammar) (e : DTree) : List (Option Nat) :=
  (nodesOf e "<enumeration_item>").map fun it =>
    match (nodesOf it "<number>") with
    | n :: _ => natVal (n.yieldC g)
    | [] => none

def consecutiveFrom : List (Option Nat) → Bool
  | [] => true
  | [some _] => true   -- the formalized rule speaks about pairs of consecutive items only
  | some a :: some b :: rest => 0 < a && b == a + 1 && consecutiveFrom (some b :: rest)
  | _ => false

/-- top-level enumerations only (an enumeration's items contain no nested enumeration in the shipped grammar) -/
def restNumberingOk (g : Grammar) (t : DTree) : Bool :=
  (nodesOf t "<enumeration>").all fun e =>
    -- nested `<enumeration>` nodes repeat the tail of the list: judge maximal ones through their own items
    consecutiveFrom (enumNumbers g e)

end IslaVerif.Formats
