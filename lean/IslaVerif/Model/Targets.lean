import IslaVerif.Model.TreeOps
/-
C14 — helpers that build trees to a target: the result checkers.

* `reachSet g A`   — the nonterminals reachable from `A` through one or more derivation steps
                     (`GrammarGraph.reachable`), by self-certifying saturation: iterate, then CHECK that the
                     set is closed; `none` if the check fails;
* `fixedLenCheck`  — `create_fixed_length_tree(start, grammar, n)`: closed derivation tree of `start` whose
                     string has exactly `n` characters;
* `numericCheck`   — numeric model values: closed derivation tree of the nonterminal whose string denotes
                     the requested integer (optional sign, leading zeros);
* `countCheck`     — `count(tree, needle, n)` completion: derivation tree with the same root that keeps every
                     node of the argument tree (expanded nodes with their expansion; subtrees may have been
                     embedded one level deeper), with exactly `n` needle nodes and no open leaf from which a
                     needle is reachable (open leaves that are needles themselves are counted).
-/
namespace IslaVerif
namespace Targets
open Grammar DTree

/-- nonterminals occurring in some alternative of `A` -/
def succs (g : Grammar) (A : String) : List String :=
  ((alts g A).getD []).flatten.filter (isNT g)

/-- one saturation round -/
def stepR (g : Grammar) (R : List String) : List String :=
  R ++ ((R.flatMap (succs g)).filter fun x => !R.contains x).eraseDups

def iterR (g : Grammar) : Nat → List String → List String
  | 0, R => R
  | n+1, R => iterR g n (stepR g R)

def closedR (g : Grammar) (A : String) (R : List String) : Bool :=
  (succs g A).all R.contains && R.all fun x => (succs g x).all R.contains

/-- the set of nonterminals reachable from `A` in ≥ 1 steps; `none` = saturation not certified -/
def reachSet (g : Grammar) (A : String) : Option (List String) :=
  let R := iterR g (g.length + 1) (succs g A)
  if closedR g A R then some R else none

def reaches (g : Grammar) (A B : String) : Option Bool := (reachSet g A).map fun R => R.contains B

/-- number of nodes labelled `needle` -/
def countSym (t : DTree) (needle : String) : Nat := (t.paths.filter fun pu => pu.2.sym == needle).length

def fixedLenCheck (g : Grammar) (start : String) (n : Nat) (r : DTree) : Bool :=
  r.valid g && r.closed && r.sym == start && (r.yieldC g).length == n

/-- value of an optionally signed decimal numeral -/
def intOfChars : List Char → Option Int
  | '-' :: ds => if ds.isEmpty || !ds.all Char.isDigit then none else some (-(Int.ofNat (ds.foldl (fun a c => 10 * a + (c.toNat - 48)) 0)))
  | '+' :: ds => if ds.isEmpty || !ds.all Char.isDigit then none else some (Int.ofNat (ds.foldl (fun a c => 10 * a + (c.toNat - 48)) 0))
  | ds => if ds.isEmpty || !ds.all Char.isDigit then none else some (Int.ofNat (ds.foldl (fun a c => 10 * a + (c.toNat - 48)) 0))

def numericCheck (g : Grammar) (nt : String) (v : Int) (r : DTree) : Bool :=
  r.valid g && r.closed && r.sym == nt && intOfChars (r.yieldC g) == some v

/-- `none` when reachability could not be certified for some open leaf -/
def countCheck (g : Grammar) (arg : DTree) (needle : String) (n : Nat) (r : DTree) : Option Bool :=
  let leaves := r.openLeaves.map fun pu => pu.2.sym
  match leaves.mapM (fun s => reaches g s needle) with
  | none => none
  | some rs =>
    some (r.valid g && r.sym == arg.sym && countSym r needle == n && rs.all (fun b => !b) &&
          arg.paths.all (fun pu => r.paths.any (fun qv => keepsNode pu.2 qv.2)))

end Targets
end IslaVerif
