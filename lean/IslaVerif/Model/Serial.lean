import IslaVerif.Model.Tree
/-
C17: serialization of derivation trees (`derivation_tree.py` to_json / from_json /
__getstate__ / __setstate__, after fix a56b862) and the object-state machine of cache
computations and serializations.

`CTree` = a DerivationTree object with all its private fields:
  value, children, _id, __len, __hash, __structural_hash, __is_open, and whether
  `__k_paths` / `__concrete_k_paths` currently hold computed entries (sets of graph paths,
  which JSON cannot represent).
-/
namespace IslaVerif.Serial

structure Fields where
  len : Option Nat
  hash : Option Int
  shash : Option Int
  isOpen : Option Bool
  kPaths : Bool            -- __k_paths non-empty
  concreteKPaths : Bool    -- __concrete_k_paths non-empty
  deriving Repr, DecidableEq, Inhabited

inductive CTree where
  | openLeaf (id : Nat) (sym : String) (f : Fields)
  | node (id : Nat) (sym : String) (kids : List CTree) (f : Fields)
  deriving Repr, Inhabited

/-- JSON values (the image of `json.loads`) -/
inductive JVal where
  | null
  | bool (b : Bool)
  | num (n : Int)
  | str (s : String)
  | arr (xs : List JVal)
  | obj (kvs : List (String × JVal))
  deriving Repr, Inhabited

namespace CTree

def fields : CTree → Fields
  | openLeaf _ _ f => f
  | node _ _ _ f => f

def setFields : CTree → Fields → CTree
  | openLeaf i s _, f => openLeaf i s f
  | node i s ks _, f => node i s ks f

mutual
def erase : CTree → DTree
  | openLeaf i s _ => .openLeaf i s
  | node i s ks _ => .node i s (eraseL ks)
def eraseL : List CTree → List DTree
  | [] => []
  | k :: ks => erase k :: eraseL ks
end

def jOptNat : Option Nat → JVal
  | none => .null
  | some n => .num n
def jOptInt : Option Int → JVal
  | none => .null
  | some n => .num n
def jOptBool : Option Bool → JVal
  | none => .null
  | some b => .bool b

/-- the serialized fields of one node, in `__dict__` order, *without* the two k-path caches -/
def encFields (value : String) (children : JVal) (id : Nat) (f : Fields) : JVal :=
  .obj [("_DerivationTree__value", .str value),
        ("_DerivationTree__children", children),
        ("_id", .num id),
        ("_DerivationTree__len", jOptNat f.len),
        ("_DerivationTree__hash", jOptInt f.hash),
        ("_DerivationTree__structural_hash", jOptInt f.shash),
        ("_DerivationTree__is_open", jOptBool f.isOpen)]

mutual
/-- `to_json` (as a JSON value) -/
def encode : CTree → JVal
  | openLeaf i s f => encFields s .null i f
  | node i s ks f => encFields s (.arr (encodeL ks)) i f
def encodeL : List CTree → List JVal
  | [] => []
  | k :: ks => encode k :: encodeL ks
end

def lookup (k : String) : List (String × JVal) → Option JVal
  | [] => none
  | (k', v) :: rest => if k == k' then some v else lookup k rest

def dOptNat : JVal → Option (Option Nat)
  | .null => some none
  | .num n => if n ≥ 0 then some (some n.toNat) else none
  | _ => none
def dOptInt : JVal → Option (Option Int)
  | .null => some none
  | .num n => some (some n)
  | _ => none
def dOptBool : JVal → Option (Option Bool)
  | .null => some none
  | .bool b => some (some b)
  | _ => none

def decFields (kvs : List (String × JVal)) : Option (String × Nat × Fields) := do
  let v ← match lookup "_DerivationTree__value" kvs with | some (.str s) => some s | _ => none
  let i ← match lookup "_id" kvs with | some (.num n) => (if n ≥ 0 then some n.toNat else none) | _ => none
  let len ← (lookup "_DerivationTree__len" kvs).bind dOptNat
  let h ← (lookup "_DerivationTree__hash" kvs).bind dOptInt
  let sh ← (lookup "_DerivationTree__structural_hash" kvs).bind dOptInt
  let o ← (lookup "_DerivationTree__is_open" kvs).bind dOptBool
  -- from_dict: result.__k_paths = {} ; result.__concrete_k_paths = {}
  pure (v, i, { len := len, hash := h, shash := sh, isOpen := o, kPaths := false, concreteKPaths := false })

mutual
/-- `from_json` / `from_dict`, with fuel bounding the nesting depth -/
def decodeF : Nat → JVal → Option CTree
  | 0, _ => none
  | fuel + 1, .obj kvs =>
    match decFields kvs, lookup "_DerivationTree__children" kvs with
    | some (v, i, f), some .null => some (openLeaf i v f)
    | some (v, i, f), some (.arr xs) =>
      match decodeFL fuel xs with
      | some ks => some (node i v ks f)
      | none => none
    | _, _ => none
  | _ + 1, _ => none
def decodeFL : Nat → List JVal → Option (List CTree)
  | _, [] => some []
  | fuel, x :: xs =>
    match decodeF fuel x, decodeFL fuel xs with
    | some k, some ks => some (k :: ks)
    | _, _ => none
end

mutual
def depth : CTree → Nat
  | openLeaf _ _ _ => 1
  | node _ _ ks _ => 1 + depthL ks
def depthL : List CTree → Nat
  | [] => 0
  | k :: ks => max (depth k) (depthL ks)
end

mutual
def jdepth : JVal → Nat
  | .arr xs => 1 + jdepthL xs
  | .obj kvs => 1 + jdepthKV kvs
  | _ => 1
def jdepthL : List JVal → Nat
  | [] => 0
  | x :: xs => max (jdepth x) (jdepthL xs)
def jdepthKV : List (String × JVal) → Nat
  | [] => 0
  | (_, v) :: rest => max (jdepth v) (jdepthKV rest)
end

/-- `from_json` on a JSON value -/
def decode (j : JVal) : Option CTree := decodeF (jdepth j) j

mutual
/-- what unpickling yields: the same tree with the k-path caches emptied -/
def clearK : CTree → CTree
  | openLeaf i s f => openLeaf i s { f with kPaths := false, concreteKPaths := false }
  | node i s ks f => node i s (clearKL ks) { f with kPaths := false, concreteKPaths := false }
def clearKL : List CTree → List CTree
  | [] => []
  | k :: ks => clearK k :: clearKL ks
end

def get : CTree → List Nat → Option CTree
  | t, [] => some t
  | openLeaf _ _ _, _ :: _ => none
  | node _ _ ks _, i :: p => match ks[i]? with
    | none => none
    | some k => get k p

/-- replace the fields of the node at a path -/
def updateAt : CTree → List Nat → (Fields → Fields) → Option CTree
  | t, [], g => some (t.setFields (g t.fields))
  | openLeaf _ _ _, _ :: _, _ => none
  | node i s ks f, j :: p, g =>
    match ks[j]? with
    | none => none
    | some k => (updateAt k p g).map fun k' => node i s (ks.set j k') f

end CTree

/-! ### the object-state machine -/

/-- operations on a live tree object (cache computations and serializations) -/
inductive Op where
  | kPaths (p : List Nat)            -- tree.get_subtree(p).k_paths(graph, k)
  | concreteKPaths (p : List Nat)    -- … include_potential_paths=False
  | toJson                           -- tree.to_json()
  | pickleRoundTrip                  -- pickle.loads(pickle.dumps(tree)) ; continue with the *original*
  | observe                          -- str / len / hash / structural_hash / is_open on the root: fills caches
      (len : Nat) (hash shash : Int) (isOpen : Bool)

inductive Out where
  | unit
  | json (j : JVal)
  | tree (t : CTree)
  | error (cls : String)
  deriving Repr, Inhabited

/-- one step on the live object: next state of the *original* object and the output -/
def step (t : CTree) : Op → CTree × Out
  | .kPaths p =>
    match t.updateAt p (fun f => { f with kPaths := true }) with
    | some t' => (t', .unit)
    | none => (t, .error "bad-path")
  | .concreteKPaths p =>
    match t.updateAt p (fun f => { f with concreteKPaths := true }) with
    | some t' => (t', .unit)
    | none => (t, .error "bad-path")
  | .toJson => (t, .json t.encode)
  | .pickleRoundTrip =>
    match CTree.decode t.encode with
    | some t' => (t, .tree t')
    | none => (t, .error "decode-failed")
  | .observe len h sh o =>
    (t.setFields { t.fields with len := some len, hash := some h, shash := some sh, isOpen := some o }, .unit)

def run : CTree → List Op → CTree × List Out
  | t, [] => (t, [])
  | t, op :: ops =>
    let (t', o) := step t op
    let (t'', os) := run t' ops
    (t'', o :: os)

end IslaVerif.Serial
