import IslaVerif.Generated.Cli
/-
C19: the decision logic of `isla check` / `isla parse` (`cli.py`: do_check 516-561,
ensure_grammar_present / ensure_constraint_present 658-685, parse_grammar / parse_constraint
688-778, get_input_string 904-970) over an abstract classification of the files given.
-/
namespace IslaVerif.Cli

inductive GrammarSt where
  | missing      -- no --grammar and no .bnf/.py file
  | malformed    -- present but parse_bnf / the Python extension fails
  | empty        -- files present but no grammar definition found in them
  | ok
  deriving Repr, DecidableEq

inductive ConstraintSt where
  | malformed | ok
  deriving Repr, DecidableEq

/-- outcome of evaluating the conjunction of all constraints on the parsed input (`solver.check`) -/
inductive Verdict where
  | sat | unsat
  | error     -- the evaluation raises: a constraint that parses but cannot be evaluated (ill-typed
              -- predicate arguments, which predicates only check when they are evaluated)
  deriving Repr, DecidableEq

/-- the input after `get_input_string`'s classification -/
inductive InputSt where
  | none                 -- no input file / --input-string
  | several              -- more than one candidate input file
  | given (inGrammar : Bool) (verdict : Verdict)
      -- exactly one input: the text (or the valid JSON tree it encodes) is / is not in the
      -- grammar's language, and (if it is) the outcome of evaluating all constraints on it
  deriving Repr, DecidableEq

structure Files where
  grammar : GrammarSt
  constraints : List ConstraintSt     -- all constraints given by --constraint and .isla files (possibly none)
  input : InputSt
  deriving Repr

/-- some constraint fails to parse (`parse_constraint` exits at the first one) -/
def hasMalformed : List ConstraintSt → Bool
  | [] => false
  | .malformed :: _ => true
  | .ok :: cs => hasMalformed cs

/-- `get_input_string` + `solver.check` -/
def inputExit : InputSt → Nat
  | .none => Generated.Cli.usageError
  | .several => Generated.Cli.usageError
  | .given false _ => 1
  | .given true .sat => 0
  | .given true .unsat => 1
  | .given true .error => Generated.Cli.dataFormatError

/-- exit status of `isla check` -/
def checkExit (f : Files) : Nat :=
  if f.grammar = .missing then Generated.Cli.usageError
  else if f.constraints.isEmpty then Generated.Cli.usageError
  else if f.grammar = .malformed then Generated.Cli.dataFormatError
  else if f.grammar = .empty then Generated.Cli.usageError
  else if hasMalformed f.constraints then Generated.Cli.dataFormatError
  else inputExit f.input

/-- `isla parse`: same decision, and a JSON tree is written exactly on exit 0 -/
def parseWritesTree (f : Files) : Bool := checkExit f == 0

end IslaVerif.Cli
