import IslaVerif.Model.Tree
/-
Context-free grammars in canonical form (`helpers.canonical`): nonterminal ↦ alternatives, each a
list of symbols; a symbol is a nonterminal iff it is a key of the grammar.
Tree validity, and a reference recognizer (fixpoint over chart facts) proved correct in
Proofs/Recognizer.lean.
-/
namespace IslaVerif

abbrev Grammar := List (String × List (List String))

namespace Grammar

def alts (g : Grammar) (A : String) : Option (List (List String)) := g.lookup A
def isNT (g : Grammar) (A : String) : Bool := (g.lookup A).isSome

/-- the children labels `syms` realise alternative `alt`.  An ε-alternative is realised either by
no children at all (`("<a>", [])`) or by the single empty terminal child the fuzzer and the parser
use (`("<a>", [("", [])])`). -/
def kidsMatch (alt syms : List String) : Bool :=
  syms == alt || (alt.isEmpty && syms == [""])

end Grammar

namespace DTree
open Grammar

mutual
/-- `t` is a (possibly open) derivation tree of `g`: every inner node is expanded by one of its
symbol's alternatives, open leaves carry nonterminals, terminal nodes are closed leaves -/
def valid (g : Grammar) : DTree → Bool
  | openLeaf _ s => isNT g s
  | node _ s ks =>
    match alts g s with
    | none => ks.isEmpty
    | some as => (as.any fun alt => kidsMatch alt (ks.map DTree.sym)) && validL g ks
def validL (g : Grammar) : List DTree → Bool
  | [] => true
  | k :: ks => valid g k && validL g ks
end

/-- closed = no open leaf -/
def closed (t : DTree) : Bool := !t.hasOpen

mutual
/-- the string of a closed tree as a character list (terminal leaves concatenated;
leaves labelled with a nonterminal of `g` contribute nothing) -/
def yieldC (g : Grammar) : DTree → List Char
  | openLeaf _ _ => []
  | node _ s [] => if isNT g s then [] else s.toList
  | node _ _ (k :: ks) => yieldCL g (k :: ks)
def yieldCL (g : Grammar) : List DTree → List Char
  | [] => []
  | k :: ks => yieldC g k ++ yieldCL g ks
end

end DTree

/-! ### Reference recognizer: saturate chart facts `(A, i, j)` = "A derives s[i..j]" -/
namespace Rec
open Grammar

abbrev Fact := String × Nat × Nat

/-- terminal `x` occurs in `s` at position `i`, ending at `k` -/
def termAt (s : List Char) (x : String) (i k : Nat) : Bool :=
  k == i + x.toList.length && (s.drop i).take x.toList.length == x.toList

/-- match a right-hand side against s[i..j] using the facts R for nonterminals -/
def matchSeq (g : Grammar) (s : List Char) (R : List Fact) : List String → Nat → Nat → Bool
  | [], i, j => i == j
  | X :: rest, i, j =>
    (List.range (j + 1)).any fun k =>
      i ≤ k && (if isNT g X then R.contains (X, i, k) else termAt s X i k) && matchSeq g s R rest k j

def derivable (g : Grammar) (s : List Char) (R : List Fact) (f : Fact) : Bool :=
  match alts g f.1 with
  | none => false
  | some as => as.any fun alt => matchSeq g s R alt f.2.1 f.2.2

def allFacts (g : Grammar) (n : Nat) : List Fact :=
  g.flatMap fun (A, _) => (List.range (n+1)).flatMap fun i => (List.range (n+1)).map fun j => (A, i, j)

/-- the facts newly derivable from R -/
def newFacts (g : Grammar) (s : List Char) (R : List Fact) : List Fact :=
  (allFacts g s.length).filter fun f => !R.contains f && derivable g s R f

/-- saturation with early exit (at most `n` rounds) -/
def iter (g : Grammar) (s : List Char) : Nat → List Fact → List Fact
  | 0, R => R
  | n+1, R =>
    let new := newFacts g s R
    if new.isEmpty then R else iter g s n (R ++ new)

/-- closed: nothing new is derivable -/
def closedUnder (g : Grammar) (s : List Char) (R : List Fact) : Bool :=
  (allFacts g s.length).all fun f => R.contains f || !derivable g s R f

/-- self-certifying: iterate, then *check* the fixpoint; `none` if it was not reached -/
def recognize (g : Grammar) (A : String) (s : List Char) : Option Bool :=
  let R := iter g s ((allFacts g s.length).length + 1) []
  if closedUnder g s R then some (R.contains (A, 0, s.length)) else none

end Rec
end IslaVerif
