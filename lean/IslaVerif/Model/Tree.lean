/-
Derivation trees (`isla.derivation_tree.DerivationTree`), without caches.
`openLeaf`  = node with `children is None`;
`node _ s []` = closed leaf (`children == ()`): a terminal or an ε-expanded nonterminal.
-/
namespace IslaVerif

abbrev Path := List Nat

inductive DTree where
  | openLeaf (id : Nat) (sym : String)
  | node (id : Nat) (sym : String) (kids : List DTree)
  deriving Repr, Inhabited, BEq

namespace DTree

def id : DTree → Nat
  | openLeaf i _ => i
  | node i _ _ => i

def sym : DTree → String
  | openLeaf _ s => s
  | node _ s _ => s

/-- `children or ()` -/
def kids : DTree → List DTree
  | openLeaf _ _ => []
  | node _ _ ks => ks

def isOpenLeaf : DTree → Bool
  | openLeaf _ _ => true
  | node _ _ _ => false

/-- `not tree.children` — a leaf in the sense of `DerivationTree.leaves` -/
def isLeaf (t : DTree) : Bool := t.kids.isEmpty

/-- `get_subtree` on valid paths; `none` when the path leaves the tree -/
def get : DTree → Path → Option DTree
  | t, [] => some t
  | t, i :: p =>
    match t.kids[i]? with
    | none => none
    | some k => get k p

mutual
/-- `DerivationTree.paths()`: pre-order list of (path, subtree) -/
def paths : DTree → List (Path × DTree)
  | openLeaf i s => [([], openLeaf i s)]
  | node i s ks => ([], node i s ks) :: pathsL ks 0
def pathsL : List DTree → Nat → List (Path × DTree)
  | [], _ => []
  | k :: ks, i => (paths k).map (fun pu => (i :: pu.1, pu.2)) ++ pathsL ks (i + 1)
end

/-- `DerivationTree.leaves()` -/
def leaves (t : DTree) : List (Path × DTree) := t.paths.filter (fun pu => pu.2.isLeaf)
/-- `DerivationTree.open_leaves()` -/
def openLeaves (t : DTree) : List (Path × DTree) := t.paths.filter (fun pu => pu.2.isOpenLeaf)

mutual
/-- `str(tree)` / `to_string(show_open_leaves=True)`: open leaves print their symbol,
closed leaves print their value (nonterminal closed leaves = ε print nothing) -/
def yieldOpen (isNT : String → Bool) : DTree → String
  | openLeaf _ s => s
  | node _ s [] => if isNT s then "" else s
  | node _ _ (k :: ks) => yieldOpenL isNT (k :: ks)
def yieldOpenL (isNT : String → Bool) : List DTree → String
  | [] => ""
  | k :: ks => yieldOpen isNT k ++ yieldOpenL isNT ks
end

mutual
def hasOpen : DTree → Bool
  | openLeaf _ _ => true
  | node _ _ ks => hasOpenL ks
def hasOpenL : List DTree → Bool
  | [] => false
  | k :: ks => hasOpen k || hasOpenL ks
end

mutual
def size : DTree → Nat
  | openLeaf _ _ => 1
  | node _ _ ks => 1 + sizeL ks
def sizeL : List DTree → Nat
  | [] => 0
  | k :: ks => size k + sizeL ks
end

end DTree
end IslaVerif
