/-
Regular expressions as Z3 builds them (`z3.Re`, `z3.Range`, `z3.Union`, `z3.Concat`, `z3.Star`,
`z3.Plus`, `z3.Option`, `z3.Loop`, `z3.Complement`, `z3.Intersect`, `z3.Diff`, `re.allchar`,
`re.all`, `re.none`), their denotation, and an executable matcher (Brzozowski derivatives).
Shared by C15 (interval inference) and C05 (regex membership atoms).
-/
namespace IslaVerif

inductive Re where
  | str (s : List Char)                 -- z3.Re("…") / str.to_re
  | range (lo hi : List Char)           -- z3.Range(lo, hi): single characters, else the empty language
  | allchar                             -- re.allchar
  | all                                 -- re.all
  | none                                -- re.none
  | union (rs : List Re)
  | concat (rs : List Re)
  | star (r : Re)
  | plus (r : Re)
  | opt (r : Re)
  | loop (r : Re) (lo hi : Nat)         -- (_ re.loop lo hi)
  | comp (r : Re)
  | inter (rs : List Re)
  | diff (a b : Re)
  deriving Repr, Inhabited

namespace Re

mutual
def beq : Re → Re → Bool
  | str a, str b => a == b
  | range a b, range c d => a == c && b == d
  | allchar, allchar => true
  | all, all => true
  | none, none => true
  | union as, union bs => beqL as bs
  | concat as, concat bs => beqL as bs
  | star a, star b => beq a b
  | plus a, plus b => beq a b
  | opt a, opt b => beq a b
  | loop a l h, loop b l' h' => beq a b && l == l' && h == h'
  | comp a, comp b => beq a b
  | inter as, inter bs => beqL as bs
  | diff a b, diff c d => beq a c && beq b d
  | _, _ => false
def beqL : List Re → List Re → Bool
  | [], [] => true
  | a :: as, b :: bs => beq a b && beqL as bs
  | _, _ => false
end

mutual
/-- the empty word is in the language -/
def nullable : Re → Bool
  | str s => s.isEmpty
  | range _ _ => false
  | allchar => false
  | all => true
  | none => false
  | union rs => nullableAny rs
  | concat rs => nullableAll rs
  | star _ => true
  | plus r => nullable r
  | opt _ => true
  | loop r lo hi => if hi < lo then false else lo == 0 || nullable r
  | comp r => !nullable r
  | inter rs => nullableAll rs
  | diff a b => nullable a && !nullable b
def nullableAny : List Re → Bool
  | [] => false
  | r :: rs => nullable r || nullableAny rs
def nullableAll : List Re → Bool
  | [] => true
  | r :: rs => nullable r && nullableAll rs
end

def rangeHas (lo hi : List Char) (c : Char) : Bool :=
  match lo, hi with
  | [a], [b] => a.toNat ≤ c.toNat && c.toNat ≤ b.toNat
  | _, _ => false

mutual
/-- Brzozowski derivative w.r.t. one character -/
def deriv (c : Char) : Re → Re
  | str [] => none
  | str (a :: s) => if a == c then str s else none
  | range lo hi => if rangeHas lo hi c then str [] else none
  | allchar => str []
  | all => all
  | none => none
  | union rs => union (derivL c rs)
  | concat rs => derivConcat c rs
  | star r => concat [deriv c r, star r]
  | plus r => concat [deriv c r, star r]
  | opt r => deriv c r
  | loop r lo hi =>
    if hi < lo || hi == 0 then none
    else concat [deriv c r, loop r (lo - 1) (hi - 1)]
  | comp r => comp (deriv c r)
  | inter rs => inter (derivL c rs)
  | diff a b => diff (deriv c a) (deriv c b)
def derivL (c : Char) : List Re → List Re
  | [] => []
  | r :: rs => deriv c r :: derivL c rs
/-- derivative of a concatenation r₁ r₂ … : (∂r₁) r₂ … ∪ (if r₁ nullable) ∂(r₂ …) -/
def derivConcat (c : Char) : List Re → Re
  | [] => none
  | r :: rs =>
    if nullable r then union [concat (deriv c r :: rs), derivConcat c rs]
    else concat (deriv c r :: rs)
end

/-- executable matcher -/
def matchB : Re → List Char → Bool
  | r, [] => nullable r
  | r, c :: cs => matchB (deriv c r) cs

end Re
end IslaVerif
