/-
S-expressions: the wire format between the Python harness and the model driver.
One request per line, one answer per line. Strings travel as `(s cp cp …)`
(lists of code points), so no escaping layer exists that could be got wrong.
This file is driver plumbing (not part of any theorem).
-/
namespace IslaVerif

inductive Sexp where
  | atom (s : String)
  | num (n : Int)
  | list (xs : List Sexp)
  deriving Repr, Inhabited, BEq

namespace Sexp

partial def toStr : Sexp → String
  | atom s => s
  | num n => toString n
  | list xs => "(" ++ " ".intercalate (xs.map toStr) ++ ")"

instance : ToString Sexp := ⟨toStr⟩

def isDelim (c : Char) : Bool := c == ' ' || c == '(' || c == ')' || c == '\n' || c == '\t' || c == '\r'

def mkAtom (cs : List Char) : Sexp :=
  let s := String.ofList cs
  match s.toInt? with
  | some n => num n
  | none => atom s

/-- parse one S-expression from a character list; returns the rest -/
partial def parseOne : List Char → Option (Sexp × List Char)
  | [] => none
  | c :: cs =>
    if c == ' ' || c == '\n' || c == '\t' || c == '\r' then parseOne cs
    else if c == '(' then parseList cs []
    else if c == ')' then none
    else
      let tok := (c :: cs).takeWhile (fun c => !isDelim c)
      let rest := (c :: cs).dropWhile (fun c => !isDelim c)
      some (mkAtom tok, rest)
where
  parseList : List Char → List Sexp → Option (Sexp × List Char)
    | [], _ => none
    | c :: cs, acc =>
      if c == ' ' || c == '\n' || c == '\t' || c == '\r' then parseList cs acc
      else if c == ')' then some (list acc.reverse, cs)
      else match parseOne (c :: cs) with
        | none => none
        | some (x, rest) => parseList rest (x :: acc)

def parse (s : String) : Option Sexp :=
  match parseOne s.toList with
  | some (x, _) => some x
  | none => none

/-! decoding helpers -/
def asNat? : Sexp → Option Nat
  | num n => if n ≥ 0 then some n.toNat else none
  | _ => none
def asInt? : Sexp → Option Int
  | num n => some n
  | _ => none
def asList? : Sexp → Option (List Sexp)
  | list xs => some xs
  | _ => none
def asNats? : Sexp → Option (List Nat)
  | list xs => xs.mapM asNat?
  | _ => none
/-- `(s cp cp …)` → String -/
def asStr? : Sexp → Option String
  | list (atom "s" :: cps) => do
      let ns ← cps.mapM asNat?
      pure (String.ofList (ns.map Char.ofNat))
  | _ => none
def asAtom? : Sexp → Option String
  | atom s => some s
  | _ => none
def asBool? : Sexp → Option Bool
  | atom "true" => some true
  | atom "false" => some false
  | _ => none

def ofStr (s : String) : Sexp := list (atom "s" :: s.toList.map (fun c => num c.toNat))
def ofBool (b : Bool) : Sexp := atom (if b then "true" else "false")
def ofNat (n : Nat) : Sexp := num n
def ofNats (ns : List Nat) : Sexp := list (ns.map ofNat)
def ofOption (f : α → Sexp) : Option α → Sexp
  | none => atom "none"
  | some a => list [atom "some", f a]

end Sexp
end IslaVerif
