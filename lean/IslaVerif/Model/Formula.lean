/-
C09: formula AST and the rewrites of `isla.language`:
`Formula.__and__`, `__or__`, `__neg__` (language.py:773-849), `convert_to_nnf` (2335-2494),
`convert_to_dnf` (2497-2546), `split_conjunction` / `split_disjunction` (2632-2645).

Atoms are opaque:
* `atom a`     — a structural / semantic predicate formula (negation = `NegatedFormula(atom)`),
* `smt s pos`  — an SMT formula `s` (`pos = true`) or the result of `z3_push_in_negations(s, negate=True)`
                 (`pos = false`); `tt`/`ff` are the SMT literals `true`/`false`,
* `all q f`/`ex q f` — tree quantifiers; `q` stands for (bound variable, in-variable, match expression),
* `allInt v f`/`exInt v f` — numeric quantifiers.
-/
namespace IslaVerif

inductive F where
  | atom (a : Nat)
  | smt (s : Nat) (pos : Bool)
  | tt | ff
  | neg (f : F)
  | conj (fs : List F)
  | disj (fs : List F)
  | all (q : Nat) (f : F)
  | ex (q : Nat) (f : F)
  | allInt (v : Nat) (f : F)
  | exInt (v : Nat) (f : F)
  deriving Repr, Inhabited

namespace F

mutual
/-- structural equality -/
def beq : F → F → Bool
  | atom a, atom b => a == b
  | smt s p, smt s' p' => s == s' && p == p'
  | tt, tt => true
  | ff, ff => true
  | neg f, neg g => beq f g
  | conj fs, conj gs => beqL fs gs
  | disj fs, disj gs => beqL fs gs
  | all q f, all q' g => q == q' && beq f g
  | ex q f, ex q' g => q == q' && beq f g
  | allInt v f, allInt v' g => v == v' && beq f g
  | exInt v f, exInt v' g => v == v' && beq f g
  | _, _ => false
def beqL : List F → List F → Bool
  | [], [] => true
  | f :: fs, g :: gs => beq f g && beqL fs gs
  | _, _ => false
end

mutual
/-- `split_conjunction`: flatten nested conjunctions (only `type(formula) is ConjunctiveFormula`) -/
def splitConj : F → List F
  | conj fs => splitConjL fs
  | f => [f]
def splitConjL : List F → List F
  | [] => []
  | f :: fs => splitConj f ++ splitConjL fs
end

mutual
def splitDisj : F → List F
  | disj fs => splitDisjL fs
  | f => [f]
def splitDisjL : List F → List F
  | [] => []
  | f :: fs => splitDisj f ++ splitDisjL fs
end

mutual
/-- normal form under which Python's `==` on formulas is structural equality:
nested conjunctions inside conjunctions (disjunctions inside disjunctions) are flattened,
everywhere.  `ConjunctiveFormula.__eq__` compares `split_conjunction(self) == split_conjunction(other)`. -/
def flat : F → F
  | neg f => neg (flat f)
  | conj fs => conj (flatConjL fs)
  | disj fs => disj (flatDisjL fs)
  | all q f => all q (flat f)
  | ex q f => ex q (flat f)
  | allInt v f => allInt v (flat f)
  | exInt v f => exInt v (flat f)
  | f => f
/-- flattened arguments of a conjunction -/
def flatConjL : List F → List F
  | [] => []
  | f :: fs => (match flat f with | conj gs => gs | g => [g]) ++ flatConjL fs
def flatDisjL : List F → List F
  | [] => []
  | f :: fs => (match flat f with | disj gs => gs | g => [g]) ++ flatDisjL fs
end

/-- Python's `==` between formulas -/
def feq (a b : F) : Bool := beq (flat a) (flat b)

def isNegOf (a b : F) : Bool :=
  match a with
  | neg x => feq x b
  | _ => false

/-- `Formula.__and__` -/
def andF (a b : F) : F :=
  if feq a b then a
  else match a, b with
    | ff, _ => ff
    | _, ff => ff
    | tt, _ => b
    | _, tt => a
    | _, _ => if isNegOf a b then ff else if isNegOf b a then ff else conj [a, b]

/-- `Formula.__or__` -/
def orF (a b : F) : F :=
  if feq a b then a
  else match a, b with
    | tt, _ => tt
    | _, tt => tt
    | ff, _ => b
    | _, ff => a
    | _, _ => if isNegOf a b then tt else if isNegOf b a then tt else disj [a, b]

/-- `functools.reduce(f, xs)` without initial value; `none` = TypeError on the empty list -/
def reduce1 (f : F → F → F) : List F → Option F
  | [] => none
  | x :: xs => some (xs.foldl f x)

/-- results of rewrites that may raise -/
inductive Res where
  | ok (f : F)
  | assertion          -- AssertionError ("Convert to NNF before converting to DNF")
  | typeError          -- reduce() of an empty sequence (cannot happen for Python-constructible formulas)
  deriving Repr, Inhabited

mutual
/-- `Formula.__neg__` / `SMTFormula.__neg__`; `none` = reduce() of empty sequence -/
def negF : F → Option F
  | smt s p => some (smt s (!p))
  | tt => some ff
  | ff => some tt
  | neg f => some f
  | conj fs => (negL fs).bind (reduce1 orF)
  | disj fs => (negL fs).bind (reduce1 andF)
  | all q f => (negF f).map (ex q)
  | ex q f => (negF f).map (all q)
  | allInt v f => (negF f).map (exInt v)
  | exInt v f => (negF f).map (allInt v)
  | atom a => some (neg (atom a))
def negL : List F → Option (List F)
  | [] => some []
  | f :: fs => match negF f, negL fs with
    | some g, some gs => some (g :: gs)
    | _, _ => none
end

mutual
/-- `convert_to_nnf(formula, negate)` -/
def nnf : F → Bool → Option F
  | neg f, b => nnf f (!b)
  | conj fs, b => (nnfL fs b).bind (reduce1 (if b then orF else andF))
  | disj fs, b => (nnfL fs b).bind (reduce1 (if b then andF else orF))
  | atom a, b => some (if b then neg (atom a) else atom a)
  | smt s p, b => some (smt s (if b then !p else p))
  | tt, b => some (if b then ff else tt)
  | ff, b => some (if b then tt else ff)
  | all q f, b => if b then (nnf f true).map (ex q) else (nnf f false).map (all q)
  | ex q f, b => if b then (nnf f true).map (all q) else (nnf f false).map (ex q)
  | allInt v f, b => if b then (nnf f true).map (exInt v) else (nnf f false).map (allInt v)
  | exInt v f, b => if b then (nnf f true).map (allInt v) else (nnf f false).map (exInt v)
def nnfL : List F → Bool → Option (List F)
  | [], _ => some []
  | f :: fs, b => match nnf f b, nnfL fs b with
    | some g, some gs => some (g :: gs)
    | _, _ => none
end

/-- `itertools.product(*lists)`: leftmost varies slowest -/
def product : List (List F) → List (List F)
  | [] => [[]]
  | l :: ls => l.flatMap fun x => (product ls).map fun rest => x :: rest

/-- `FrozenOrderedSet(xs)`: drop later duplicates (w.r.t. `==`) -/
def dedup : List F → List F
  | [] => []
  | x :: xs => x :: (dedup xs).filter (fun y => !feq x y)

def isCombinator : F → Bool
  | neg _ => true
  | conj _ => true
  | disj _ => true
  | _ => false

/-- one cube of the distribution: `reduce(&, FrozenOrderedSet(split_conjunction(reduce(&, combination))), true())` -/
def cube (combination : List F) : Option F :=
  (reduce1 andF combination).map fun c => (dedup (splitConj c)).foldl andF tt

def mapM' (f : List F → Option F) : List (List F) → Option (List F)
  | [] => some []
  | x :: xs => match f x, mapM' f xs with
    | some y, some ys => some (y :: ys)
    | _, _ => none

mutual
/-- `convert_to_dnf(formula, deep)`; recursive calls use the default `deep=True` exactly
where the Python code does -/
def dnf : F → Bool → Res
  | neg f, _ => if isCombinator f then .assertion else .ok (neg f)
  | conj fs, _ =>
    match dnfL fs with
    | .inl e => e
    | .inr ds =>
      let lists := ds.map splitDisj
      if lists.all (fun l => l.length == 1) then .ok (conj fs)
      else match mapM' cube (product lists) with
        | none => .typeError
        | some cubes => .ok (cubes.foldl orF ff)
  | disj fs, _ =>
    match dnfL fs with
    | .inl e => e
    | .inr ds => .ok (ds.foldl orF ff)
  | all q f, deep =>
    if deep then
      match dnf f true with
      | .ok g => .ok (all q g)
      | e => e
    else .ok (all q f)
  | ex q f, deep =>
    if deep then
      match dnf f true with
      | .ok g => .ok (ex q g)
      | e => e
    else .ok (ex q f)
  | f, _ => .ok f
/-- `[convert_to_dnf(arg) for arg in args]` (first failure wins) -/
def dnfL : List F → Sum Res (List F)
  | [] => .inr []
  | f :: fs =>
    match dnf f true with
    | .ok g => match dnfL fs with
      | .inr gs => .inr (g :: gs)
      | .inl e => .inl e
    | e => .inl e
end

end F
end IslaVerif
