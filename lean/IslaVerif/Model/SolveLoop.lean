/-
The exit logic of `ISLaSolver.solve()` (solver.py:615-714) as a state machine (C02).

Everything the loop does between two exits is abstracted into the *events* of its iterations: the
clock reading at the timeout test, and — if the iteration gets as far as popping a state — how many
states were pushed back and which solutions were appended (`process_new_states`).  What is modelled
literally is the order of the tests: `while self.queue` — timeout test — `if self.solutions` (return
the oldest) — pop/process; after the loop: drain `solutions`, else StopIteration; `start_time` is
taken once, at the first call, when a timeout is configured.
-/
namespace IslaVerif.SolveLoop

structure St where
  qlen : Nat                 -- len(self.queue)
  sols : List Nat            -- self.solutions (ids)
  start : Option Int         -- self.start_time
  deriving Repr, DecidableEq, Inhabited

/-- one loop iteration as observed: clock at the timeout test; states pushed and solutions found
by the processing step (used only if the iteration gets that far) -/
structure Evt where
  now : Int
  qafter : Nat              -- len(self.queue) after the processing step
  found : List Nat
  deriving Repr, Inhabited

inductive Outcome where
  | tree (id : Nat)
  | stop
  | timeout
  | outOfEvents          -- the recorded trace ended (never an outcome of the real code)
  deriving Repr, DecidableEq, Inhabited

/-- the loop; consumes one event per iteration -/
def loop (timeout : Option Int) : St → List Evt → Outcome × St × List Evt
  | s, evts =>
    if s.qlen = 0 then
      match s.sols with
      | x :: rest => (.tree x, { s with sols := rest }, evts)
      | [] => (.stop, s, evts)
    else
      match evts with
      | [] => (.outOfEvents, s, [])
      | e :: rest =>
        if (match timeout, s.start with
            | some T, some t0 => decide (e.now - t0 > T)
            | _, _ => false) then (.timeout, s, rest)
        else
          match s.sols with
          | x :: more => (.tree x, { s with sols := more }, rest)
          | [] => loop timeout { s with qlen := e.qafter, sols := e.found } rest
termination_by _ evts => evts.length

/-- one call of `solve()`: `callNow` is the clock reading used to initialise `start_time` -/
def solveCall (timeout : Option Int) (callNow : Int) (s : St) (evts : List Evt) : Outcome × St × List Evt :=
  let s' := if timeout.isSome && s.start.isNone then { s with start := some callNow } else s
  loop timeout s' evts

/-- a sequence of `solve()` calls over one stream of loop events -/
def run (timeout : Option Int) : St → List Int → List Evt → List Outcome
  | _, [], _ => []
  | s, c :: cs, evts =>
    match solveCall timeout c s evts with
    | (o, s', evts') => o :: run timeout s' cs evts'

def treesOf : List Outcome → List Nat
  | [] => []
  | .tree x :: os => x :: treesOf os
  | _ :: os => treesOf os

end IslaVerif.SolveLoop
