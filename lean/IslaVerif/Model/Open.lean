import IslaVerif.Model.Sem
import IslaVerif.Model.Targets
/-
C06 — a sound three-valued evaluator for OPEN trees (`evalOpen`), the reference against which the
definite verdicts of the real `evaluate()` on partial trees are judged, and the relation
`Completes` between a partial tree and its closed completions.

`evalOpen` answers TRUE / FALSE only when every closed completion (same node identities, valid for
the grammar) gets that verdict from the reference evaluator (theorem `evalOpen_stable`):
* SMT atoms: only if every tree they mention is closed;
* the path-only structural predicates (before, after, inside, same_position, different_position,
  direct_child) are functions of the two paths, which completions do not change; `nth`,
  `consecutive`, `level`, `count` and match-expression quantifiers are decided only on closed trees;
* `forall` over the existing nodes of the `in` tree is FALSE if one instance is, TRUE only if all
  are and no open leaf below the `in` tree can still derive a node of the quantified type
  (certified grammar reachability); dually for `exists`.
-/
namespace IslaVerif.Sem
open IslaVerif

/-- the variable is bound to a path whose subtree is closed -/
def closedAt (w : World) (β : Env) (v : String) : Bool :=
  match β.get v with
  | some (.path p) => match w.root.get p with
    | some t => t.closed
    | none => false
  | some (.num _) => true
  | none => false

mutual
def termVars : TermV → List String
  | .var n => [n]
  | .str _ => []
  | .int _ => []
  | .bool _ => []
  | .inre s _ => termVars s
  | .app _ args => termVarsL args
def termVarsL : List TermV → List String
  | [] => []
  | t :: ts => termVars t ++ termVarsL ts
end

def pathOnly (name : String) : Bool :=
  name == "before" || name == "after" || name == "inside" || name == "same_position" ||
  name == "different_position" || name == "direct_child"

/-- can a node labelled `ty` still appear strictly below an open leaf of the subtree at `p`?
`none` = reachability not certified -/
def mightGrow (w : World) (p : Path) (ty : String) : Option Bool :=
  match w.root.get p with
  | none => some false
  | some sub =>
    match (sub.openLeaves.map fun pu => pu.2.sym).mapM (fun s => Targets.reaches w.g s ty) with
    | none => none
    | some rs => some (rs.any id)

mutual
def evalOpen (w : World) : Env → Fm → TV
  | β, .smt t => if (termVars t).all (closedAt w β) then evalSmt w β t else none
  | β, .pred name args => if pathOnly name || w.root.closed then evalPred w β name args else none
  | β, .count tv needle num => if w.root.closed then evalCount w β tv needle num else none
  | β, .neg f => tvNot (evalOpen w β f)
  | β, .conj fs => evalOpenAll w β fs
  | β, .disj fs => evalOpenAny w β fs
  | β, .all v ty inVar none f =>
    match β.get inVar, domain w β ty inVar with
    | some (.path p), some ps =>
      let inst := (ps.map fun q => (v, Bind.path q) :: β).foldr (fun β' acc => tvAnd (evalOpen w β' f) acc) (some true)
      match Grammar.isNT w.g ty, mightGrow w p ty with
      | true, some false => inst
      | _, _ => tvAnd inst none
    | _, _ => none
  | β, .ex v ty inVar none f =>
    match β.get inVar, domain w β ty inVar with
    | some (.path p), some ps =>
      let inst := (ps.map fun q => (v, Bind.path q) :: β).foldr (fun β' acc => tvOr (evalOpen w β' f) acc) (some false)
      match Grammar.isNT w.g ty, mightGrow w p ty with
      | true, some false => inst
      | _, _ => tvOr inst none
    | _, _ => none
  | β, .all v ty inVar (some ms) f => if w.root.closed then evalRef w β (.all v ty inVar (some ms) f) else none
  | β, .ex v ty inVar (some ms) f => if w.root.closed then evalRef w β (.ex v ty inVar (some ms) f) else none
  | β, .allInt v f =>
    match ((List.range w.intBound).map fun n => (v, Bind.num n) :: β).foldr (fun β' acc => tvAnd (evalOpen w β' f) acc) (some true) with
    | some false => some false
    | _ => none
  | β, .exInt v f =>
    match ((List.range w.intBound).map fun n => (v, Bind.num n) :: β).foldr (fun β' acc => tvOr (evalOpen w β' f) acc) (some false) with
    | some true => some true
    | _ => none
def evalOpenAll (w : World) : Env → List Fm → TV
  | _, [] => some true
  | β, f :: fs => tvAnd (evalOpen w β f) (evalOpenAll w β fs)
def evalOpenAny (w : World) : Env → List Fm → TV
  | _, [] => some false
  | β, f :: fs => tvOr (evalOpen w β f) (evalOpenAny w β fs)
end

/-- `t'` is a closed completion of `t`: valid for the grammar, closed, and `t` is an
identity-preserving prefix of it (every node of `t` is in `t'` at the same path with the same
identity and label; expanded nodes keep their children lists' lengths) -/
def completes (g : Grammar) (t t' : DTree) : Bool :=
  DTree.idPrefixOf t t' && t'.closed && t'.valid g

end IslaVerif.Sem
