/-
C20: string-level models of the bundled semantic predicates on *closed* argument trees
(`isla_predicates.py`: count 232-437, crop 500-527, just 530-580, octal_to_dec 652-757).
-/
namespace IslaVerif.SemPreds

inductive PredRes where
  | verdict (b : Bool)
  | replace (s : List Char)      -- proposed replacement for the argument tree (its string)
  deriving Repr, DecidableEq

/-- `count` on a closed tree with a concrete number: `num_needle_occurrences` vs `int(num)` -/
def countVerdict (occ : Nat) (target : Int) : Bool :=
  if target < 0 || (occ : Int) > target then false
  else (occ : Int) == target

/-- `count` with a variable as number: the proposed value (a decimal numeral) -/
def countAssign (occ : Nat) : Nat := occ

/-! numerals as digit lists, most significant digit first -/

/-- value of a digit list in base `b` (what `int(s, b)` computes) -/
def valDigits (b : Nat) (ds : List Nat) : Nat := ds.foldl (fun acc d => acc * b + d) 0

/-- the explicit loop of `octal_to_dec_concrete_octal`:
`for idx, digit in enumerate(reversed(s)): n += 8**idx * int(digit)` -/
def octLoop : List Nat → Nat → Nat
  | [], _ => 0
  | d :: rest, idx => 8 ^ idx * d + octLoop rest (idx + 1)
def octSum (ds : List Nat) : Nat := octLoop ds.reverse 0

/-- digits of `n` in base `b` (`oct(n)[2:]`, `str(n)`), with fuel `n + 1` -/
def toDigitsAux (b : Nat) : Nat → Nat → List Nat → List Nat
  | 0, _, acc => acc
  | fuel + 1, n, acc =>
    if n < b then n :: acc else toDigitsAux b fuel (n / b) (n % b :: acc)
def toDigits (b n : Nat) : List Nat := toDigitsAux b (n + 1) n []

/-- both arguments concrete (after fix cf64850): `int(str(octal), 8) == int(str(decimal))` -/
def octalBoth (o d : List Nat) : Bool := valDigits 8 o == valDigits 10 d
/-- concrete octal, decimal requested: `str(decimal_number)` -/
def octalToDec (o : List Nat) : List Nat := toDigits 10 (octSum o)
/-- concrete decimal, octal requested: `oct(int(decimal))[2:]` -/
def decToOctal (d : List Nat) : List Nat := toDigits 8 (valDigits 10 d)

/-- `crop(tree, width)` -/
def cropM (s : List Char) (w : Nat) : PredRes :=
  if s.length ≤ w then .verdict true else .replace (s.take w)

/-- `just(ljust, crop, tree, width, fill_char)` (after fix 8807972) -/
def justM (ljust crop : Bool) (s : List Char) (w : Nat) (fill : Char) : PredRes :=
  if s.length == w then .verdict true
  else
    let pad := List.replicate (w - s.length) fill
    let out := if ljust then s ++ pad else pad ++ s
    if !crop && out.length != w then .verdict false
    else
      let out := if crop then (if ljust then out.take w else out.drop (out.length - w)) else out
      .replace out

end IslaVerif.SemPreds
