import IslaVerif.Model.Tree
/-
C04: the nine standard structural predicates, transcribed from
`src/isla/isla_predicates.py` (is_before … level_check, is_direct_child).
Paths are `List Nat`.  Each function mirrors the Python control flow.
-/
namespace IslaVerif.Preds
open IslaVerif

/-- `is_before` (isla_predicates.py:52-69) -/
def isBefore : Path → Path → Bool
  | [], _ => false
  | _ :: _, [] => false
  | a :: p, b :: q => if a < b then true else if b < a then false else isBefore p q

/-- `is_after` (after the fix: the mirror image of `is_before`) -/
def isAfter (p q : Path) : Bool := isBefore q p

/-- `is_same_position` -/
def isSamePosition (p q : Path) : Bool := p == q
/-- `is_different_position` -/
def isDifferentPosition (p q : Path) : Bool := !isSamePosition p q

/-- `in_tree`: `path_1[:len(path_2)] == path_2` -/
def inTree (p q : Path) : Bool := p.take q.length == q

/-- `is_direct_child` -/
def isDirectChild (p q : Path) : Bool :=
  if p.length != q.length + 1 then false else p.take q.length == q

/-- result of a predicate that may hit one of the function's own `assert`s -/
inductive PRes where
  | val (b : Bool)
  | assertion      -- AssertionError
  | badPath        -- the path does not exist in the tree (Python: TypeError/IndexError/AttributeError)
  deriving Repr, BEq, DecidableEq

/-- the loop of `is_nth` over `tree.get_subtree(path_2).paths()`:
`rel` is the path of `path_1` relative to `path_2` -/
def nthLoop (nt : String) (n : Nat) (rel : Path) : List (Path × DTree) → Nat → Bool
  | [], _ => false
  | (path, sub) :: rest, idx =>
    let idx' := if sub.sym == nt then idx + 1 else idx
    if path == rel then idx' == n
    else if idx' ≥ n then false
    else nthLoop nt n rel rest idx'

/-- `is_nth` (isla_predicates.py:97-120); `isNT` mirrors `is_nonterminal` -/
def isNth (isNT : String → Bool) (t : DTree) (n : Nat) (p q : Path) : PRes :=
  if !inTree p q then .val false
  else match t.get p, t.get q with
    | some u, some v =>
      if !isNT u.sym then .assertion
      else .val (nthLoop u.sym n (p.drop q.length) v.paths 0)
    | _, _ => .badPath

/-- longest common prefix of two paths (the `max(..., key=len)` in `consecutive`;
note `range(max(len p, len q))` never includes the full longer path, and when both
paths are equal the function has returned before) -/
def lcp : Path → Path → Path
  | a :: p, b :: q => if a == b then a :: lcp p q else []
  | _, _ => []

/-- `consecutive` (after the fix: leaf paths made absolute) -/
def consecutive (t : DTree) (p q : Path) : PRes :=
  if p == q || !isBefore p q then .val false
  else
    let r := lcp p q
    match t.get r with
    | none => .badPath
    | some sub =>
      .val (!(sub.leaves.any fun pl =>
        let path := r ++ pl.1
        path != p && path != q && isBefore p path && isBefore path q))

inductive LevelOp where
  | EQ | GE | LE | GT | LT
  deriving Repr, BEq, DecidableEq

/-- label of the node at `path`, `none` if the path is not in the tree -/
def labelAt (t : DTree) (path : Path) : Option String := (t.get path).map DTree.sym

/-- `[path[:idx] for idx in range(len(prefix)+1, len(path)) if label(path[:idx]) == nt]`,
as the list of the indices -/
def occs (t : DTree) (nt : String) (prefixLen : Nat) (path : Path) : List Nat :=
  ((List.range path.length).filter fun idx => prefixLen + 1 ≤ idx).filter fun idx =>
    labelAt t (path.take idx) == some nt

/-- common `nt`-labelled prefixes (as lengths), including the empty prefix (length 0);
mirrors the `for idx in range(min(len p, len q))` loop with its `break` -/
def commonNtPrefixes (t : DTree) (nt : String) (p q : Path) : List Nat :=
  0 :: go 0 p q
where
  go (idx : Nat) : Path → Path → List Nat
    | a :: p', b :: q' =>
      if a != b then []
      else
        let rest := go (idx + 1) p' q'
        if labelAt t (p.take (idx + 1)) == some nt then (idx + 1) :: rest else rest
    | _, _ => []

def levelCond (op : LevelOp) (o1 o2 : List Nat) : Bool :=
  match op with
  | .EQ => o1.isEmpty && o2.isEmpty
  | .GE => o1.isEmpty
  | .LE => o2.isEmpty
  | .GT => o1.isEmpty && !o2.isEmpty
  | .LT => o2.isEmpty && !o1.isEmpty

/-- `level_check` (isla_predicates.py:166-223), for valid paths -/
def levelCheck (t : DTree) (op : LevelOp) (nt : String) (p q : Path) : Bool :=
  (commonNtPrefixes t nt p q).any fun len =>
    levelCond op (occs t nt len p) (occs t nt len q)

end IslaVerif.Preds
