import IslaVerif.Model.Regex
/-
C15: `numeric_intervals_from_regex` (z3_helpers.py:986-1395, after fix 0066a72),
`compress_concatenation_elements` (1398-1570), `merge_intervals` (helpers.py:908-965),
`z3_split_at_operator`.
-/
namespace IslaVerif.Intervals
open IslaVerif Re

abbrev Iv := Int × Int

/-- `sys.maxsize`: the sentinel for an open bound -/
def maxsize : Int := 9223372036854775807

def isDigit (c : Char) : Bool := '0'.toNat ≤ c.toNat && c.toNat ≤ '9'.toNat

def digitsVal (cs : List Char) : Nat := cs.foldl (fun acc c => acc * 10 + (c.toNat - '0'.toNat)) 0

/-- `int(s)` for the strings the recognized shape produces: optional sign, then one or more digits
(Python's additional leniency — whitespace, underscores — is outside the modelled shape) -/
def pyInt (s : List Char) : Option Int :=
  match s with
  | '-' :: ds => if !ds.isEmpty && ds.all isDigit then some (-(digitsVal ds : Int)) else none
  | '+' :: ds => if !ds.isEmpty && ds.all isDigit then some (digitsVal ds : Int) else none
  | ds => if !ds.isEmpty && ds.all isDigit then some (digitsVal ds : Int) else none

/-! ### merge_intervals -/

/-- insertion into a list sorted by lower bound (stable: after equal keys), i.e. `sorted(key=lo)` -/
def insertSorted (x : Iv) : List Iv → List Iv
  | [] => [x]
  | y :: ys => if x.1 < y.1 then x :: y :: ys else y :: insertSorted x ys

def sortByLo (l : List Iv) : List Iv := l.foldl (fun acc x => insertSorted x acc) []

/-- the `reduce` of `merge_intervals`: `acc` is kept reversed (last interval first) -/
def mergeStep (accRev : List Iv) (iv : Iv) : List Iv :=
  match accRev with
  | [] => [iv]
  | last :: rest =>
    if last.2 + 1 < iv.1 then iv :: last :: rest
    else (last.1, max last.2 iv.2) :: rest

def mergeSorted (l : List Iv) : List Iv := (l.foldl mergeStep []).reverse

/-- `merge_intervals(*maybe_lists)`: `none` if any list is missing (or there is no list at all:
`reduce` of an empty sequence raises — cannot happen for Z3 unions) -/
def mergeIntervals (ls : List (Option (List Iv))) : Option (List Iv) :=
  if ls.isEmpty then none
  else (ls.mapM id).map fun lists => mergeSorted (sortByLo lists.flatten)

/-! ### concatenation helpers -/

mutual
/-- `z3_split_at_operator(expr, Z3_OP_RE_CONCAT)` -/
def splitConcat : Re → List Re
  | concat rs => splitConcatL rs
  | r => [r]
def splitConcatL : List Re → List Re
  | [] => []
  | r :: rs => splitConcat r ++ splitConcatL rs
end

mutual
/-- replace every `Range(c, c)` inside the expression by `Re(c)` -/
def replaceRangeCC : Re → Re
  | range lo hi => if lo == hi then str lo else range lo hi
  | union rs => union (replaceRangeCCL rs)
  | concat rs => concat (replaceRangeCCL rs)
  | star r => star (replaceRangeCC r)
  | plus r => plus (replaceRangeCC r)
  | opt r => opt (replaceRangeCC r)
  | loop r lo hi => loop (replaceRangeCC r) lo hi
  | comp r => comp (replaceRangeCC r)
  | inter rs => inter (replaceRangeCCL rs)
  | diff a b => diff (replaceRangeCC a) (replaceRangeCC b)
  | r => r
def replaceRangeCCL : List Re → List Re
  | [] => []
  | r :: rs => replaceRangeCC r :: replaceRangeCCL rs
end

def isStar : Re → Bool
  | star _ => true
  | _ => false
def isPlus : Re → Bool
  | plus _ => true
  | _ => false

/-- `key_group_by_star_plus_child` -/
def groupKey : Re → Re
  | star r => r
  | plus r => r
  | r => r

/-- `itertools.groupby(elements, key)`: maximal runs of consecutive elements with equal key -/
def groupRuns : List Re → List (List Re)
  | [] => []
  | r :: rs =>
    match groupRuns rs with
    | [] => [[r]]
    | (g :: gs') =>
      match g with
      | [] => [r] :: gs'
      | x :: _ => if Re.beq (groupKey r) (groupKey x) then (r :: g) :: gs' else [r] :: g :: gs'

def dropLastMap (f : Re → Re) : List Re → List Re
  | [] => []
  | [x] => [x]
  | x :: xs => f x :: dropLastMap f xs

def mapLast (f : Re → Re) : List Re → List Re
  | [] => []
  | [x] => [f x]
  | x :: xs => x :: mapLast f xs

def unPlus : Re → Re
  | plus r => r
  | r => r

/-- one group of `compress_concatenation_elements` -/
def compressGroup (g : List Re) : List Re :=
  match g with
  | [] => []
  | [x] => [x]
  | x :: _ =>
    if g.all isStar then [x]
    else if g.any isPlus then
      let cleaned := g.filter (fun e => !isStar e)
      -- stable sort by "is a plus": non-plus elements first
      let sorted := cleaned.filter (fun e => !isPlus e) ++ cleaned.filter isPlus
      dropLastMap unPlus sorted
    else if g.any isStar then
      let cleaned := g.filter (fun e => !isStar e)
      mapLast plus cleaned
    else g

/-- `compress_concatenation_elements` -/
def compress (rs : List Re) : List Re := (groupRuns rs).flatMap compressGroup

/-- `z3.Concat(*xs)`: a single argument is returned as is -/
def mkConcat : List Re → Re
  | [x] => x
  | xs => concat xs

def digitRange09 : Re := range ['0'] ['9']

/-! ### the interval inference, with fuel for the recursion on rebuilt expressions -/

def negateIvs (l : List Iv) : List Iv := l.reverse.map fun iv => (-iv.2, -iv.1)

def intervals : Nat → Re → Option (List Iv)
  | 0, _ => none
  | fuel + 1, r =>
    match r with
    | range lo hi =>
      -- numeric_intervals_from_regex_range
      if (match lo, hi with | a :: _, b :: _ => isDigit a && isDigit b | _, _ => false) then
        match pyInt lo, pyInt hi with
        | some l, some h => if l ≤ h then some [(l, h)] else none
        | _, _ => none
      else none
    | str s => (pyInt s).map fun n => [(n, n)]
    | union rs => mergeIntervals (rs.map (intervals fuel))
    | star r1 =>
      if (match intervals fuel r1 with | some [(0, 0)] => true | _ => false) then some [(0, 0)]
      else if Re.beq r1 digitRange09 then some [(0, maxsize)]
      else none
    | plus r1 =>
      if (match intervals fuel r1 with | some [(0, 0)] => true | _ => false) then some [(0, 0)]
      else if Re.beq r1 digitRange09 then some [(0, maxsize)]
      else none
    | concat _ =>
      let children := compress ((splitConcat r).map replaceRangeCC)
      match children with
      | [] => none
      | first :: rest =>
        let isUnion := match first with | union _ => true | _ => false
        if isUnion || Re.beq first (opt (str ['-'])) then
          let alts := match first with | union as => as | _ => [str ['+'], str ['-']]
          mergeIntervals (alts.map fun a => intervals fuel (mkConcat (a :: rest)))
        else if Re.beq first (str ['+']) || Re.beq first (opt (str ['+'])) then
          if rest.isEmpty then none else intervals fuel (mkConcat rest)
        else if Re.beq first (str ['-']) then
          if rest.isEmpty then none else (intervals fuel (mkConcat rest)).map negateIvs
        else
          let isZero (c : Re) : Bool := match intervals fuel c with | some [(0, 0)] => true | _ => false
          let stripped := children.dropWhile isZero
          if stripped.length < children.length then
            if stripped.isEmpty then some [(0, 0)] else intervals fuel (mkConcat stripped)
          else
            match children with
            | [c0, c1] =>
              let i0 := intervals fuel c0
              let starD := Re.beq c1 (star digitRange09)
              let plusD := Re.beq c1 (plus digitRange09)
              if (match i0 with | some [(1, 9)] => true | _ => false) && starD then some [(1, maxsize)]
              else if (match i0 with | some [(1, 9)] => true | _ => false) && plusD then some [(10, maxsize)]
              else if (match i0 with | some [(0, 9)] => true | _ => false) && (starD || plusD) then some [(0, maxsize)]
              else none
            | _ => none
    | _ => none

mutual
def size : Re → Nat
  | union rs => 1 + sizeL rs
  | concat rs => 1 + sizeL rs
  | inter rs => 1 + sizeL rs
  | star r => 1 + size r
  | plus r => 1 + size r
  | opt r => 1 + size r
  | loop r _ _ => 1 + size r
  | comp r => 1 + size r
  | diff a b => 1 + size a + size b
  | _ => 1
def sizeL : List Re → Nat
  | [] => 0
  | r :: rs => size r + sizeL rs
end

/-- `numeric_intervals_from_regex` -/
def numericIntervals (r : Re) : Option (List Iv) := intervals (3 * size r + 10) r

/-- membership in a list of intervals, with `±maxsize` as open bounds -/
def inIvs (l : List Iv) (n : Int) : Bool :=
  l.any fun iv => (iv.1 == -maxsize || iv.1 ≤ n) && (iv.2 == maxsize || n ≤ iv.2)

/-- integer value of a string: optional sign, one or more digits (zero padding allowed) -/
def intVal (s : List Char) : Option Int := pyInt s

end IslaVerif.Intervals
