import IslaVerif.Model.Certify
/-
C18 — what `ISLaSolver.check / parse` must answer, as a composition of the verified pieces: the
reference recognizer (C10), the tree checker and the reference evaluator (C03).  The parser itself
is not modelled: the tree it returned for the string is an INPUT of the model, and it is checked.
-/
namespace IslaVerif.Sem
open IslaVerif

inductive ParseOutcome where
  | ok                 -- a tree is returned
  | syntaxError
  | semanticError
  | undecided          -- the reference recognizer / evaluator gave no definite answer
  | unfaithfulTree     -- the tree handed in is not a parse of the string (never expected)
  deriving Repr, DecidableEq, Inhabited

/-- expected outcome of `solver.parse(s)`; `t?` is the tree the real parser produced for `s` (if any) -/
def parseOutcome (g : Grammar) (isNT : String → Bool) (bound : Nat) (f : Fm) (const : String)
    (s : List Char) (t? : Option DTree) : ParseOutcome :=
  match Rec.recognize g "<start>" s with
  | none => .undecided
  | some false => .syntaxError
  | some true =>
    match t? with
    | none => .unfaithfulTree
    | some t =>
      if t.valid g && t.closed && t.sym == "<start>" && t.yieldC g == s then
        match evalRef { g := g, root := t, isNT := isNT, intBound := bound } [(const, Bind.path [])] f with
        | some true => .ok
        | some false => .semanticError
        | none => .undecided
      else .unfaithfulTree

/-- expected answer of `solver.check(s)` on a string -/
def checkStr (g : Grammar) (isNT : String → Bool) (bound : Nat) (f : Fm) (const : String)
    (s : List Char) (t? : Option DTree) : Option Bool :=
  match parseOutcome g isNT bound f const s t? with
  | .ok => some true
  | .syntaxError => some false
  | .semanticError => some false
  | _ => none

end IslaVerif.Sem
