import IslaVerif.Model.Formula
/-
Executable evaluation of formulas under *finite* interpretations (used by the failing-input
search of C09/C08: compare a formula and a rewritten formula under sampled interpretations).
Environments are stacks of chosen domain elements.
-/
namespace IslaVerif.F

structure BInterp where
  atom : Nat → List Nat → Bool
  smt : Nat → List Nat → Bool
  domSize : Nat → List Nat → Nat     -- number of elements of the domain of tree quantifier q
  intBound : Nat                      -- numeric quantifiers range over 0..intBound-1 in this finite view

mutual
def evalB (I : BInterp) : List Nat → F → Bool
  | ρ, atom a => I.atom a ρ
  | ρ, smt s p => if p then I.smt s ρ else !I.smt s ρ
  | _, tt => true
  | _, ff => false
  | ρ, neg f => !evalB I ρ f
  | ρ, conj fs => evalAll I ρ fs
  | ρ, disj fs => evalAny I ρ fs
  | ρ, all q f => (List.range (I.domSize q ρ)).all fun i => evalB I (i :: q :: ρ) f
  | ρ, ex q f => (List.range (I.domSize q ρ)).any fun i => evalB I (i :: q :: ρ) f
  | ρ, allInt v f => (List.range I.intBound).all fun i => evalB I (i :: (v + 1000) :: ρ) f
  | ρ, exInt v f => (List.range I.intBound).any fun i => evalB I (i :: (v + 1000) :: ρ) f
def evalAll (I : BInterp) : List Nat → List F → Bool
  | _, [] => true
  | ρ, f :: fs => evalB I ρ f && evalAll I ρ fs
def evalAny (I : BInterp) : List Nat → List F → Bool
  | _, [] => false
  | ρ, f :: fs => evalB I ρ f || evalAny I ρ fs
end

/-- a pseudo-random finite interpretation derived from a seed -/
def mix (seed : Nat) (xs : List Nat) : Nat :=
  xs.foldl (fun h x => (h * 1103515245 + x * 12345 + 7) % 2147483647) (seed + 17)

def sampleInterp (seed : Nat) : BInterp where
  atom a ρ := mix seed (1 :: a :: ρ) % 2 == 0
  smt s ρ := mix seed (2 :: s :: ρ) % 2 == 0
  domSize q ρ := mix seed (3 :: q :: ρ) % 3     -- 0, 1 or 2 elements: empty domains occur
  intBound := 2

end IslaVerif.F
