import IslaVerif.Model.Tree
import IslaVerif.Generated.Trie
/-
C16: derivation trees *with* the cached openness flag `__is_open` (derivation_tree.py:58-89),
and the public operations that build new trees: constructor, `is_open()` (lazy fill),
`replace_path` (450-484, incl. the three-way flag computation and `retain_id`), `substitute`
(517-546), one expansion step of an open leaf (`expand_one_step`, 609-659), `find_node`,
trie keys (`trie.py`).
-/
namespace IslaVerif

/-- a node with cache: `cache = none` means `__is_open is None` (not yet computed) -/
inductive PTree where
  | openLeaf (id : Nat) (sym : String)                 -- children is None; constructor sets __is_open = True
  | node (id : Nat) (sym : String) (kids : List PTree) (cache : Option Bool)
  deriving Repr, Inhabited

namespace PTree

def id : PTree → Nat
  | openLeaf i _ => i
  | node i _ _ _ => i
def sym : PTree → String
  | openLeaf _ s => s
  | node _ s _ _ => s
def kids : PTree → List PTree
  | openLeaf _ _ => []
  | node _ _ ks _ => ks
/-- the private field `__is_open` -/
def cache : PTree → Option Bool
  | openLeaf _ _ => some true
  | node _ _ _ c => c

mutual
/-- forget the caches -/
def erase : PTree → DTree
  | openLeaf i s => .openLeaf i s
  | node i s ks _ => .node i s (eraseL ks)
def eraseL : List PTree → List DTree
  | [] => []
  | k :: ks => erase k :: eraseL ks
end

/-- `DerivationTree.__init__(value, children, id, is_open)` for `children is not None` -/
def mkNode (i : Nat) (s : String) (ks : List PTree) (isOpenArg : Option Bool) : PTree :=
  if ks.isEmpty then node i s ks (some false)
  else if ks.any (fun k => k.cache == some true) then node i s ks (some true)
  else node i s ks isOpenArg

mutual
/-- `__compute_is_open`: some node below carries a true flag or is an open leaf -/
def computeOpen : PTree → Bool
  | openLeaf _ _ => true
  | node _ _ ks c => c == some true || computeOpenL ks
def computeOpenL : List PTree → Bool
  | [] => false
  | k :: ks => computeOpen k || computeOpenL ks
end

/-- `is_open()`: returns the answer and the tree with the root cache filled -/
def isOpenOp : PTree → Bool × PTree
  | openLeaf i s => (true, openLeaf i s)
  | node i s ks (some b) => (b, node i s ks (some b))
  | node i s ks none =>
    let b := computeOpenL ks      -- root flag is None, so only the descendants decide
    (b, node i s ks (some b))

def get : PTree → Path → Option PTree
  | t, [] => some t
  | t, i :: p => match t.kids[i]? with
    | none => none
    | some k => get k p

/-- the flag of a rebuilt parent in `replace_path` -/
def parentFlag (replacement : PTree) (parentCache : Option Bool) : Option Bool :=
  if replacement.cache == some true then some true        -- (`children is None` implies cache = true)
  else if replacement.cache == some false && parentCache == some false then some false
  else none

/-- `replace_path` without `retain_id` (the replacement is already prepared);
`none` when the path is not in the tree (Python: IndexError / TypeError) -/
def replaceRaw : PTree → Path → PTree → Option PTree
  | _, [], r => some r
  | openLeaf _ _, _ :: _, _ => none
  | node i s ks c, j :: p, r =>
    match ks[j]? with
    | none => none
    | some k =>
      match replaceRaw k p r with
      | none => none
      | some k' => some (mkNode i s (ks.set j k') (parentFlag k' c))

/-- `replace_path(path, replacement_tree, retain_id)` -/
def replacePath (t : PTree) (p : Path) (r : PTree) (retainId : Bool) : Option PTree :=
  match get t p with
  | none => none
  | some old =>
    let r' :=
      if retainId then
        match r with
        | openLeaf _ s => openLeaf old.id s
        | node _ s ks _ => mkNode old.id s ks (some (isOpenOp r).1)
      else r
    replaceRaw t p r'

mutual
/-- pre-order list of (path, subtree), as `paths()` -/
def paths : PTree → List (Path × PTree)
  | openLeaf i s => [([], openLeaf i s)]
  | node i s ks c => ([], node i s ks c) :: pathsL ks 0
def pathsL : List PTree → Nat → List (Path × PTree)
  | [], _ => []
  | k :: ks, i => (paths k).map (fun pu => (i :: pu.1, pu.2)) ++ pathsL ks (i + 1)
end

/-- `find_node(id)`: first path in pre-order whose node has this id -/
def findNode (t : PTree) (i : Nat) : Option Path :=
  (t.paths.find? (fun pu => pu.2.id == i)).map (·.1)

/-- `substitute(subst_map)` on an id-keyed map (after the "nested replacement" filter):
replace, in order, every listed id that is still present -/
def substituteIds : PTree → List (Nat × PTree) → PTree
  | t, [] => t
  | t, (i, r) :: rest =>
    match findNode t i with
    | none => substituteIds t rest
    | some p =>
      match replacePath t p r false with
      | none => substituteIds t rest
      | some t' => substituteIds t' rest

/-- the filter of `substitute`: a pair (tree ↦ repl) is kept iff for *every* pair (otree ↦ repl')
of the map, `repl'.id == tree.id or repl'.find_node(tree.id) is None` -/
def substFilter (m : List (Nat × PTree)) : List (Nat × PTree) :=
  m.filter fun (i, _) => m.all fun (_, r') => r'.id == i || (findNode r' i).isNone

def substitute (t : PTree) (m : List (Nat × PTree)) : PTree := substituteIds t (substFilter m)

/-- one open leaf expanded by one alternative (`expand_one_step` does this for one choice per open
leaf): the children get the given ids; nonterminal children are open leaves, terminals closed leaves -/
def expandAt (isNT : String → Bool) (t : PTree) (p : Path) (alt : List String) (ids : List Nat) : Option PTree :=
  match get t p with
  | some (openLeaf i s) =>
    let ks := (alt.zip ids).map fun (c, k) =>
      if isNT c then openLeaf k c else mkNode k c [] none
    replacePath t p (mkNode i s ks none) false
  | _ => none

/-- `tree.get_subtree(p).is_open()`: the cache of the node at `p` is filled in place -/
def setAt : PTree → Path → PTree → Option PTree
  | _, [], r => some r
  | openLeaf _ _, _ :: _, _ => none
  | node i s ks c, j :: p, r =>
    match ks[j]? with
    | none => none
    | some k => (setAt k p r).map fun k' => node i s (ks.set j k') c

def isOpenAt (t : PTree) (p : Path) : Option (Bool × PTree) :=
  match get t p with
  | none => none
  | some u =>
    let (b, u') := isOpenOp u
    (setAt t p u').map fun t' => (b, t')

mutual
/-- build a tree through the constructor, bottom-up, as `DerivationTree(value, children, id)` does -/
def ofDTree : DTree → PTree
  | .openLeaf i s => openLeaf i s
  | .node i s ks => mkNode i s (ofDTreeL ks) none
def ofDTreeL : List DTree → List PTree
  | [] => []
  | k :: ks => ofDTree k :: ofDTreeL ks
end

/-! ### operation sequences (what the correspondence harness drives) -/
inductive Op where
  | replace (p : Path) (r : DTree) (retain : Bool)     -- replacement built through the constructor
  | isOpen (p : Path)
  | substitute (m : List (Nat × DTree))
  | expand (p : Path) (alt : List String) (ids : List Nat)

/-- one operation; `none` when a path does not exist (the Python code raises) -/
def applyOp (isNT : String → Bool) (t : PTree) : Op → Option (PTree × Option Bool)
  | .replace p r b => (replacePath t p (ofDTree r) b).map fun t' => (t', none)
  | .isOpen p => (isOpenAt t p).map fun (b, t') => (t', some b)
  | .substitute m => some (substitute t (m.map fun (i, r) => (i, ofDTree r)), none)
  | .expand p alt ids => (expandAt isNT t p alt ids).map fun t' => (t', none)

/-- run a sequence, skipping operations whose path is invalid -/
def runOps (isNT : String → Bool) : PTree → List Op → PTree
  | t, [] => t
  | t, op :: ops =>
    match applyOp isNT t op with
    | none => runOps isNT t ops
    | some (t', _) => runOps isNT t' ops

/-! ### trie keys (`trie.py`, after fix 6122d84); the constants are regenerated from the source -/
def escapeChar : Nat := Generated.Trie.escapeChar
def singleLimit : Nat := Generated.Trie.singleLimit
def base : Nat := Generated.Trie.base
def numDigits : Nat := Generated.Trie.numDigits

/-- `k` base-`b` digits of `rest`, most significant first, each shifted by 2 -/
def digitsBE (b : Nat) : Nat → Nat → List Nat
  | 0, _ => []
  | k + 1, rest => (rest / b ^ k % b + 2) :: digitsBE b k rest

/-- `_encode_path_element`; `none` = ValueError -/
def encodeElem (i : Nat) : Option (List Nat) :=
  if i < singleLimit then some [i + 2]
  else
    let rest := i - singleLimit
    if rest ≥ base ^ numDigits then none
    else some (escapeChar :: digitsBE base numDigits rest)

/-- `path_to_trie_key` as a list of code points -/
def encodeKey : Path → Option (List Nat)
  | [] => some [1]
  | p => (p.mapM encodeElem).map (fun l => 1 :: l.flatten)

/-- the decoding loop of `trie_key_to_path` over the code points different from 1 -/
def decodeChars : Nat → List Nat → List Nat
  | 0, _ => []
  | _, [] => []
  | fuel + 1, c :: cs =>
    if c != escapeChar then (c - 2) :: decodeChars fuel cs
    else
      let ds := cs.take numDigits
      let v := ds.foldl (fun acc d => acc * base + (d - 2)) 0
      (v + singleLimit) :: decodeChars fuel (cs.drop numDigits)

/-- `trie_key_to_path`; `none` = RuntimeError (key does not start with chr(1)) -/
def decodeKey : List Nat → Option Path
  | 1 :: cs => some (decodeChars cs.length (cs.filter (· != 1)))
  | _ => none

end PTree

namespace DTree

/-- `replace_path` on plain trees -/
def replace : DTree → Path → DTree → Option DTree
  | _, [], r => some r
  | openLeaf _ _, _ :: _, _ => none
  | node i s ks, j :: p, r =>
    match ks[j]? with
    | none => none
    | some k =>
      match replace k p r with
      | none => none
      | some k' => some (node i s (ks.set j k'))

mutual
/-- `structurally_equal` -/
def structEq : DTree → DTree → Bool
  | openLeaf _ s, openLeaf _ s' => s == s'
  | node _ s ks, node _ s' ks' => s == s' && structEqL ks ks'
  | _, _ => false
def structEqL : List DTree → List DTree → Bool
  | [], [] => true
  | k :: ks, k' :: ks' => structEq k k' && structEqL ks ks'
  | _, _ => false
end

mutual
/-- `structural_hash` for an arbitrary hash function of (value, child hashes) / (value) -/
def structHash (hLeaf : String → Nat) (hNode : String → List Nat → Nat) : DTree → Nat
  | openLeaf _ s => hLeaf s
  | node _ s ks => hNode s (structHashL hLeaf hNode ks)
def structHashL (hLeaf : String → Nat) (hNode : String → List Nat → Nat) : List DTree → List Nat
  | [] => []
  | k :: ks => structHash hLeaf hNode k :: structHashL hLeaf hNode ks
end

/-- `find_node` on plain trees -/
def findNode (t : DTree) (i : Nat) : Option Path :=
  (t.paths.find? (fun pu => pu.2.id == i)).map (·.1)

/-- the items of `t.trie().get_subtrie(root)` for an ideal prefix map: all stored (path, subtree)
pairs whose path has `root` as prefix, relative to `root`, in key order (= pre-order) -/
def trieItems (t : DTree) (root : Path) : List (Path × DTree) :=
  (t.paths.filter (fun pu => pu.1.take root.length == root)).map (fun pu => (pu.1.drop root.length, pu.2))

end DTree
end IslaVerif
