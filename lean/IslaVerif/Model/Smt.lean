import IslaVerif.Model.Regex
/-
C05: ground SMT-LIB terms over strings, integers, Booleans and regular expressions with the
operators ISLa's lexer accepts, and their SMT-LIB 2.6 (Strings / Ints) semantics.
`eval` is the oracle model the real evaluation (`evaluate_z3_expression`, `is_valid`,
`evaluate_smt_formula`, `SMTFormula.substitute_expressions`) and Z3 itself are compared with.
-/
namespace IslaVerif.Smt
open IslaVerif

inductive Term where
  | strLit (s : List Char)
  | intLit (n : Int)
  | boolLit (b : Bool)
  -- strings
  | len (t : Term)
  | concat (ts : List Term)
  | strAt (s i : Term)
  | substr (s i n : Term)
  | prefixof (a b : Term)         -- (str.prefixof a b): a is a prefix of b
  | suffixof (a b : Term)
  | contains (a b : Term)         -- (str.contains a b): a contains b
  | indexof (s t i : Term)
  | replace (s t t' : Term)
  | toInt (s : Term)
  | fromInt (n : Term)
  | toCode (s : Term)
  | isDigit (s : Term)
  | strLe (a b : Term)
  | inRe (s : Term) (r : Re)
  -- integers
  | add (ts : List Term)
  | sub (ts : List Term)
  | mul (ts : List Term)
  | div (a b : Term)
  | mod (a b : Term)
  | neg (a : Term)
  | abs (a : Term)
  -- comparisons / Booleans
  | eq (a b : Term)
  | lt (a b : Term)
  | le (a b : Term)
  | gt (a b : Term)
  | ge (a b : Term)
  | not (a : Term)
  | and (ts : List Term)
  | or (ts : List Term)
  | implies (a b : Term)
  | xor (a b : Term)
  deriving Repr, Inhabited

inductive Val where
  | str (s : List Char)
  | int (n : Int)
  | bool (b : Bool)
  deriving Repr, DecidableEq, Inhabited

/-- SMT-LIB integer division: the remainder is non-negative -/
def smtDiv (a b : Int) : Int :=
  if b > 0 then a.fdiv b else -(a.fdiv (-b))

def smtMod (a b : Int) : Int := a - b * smtDiv a b

def isDigitC (c : Char) : Bool := '0'.toNat ≤ c.toNat && c.toNat ≤ '9'.toNat

def digitsVal (cs : List Char) : Nat := cs.foldl (fun acc c => acc * 10 + (c.toNat - '0'.toNat)) 0

/-- `str.to_int`: −1 unless the string is a non-empty digit sequence -/
def strToInt (s : List Char) : Int :=
  if !s.isEmpty && s.all isDigitC then (digitsVal s : Int) else -1

/-- decimal digits of a natural number (fuel n + 1) -/
def natDigitsAux : Nat → Nat → List Char → List Char
  | 0, _, acc => acc
  | fuel + 1, n, acc =>
    let d := Char.ofNat ('0'.toNat + n % 10)
    if n < 10 then d :: acc else natDigitsAux fuel (n / 10) (d :: acc)
def natDigits (n : Nat) : List Char := natDigitsAux (n + 1) n []

/-- `str.from_int`: the empty string for negative numbers -/
def strFromInt (n : Int) : List Char := if n < 0 then [] else natDigits n.toNat

def isPrefix : List Char → List Char → Bool
  | [], _ => true
  | _ :: _, [] => false
  | a :: as, b :: bs => a == b && isPrefix as bs

/-- first index ≥ `i` (counting from the current position `pos`) at which `t` occurs in `s` -/
def findFrom (t : List Char) : List Char → Nat → Option Nat
  | [], pos => if t.isEmpty then some pos else none
  | c :: cs, pos => if isPrefix t (c :: cs) then some pos else findFrom t cs (pos + 1)

/-- `str.indexof s t i` -/
def strIndexOf (s t : List Char) (i : Int) : Int :=
  if i < 0 || i > s.length then -1
  else match findFrom t (s.drop i.toNat) i.toNat with
    | some j => j
    | none => -1

/-- `str.contains s t` -/
def strContains (s t : List Char) : Bool := (findFrom t s 0).isSome

/-- `str.replace s t t'`: the first occurrence of `t`; for `t = ""` prepend `t'` -/
def strReplace (s t t' : List Char) : List Char :=
  match findFrom t s 0 with
  | some j => s.take j ++ t' ++ s.drop (j + t.length)
  | none => s

/-- `str.substr s i n` -/
def strSubstr (s : List Char) (i n : Int) : List Char :=
  if i < 0 || i ≥ s.length || n ≤ 0 then [] else (s.drop i.toNat).take n.toNat

/-- `str.at s i` -/
def strAtF (s : List Char) (i : Int) : List Char :=
  if i < 0 || i ≥ s.length then [] else (s.drop i.toNat).take 1

/-- lexicographic `str.<=` on code points -/
def strLeF : List Char → List Char → Bool
  | [], _ => true
  | _ :: _, [] => false
  | a :: as, b :: bs => if a.toNat < b.toNat then true else if b.toNat < a.toNat then false else strLeF as bs

mutual
/-- ground evaluation; `none` = ill-typed or unspecified (division by zero) -/
def eval : Term → Option Val
  | .strLit s => some (.str s)
  | .intLit n => some (.int n)
  | .boolLit b => some (.bool b)
  | .len t => match eval t with | some (.str s) => some (.int s.length) | _ => none
  | .concat ts => (evalStrs ts).map fun ss => .str ss.flatten
  | .strAt s i => match eval s, eval i with
    | some (.str s), some (.int i) => some (.str (strAtF s i)) | _, _ => none
  | .substr s i n => match eval s, eval i, eval n with
    | some (.str s), some (.int i), some (.int n) => some (.str (strSubstr s i n)) | _, _, _ => none
  | .prefixof a b => match eval a, eval b with
    | some (.str a), some (.str b) => some (.bool (isPrefix a b)) | _, _ => none
  | .suffixof a b => match eval a, eval b with
    | some (.str a), some (.str b) => some (.bool (isPrefix a.reverse b.reverse)) | _, _ => none
  | .contains a b => match eval a, eval b with
    | some (.str a), some (.str b) => some (.bool (strContains a b)) | _, _ => none
  | .indexof s t i => match eval s, eval t, eval i with
    | some (.str s), some (.str t), some (.int i) => some (.int (strIndexOf s t i)) | _, _, _ => none
  | .replace s t t' => match eval s, eval t, eval t' with
    | some (.str s), some (.str t), some (.str t') => some (.str (strReplace s t t')) | _, _, _ => none
  | .toInt s => match eval s with | some (.str s) => some (.int (strToInt s)) | _ => none
  | .fromInt n => match eval n with | some (.int n) => some (.str (strFromInt n)) | _ => none
  | .toCode s => match eval s with
    | some (.str [c]) => some (.int c.toNat) | some (.str _) => some (.int (-1)) | _ => none
  | .isDigit s => match eval s with
    | some (.str [c]) => some (.bool (isDigitC c)) | some (.str _) => some (.bool false) | _ => none
  | .strLe a b => match eval a, eval b with
    | some (.str a), some (.str b) => some (.bool (strLeF a b)) | _, _ => none
  | .inRe s r => match eval s with | some (.str s) => some (.bool (Re.matchB r s)) | _ => none
  | .add ts => (evalInts ts).map fun ns => .int (ns.foldl (· + ·) 0)
  | .sub ts => match evalInts ts with
    | some (n :: ns) => some (.int (n - ns.foldl (· + ·) 0)) | _ => none
  | .mul ts => (evalInts ts).map fun ns => .int (ns.foldl (· * ·) 1)
  | .div a b => match eval a, eval b with
    | some (.int a), some (.int b) => if b == 0 then none else some (.int (smtDiv a b)) | _, _ => none
  | .mod a b => match eval a, eval b with
    | some (.int a), some (.int b) => if b == 0 then none else some (.int (smtMod a b)) | _, _ => none
  | .neg a => match eval a with | some (.int a) => some (.int (-a)) | _ => none
  | .abs a => match eval a with | some (.int a) => some (.int (Int.ofNat a.natAbs)) | _ => none
  | .eq a b => match eval a, eval b with
    | some x, some y => some (.bool (decide (x = y))) | _, _ => none
  | .lt a b => match eval a, eval b with
    | some (.int a), some (.int b) => some (.bool (decide (a < b))) | _, _ => none
  | .le a b => match eval a, eval b with
    | some (.int a), some (.int b) => some (.bool (decide (a ≤ b))) | _, _ => none
  | .gt a b => match eval a, eval b with
    | some (.int a), some (.int b) => some (.bool (decide (a > b))) | _, _ => none
  | .ge a b => match eval a, eval b with
    | some (.int a), some (.int b) => some (.bool (decide (a ≥ b))) | _, _ => none
  | .not a => match eval a with | some (.bool b) => some (.bool (!b)) | _ => none
  | .and ts => (evalBools ts).map fun bs => .bool (bs.all id)
  | .or ts => (evalBools ts).map fun bs => .bool (bs.any id)
  | .implies a b => match eval a, eval b with
    | some (.bool a), some (.bool b) => some (.bool (!a || b)) | _, _ => none
  | .xor a b => match eval a, eval b with
    | some (.bool a), some (.bool b) => some (.bool (a != b)) | _, _ => none
def evalStrs : List Term → Option (List (List Char))
  | [] => some []
  | t :: ts => match eval t, evalStrs ts with
    | some (.str s), some ss => some (s :: ss) | _, _ => none
def evalInts : List Term → Option (List Int)
  | [] => some []
  | t :: ts => match eval t, evalInts ts with
    | some (.int n), some ns => some (n :: ns) | _, _ => none
def evalBools : List Term → Option (List Bool)
  | [] => some []
  | t :: ts => match eval t, evalBools ts with
    | some (.bool b), some bs => some (b :: bs) | _, _ => none
end

end IslaVerif.Smt
