import IslaVerif.Driver.Decode
import IslaVerif.Model.Grammar
namespace IslaVerif.Driver.C10
open IslaVerif Sexp Driver

def encRec : Option Bool → Sexp
  | some b => ofBool b
  | none => .atom "unknown"

/-- the four clauses of "faithful tree": valid derivation tree, closed, rooted in `start`, yields `s` -/
def checkTree (g : Grammar) (start : String) (s : String) (t : DTree) : List Bool :=
  [t.valid g, t.closed, t.sym == start, t.yieldC g == s.toList]

def handle : List Sexp → Sexp
  | [.atom "lang", g, start, strs] =>
    match decodeGrammar g, asStr? start, (asList? strs).bind (·.mapM asStr?) with
    | some g, some start, some strs => .list (strs.map fun s => encRec (Rec.recognize g start s.toList))
    | _, _, _ => bad
  | [.atom "tree", g, start, s, t] =>
    match decodeGrammar g, asStr? start, asStr? s, decodeTree t with
    | some g, some start, some s, some t => .list ((checkTree g start s t).map ofBool)
    | _, _, _, _ => bad
  | _ => bad

end IslaVerif.Driver.C10
