import IslaVerif.Driver.Decode
import IslaVerif.Model.Formats
namespace IslaVerif.Driver.FormatsD
open IslaVerif Sexp Driver Formats

def handle : List Sexp → Sexp
  | [.atom "csv", s] => match asStr? s with
    | some s => .list [ofBool (csvOk s.toList), .list ((csvScan s.toList false 1 []).map fun n => .num (Int.ofNat n))]
    | none => bad
  | [.atom "xml", s] => match asStr? s with
    | some s => ofBool (xmlOk s.toList)
    | none => bad
  | [.atom "tar", s] => match asStr? s with
    | some s => ofBool (tarOk s.toList)
    | none => bad
  | [.atom "rest", g, t] => match decodeGrammar g, decodeTree t with
    | some g, some t => .list [ofBool (restUnderlineOk g t), ofBool (restLabelsUnique g t), ofBool (restRefsDefined g t), ofBool (restNumberingOk g t)]
    | _, _ => bad
  | _ => bad

end IslaVerif.Driver.FormatsD
