import IslaVerif.Driver.Decode
import IslaVerif.Model.XPath
namespace IslaVerif.Driver.XPathD
open IslaVerif Sexp Driver

/-- `(c08 childmtrees g V T i)` → list of (children symbols of the match-expression tree, bound position) -/
def handle : List Sexp → Sexp
  | [.atom "childmtrees", g, v, t, i] =>
    match decodeGrammar g, asStr? v, asStr? t, asNat? i with
    | some g, some v, some t, some i =>
      .list ((XPath.childMTrees g v t i "x").map fun m =>
        .list [.list (m.tree.kids.map fun k => ofStr k.sym),
               match m.binds with
               | [(_, [k])] => .num k
               | _ => bad])
    | _, _, _, _ => bad
  | _ => bad

end IslaVerif.Driver.XPathD
