import IslaVerif.Driver.Decode
import IslaVerif.Model.Bnf
namespace IslaVerif.Driver.C11
open IslaVerif Sexp Driver Bnf

def handle : List Sexp → Sexp
  | [.atom "escape", s] => match asNats? s with
    | some s => ofNats (escapeStr s) | none => bad
  | [.atom "unescape", s] => match asNats? s with
    | some s => ofNats (unescape s) | none => bad
  | [.atom "read", s] => match asNats? s with
    | some s => (match readTerminal s with
      | some (b, r) => .list [.atom "ok", ofNats b, ofNats r]
      | none => .atom "no-token")
    | none => bad
  | _ => bad

end IslaVerif.Driver.C11
