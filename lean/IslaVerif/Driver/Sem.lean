import IslaVerif.Driver.Decode
import IslaVerif.Driver.C04
import IslaVerif.Driver.C15
import IslaVerif.Model.Sem
import IslaVerif.Model.Certify
import IslaVerif.Model.Agree
import IslaVerif.Model.Open
namespace IslaVerif.Driver.SemD
open IslaVerif Sexp Driver Sem

partial def decodeTV : Sexp → Option TermV
  | .list [.atom "var", n] => do pure (.var (← asStr? n))
  | .list [.atom "str", s] => do pure (.str (← asStr? s).toList)
  | .list [.atom "int", n] => do pure (.int (← asInt? n))
  | .atom "true" => some (.bool true)
  | .atom "false" => some (.bool false)
  | .list [.atom "inre", s, r] => do pure (.inre (← decodeTV s) (← C15.decodeRe r))
  | .list (.atom "app" :: .atom op :: args) => do pure (.app op (← args.mapM decodeTV))
  | _ => none

def decodeArg : Sexp → Option Arg
  | .list [.atom "var", v] => do pure (.var (← asStr? v))
  | .list [.atom "lit", s] => do pure (.str (← asStr? s))
  | _ => none

def decodeMTree : Sexp → Option MTree
  | .list [t, .list bs] => do
    let t ← decodeTree t
    let bs ← bs.mapM fun b => match b with
      | .list [v, p] => do pure ((← asStr? v), (← asNats? p))
      | _ => none
    pure { tree := t, binds := bs }
  | _ => none

def decodeM : Sexp → Option (Option (List MTree))
  | .atom "none" => some none
  | .list (.atom "mtrees" :: ms) => (ms.mapM decodeMTree).map some
  | _ => none

partial def decodeFm : Sexp → Option Fm
  | .list [.atom "smt", t] => do pure (.smt (← decodeTV t))
  | .list (.atom "pred" :: n :: args) => do pure (.pred (← asStr? n) (← args.mapM decodeArg))
  | .list [.atom "count", v, needle, numArg] => do pure (.count (← asStr? v) (← asStr? needle) (← decodeArg numArg))
  | .list [.atom "neg", f] => do pure (.neg (← decodeFm f))
  | .list (.atom "conj" :: fs) => do pure (.conj (← fs.mapM decodeFm))
  | .list (.atom "disj" :: fs) => do pure (.disj (← fs.mapM decodeFm))
  | .list [.atom "all", v, ty, iv, m, f] => do
      pure (.all (← asStr? v) (← asStr? ty) (← asStr? iv) (← decodeM m) (← decodeFm f))
  | .list [.atom "ex", v, ty, iv, m, f] => do
      pure (.ex (← asStr? v) (← asStr? ty) (← asStr? iv) (← decodeM m) (← decodeFm f))
  | .list [.atom "allint", v, f] => do pure (.allInt (← asStr? v) (← decodeFm f))
  | .list [.atom "exint", v, f] => do pure (.exInt (← asStr? v) (← decodeFm f))
  | _ => none

def decodeEnv (x : Sexp) : Option Env := do
  let bs ← asList? x
  bs.mapM fun b => match b with
    | .list [n, .list [.atom "path", p]] => do pure ((← asStr? n), Bind.path (← asNats? p))
    | .list [n, .list [.atom "num", k]] => do pure ((← asStr? n), Bind.num (← asNat? k))
    | _ => none

def encTV : TV → Sexp
  | some b => ofBool b
  | none => .atom "unknown"

def handle : List Sexp → Sexp
  | [.atom "eval", g, t, f, env, bound] =>
    match decodeGrammar g, decodeTree t, decodeFm f, decodeEnv env, asNat? bound with
    | some g, some t, some f, some env, some bound =>
      encTV (evalRef { g := g, root := t, isNT := C04.isNT, intBound := bound } env f)
    | _, _, _, _, _ => bad
  -- many trees, one formula
  | [.atom "evalmany", g, .list ts, f, env, bound] =>
    match decodeGrammar g, ts.mapM decodeTree, decodeFm f, decodeEnv env, asNat? bound with
    | some g, some ts, some f, some env, some bound =>
      .list (ts.map fun t => encTV (evalRef { g := g, root := t, isNT := C04.isNT, intBound := bound } env f))
    | _, _, _, _, _ => bad
  -- the conservative evaluator for open trees: (sem evalopen g t f env bound)
  | [.atom "evalopen", g, t, f, env, bound] =>
    match decodeGrammar g, decodeTree t, decodeFm f, decodeEnv env, asNat? bound with
    | some g, some t, some f, some env, some bound =>
      encTV (evalOpen { g := g, root := t, isNT := C04.isNT, intBound := bound } env f)
    | _, _, _, _, _ => bad
  -- (sem completes g t t')
  | [.atom "completes", g, t, t'] =>
    match decodeGrammar g, decodeTree t, decodeTree t' with
    | some g, some t, some t' => ofBool (completes g t t')
    | _, _, _ => bad
  -- the solution certifier: (valid closed rootOk verdict)
  | [.atom "certify", g, t, f, startSym, const, bound] =>
    match decodeGrammar g, decodeTree t, decodeFm f, asStr? startSym, asStr? const, asNat? bound with
    | some g, some t, some f, some a, some c, some bound =>
      let fl := certFlags { g := g, root := t, isNT := C04.isNT, intBound := bound } a c f
      .list [ofBool fl.valid, ofBool fl.closed, ofBool fl.rootOk, encTV fl.verdict]
    | _, _, _, _, _, _ => bad
  -- expected outcome of solver.parse(s): (sem parseoutcome g f const <string> <tree|none> bound)
  | [.atom "parseoutcome", g, f, const, s, t, bound] =>
    match decodeGrammar g, decodeFm f, asStr? const, asStr? s, asNat? bound with
    | some g, some f, some c, some s, some bound =>
      let t? := match t with
        | .atom "none" => none
        | x => decodeTree x
      .atom (match parseOutcome g C04.isNT bound f c s.toList t? with
        | .ok => "ok" | .syntaxError => "syntax-error" | .semanticError => "semantic-error"
        | .undecided => "undecided" | .unfaithfulTree => "unfaithful-tree")
    | _, _, _, _, _ => bad
  -- validity of a (possibly open) tree only: (valid closed root-symbol)
  | [.atom "valid", g, t] =>
    match decodeGrammar g, decodeTree t with
    | some g, some t => .list [ofBool (t.valid g), ofBool t.closed, ofStr t.sym]
    | _, _ => bad
  | _ => bad

end IslaVerif.Driver.SemD
