import IslaVerif.Driver.Decode
import IslaVerif.Model.SemPreds
namespace IslaVerif.Driver.C20
open IslaVerif Sexp Driver SemPreds

def encRes : PredRes → Sexp
  | .verdict b => ofBool b
  | .replace s => .list [.atom "replace", ofStr (String.ofList s)]

def handle : List Sexp → Sexp
  | [.atom "count", occ, target] => match asNat? occ, asInt? target with
    | some occ, some target => ofBool (countVerdict occ target) | _, _ => bad
  | [.atom "octboth", o, d] => match asNats? o, asNats? d with
    | some o, some d => ofBool (octalBoth o d) | _, _ => bad
  | [.atom "oct2dec", o] => match asNats? o with
    | some o => ofNats (octalToDec o) | _ => bad
  | [.atom "dec2oct", d] => match asNats? d with
    | some d => ofNats (decToOctal d) | _ => bad
  | [.atom "crop", s, w] => match asStr? s, asNat? w with
    | some s, some w => encRes (cropM s.toList w) | _, _ => bad
  | [.atom "just", lj, cr, s, w, fill] => match asBool? lj, asBool? cr, asStr? s, asNat? w, asNat? fill with
    | some lj, some cr, some s, some w, some fill => encRes (justM lj cr s.toList w (Char.ofNat fill))
    | _, _, _, _, _ => bad
  | _ => bad

end IslaVerif.Driver.C20
