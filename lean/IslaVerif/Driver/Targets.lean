import IslaVerif.Driver.Decode
import IslaVerif.Model.Targets
namespace IslaVerif.Driver.TargetsD
open IslaVerif Sexp Driver DTree Targets

def handle : List Sexp → Sexp
  -- (tgt fixedlen g start n r) -> (valid closed root-ok length-ok)
  | [.atom "fixedlen", g, start, n, r] =>
    match decodeGrammar g, asStr? start, asNat? n, decodeTree r with
    | some g, some st, some n, some r =>
      .list [ofBool (r.valid g), ofBool r.closed, ofBool (r.sym == st), ofBool ((r.yieldC g).length == n), ofBool (fixedLenCheck g st n r)]
    | _, _, _, _ => bad
  -- (tgt numeric g nt v r) -> (valid closed root-ok value-ok)
  | [.atom "numeric", g, nt, v, r] =>
    match decodeGrammar g, asStr? nt, asInt? v, decodeTree r with
    | some g, some nt, some v, some r =>
      .list [ofBool (r.valid g), ofBool r.closed, ofBool (r.sym == nt), ofBool (intOfChars (r.yieldC g) == some v), ofBool (numericCheck g nt v r)]
    | _, _, _, _ => bad
  -- (tgt count g arg needle n r) -> (valid same-root count-ok no-open-leaf-reaches-needle contains-arg) | unknown
  | [.atom "count", g, arg, needle, n, r] =>
    match decodeGrammar g, decodeTree arg, asStr? needle, asNat? n, decodeTree r with
    | some g, some arg, some nd, some n, some r =>
      match (r.openLeaves.map fun pu => pu.2.sym).mapM (fun s => reaches g s nd) with
      | none => .atom "unknown"
      | some rs =>
        .list [ofBool (r.valid g), ofBool (r.sym == arg.sym), ofBool (countSym r nd == n), ofBool (rs.all fun b => !b),
               ofBool (arg.paths.all fun pu => r.paths.any fun qv => keepsNode pu.2 qv.2), ofBool (countCheck g arg nd n r == some true)]
    | _, _, _, _, _ => bad
  -- (tgt reaches g A B)
  | [.atom "reaches", g, a, b] =>
    match decodeGrammar g, asStr? a, asStr? b with
    | some g, some a, some b => match reaches g a b with
      | some x => ofBool x
      | none => .atom "unknown"
    | _, _, _ => bad
  | _ => bad

end IslaVerif.Driver.TargetsD
