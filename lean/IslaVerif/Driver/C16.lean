import IslaVerif.Driver.Decode
import IslaVerif.Driver.C04
import IslaVerif.Model.PTree
namespace IslaVerif.Driver.C16
open IslaVerif Sexp Driver

def encCache : Option Bool → Sexp
  | none => .atom "none"
  | some b => ofBool b

partial def encodeP : PTree → Sexp
  | .openLeaf i s => .list [.atom "o", .num i, ofStr s]
  | .node i s ks c => .list (.atom "n" :: .num i :: ofStr s :: encCache c :: ks.map encodeP)

def encPath (p : Path) : Sexp := ofNats p

/-- derived observations of the (erased) tree -/
def observe (t : PTree) : Sexp :=
  let d := t.erase
  let ps := d.paths
  let ids := ps.map (·.2.id)
  .list [
    encodeP t,
    ofStr (d.yieldOpen C04.isNT),
    ofBool d.hasOpen,
    .list (ps.map fun pu => .list [encPath pu.1, .num pu.2.id]),
    .list (ids.map fun i => ofOption encPath (d.findNode i)),
    .list (ps.map fun pu => .list ((d.trieItems pu.1).map fun qv => .list [encPath qv.1, .num qv.2.id])),
    -- structural equality matrix of all subtrees (row-major)
    .list (ps.flatMap fun a => ps.map fun b => ofBool (DTree.structEq a.2 b.2)),
    .list (ps.map fun pu => ofOption (fun l => ofNats l) (PTree.encodeKey pu.1))
  ]

abbrev Op := PTree.Op

def decodeOp : Sexp → Option Op
  | .list [.atom "replace", p, r, b] => do pure (.replace (← asNats? p) (← decodeTree r) (← asBool? b))
  | .list [.atom "isopen", p] => do pure (.isOpen (← asNats? p))
  | .list [.atom "substitute", m] => do
      let ms ← asList? m
      let ms ← ms.mapM fun x => match x with
        | .list [i, r] => do pure ((← asNat? i), (← decodeTree r))
        | _ => none
      pure (.substitute ms)
  | .list [.atom "expand", p, alt, ids] => do
      let alt ← (asList? alt).bind (·.mapM asStr?)
      pure (.expand (← asNats? p) alt (← asNats? ids))
  | _ => none

def applyOp (t : PTree) (op : Op) : Option (PTree × Sexp) :=
  (PTree.applyOp C04.isNT t op).map fun (t', r) =>
    (t', match r with | none => .atom "ok" | some b => ofBool b)

/-- `(c16 run <tree> (op …))`: the initial tree is built through the constructor; answer = list of
`(result observation)` after each op, preceded by the initial observation -/
def handle : List Sexp → Sexp
  | [.atom "run", t, ops] =>
    match decodeTree t, (asList? ops).bind (·.mapM decodeOp) with
    | some t, some ops =>
      let t0 := PTree.ofDTree t
      let rec go (t : PTree) : List Op → List Sexp
        | [] => []
        | op :: rest =>
          match applyOp t op with
          | none => [.atom "bad-path"]
          | some (t', r) => .list [r, observe t'] :: go t' rest
      .list (.list [.atom "init", observe t0] :: go t0 ops)
    | _, _ => bad
  | [.atom "key", p] => match asNats? p with
    | some p => ofOption ofNats (PTree.encodeKey p)
    | none => bad
  | [.atom "unkey", k] => match asNats? k with
    | some k => ofOption ofNats (PTree.decodeKey k)
    | none => bad
  | _ => bad

end IslaVerif.Driver.C16
