import IslaVerif.Driver.Decode
import IslaVerif.Model.Cli
namespace IslaVerif.Driver.C19
open IslaVerif Sexp Driver Cli

def decG : Sexp → Option GrammarSt
  | .atom "missing" => some .missing | .atom "malformed" => some .malformed
  | .atom "empty" => some .empty | .atom "ok" => some .ok | _ => none
def decC : Sexp → Option ConstraintSt
  | .atom "malformed" => some .malformed | .atom "ok" => some .ok | _ => none
def decI : Sexp → Option InputSt
  | .atom "none" => some .none | .atom "several" => some .several
  | .list [.atom "given", a, .atom "error"] => do pure (.given (← asBool? a) .error)
  | .list [.atom "given", a, b] => do pure (.given (← asBool? a) (if (← asBool? b) then .sat else .unsat))
  | _ => none

def handle : List Sexp → Sexp
  | [.atom "check", g, cs, i] =>
    match decG g, (asList? cs).bind (·.mapM decC), decI i with
    | some g, some cs, some i => .num (checkExit ⟨g, cs, i⟩)
    | _, _, _ => bad
  | _ => bad

end IslaVerif.Driver.C19
