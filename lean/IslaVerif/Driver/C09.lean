import IslaVerif.Driver.Decode
import IslaVerif.Model.Formula
import IslaVerif.Model.FormulaEval
namespace IslaVerif.Driver.C09
open IslaVerif Sexp Driver F

partial def decodeF : Sexp → Option F
  | .atom "tt" => some .tt
  | .atom "ff" => some .ff
  | .list [.atom "atom", a] => do pure (.atom (← asNat? a))
  | .list [.atom "smt", s, p] => do pure (.smt (← asNat? s) (← asBool? p))
  | .list [.atom "neg", f] => do pure (.neg (← decodeF f))
  | .list (.atom "conj" :: fs) => do pure (.conj (← fs.mapM decodeF))
  | .list (.atom "disj" :: fs) => do pure (.disj (← fs.mapM decodeF))
  | .list [.atom "all", q, f] => do pure (.all (← asNat? q) (← decodeF f))
  | .list [.atom "ex", q, f] => do pure (.ex (← asNat? q) (← decodeF f))
  | .list [.atom "allint", v, f] => do pure (.allInt (← asNat? v) (← decodeF f))
  | .list [.atom "exint", v, f] => do pure (.exInt (← asNat? v) (← decodeF f))
  | _ => none

partial def encodeF : F → Sexp
  | .tt => .atom "tt"
  | .ff => .atom "ff"
  | .atom a => .list [.atom "atom", .num a]
  | .smt s p => .list [.atom "smt", .num s, ofBool p]
  | .neg f => .list [.atom "neg", encodeF f]
  | .conj fs => .list (.atom "conj" :: fs.map encodeF)
  | .disj fs => .list (.atom "disj" :: fs.map encodeF)
  | .all q f => .list [.atom "all", .num q, encodeF f]
  | .ex q f => .list [.atom "ex", .num q, encodeF f]
  | .allInt v f => .list [.atom "allint", .num v, encodeF f]
  | .exInt v f => .list [.atom "exint", .num v, encodeF f]

def encOpt : Option F → Sexp
  | some f => .list [.atom "ok", encodeF f]
  | none => .atom "TypeError"

def encRes : Res → Sexp
  | .ok f => .list [.atom "ok", encodeF f]
  | .assertion => .atom "AssertionError"
  | .typeError => .atom "TypeError"

/-- verdict vector of a formula under `n` sampled finite interpretations -/
def verdicts (f : F) (seed n : Nat) : List Bool :=
  (List.range n).map fun i => evalB (sampleInterp (seed + i)) [] f

def handle : List Sexp → Sexp
  | [.atom "neg", f] => match decodeF f with
    | some f => encOpt (negF f) | none => bad
  | [.atom "nnf", f, b] => match decodeF f, asBool? b with
    | some f, some b => encOpt (nnf f b) | _, _ => bad
  | [.atom "dnf", f, b] => match decodeF f, asBool? b with
    | some f, some b => encRes (dnf f b) | _, _ => bad
  | [.atom "and", f, g] => match decodeF f, decodeF g with
    | some f, some g => encodeF (andF f g) | _, _ => bad
  | [.atom "or", f, g] => match decodeF f, decodeF g with
    | some f, some g => encodeF (orF f g) | _, _ => bad
  | [.atom "eq", f, g] => match decodeF f, decodeF g with
    | some f, some g => ofBool (feq f g) | _, _ => bad
  | [.atom "splitc", f] => match decodeF f with
    | some f => .list ((splitConj f).map encodeF) | none => bad
  | [.atom "splitd", f] => match decodeF f with
    | some f => .list ((splitDisj f).map encodeF) | none => bad
  | [.atom "verdicts", f, seed, n] => match decodeF f, asNat? seed, asNat? n with
    | some f, some seed, some n => .list ((verdicts f seed n).map ofBool) | _, _, _ => bad
  | _ => bad

end IslaVerif.Driver.C09
