import IslaVerif.Driver.Decode
import IslaVerif.Model.Preds
namespace IslaVerif.Driver.C04
open IslaVerif Sexp Preds Driver

/-- mirrors `helpers.is_nonterminal` = `RE_NONTERMINAL.match(s)` with `(<[^<> ]*>)`:
the string starts with `<`, followed by non-`<`,`>`,space characters, then `>` -/
def isNT (s : String) : Bool :=
  match s.toList with
  | '<' :: rest =>
    let body := rest.takeWhile (fun c => c != '<' && c != '>' && c != ' ')
    match rest.drop body.length with
    | '>' :: _ => true
    | _ => false
  | _ => false

def encPRes : PRes → Sexp
  | .val b => ofBool b
  | .assertion => .atom "AssertionError"
  | .badPath => .atom "bad-path"

def ops : List LevelOp := [.EQ, .GE, .LE, .GT, .LT]

def pairRow (t : DTree) (nts : List String) (ns : List Nat) (p q : Path) : Sexp :=
  .list (
    [ofBool (isBefore p q), ofBool (isAfter p q), ofBool (isSamePosition p q),
     ofBool (isDifferentPosition p q), ofBool (inTree p q), ofBool (isDirectChild p q),
     encPRes (consecutive t p q)]
    ++ ns.map (fun n => encPRes (isNth isNT t n p q))
    ++ ops.flatMap (fun op => nts.map fun nt => ofBool (levelCheck t op nt p q)))

/-- `(c04 tree <tree> (nt …) (n …))`: one row per ordered pair of pre-order paths -/
def handle : List Sexp → Sexp
  | [.atom "tree", t, nts, ns] =>
    match decodeTree t, (asList? nts).bind (·.mapM asStr?), asNats? ns with
    | some t, some nts, some ns =>
      let ps := t.paths.map (·.1)
      .list (ps.flatMap fun p => ps.map fun q => pairRow t nts ns p q)
    | _, _, _ => bad
  | [.atom "pair", t, nts, ns, p, q] =>
    match decodeTree t, (asList? nts).bind (·.mapM asStr?), asNats? ns, asNats? p, asNats? q with
    | some t, some nts, some ns, some p, some q => pairRow t nts ns p q
    | _, _, _, _, _ => bad
  | _ => bad

end IslaVerif.Driver.C04
