import IslaVerif.Driver.Decode
import IslaVerif.Model.Intervals
namespace IslaVerif.Driver.C15
open IslaVerif Sexp Driver Intervals

partial def decodeRe : Sexp → Option Re
  | .list [.atom "str", s] => do pure (.str (← asStr? s).toList)
  | .list [.atom "range", a, b] => do pure (.range (← asStr? a).toList (← asStr? b).toList)
  | .atom "allchar" => some .allchar
  | .atom "all" => some .all
  | .atom "none" => some .none
  | .list (.atom "union" :: rs) => do pure (.union (← rs.mapM decodeRe))
  | .list (.atom "concat" :: rs) => do pure (.concat (← rs.mapM decodeRe))
  | .list (.atom "inter" :: rs) => do pure (.inter (← rs.mapM decodeRe))
  | .list [.atom "star", r] => do pure (.star (← decodeRe r))
  | .list [.atom "plus", r] => do pure (.plus (← decodeRe r))
  | .list [.atom "opt", r] => do pure (.opt (← decodeRe r))
  | .list [.atom "comp", r] => do pure (.comp (← decodeRe r))
  | .list [.atom "loop", r, lo, hi] => do pure (.loop (← decodeRe r) (← asNat? lo) (← asNat? hi))
  | .list [.atom "diff", a, b] => do pure (.diff (← decodeRe a) (← decodeRe b))
  | _ => none

partial def encodeRe : Re → Sexp
  | .str s => .list [.atom "str", ofStr (String.ofList s)]
  | .range a b => .list [.atom "range", ofStr (String.ofList a), ofStr (String.ofList b)]
  | .allchar => .atom "allchar"
  | .all => .atom "all"
  | .none => .atom "none"
  | .union rs => .list (.atom "union" :: rs.map encodeRe)
  | .concat rs => .list (.atom "concat" :: rs.map encodeRe)
  | .inter rs => .list (.atom "inter" :: rs.map encodeRe)
  | .star r => .list [.atom "star", encodeRe r]
  | .plus r => .list [.atom "plus", encodeRe r]
  | .opt r => .list [.atom "opt", encodeRe r]
  | .comp r => .list [.atom "comp", encodeRe r]
  | .loop r lo hi => .list [.atom "loop", encodeRe r, .num lo, .num hi]
  | .diff a b => .list [.atom "diff", encodeRe a, encodeRe b]

def encIvs : Option (List Iv) → Sexp
  | none => .atom "none"
  | some l => .list (l.map fun iv => .list [.num iv.1, .num iv.2])

/-- decimal renderings of `n` with sign variants and up to `pad` leading zeros -/
def renderings (n : Int) (pad : Nat) : List (List Char) :=
  let digits := (toString n.natAbs).toList
  let padded := (List.range (pad + 1)).map fun k => List.replicate k '0' ++ digits
  if n < 0 then padded.map ('-' :: ·)
  else if n == 0 then padded ++ padded.map ('+' :: ·) ++ padded.map ('-' :: ·)
  else padded ++ padded.map ('+' :: ·)

def handle : List Sexp → Sexp
  | [.atom "intervals", r] => match decodeRe r with
    | some r => encIvs (numericIntervals r) | none => bad
  | [.atom "compress", rs] => match (asList? rs).bind (·.mapM decodeRe) with
    | some rs => .list ((compress rs).map encodeRe) | none => bad
  | [.atom "match", r, s] => match decodeRe r, asStr? s with
    | some r, some s => ofBool (Re.matchB r s.toList) | _, _ => bad
  | [.atom "matchall", r, ss] => match decodeRe r, (asList? ss).bind (·.mapM asStr?) with
    | some r, some ss => .list (ss.map fun s => ofBool (Re.matchB r s.toList)) | _, _ => bad
  | [.atom "probe", r, ns, pad] =>
    -- for each integer: is some rendering of it matched by r?  and is it inside the inferred intervals?
    match decodeRe r, (asList? ns).bind (·.mapM asInt?), asNat? pad with
    | some r, some ns, some pad =>
      let ivs := numericIntervals r
      .list (ns.map fun n =>
        .list [ofBool ((renderings n pad).any fun s => Re.matchB r s),
               match ivs with | none => .atom "none" | some l => ofBool (inIvs l n)])
    | _, _, _ => bad
  | _ => bad

end IslaVerif.Driver.C15
