import IslaVerif.Driver.Decode
import IslaVerif.Model.Serial
namespace IslaVerif.Driver.C17
open IslaVerif Sexp Driver Serial

def decOptNat : Sexp → Option (Option Nat)
  | .atom "none" => some none
  | x => (asNat? x).map some
def decOptInt : Sexp → Option (Option Int)
  | .atom "none" => some none
  | x => (asInt? x).map some
def decOptBool : Sexp → Option (Option Bool)
  | .atom "none" => some none
  | x => (asBool? x).map some

def decFieldsS : Sexp → Option Fields
  | .list [l, h, sh, o, k, ck] => do
    pure { len := (← decOptNat l), hash := (← decOptInt h), shash := (← decOptInt sh), isOpen := (← decOptBool o),
           kPaths := (← asBool? k), concreteKPaths := (← asBool? ck) }
  | _ => none

partial def decodeC : Sexp → Option CTree
  | .list [.atom "o", i, s, f] => do pure (.openLeaf (← asNat? i) (← asStr? s) (← decFieldsS f))
  | .list (.atom "n" :: i :: s :: f :: kids) => do
      pure (.node (← asNat? i) (← asStr? s) (← kids.mapM decodeC) (← decFieldsS f))
  | _ => none

def encOpt (f : α → Sexp) : Option α → Sexp
  | none => .atom "none"
  | some a => f a

def encFieldsS (f : Fields) : Sexp :=
  .list [encOpt (fun n => .num n) f.len, encOpt .num f.hash, encOpt .num f.shash, encOpt ofBool f.isOpen,
         ofBool f.kPaths, ofBool f.concreteKPaths]

partial def encodeC : CTree → Sexp
  | .openLeaf i s f => .list [.atom "o", .num i, ofStr s, encFieldsS f]
  | .node i s ks f => .list (.atom "n" :: .num i :: ofStr s :: encFieldsS f :: ks.map encodeC)

partial def encodeJ : JVal → Sexp
  | .null => .atom "null"
  | .bool b => ofBool b
  | .num n => .num n
  | .str s => ofStr s
  | .arr xs => .list (.atom "arr" :: xs.map encodeJ)
  | .obj kvs => .list (.atom "obj" :: kvs.map fun (k, v) => .list [ofStr k, encodeJ v])

def handle : List Sexp → Sexp
  | [.atom "encode", t] => match decodeC t with
    | some t => encodeJ t.encode | none => bad
  | [.atom "roundtrip", t] => match decodeC t with
    | some t => (match CTree.decode t.encode with
      | some t' => .list [.atom "ok", encodeC t']
      | none => .atom "decode-failed")
    | none => bad
  | _ => bad

end IslaVerif.Driver.C17
