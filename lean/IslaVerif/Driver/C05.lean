import IslaVerif.Driver.Decode
import IslaVerif.Driver.C15
import IslaVerif.Model.Smt
namespace IslaVerif.Driver.C05
open IslaVerif Sexp Driver Smt

partial def decodeT : Sexp → Option Term
  | .list [.atom "str", s] => do pure (.strLit (← asStr? s).toList)
  | .list [.atom "int", n] => do pure (.intLit (← asInt? n))
  | .atom "true" => some (.boolLit true)
  | .atom "false" => some (.boolLit false)
  | .list [.atom "len", t] => do pure (.len (← decodeT t))
  | .list (.atom "concat" :: ts) => do pure (.concat (← ts.mapM decodeT))
  | .list [.atom "at", s, i] => do pure (.strAt (← decodeT s) (← decodeT i))
  | .list [.atom "substr", s, i, n] => do pure (.substr (← decodeT s) (← decodeT i) (← decodeT n))
  | .list [.atom "prefixof", a, b] => do pure (.prefixof (← decodeT a) (← decodeT b))
  | .list [.atom "suffixof", a, b] => do pure (.suffixof (← decodeT a) (← decodeT b))
  | .list [.atom "contains", a, b] => do pure (.contains (← decodeT a) (← decodeT b))
  | .list [.atom "indexof", s, t, i] => do pure (.indexof (← decodeT s) (← decodeT t) (← decodeT i))
  | .list [.atom "replace", s, t, u] => do pure (.replace (← decodeT s) (← decodeT t) (← decodeT u))
  | .list [.atom "toint", s] => do pure (.toInt (← decodeT s))
  | .list [.atom "fromint", n] => do pure (.fromInt (← decodeT n))
  | .list [.atom "tocode", s] => do pure (.toCode (← decodeT s))
  | .list [.atom "isdigit", s] => do pure (.isDigit (← decodeT s))
  | .list [.atom "strle", a, b] => do pure (.strLe (← decodeT a) (← decodeT b))
  | .list [.atom "inre", s, r] => do pure (.inRe (← decodeT s) (← C15.decodeRe r))
  | .list (.atom "add" :: ts) => do pure (.add (← ts.mapM decodeT))
  | .list (.atom "sub" :: ts) => do pure (.sub (← ts.mapM decodeT))
  | .list (.atom "mul" :: ts) => do pure (.mul (← ts.mapM decodeT))
  | .list [.atom "div", a, b] => do pure (.div (← decodeT a) (← decodeT b))
  | .list [.atom "mod", a, b] => do pure (.mod (← decodeT a) (← decodeT b))
  | .list [.atom "neg", a] => do pure (.neg (← decodeT a))
  | .list [.atom "abs", a] => do pure (.abs (← decodeT a))
  | .list [.atom "eq", a, b] => do pure (.eq (← decodeT a) (← decodeT b))
  | .list [.atom "lt", a, b] => do pure (.lt (← decodeT a) (← decodeT b))
  | .list [.atom "le", a, b] => do pure (.le (← decodeT a) (← decodeT b))
  | .list [.atom "gt", a, b] => do pure (.gt (← decodeT a) (← decodeT b))
  | .list [.atom "ge", a, b] => do pure (.ge (← decodeT a) (← decodeT b))
  | .list [.atom "not", a] => do pure (.not (← decodeT a))
  | .list (.atom "and" :: ts) => do pure (.and (← ts.mapM decodeT))
  | .list (.atom "or" :: ts) => do pure (.or (← ts.mapM decodeT))
  | .list [.atom "implies", a, b] => do pure (.implies (← decodeT a) (← decodeT b))
  | .list [.atom "xor", a, b] => do pure (.xor (← decodeT a) (← decodeT b))
  | _ => none

def encVal : Option Val → Sexp
  | none => .atom "unspecified"
  | some (.str s) => .list [.atom "str", ofStr (String.ofList s)]
  | some (.int n) => .list [.atom "int", .num n]
  | some (.bool b) => ofBool b

def handle : List Sexp → Sexp
  | [.atom "eval", t] => match decodeT t with
    | some t => encVal (eval t) | none => bad
  | _ => bad

end IslaVerif.Driver.C05
