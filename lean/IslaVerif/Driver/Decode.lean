import IslaVerif.Model.Sexp
import IslaVerif.Model.Tree
/- decoding of the shared wire types (driver plumbing) -/
namespace IslaVerif.Driver
open IslaVerif Sexp

/-- `(o id sym)` / `(n id sym kid …)` -/
partial def decodeTree : Sexp → Option DTree
  | .list [.atom "o", i, s] => do
      pure (.openLeaf (← asNat? i) (← asStr? s))
  | .list (.atom "n" :: i :: s :: kids) => do
      let ks ← kids.mapM decodeTree
      pure (.node (← asNat? i) (← asStr? s) ks)
  | _ => none

partial def encodeTree : DTree → Sexp
  | .openLeaf i s => .list [.atom "o", .num i, ofStr s]
  | .node i s ks => .list (.atom "n" :: .num i :: ofStr s :: ks.map encodeTree)

/-- canonical grammar `((nt ((sym …) …)) …)` -/
def decodeGrammar (x : Sexp) : Option (List (String × List (List String))) := do
  let rules ← asList? x
  rules.mapM fun r => do
    match r with
    | .list [nt, alts] =>
      let nt ← asStr? nt
      let alts ← asList? alts
      let alts ← alts.mapM fun a => do
        let syms ← asList? a
        syms.mapM asStr?
      pure (nt, alts)
    | _ => none

def bad : Sexp := .atom "bad-request"

end IslaVerif.Driver
