import IslaVerif.Model.Sexp
import IslaVerif.Driver.C04
namespace IslaVerif.Driver
open IslaVerif

def dispatch : Sexp → Sexp
  | .list (.atom "ping" :: rest) => .list (.atom "pong" :: rest)
  | .list (.atom "c04" :: rest) => C04.handle rest
  | _ => .atom "bad-request"

end IslaVerif.Driver
