import IslaVerif.Driver.XPath
import IslaVerif.Model.Sexp
import IslaVerif.Driver.C04
import IslaVerif.Driver.C09
import IslaVerif.Driver.C10
import IslaVerif.Driver.C16
import IslaVerif.Driver.C20
import IslaVerif.Driver.C19
import IslaVerif.Driver.C17
import IslaVerif.Driver.C15
import IslaVerif.Driver.C05
import IslaVerif.Driver.C11
import IslaVerif.Driver.Sem
import IslaVerif.Driver.C02
import IslaVerif.Driver.TreeOps
import IslaVerif.Driver.Alpha
import IslaVerif.Driver.Targets
import IslaVerif.Driver.Formats
namespace IslaVerif.Driver
open IslaVerif

def dispatch : Sexp → Sexp
  | .list (.atom "ping" :: rest) => .list (.atom "pong" :: rest)
  | .list (.atom "c04" :: rest) => C04.handle rest
  | .list (.atom "c09" :: rest) => C09.handle rest
  | .list (.atom "c10" :: rest) => C10.handle rest
  | .list (.atom "c16" :: rest) => C16.handle rest
  | .list (.atom "c20" :: rest) => C20.handle rest
  | .list (.atom "c19" :: rest) => C19.handle rest
  | .list (.atom "c17" :: rest) => C17.handle rest
  | .list (.atom "c15" :: rest) => C15.handle rest
  | .list (.atom "c05" :: rest) => C05.handle rest
  | .list (.atom "c11" :: rest) => C11.handle rest
  | .list (.atom "sem" :: rest) => SemD.handle rest
  | .list (.atom "c02" :: rest) => C02.handle rest
  | .list (.atom "tree" :: rest) => TreeOpsD.handle rest
  | .list (.atom "alpha" :: rest) => AlphaD.handle rest
  | .list (.atom "tgt" :: rest) => TargetsD.handle rest
  | .list (.atom "fmt" :: rest) => FormatsD.handle rest
  | .list (.atom "c08" :: rest) => XPathD.handle rest
  | _ => .atom "bad-request"

end IslaVerif.Driver
