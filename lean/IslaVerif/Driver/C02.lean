import IslaVerif.Driver.Decode
import IslaVerif.Model.SolveLoop
namespace IslaVerif.Driver.C02
open IslaVerif Sexp Driver SolveLoop

def decOptInt : Sexp → Option (Option Int)
  | .atom "none" => some none
  | x => (asInt? x).map some

def decEvt : Sexp → Option Evt
  | .list [n, q, .list fs] => do pure { now := (← asInt? n), qafter := (← asNat? q), found := (← fs.mapM asNat?) }
  | _ => none

def encOutcome : Outcome → Sexp
  | .tree i => .list [.atom "tree", .num i]
  | .stop => .atom "stop"
  | .timeout => .atom "timeout"
  | .outOfEvents => .atom "out-of-events"

/-- `(c02 run <timeout|none> (qlen (sols…) <start|none>) (callNow…) ((now qafter (found…))…))` -/
def handle : List Sexp → Sexp
  | [.atom "run", t, .list [q, .list sols, st], .list calls, .list evts] =>
    match decOptInt t, asNat? q, sols.mapM asNat?, decOptInt st, calls.mapM asInt?, evts.mapM decEvt with
    | some t, some q, some sols, some st, some calls, some evts =>
      .list ((run t { qlen := q, sols := sols, start := st } calls evts).map encOutcome)
    | _, _, _, _, _, _ => bad
  | _ => bad

end IslaVerif.Driver.C02
