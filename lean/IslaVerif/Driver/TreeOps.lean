import IslaVerif.Driver.Decode
import IslaVerif.Model.TreeOps
namespace IslaVerif.Driver.TreeOpsD
open IslaVerif Sexp Driver DTree

def decStep : Sexp → Option (Path × List String × List Nat)
  | .list [p, .list alt, ids] => do pure ((← asNats? p), (← alt.mapM asStr?), (← asNats? ids))
  | _ => none

def handle : List Sexp → Sexp
  -- (tree insertcheck g host ins r) -> (valid same-root all-host-nodes-kept contains-inserted)
  | [.atom "insertcheck", g, host, ins, r] =>
    match decodeGrammar g, decodeTree host, decodeTree ins, decodeTree r with
    | some g, some host, some ins, some r =>
      .list [ofBool (r.valid g), ofBool (r.sym == host.sym),
             ofBool (host.paths.all fun pu => r.paths.any fun qv => keepsNode pu.2 qv.2),
             ofBool (r.paths.any fun pu => embedsAt ins pu.2),
             ofBool (insertCheck g host ins r)]
    | _, _, _, _ => bad
  -- (tree completion g t r) -> (valid closed prefix)
  | [.atom "completion", g, t, r] =>
    match decodeGrammar g, decodeTree t, decodeTree r with
    | some g, some t, some r => .list [ofBool (r.valid g), ofBool r.closed, ofBool (embedsAt t r), ofBool (completionCheck g t r)]
    | _, _, _ => bad
  -- (tree mutation g t r) -> (valid closed same-root)
  | [.atom "mutation", g, t, r] =>
    match decodeGrammar g, decodeTree t, decodeTree r with
    | some g, some t, some r => .list [ofBool (r.valid g), ofBool r.closed, ofBool (r.sym == t.sym), ofBool (mutationCheck g t r)]
    | _, _, _ => bad
  -- (tree expandrun g t ((path (alt…) (ids…)) …)) -> resulting tree
  | [.atom "expandrun", g, t, .list steps] =>
    match decodeGrammar g, decodeTree t, steps.mapM decStep with
    | some g, some t, some steps => encodeTree (expandRun g t steps)
    | _, _, _ => bad
  | [.atom "swap", t, p, q] =>
    match decodeTree t, asNats? p, asNats? q with
    | some t, some p, some q => match swap t p q with
      | some t' => encodeTree t'
      | none => .atom "none"
    | _, _, _ => bad
  | _ => bad

end IslaVerif.Driver.TreeOpsD
