import IslaVerif.Driver.Decode
import IslaVerif.Model.Alpha
namespace IslaVerif.Driver.AlphaD
open IslaVerif Sexp Driver Alpha

partial def decNF : Sexp → Option NF
  | .list [.atom "atom", t, .list vs] => do pure (.atom (← asNat? t) (← vs.mapM asStr?))
  | .list [.atom "neg", f] => do pure (.neg (← decNF f))
  | .list (.atom "conj" :: fs) => do pure (.conj (← fs.mapM decNF))
  | .list (.atom "disj" :: fs) => do pure (.disj (← fs.mapM decNF))
  | .list [.atom "all", .list bs, iv, f] => do pure (.all (← bs.mapM asStr?) (← asStr? iv) (← decNF f))
  | .list [.atom "ex", .list bs, iv, f] => do pure (.ex (← bs.mapM asStr?) (← asStr? iv) (← decNF f))
  | .list [.atom "allint", v, f] => do pure (.allInt (← asStr? v) (← decNF f))
  | .list [.atom "exint", v, f] => do pure (.exInt (← asStr? v) (← decNF f))
  | _ => none

/-- `(alpha check f g)` -> (alpha-equivalent binders-of-g-unique) -/
def handle : List Sexp → Sexp
  | [.atom "check", f, g] =>
    match decNF f, decNF g with
    | some f, some g => .list [ofBool (alphaEq f g), ofBool (uniqueBinders g)]
    | _, _ => bad
  | _ => bad

end IslaVerif.Driver.AlphaD
