import IslaVerif.Model.Preds
namespace IslaVerif.C04
theorem placeholder : True := trivial
end IslaVerif.C04
