import IslaVerif.Model.Preds
import IslaVerif.Proofs.C04
/-
C04 — structural predicates have their documented meaning for every pair of nodes.
ONLY property theorems + non-vacuity examples live here; helper lemmas are in Proofs/C04.lean.
The specifications (`DocBefore`, `NthSpec`, `LevelSpec`, …) are defined in Proofs/C04.lean
section "Specifications" and repeated in comments here.
-/
namespace IslaVerif.C04
open IslaVerif IslaVerif.Preds

/-- before(node_1, node_2): node_1 occurs strictly before node_2 in document order and neither is
below the other: the paths diverge at some position, node_1 taking the smaller child index. -/
theorem before_iff (p q : Path) : isBefore p q = true ↔ DocBefore p q := isBefore_iff p q

/-- after(node_1, node_2): node_2 is before node_1 (in particular, neither is below the other). -/
theorem after_iff (p q : Path) : isAfter p q = true ↔ DocBefore q p := isBefore_iff q p

/-- before/after never hold between a node and one of its ancestors/descendants or itself -/
theorem before_not_prefix (p q : Path) (h : isBefore p q = true) : ¬ p <+: q ∧ ¬ q <+: p :=
  docBefore_not_prefix ((isBefore_iff p q).1 h)

theorem same_iff (p q : Path) : isSamePosition p q = true ↔ p = q := by
  simp [isSamePosition]

theorem different_iff (p q : Path) : isDifferentPosition p q = true ↔ p ≠ q := by
  simp [isDifferentPosition, isSamePosition]

/-- inside(node_1, node_2): node_1 is in the subtree of node_2 (node_2's path is a prefix) -/
theorem inside_iff (p q : Path) : inTree p q = true ↔ q <+: p := inTree_iff p q

/-- direct_child(node_1, node_2) -/
theorem child_iff (p q : Path) : isDirectChild p q = true ↔ ∃ i, p = q ++ [i] := isDirectChild_iff p q

/-- nth(N, node_1, node_2): node_1 lies within node_2 and, in the pre-order enumeration of node_2's
subtree, node_1 is the N-th node carrying node_1's (nonterminal) symbol. -/
theorem nth_iff (isNT : String → Bool) (t : DTree) (n : Nat) (p q : Path) (u v : DTree)
    (hu : t.get p = some u) (hv : t.get q = some v) (hnt : isNT u.sym = true) :
    isNth isNT t n p q = .val true ↔ q <+: p ∧ NthSpec u.sym n (p.drop q.length) v.paths :=
  isNth_iff isNT t n p q u v hu hv hnt

/-- consecutive(node_1, node_2): node_1 is before node_2 and no other leaf of the tree lies
strictly between them in document order. -/
theorem consecutive_iff (t : DTree) (p q : Path) (u v : DTree)
    (hu : t.get p = some u) (hv : t.get q = some v) :
    consecutive t p q = .val true ↔
      DocBefore p q ∧ ¬ ∃ l ∈ t.leaves, l.1 ≠ p ∧ l.1 ≠ q ∧ DocBefore p l.1 ∧ DocBefore l.1 q :=
  consecutive_iff' t p q u v hu hv

/-- level(PRED, NT, node_1, node_2): there is a common prefix of both paths that is empty or points to
an NT node such that, below it, the proper ancestors of the two nodes satisfy PRED's condition on
NT-labelled nodes (the commented definition in isla_predicates.py). -/
theorem level_iff (t : DTree) (op : LevelOp) (nt : String) (p q : Path) :
    levelCheck t op nt p q = true ↔ LevelSpec t op nt p q :=
  levelCheck_iff t op nt p q


/-! ### document order is a strict partial order on positions, total up to ancestry
(added: `before` is irreflexive, asymmetric and transitive for all paths; any two positions are
related by before, after, or one lies inside the other — with `before_not_prefix` the four cases
before / after / ancestor-or-self / descendant-or-self are exhaustive and before/after exclude the rest) -/
theorem before_irrefl (p : Path) : isBefore p p = false := by
  induction p with
  | nil => rfl
  | cons a p ih => simp [isBefore, ih]

theorem before_asymm (p q : Path) (h : isBefore p q = true) : isBefore q p = false := by
  induction p generalizing q with
  | nil => simp [isBefore] at h
  | cons a p ih =>
    cases q with
    | nil => simp [isBefore] at h
    | cons b q =>
      simp only [isBefore] at h ⊢
      by_cases h1 : a < b
      · have : ¬ b < a := by omega
        simp [this, h1]
      · by_cases h2 : b < a
        · simp [h1, h2] at h
        · simp [h1, h2] at h ⊢; exact ih q h

theorem before_trans (p q r : Path) (h1 : isBefore p q = true) (h2 : isBefore q r = true) :
    isBefore p r = true := by
  induction p generalizing q r with
  | nil => simp [isBefore] at h1
  | cons a p ih =>
    cases q with
    | nil => simp [isBefore] at h1
    | cons b q =>
      cases r with
      | nil => simp [isBefore] at h2
      | cons c r =>
        simp only [isBefore] at h1 h2 ⊢
        by_cases hab : a < b
        · by_cases hbc : b < c
          · have : a < c := by omega
            simp [this]
          · by_cases hcb : c < b
            · simp [hbc, hcb] at h2
            · have : a < c := by omega
              simp [this]
        · by_cases hba : b < a
          · simp [hab, hba] at h1
          · simp [hab, hba] at h1
            have hab' : a = b := by omega
            subst hab'
            by_cases hbc : a < c
            · simp [hbc]
            · by_cases hcb : c < a
              · simp [hbc, hcb] at h2
              · simp [hbc, hcb] at h2 ⊢; exact ih q r h1 h2

/-- every pair of positions is related in exactly one of four ways -/
theorem position_total (p q : Path) :
    isBefore p q = true ∨ isAfter p q = true ∨ inTree p q = true ∨ inTree q p = true := by
  induction p generalizing q with
  | nil => right; right; right; simp [inTree]
  | cons a p ih =>
    cases q with
    | nil => right; right; left; simp [inTree]
    | cons b q =>
      simp only [isAfter, isBefore]
      by_cases h1 : a < b
      · simp [h1]
      · by_cases h2 : b < a
        · simp [h2]
        · have : a = b := by omega
          subst this
          have := ih q
          simp [isAfter, inTree] at this ⊢
          exact this

/-! non-vacuity: concrete pairs incl. ancestor/descendant and identical ones -/
example : isBefore [0, 1] [0, 2, 5] = true ∧ isBefore [0] [0, 1] = false ∧ isAfter [0, 1] [0] = false
    ∧ isAfter [1] [0, 3] = true ∧ isBefore [1] [1] = false := by decide
example : DocBefore [0, 1] [0, 2, 5] := ⟨[0], 1, 2, [], [5], rfl, rfl, by decide⟩

def exTree : DTree :=
  .node 0 "<s>" [.node 1 "<a>" [.node 2 "x" [], .node 3 "<a>" [.node 4 "y" []], .node 5 "z" []]]
example : consecutive exTree [0, 0] [0, 1, 0] = .val true ∧ consecutive exTree [0, 0] [0, 2] = .val false := by decide
example : isNth (fun s => s.toList.head? == some (Char.ofNat 60)) exTree 2 [0, 1] [] = .val true := by decide
example : levelCheck exTree .GT "<a>" [0, 0] [0, 1, 0] = true ∧ levelCheck exTree .EQ "<a>" [0, 0] [0, 1, 0] = false := by decide

end IslaVerif.C04
