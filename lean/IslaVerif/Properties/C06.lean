import IslaVerif.Proofs.Open
/-
C06 — three-valued verdicts on partial trees never contradict any completion.

`evalOpen` (Model/Open.lean) is a conservative three-valued evaluator for OPEN derivation trees:
SMT atoms only when every tree they mention is closed, the path-only structural predicates,
tree quantifiers over the existing nodes guarded by certified grammar reachability from the open
leaves of the `in` tree, everything else only on closed trees.  `completes g t t'`: `t'` is a
closed derivation tree of `g` that extends `t` with the same node identities.
Proved for EVERY grammar, partial tree, completion, environment and formula: a definite answer of
`evalOpen` is the answer of the reference evaluator — hence the truth value of the specification
`Sat` — on the completion.  The real evaluator's own might-match logic is NOT modelled; its
definite verdicts are compared with the verified reference on sampled completions (see c06.py).
-/
namespace IslaVerif.C06
open IslaVerif Sem

/-- a definite verdict on the partial tree is the reference verdict on every closed completion -/
theorem evalOpen_stable (w : World) (t' : DTree) (h0 : Grammar.isNT w.g "" = false)
    (hc : completes w.g w.root t' = true) (β : Env) (f : Fm) (b : Bool) (h : evalOpen w β f = some b) :
    evalRef (w.withRoot t') β f = some b := evalOpen_stable' w t' h0 hc β f b h

/-- … and therefore the truth value of the specification on every closed completion -/
theorem evalOpen_sat (w : World) (t' : DTree) (h0 : Grammar.isNT w.g "" = false)
    (hc : completes w.g w.root t' = true) (β : Env) (f : Fm) (b : Bool) (h : evalOpen w β f = some b) :
    b = true ↔ Sat (w.withRoot t') β f := evalOpen_sat' w t' h0 hc β f b h

/-- two completions of the same partial tree can never get different verdicts once `evalOpen` is definite -/
theorem completions_agree (w : World) (t1 t2 : DTree) (h0 : Grammar.isNT w.g "" = false)
    (h1 : completes w.g w.root t1 = true) (h2 : completes w.g w.root t2 = true)
    (β : Env) (f : Fm) (b : Bool) (h : evalOpen w β f = some b) :
    (Sat (w.withRoot t1) β f ↔ Sat (w.withRoot t2) β f) :=
  ((evalOpen_sat' w t1 h0 h1 β f b h).symm).trans (evalOpen_sat' w t2 h0 h2 β f b h)

/-- on a closed tree `evalOpen` never disagrees with the reference evaluator -/
theorem evalOpen_closed (w : World) (h0 : Grammar.isNT w.g "" = false) (hv : w.root.valid w.g = true)
    (hcl : w.root.closed = true) (β : Env) (f : Fm) (b : Bool) (h : evalOpen w β f = some b) :
    evalRef w β f = some b := evalOpen_closed' w h0 hv hcl β f b h

/-- a definite TRUE on a partial tree: EVERY closed completion satisfies the constraint -/
theorem evalOpen_true_all (w : World) (h0 : Grammar.isNT w.g "" = false) (β : Env) (f : Fm)
    (h : evalOpen w β f = some true) :
    ∀ t', completes w.g w.root t' = true → Sat (w.withRoot t') β f :=
  fun t' hc => (evalOpen_sat w t' h0 hc β f true h).1 rfl

/-- a definite FALSE on a partial tree: NO closed completion satisfies the constraint (the solver may
discard the state) -/
theorem evalOpen_false_none (w : World) (h0 : Grammar.isNT w.g "" = false) (β : Env) (f : Fm)
    (h : evalOpen w β f = some false) :
    ∀ t', completes w.g w.root t' = true → ¬ Sat (w.withRoot t') β f :=
  fun t' hc hs => Bool.false_ne_true ((evalOpen_sat w t' h0 hc β f false h).2 hs)

/-! non-vacuity: `forall <d> d in start: (= d "1")` on `<start>(<d>("1"), <d>?)` is undecided, on
`<start>(<d>("0"), <d>?)` it is FALSE; `forall <x> …` over an unreachable type is TRUE -/
def gEx : Grammar := [("<start>", [["<d>", "<d>"]]), ("<d>", [["0"], ["1"]])]
def phi : Fm := .all "d" "<d>" "start" none (.smt (.app "eq" [.var "d", .str ['1']]))
def wOf (t : DTree) : World := { g := gEx, root := t, isNT := fun s => s.startsWith "<", intBound := 4 }
def t1o : DTree := .node 0 "<start>" [.node 1 "<d>" [.node 2 "1" []], .openLeaf 3 "<d>"]
def t0o : DTree := .node 0 "<start>" [.node 1 "<d>" [.node 2 "0" []], .openLeaf 3 "<d>"]
def t01 : DTree := .node 0 "<start>" [.node 1 "<d>" [.node 2 "0" []], .node 3 "<d>" [.node 4 "1" []]]
example : evalOpen (wOf t1o) [("start", .path [])] phi = none := by decide +kernel
example : evalOpen (wOf t0o) [("start", .path [])] phi = some false := by decide +kernel
example : completes gEx t0o t01 = true ∧ Grammar.isNT gEx "" = false := by decide +kernel

end IslaVerif.C06
