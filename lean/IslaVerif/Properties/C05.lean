import IslaVerif.Model.Smt
namespace IslaVerif.C05
theorem placeholder : True := trivial
end IslaVerif.C05
