import IslaVerif.Model.Smt
import IslaVerif.Proofs.C05
/-
C05 — ground SMT-LIB atoms are judged exactly as Z3 judges them.
The theorems state that the oracle model `Smt.eval` — with which Z3 itself and every ISLa decision
point are compared on each run — implements the SMT-LIB 2.6 definitions (Ints, Strings, RegLan).
`wt`, `divisorsOk`, `Ty`, `valTy` are defined in Proofs/C05.lean.
-/
namespace IslaVerif.C05
open IslaVerif IslaVerif.Smt

/-- Ints: for b ≠ 0, a = b·(a div b) + (a mod b) and 0 ≤ a mod b < |b| — and this determines div/mod -/
theorem divMod_spec (a b : Int) (hb : b ≠ 0) :
    a = b * smtDiv a b + smtMod a b ∧ 0 ≤ smtMod a b ∧ smtMod a b < (Int.ofNat b.natAbs) := divMod_spec' a b hb
theorem divMod_unique (a b q r : Int) (hb : b ≠ 0) (h : a = b * q + r) (h0 : 0 ≤ r)
    (h1 : r < (Int.ofNat b.natAbs)) : q = smtDiv a b ∧ r = smtMod a b := divMod_unique' a b q r hb h h0 h1

/-- Strings: substr / at / indexof / replace meet their SMT-LIB definitions on ALL arguments,
including negative and out-of-range indices and empty patterns -/
theorem substr_spec (w : List Char) (m n : Int) :
    (0 ≤ m ∧ m < w.length ∧ 0 < n →
      ∃ w1 w3, w = w1 ++ strSubstr w m n ++ w3 ∧ (w1.length : Int) = m ∧
        ((strSubstr w m n).length : Int) = min n (w.length - m)) ∧
    (¬ (0 ≤ m ∧ m < w.length ∧ 0 < n) → strSubstr w m n = []) := substr_spec' w m n
theorem at_spec (w : List Char) (m : Int) :
    (0 ≤ m ∧ m < w.length → ∃ c, w[m.toNat]? = some c ∧ strAtF w m = [c]) ∧
    (¬ (0 ≤ m ∧ m < w.length) → strAtF w m = []) := at_spec' w m
theorem indexOf_spec (s t : List Char) (i : Int) :
    (strIndexOf s t i = -1 ↔ (i < 0 ∨ i > s.length ∨ ∀ k : Nat, i ≤ k → k ≤ s.length → ¬ t <+: s.drop k)) ∧
    (∀ j : Nat, strIndexOf s t i = j →
      i ≤ j ∧ t <+: s.drop j ∧ ∀ k : Nat, i ≤ k → k < j → ¬ t <+: s.drop k) := indexOf_spec' s t i
theorem replace_spec (s t t' : List Char) :
    (strContains s t = false → strReplace s t t' = s) ∧
    (strContains s t = true → ∃ u v, s = u ++ t ++ v ∧ strReplace s t t' = u ++ t' ++ v ∧
      ∀ k, k < u.length → ¬ t <+: s.drop k) := replace_spec' s t t'
theorem toInt_fromInt (n : Int) (h : 0 ≤ n) : strToInt (strFromInt n) = n := toInt_fromInt' n h
theorem toInt_nonnumeral (s : List Char) (h : s = [] ∨ ∃ c ∈ s, isDigitC c = false) : strToInt s = -1 :=
  toInt_nonnumeral' s h

/-- RegLan: membership atoms are decided according to the SMT-LIB denotation of the regex -/
theorem inRe_spec (s : List Char) (r : Re) :
    eval (.inRe (.strLit s) r) = some (.bool (decide (Re.matchB r s = true))) ∧
    (Re.matchB r s = true ↔ Re.Lang r s) := inRe_spec' s r

/-- evaluation never fails on a well-typed term unless a divisor is zero, and yields a value of the
term's type ("never raises instead of answering", for the oracle) -/
theorem eval_defined (t : Term) (τ : Ty) (h : wt t τ = true) (hd : divisorsOk t = true) :
    ∃ v, eval t = some v ∧ valTy v = τ := eval_defined' t τ h hd
theorem eval_type (t : Term) (τ : Ty) (v : Val) (h : wt t τ = true) (he : eval t = some v) : valTy v = τ :=
  eval_type' t τ v h he

/-! non-vacuity -/
example : smtDiv (-7) 2 = -4 ∧ smtMod (-7) 2 = 1 ∧ smtDiv 7 (-2) = -3 ∧ smtMod 7 (-2) = 1 := by decide
example : eval (.eq (.strAt (.strLit "ab".toList) (.intLit 5)) (.strLit [])) = some (.bool true) := by decide
example : wt (.eq (.div (.intLit 7) (.len (.strLit ['a']))) (.intLit 7)) .bool = true ∧
    divisorsOk (.eq (.div (.intLit 7) (.len (.strLit ['a']))) (.intLit 7)) = true := by decide

end IslaVerif.C05
