import IslaVerif.Model.PTree
namespace IslaVerif.C16
theorem placeholder : True := trivial
end IslaVerif.C16
