import IslaVerif.Model.PTree
import IslaVerif.Proofs.C16a
import IslaVerif.Proofs.C16b
/-
C16 — derivation-tree operations keep paths, strings, openness and identity consistent.
ONLY property theorems + non-vacuity examples.  Specifications (`cacheOk`, `leafStr`, `joinStrs`,
`uniqueIds`, `keyBound`) are defined in Proofs/C16a.lean / C16b.lean.
-/
namespace IslaVerif.C16
open IslaVerif IslaVerif.PTree IslaVerif.DTree

/-! #### openness caches are never wrong, in any state reachable by any operation sequence -/

theorem cacheOk_constructor (d : DTree) : cacheOk (ofDTree d) = true := cacheOk_ofDTree' d

theorem cacheOk_step (isNT : String → Bool) (t t' : PTree) (op : Op) (r : Option Bool)
    (ht : cacheOk t = true) (h : applyOp isNT t op = some (t', r)) : cacheOk t' = true :=
  cacheOk_applyOp' isNT t t' op r ht h

/-- every state reachable from a constructor-built tree by any sequence of
replace_path / is_open / substitute / expansion operations has consistent caches -/
theorem cacheOk_reachable (isNT : String → Bool) (d : DTree) (ops : List Op) :
    cacheOk (runOps isNT (ofDTree d) ops) = true := cacheOk_runOps' isNT d ops

/-- hence `is_open()` is correct in every reachable state: open exactly when some leaf is unexpanded -/
theorem isOpen_correct (t : PTree) (h : cacheOk t = true) :
    (isOpenOp t).1 = (erase t).hasOpen ∧ cacheOk (isOpenOp t).2 = true ∧ erase (isOpenOp t).2 = erase t :=
  isOpenOp_correct' t h

theorem hasOpen_iff (t : DTree) : t.hasOpen = true ↔ ∃ pu ∈ t.paths, pu.2.isOpenLeaf = true := hasOpen_iff' t

/-! #### strings -/
/-- the string of a tree is the concatenation of its leaves -/
theorem yield_eq_leaves (isNT : String → Bool) (t : DTree) :
    t.yieldOpen isNT = joinStrs (t.leaves.map (fun pu => leafStr isNT pu.2)) := yield_eq_leaves' isNT t

/-! #### path lookup, node search and the path-indexed view agree -/
theorem paths_iff_get (t : DTree) (r : Path) (x : DTree) : (r, x) ∈ t.paths ↔ t.get r = some x :=
  IslaVerif.C04.mem_paths_iff t r x

theorem findNode_spec (t : DTree) (hu : uniqueIds t) (i : Nat) (p : Path) :
    t.findNode i = some p ↔ ∃ u, t.get p = some u ∧ u.id = i := findNode_spec' t hu i p

/-- the sub-trie rooted at any path lists exactly that subtree's own paths, for any branching degree -/
theorem trieItems_eq (t sub : DTree) (r : Path) (h : t.get r = some sub) : t.trieItems r = sub.paths :=
  trieItems_eq' t sub r h

/-- trie keys: total up to the bound of the generated constants, invertible, inside datrie's alphabet,
prefix-preserving (these are the obligations re-checked when src/isla/trie.py changes) -/
theorem encodeKey_total (p : Path) (h : ∀ i ∈ p, i < keyBound) : ∃ k, PTree.encodeKey p = some k := encodeKey_total' p h
theorem decode_encode (p : Path) (k : List Nat) (h : PTree.encodeKey p = some k) : PTree.decodeKey k = some p :=
  decode_encode' p k h
theorem encodeKey_alphabet (p : Path) (k : List Nat) (h : PTree.encodeKey p = some k) :
    ∀ c ∈ k, Generated.Trie.alphabetLo ≤ c ∧ c ≤ Generated.Trie.alphabetHi := encodeKey_alphabet' p k h
theorem encodeKey_prefix (p q : Path) (k k' : List Nat)
    (hp : PTree.encodeKey p = some k) (hq : PTree.encodeKey q = some k') : p <+: q ↔ k <+: k' :=
  encodeKey_prefix' p q k k' hp hq

/-! #### replacement is local -/
theorem replace_erase (t r t' : PTree) (p : Path) (h : replacePath t p r false = some t') :
    DTree.replace (erase t) p (erase r) = some (erase t') := erase_replacePath' t r t' p h
theorem replace_get_self (t t' u : DTree) (p : Path) (h : t.replace p u = some t') : t'.get p = some u :=
  replace_get_self' t t' u p h
theorem replace_get_disjoint (t t' u : DTree) (p q : Path) (h : t.replace p u = some t')
    (h1 : ¬ p <+: q) (h2 : ¬ q <+: p) : t'.get q = t.get q := replace_get_disjoint' t t' u p q h h1 h2
theorem replace_get_above (t t' u : DTree) (p q : Path) (h : t.replace p u = some t')
    (h1 : q <+: p) (h2 : q ≠ p) :
    ∃ a b, t.get q = some a ∧ t'.get q = some b ∧ a.id = b.id ∧ a.sym = b.sym ∧ a.kids.length = b.kids.length :=
  replace_get_above' t t' u p q h h1 h2

/-! #### replacement algebra: last write wins, self-replacement is the identity, defined exactly on the tree's paths -/
/-- replacing twice at the same path keeps only the second replacement -/
theorem replace_replace (t t' u v : DTree) (p : Path) (h : t.replace p u = some t') :
    t'.replace p v = t.replace p v := by
  induction p generalizing t t' with
  | nil => simp [replace]
  | cons j p ih =>
    obtain ⟨i, s, ks, k, k', rfl, hk, hr, rfl⟩ := replace_cons_inv h
    have hj : j < ks.length := by
      rcases List.getElem?_eq_some_iff.1 hk with ⟨hj, _⟩; exact hj
    simp only [replace, hk, List.getElem?_set_self hj, ih k k' hr, List.set_set]

/-- replacing a subtree by itself changes nothing -/
theorem replace_get_id (t u : DTree) (p : Path) (h : t.get p = some u) : t.replace p u = some t := by
  induction p generalizing t with
  | nil => simp [DTree.get] at h; simp [replace, h]
  | cons j p ih =>
    cases t with
    | openLeaf i s => simp [DTree.get, DTree.kids] at h
    | node i s ks =>
      simp only [DTree.get, DTree.kids] at h
      cases hk : ks[j]? with
      | none => simp [hk] at h
      | some k =>
        simp only [hk] at h
        simp only [replace, hk, ih k h]
        have hj : j < ks.length := by
          rcases List.getElem?_eq_some_iff.1 hk with ⟨hj, _⟩; exact hj
        have : ks[j] = k := by simpa [hj] using hk
        simp [← this]

/-- replacement succeeds exactly at the paths of the tree -/
theorem replace_isSome_iff (t u : DTree) (p : Path) : (t.replace p u).isSome ↔ (t.get p).isSome := by
  induction p generalizing t with
  | nil => simp [replace, DTree.get]
  | cons j p ih =>
    cases t with
    | openLeaf i s => simp [replace, DTree.get, DTree.kids]
    | node i s ks =>
      simp only [replace, DTree.get, DTree.kids]
      cases hk : ks[j]? with
      | none => simp
      | some k =>
        have := ih k
        cases hr : k.replace p u <;> simp [hr] at this ⊢ <;> simpa using this

/-! #### structural hash -/
theorem structEq_hash (hLeaf : String → Nat) (hNode : String → List Nat → Nat) (a b : DTree)
    (h : structEq a b = true) : structHash hLeaf hNode a = structHash hLeaf hNode b :=
  structEq_hash' hLeaf hNode a b h

/-! non-vacuity -/
def exT : DTree := .node 1 "<s>" [.node 2 "<a>" [.openLeaf 3 "<b>", .node 4 "x" []], .node 5 "<a>" [.node 6 "y" []]]
example : cacheOk (ofDTree exT) = true := by decide
example : (isOpenOp (ofDTree exT)).1 = true ∧ exT.hasOpen = true := by decide
example : uniqueIds exT := by unfold uniqueIds; decide
example : exT.findNode 4 = some [0, 1] ∧ (exT.get [0, 1]).map DTree.id = some 4 := by decide
example : PTree.encodeKey [0, 300] = some [1, 2, 254, 2, 2, 2, 50] := by decide
example : (300 : Nat) < keyBound := by decide

end IslaVerif.C16
