import IslaVerif.Proofs.Recognizer
namespace IslaVerif.C10
open IslaVerif Rec
/-- whenever the reference recognizer answers, its answer is exactly derivability of the whole string -/
theorem recognize_iff {g : Grammar} {A : String} {s : List Char} {b : Bool} (h : recognize g A s = some b) :
    b = true ↔ Der g s A 0 s.length := recognize_iff' h
end IslaVerif.C10
