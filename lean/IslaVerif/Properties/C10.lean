import IslaVerif.Proofs.Recognizer
import IslaVerif.Proofs.C10
/-
C10 — the parser accepts exactly the grammar's language and returns faithful trees.
The theorems are about the *reference* recognizer and tree checker the real parser is compared
with on every input (the Earley implementation itself is validated per input, not proved).
`InLang g A s` (Proofs/C10.lean): some valid closed derivation tree rooted in `A` yields `s`.
-/
namespace IslaVerif.C10
open IslaVerif Rec Grammar

/-- whenever the reference recognizer answers, its answer is exactly derivability of the whole string -/
theorem recognize_iff {g : Grammar} {A : String} {s : List Char} {b : Bool} (h : recognize g A s = some b) :
    b = true ↔ Der g s A 0 s.length := recognize_iff' h

/-- … which is membership in the language of `A` in the sense of derivation trees
(for grammars in which the empty string is not a nonterminal — always the case: nonterminals are `<…>`) -/
theorem recognize_inLang {g : Grammar} {A : String} {s : List Char} {b : Bool}
    (h0 : isNT g "" = false) (hA : isNT g A = true) (h : recognize g A s = some b) :
    b = true ↔ InLang g A s :=
  (recognize_iff h).trans ⟨tree_of_der' g A s, der_of_tree' g A s h0 hA⟩

/-- the tree checker used on every tree the parser yields: all four clauses hold exactly when the
tree witnesses `s ∈ L(A)` -/
theorem checkTree_iff (g : Grammar) (A : String) (s : String) (t : DTree) :
    (t.valid g = true ∧ t.closed = true ∧ (t.sym == A) = true ∧ (t.yieldC g == s.toList) = true) ↔
    (t.valid g = true ∧ t.closed = true ∧ t.sym = A ∧ t.yieldC g = s.toList) := by
  simp

/-- a certified tree proves membership -/
theorem checkTree_sound (g : Grammar) (A : String) (s : String) (t : DTree)
    (h : t.valid g = true ∧ t.closed = true ∧ t.sym = A ∧ t.yieldC g = s.toList) : InLang g A s.toList :=
  ⟨t, h.1, h.2.1, h.2.2.1, h.2.2.2⟩

/-- the two verified references can never disagree: a tree accepted by the tree checker forces the
recognizer's answer to be `true` (so "parser yields a certified tree" and "recognizer rejects" on the
same input is impossible for every grammar and string) -/
theorem checkTree_recognize (g : Grammar) (A : String) (s : String) (t : DTree) (b : Bool)
    (h0 : isNT g "" = false) (hA : isNT g A = true)
    (h : t.valid g = true ∧ t.closed = true ∧ t.sym = A ∧ t.yieldC g = s.toList)
    (hr : recognize g A s.toList = some b) : b = true :=
  (recognize_inLang h0 hA hr).2 (checkTree_sound g A s t h)

/-- a string rejected by the recognizer has no derivation tree at all -/
theorem reject_no_tree (g : Grammar) (A : String) (s : String)
    (h0 : isNT g "" = false) (hA : isNT g A = true) (hr : recognize g A s.toList = some false) :
    ¬ ∃ t : DTree, t.valid g = true ∧ t.closed = true ∧ t.sym = A ∧ t.yieldC g = s.toList := by
  rintro ⟨t, h⟩
  exact Bool.false_ne_true (checkTree_recognize g A s t false h0 hA h hr)

/-! non-vacuity: a nullable, left-recursive, ambiguous grammar -/
def gEx : Grammar := [("<s>", [["<s>", "<s>"], ["a"], []])]
example : recognize gEx "<s>" "aaa".toList = some true ∧ recognize gEx "<s>" "ab".toList = some false := by decide
example : isNT gEx "" = false ∧ isNT gEx "<s>" = true := by decide

end IslaVerif.C10
