import IslaVerif.Proofs.Sem
/-
C03 — evaluate() / ISLaSolver.check() agree with the ISLa language specification on closed trees.

`Sat` (Proofs/Sem.lean) is the Prop-valued specification transcribed from islaspec.rst: tree
quantifiers with and without match expressions over ALL matching (path, subtree) pairs, numeric
quantifiers over ALL natural numbers, structural predicates, count, SMT-LIB atoms, connectives.
`evalRef` is the executable reference evaluator that the real `evaluate()` and `check()` are
compared with on every explored (constraint, tree) pair.  The theorems say that this oracle is
right: a definite answer of `evalRef` IS the truth value of the specification, for every grammar,
tree, environment and formula.  (The atoms' own meaning is the subject of C04 / C05 / C20.)
-/
namespace IslaVerif.C03
open IslaVerif Sem

/-- whenever the reference evaluator answers, its answer is the truth value of the specification -/
theorem evalRef_sound (w : World) (β : Env) (f : Fm) (b : Bool) (h : evalRef w β f = some b) :
    b = true ↔ Sat w β f := evalRef_sound' w β f b h

theorem evalRef_true (w : World) (β : Env) (f : Fm) (h : evalRef w β f = some true) : Sat w β f :=
  (evalRef_sound' w β f true h).1 rfl

theorem evalRef_false (w : World) (β : Env) (f : Fm) (h : evalRef w β f = some false) : ¬ Sat w β f :=
  fun hs => by have := (evalRef_sound' w β f false h).2 hs; cases this

/-- the enumerated quantifier domain is exactly "all nodes of the `in` tree labelled with the
quantified nonterminal" — for nodes of any branching degree (no bound on child indices) -/
theorem domain_exact (w : World) (β : Env) (ty inVar : String) (ps : List Path)
    (h : domain w β ty inVar = some ps) (r : Path) :
    r ∈ ps ↔ ∃ p sub q t, β.get inVar = some (.path p) ∧ w.root.get p = some sub ∧
      sub.get q = some t ∧ t.sym = ty ∧ r = p ++ q := domain_spec w β ty inVar ps h r

/-- a universal quantifier over an empty domain holds, whatever its body (the defect repaired by
58e0f75 made the implementation answer FALSE here) -/
theorem forall_vacuous (w : World) (β : Env) (v ty inVar : String) (f : Fm)
    (h : ∀ β', ¬ TreeInst w β v ty inVar β') : Sat w β (.all v ty inVar none f) := by
  simp only [Sat]
  intro β' hβ'
  exact absurd hβ' (h β')

/-- an existential quantifier over an empty domain is false, whatever its body -/
theorem exists_empty (w : World) (β : Env) (v ty inVar : String) (f : Fm)
    (h : ∀ β', ¬ TreeInst w β v ty inVar β') : ¬ Sat w β (.ex v ty inVar none f) := by
  simp only [Sat]
  rintro ⟨β', hβ', _⟩
  exact h β' hβ'

/-- quantifier duality of the specification, with or without a match expression:
`not forall x: φ` means `exists x: not φ` -/
theorem not_forall_iff (w : World) (β : Env) (v ty inVar : String) (m : Option (List MTree)) (f : Fm) :
    Sat w β (.neg (.all v ty inVar m f)) ↔ Sat w β (.ex v ty inVar m (.neg f)) := by
  cases m <;> simp only [Sat] <;> constructor
  · intro h; apply Classical.byContradiction; intro hc
    exact h (fun β' hβ' => Classical.byContradiction fun hn => hc ⟨β', hβ', hn⟩)
  · rintro ⟨β', hβ', hn⟩ h; exact hn (h β' hβ')
  · intro h; apply Classical.byContradiction; intro hc
    exact h (fun β' hβ' => Classical.byContradiction fun hn => hc ⟨β', hβ', hn⟩)
  · rintro ⟨β', hβ', hn⟩ h; exact hn (h β' hβ')

theorem not_exists_iff (w : World) (β : Env) (v ty inVar : String) (m : Option (List MTree)) (f : Fm) :
    Sat w β (.neg (.ex v ty inVar m f)) ↔ Sat w β (.all v ty inVar m (.neg f)) := by
  cases m <;> simp only [Sat] <;> constructor
  · intro h β' hβ' hs; exact h ⟨β', hβ', hs⟩
  · rintro h ⟨β', hβ', hs⟩; exact h β' hβ' hs
  · intro h β' hβ' hs; exact h ⟨β', hβ', hs⟩
  · rintro h ⟨β', hβ', hs⟩; exact h β' hβ' hs

/-! non-vacuity: `forall <d> d in start: (= d "1")` and `exists …` on the tree `<start>(<d>("1"), <d>("0"))`;
a node with 30 children whose last child is the only witness -/
def gEx : Grammar := [("<start>", [["<d>", "<d>"]]), ("<d>", [["0"], ["1"]])]
def tEx : DTree := .node 0 "<start>" [.node 1 "<d>" [.node 2 "1" []], .node 3 "<d>" [.node 4 "0" []]]
def wEx : World := { g := gEx, root := tEx, isNT := fun s => s.startsWith "<", intBound := 4 }
def bodyEx : Fm := .smt (.app "eq" [.var "d", .str ['1']])
example : evalRef wEx [("start", .path [])] (.all "d" "<d>" "start" none bodyEx) = some false := by decide +kernel
example : evalRef wEx [("start", .path [])] (.ex "d" "<d>" "start" none bodyEx) = some true := by decide +kernel
example : evalRef wEx [("start", .path [])] (.all "x" "<nope>" "start" none (.smt (.bool false))) = some true := by decide +kernel

end IslaVerif.C03
