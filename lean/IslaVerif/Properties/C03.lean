import IslaVerif.Model.Sem
namespace IslaVerif.C03
theorem placeholder : True := trivial
end IslaVerif.C03
