import IslaVerif.Model.Serial
import IslaVerif.Proofs.C17
/-
C17 — serialized trees round-trip without damaging the original (tree codec + object-state machine).
-/
namespace IslaVerif.C17
open IslaVerif IslaVerif.Serial IslaVerif.Serial.CTree

/-- decoding an encoded tree gives back the same tree — structure, node identities, labels and the
serialized cache fields — with the two (unserializable) k-path caches emptied -/
theorem decode_encode (t : CTree) : decode (encode t) = some (clearK t) := decode_encode' t
theorem erase_clearK (t : CTree) : erase (clearK t) = erase t := erase_clearK' t

/-- the serialized form does not depend on previously computed k-path caches, anywhere in the tree -/
theorem encode_clearK (t : CTree) : encode (clearK t) = encode t := encode_clearK' t

/-- every operation succeeds in every state (unless it addresses a path that does not exist) -/
theorem step_total (t : CTree) (op : Op) :
    (∀ cls, (step t op).2 ≠ .error cls) ∨
    (∃ p, (op = .kPaths p ∨ op = .concreteKPaths p) ∧ t.get p = none) := step_total' t op

/-- serializing never changes the live object -/
theorem toJson_pure (t : CTree) : (step t .toJson).1 = t ∧ (step t .toJson).2 = .json (encode t) := toJson_pure' t
theorem pickle_pure (t : CTree) :
    (step t .pickleRoundTrip).1 = t ∧ (step t .pickleRoundTrip).2 = .tree (clearK t) := pickle_pure' t

/-- no history of cache computations and serializations changes structure, identities or string -/
theorem run_erase (t : CTree) (ops : List Op) : erase (run t ops).1 = erase t := run_erase' t ops

/-- after ANY history, a pickle of the live object unpickles to its structure and identities -/
theorem pickle_after_history (t : CTree) (ops : List Op) :
    ∃ t', decode (encode (run t ops).1) = some t' ∧ erase t' = erase t := pickle_after_history' t ops

/-- the serialized form determines structure, identities and string: two trees with the same JSON /
pickle have the same erasure -/
theorem encode_inj (a b : CTree) (h : encode a = encode b) : erase a = erase b := by
  have ha := decode_encode a
  have hb := decode_encode b
  rw [h, hb] at ha
  have : clearK b = clearK a := Option.some.inj ha
  rw [← erase_clearK a, ← erase_clearK b, this]

/-- a second round trip changes nothing more -/
theorem roundtrip_idem (t : CTree) : decode (encode (clearK t)) = some (clearK t) := by
  rw [encode_clearK]; exact decode_encode t

/-! non-vacuity -/
def f0 : Fields := { len := none, hash := none, shash := none, isOpen := some true, kPaths := false, concreteKPaths := false }
def exC : CTree := .node 1 "<s>" [.openLeaf 2 "<a>" { f0 with kPaths := true }, .node 3 "x" [] { f0 with isOpen := some false, len := some 1 }] f0
example : (run exC [.kPaths [1], .pickleRoundTrip, .kPaths [0], .toJson]).2.length = 4 := by decide

end IslaVerif.C17
