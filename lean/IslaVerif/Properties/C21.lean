import IslaVerif.Model.Formats
/-
C21 — inputs generated for the bundled formalizations pass independent validity checks.

The checks are executable SPECIFICATIONS of the formats (Model/Formats.lean), written from the
formats' own rules and not from the ISLa constraints: CSV column counts (quote-aware), XML
well-formedness + attribute uniqueness + namespace prefixes declared in scope, simple-TAR field
widths / checksum / link targets, reST underline / link-target / numbering rules on the derivation
tree.  They are not models of ISLa code, so there is no refinement theorem to prove; the theorems
below are sanity facts that pin the specifications down, plus accepted / rejected examples.
The reST clause "docutils renders without errors" depends on an external library: not covered.
-/
namespace IslaVerif.C21
open IslaVerif Formats

/-- on text without quotes the scanner counts, per line, one field more than there are separators -/
theorem csvScan_plain_line (l : List Char) (n : Nat) (acc : List Nat) (rest : List Char)
    (hq : ∀ c ∈ l, c ≠ '"' ∧ c ≠ '\n') :
    csvScan (l ++ '\n' :: rest) false n acc = csvScan rest false 1 ((n + (l.filter (· == ';')).length) :: acc) := by
  induction l generalizing n with
  | nil => simp [csvScan]
  | cons c cs ih =>
    have hc := hq c (by simp)
    have hcs : ∀ x ∈ cs, x ≠ '"' ∧ x ≠ '\n' := fun x hx => hq x (by simp [hx])
    by_cases hs : c = ';'
    · subst hs
      simp only [List.cons_append, csvScan]
      rw [ih (n + 1) hcs]
      have : (List.filter (fun x => x == ';') (';' :: cs)).length = (List.filter (fun x => x == ';') cs).length + 1 := by
        simp [List.filter]
      rw [this]
      have e : n + 1 + (List.filter (fun x => x == ';') cs).length = n + ((List.filter (fun x => x == ';') cs).length + 1) := by omega
      rw [e]
      simp
    · have h1 : (c == '"') = false := by simpa using hc.1
      have h2 : (c == '\n') = false := by simpa using hc.2
      have h3 : (c == ';') = false := by simpa using hs
      simp only [List.cons_append, csvScan, h1, h2, h3, Bool.false_eq_true, if_false]
      rw [ih n hcs]
      simp [List.filter, h3]

/-- a separator inside a quoted field is not a separator -/
example : csvScan "a;\"b;c\"\nd;e\n".toList false 1 [] = [2, 2] := by decide +kernel
example : csvOk "a;b\nc\n".toList = false ∧ csvOk "a;b\nc;d\n".toList = true := by decide +kernel

/-- the value of an octal field is the positional value of its digits -/
theorem octVal_digits (ds : List Char) (h1 : ds ≠ []) (h2 : ds.all (fun c => '0' ≤ c && c ≤ '7') = true) :
    octVal ds = some (ds.foldl (fun a c => 8 * a + (c.toNat - 48)) 0) := by
  have : ds.isEmpty = false := by cases ds <;> simp_all
  simp [octVal, this, h2]

/-- XML examples: balanced tags with a declared prefix are accepted; a mismatched close tag, a repeated
attribute and an undeclared prefix are rejected -/
example : xmlOk "<a xmlns:p=\"u\"><p:b x=\"1\" y=\"2\"/>t</a>".toList = true := by decide +kernel
example : xmlOk "<a><b></a></b>".toList = false := by decide +kernel
example : xmlOk "<a x=\"1\" x=\"2\"/>".toList = false := by decide +kernel
example : xmlOk "<p:a/>".toList = false := by decide +kernel
example : xmlOk "<a q:x=\"1\"/>".toList = false := by decide +kernel

/-- numbering -/
example : consecutiveFrom [some 3, some 4, some 5] = true ∧ consecutiveFrom [some 1, some 3] = false ∧ consecutiveFrom [some 0, some 1] = false := by
  decide

/-- an entry of the wrong size is never accepted -/
theorem tarEntry_size (e : List Char) (h : e.length ≠ 216) : tarEntry e = none := by
  simp [tarEntry, h]

theorem tarOk_size (s : List Char) (h : s.length % 216 ≠ 0) : tarOk s = false := by
  simp [tarOk, h]

end IslaVerif.C21
