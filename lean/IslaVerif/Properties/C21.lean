import IslaVerif.Model.Formats
import IslaVerif.Proofs.Formats
/-
C21 — inputs generated for the bundled formalizations pass independent validity checks.

The checks are executable SPECIFICATIONS of the formats (Model/Formats.lean), written from the
formats' own rules and not from the ISLa constraints: CSV column counts (quote-aware), XML
well-formedness + attribute uniqueness + namespace prefixes declared in scope, simple-TAR field
widths / checksum / link targets, reST underline / link-target / numbering rules on the derivation
tree.  They are not models of ISLa code (nothing about the solver is proved here).  The first part holds
sanity facts and accepted / rejected examples; the second part proves each executable checker sound
and complete for a DECLARATIVE statement of the rule (Proofs/Formats.lean), so that "accepted by
the compiled checker" means what the rule says, for every input.
The reST clause "docutils renders without errors" cannot be expressed by a Lean model; the harness
runs docutils as an external oracle.
-/
namespace IslaVerif.C21
open IslaVerif Formats

/-- on text without quotes the scanner counts, per line, one field more than there are separators -/
theorem csvScan_plain_line (l : List Char) (n : Nat) (acc : List Nat) (rest : List Char)
    (hq : ∀ c ∈ l, c ≠ '"' ∧ c ≠ '\n') :
    csvScan (l ++ '\n' :: rest) false n acc = csvScan rest false 1 ((n + (l.filter (· == ';')).length) :: acc) := by
  induction l generalizing n with
  | nil => simp [csvScan]
  | cons c cs ih =>
    have hc := hq c (by simp)
    have hcs : ∀ x ∈ cs, x ≠ '"' ∧ x ≠ '\n' := fun x hx => hq x (by simp [hx])
    by_cases hs : c = ';'
    · subst hs
      simp only [List.cons_append, csvScan]
      rw [ih (n + 1) hcs]
      have : (List.filter (fun x => x == ';') (';' :: cs)).length = (List.filter (fun x => x == ';') cs).length + 1 := by
        simp [List.filter]
      rw [this]
      have e : n + 1 + (List.filter (fun x => x == ';') cs).length = n + ((List.filter (fun x => x == ';') cs).length + 1) := by omega
      rw [e]
      simp
    · have h1 : (c == '"') = false := by simpa using hc.1
      have h2 : (c == '\n') = false := by simpa using hc.2
      have h3 : (c == ';') = false := by simpa using hs
      simp only [List.cons_append, csvScan, h1, h2, h3, Bool.false_eq_true, if_false]
      rw [ih n hcs]
      simp [List.filter, h3]

/-- a separator inside a quoted field is not a separator -/
example : csvScan "a;\"b;c\"\nd;e\n".toList false 1 [] = [2, 2] := by decide +kernel
example : csvOk "a;b\nc\n".toList = false ∧ csvOk "a;b\nc;d\n".toList = true := by decide +kernel

/-- the value of an octal field is the positional value of its digits -/
theorem octVal_digits (ds : List Char) (h1 : ds ≠ []) (h2 : ds.all (fun c => '0' ≤ c && c ≤ '7') = true) :
    octVal ds = some (ds.foldl (fun a c => 8 * a + (c.toNat - 48)) 0) := by
  have : ds.isEmpty = false := by cases ds <;> simp_all
  simp [octVal, this, h2]

/-- XML examples: balanced tags with a declared prefix are accepted; a mismatched close tag, a repeated
attribute and an undeclared prefix are rejected -/
example : xmlOk "<a xmlns:p=\"u\"><p:b x=\"1\" y=\"2\"/>t</a>".toList = true := by decide +kernel
example : xmlOk "<a><b></a></b>".toList = false := by decide +kernel
example : xmlOk "<a x=\"1\" x=\"2\"/>".toList = false := by decide +kernel
example : xmlOk "<p:a/>".toList = false := by decide +kernel
example : xmlOk "<a q:x=\"1\"/>".toList = false := by decide +kernel

/-- numbering -/
example : consecutiveFrom [some 3, some 4, some 5] = true ∧ consecutiveFrom [some 1, some 3] = false ∧ consecutiveFrom [some 0, some 1] = false := by
  decide

/-- an entry of the wrong size is never accepted -/
theorem tarEntry_size (e : List Char) (h : e.length ≠ 216) : tarEntry e = none := by
  simp [tarEntry, h]

theorem tarOk_size (s : List Char) (h : s.length % 216 ≠ 0) : tarOk s = false := by
  simp [tarOk, h]

/-! ## Declarative specifications (Proofs/Formats.lean)

The executable checkers are sound — and, except where stated, complete — for Prop-valued
specifications: `Consecutive`-style numbering, per-record separator counts of (quote-aware) CSV
text, `TarValid` archives, and XML documents whose token sequence (`Tokenizes`) is one well-formed
`Element`. -/

/-- reST numbering: all items carry a number, and each adjacent pair `(a, b)` has `0 < a`, `b = a + 1` -/
theorem consecutiveFrom_iff (l : List (Option Nat)) :
    consecutiveFrom l = true ↔
      ∃ ns : List Nat, l = ns.map some ∧
        ∀ i, (h : i + 1 < ns.length) → 0 < ns[i] ∧ ns[i + 1] = ns[i] + 1 :=
  Formats.consecutiveFrom_iff l

theorem restNumberingOk_iff (g : Grammar) (t : DTree) :
    restNumberingOk g t = true ↔
      ∀ e ∈ nodesOf t "<enumeration>", ∃ ns : List Nat, enumNumbers g e = ns.map some ∧
        ∀ i, (h : i + 1 < ns.length) → 0 < ns[i] ∧ ns[i + 1] = ns[i] + 1 :=
  Formats.restNumberingOk_iff g t

/-- CSV, quote-free text `l₁ ⏎ l₂ ⏎ … lₖ ⏎`: the scanner yields `1 + count ';' lᵢ` per line -/
theorem csvScan_plain (ls : List (List Char)) (hq : ∀ l ∈ ls, Plain l) :
    csvScan (joinLines ls) false 1 [] = ls.map fun l => 1 + l.count ';' :=
  Formats.csvScan_plain ls hq

/-- such a text with at least one line is accepted iff all lines have the same number of `;` -/
theorem csvOk_plain (ls : List (List Char)) (hne : ls ≠ []) (hq : ∀ l ∈ ls, Plain l) :
    csvOk (joinLines ls) = true ↔ ∃ k, ∀ l ∈ ls, l.count ';' = k :=
  Formats.csvOk_plain' ls hne hq

/-- quoted separators and line feeds are skipped -/
theorem csvScan_quoted (q rest : List Char) (n : Nat) (acc : List Nat) (hq : ∀ c ∈ q, c ≠ '"') :
    csvScan ('"' :: q ++ '"' :: rest) false n acc = csvScan rest false n acc :=
  Formats.csvScan_quoted q rest n acc hq

/-- CSV, quote-aware: records made of plain pieces and quoted strings; the scanner yields one more
than the number of separators OUTSIDE quotes, and the text is accepted iff that number is the same
for all records -/
theorem csvScan_records (rs : List (List Seg)) (hok : ∀ r ∈ rs, ∀ g ∈ r, g.Ok) :
    csvScan (renderRecords rs) false 1 [] = rs.map fun r => 1 + recordSeps r :=
  Formats.csvScan_records rs hok

theorem csvOk_records (rs : List (List Seg)) (hne : rs ≠ []) (hok : ∀ r ∈ rs, ∀ g ∈ r, g.Ok) :
    csvOk (renderRecords rs) = true ↔ ∃ k, ∀ r ∈ rs, recordSeps r = k :=
  Formats.csvOk_records rs hne hok

/-- TAR: accepted archives are a positive number of 216-character blocks, each an entry -/
theorem tarOk_sound (s : List Char) (h : tarOk s = true) :
    s.length % 216 = 0 ∧ s ≠ [] ∧
      ∀ i, i < s.length / 216 → ∃ e, tarEntry ((s.drop (216 * i)).take 216) = some e :=
  Formats.tarOk_sound s h

/-- TAR: size, checksum (the 6 octal digits at offset 100 denote the sum of the character codes of
the 209 header characters with the checksum field blanked), checksum terminator, type flag,
content marker and NUL-padded names of an accepted entry -/
theorem tarEntry_sound (e : List Char) (r : TarEntry) (h : tarEntry e = some r) :
    e.length = 216 ∧
    octVal ((e.drop 100).take 6) = some ((blankChecksum e).map Char.toNat).sum ∧
    e[106]? = some nul ∧ e[107]? = some ' ' ∧
    (e[108]? = some '0' ∨ e[108]? = some '2') ∧ e[108]? = some r.typeflag ∧
    e.drop 209 = "CONTENT".toList ∧
    r.name ≠ [] ∧ nul ∉ r.name ∧ (∃ k, e.take 100 = r.name ++ List.replicate k nul) ∧
    nul ∉ r.linked ∧ (∃ k, (e.drop 109).take 100 = r.linked ++ List.replicate k nul) :=
  Formats.tarEntry_sound e r h

/-- `blankChecksum e` is the header with the characters 100..107 replaced by blanks -/
theorem blankChecksum_getElem? (e : List Char) (he : e.length = 216) (i : Nat) (hi : i < 209) :
    (blankChecksum e)[i]? = if 100 ≤ i ∧ i < 108 then some ' ' else e[i]? :=
  Formats.blankChecksum_getElem? e he i hi

/-- TAR: `tarOk` is sound and complete for `TarValid` (blocks are entries; every link with a
non-empty target names another entry) -/
theorem tarOk_iff (s : List Char) : tarOk s = true ↔ ∃ es, TarValid s es :=
  Formats.tarOk_iff s

/-- XML: the accepted documents are exactly those whose token sequence is one well-formed element
(balanced tags with matching names, no text outside the root, `tagOk` for every tag in its scope) -/
theorem xmlOk_iff (s : List Char) : xmlOk s = true ↔ ∃ toks, Tokenizes s toks ∧ Element [] toks :=
  Formats.xmlOk_iff s

theorem xmlOk_balanced (s : List Char) (h : xmlOk s = true) :
    ∃ toks, Tokenizes s toks ∧ countKind .opening toks = countKind .closing toks :=
  Formats.xmlOk_balanced s h

/-- XML: the per-tag conditions -/
theorem tagOk_iff (scope : List (List Char)) (t : Tag) :
    tagOk scope t = true ↔
      (t.attrs.map (·.1)).Nodup ∧
      (∀ p, prefixOf t.name = some p → p ∈ declared t ++ scope) ∧
      ∀ a ∈ t.attrs, ∀ p, prefixOf a.1 = some p → p = xmlns ∨ p ∈ declared t ++ scope :=
  Formats.tagOk_iff scope t

theorem xmlOk_nil : xmlOk [] = false := Formats.xmlOk_nil

/-- text outside any element is rejected -/
theorem xmlScan_text_outside (f : Nat) (c : Char) (rest : List Char) (seen : Bool) (hc : c ≠ '<') :
    xmlScan (f + 1) (c :: rest) [] seen = false :=
  Formats.xmlScan_text_outside f c rest seen hc

/-- a closing tag whose name differs from the innermost open element is rejected -/
theorem xmlScan_close_mismatch (f : Nat) (rest rest' : List Char) (t : Tag) (n : List Char)
    (sc : List (List Char)) (st : List (List Char × List (List Char))) (seen : Bool)
    (hp : parseTag rest = some (t, rest')) (hk : t.kind = .closing) (hn : n ≠ t.name) :
    xmlScan (f + 1) ('<' :: rest) ((n, sc) :: st) seen = false :=
  Formats.xmlScan_close_mismatch f rest rest' t n sc st seen hp hk hn

/-! ## reST, tree level: section underlines and link targets -/

/-- the nodes of `t` labelled `sym` are the subtrees of `t` carrying that label -/
theorem mem_nodesOf_iff (t : DTree) (sym : String) (n : DTree) :
    n ∈ nodesOf t sym ↔ ∃ p, t.get p = some n ∧ n.sym = sym :=
  Formats.mem_nodesOf_iff t sym n

/-- reST underline: every `<section-title>` node has three children (title, line break, underline),
the title is non-empty and the underline is at least as long as the title -/
theorem restUnderlineOk_iff (g : Grammar) (t : DTree) :
    restUnderlineOk g t = true ↔
      ∀ n ∈ nodesOf t "<section-title>", ∃ ti sep ul, n.kids = [ti, sep, ul] ∧
        0 < (ti.yieldC g).length ∧ (ti.yieldC g).length ≤ (ul.yieldC g).length :=
  Formats.restUnderlineOk_iff g t

/-- the identifiers below the `sym` nodes: the strings of the `<id>` nodes inside a `sym` node -/
theorem mem_idsBelow_iff (g : Grammar) (t : DTree) (sym : String) (s : List Char) :
    s ∈ idsBelow g t sym ↔ ∃ n ∈ nodesOf t sym, ∃ i ∈ nodesOf n "<id>", i.yieldC g = s :=
  Formats.mem_idsBelow_iff g t sym s

/-- reST link targets: no identifier is defined by two labels -/
theorem restLabelsUnique_iff (g : Grammar) (t : DTree) :
    restLabelsUnique g t = true ↔ (idsBelow g t "<label>").Nodup :=
  Formats.restLabelsUnique_iff g t

/-- reST references: every referenced identifier is a defined link target -/
theorem restRefsDefined_iff (g : Grammar) (t : DTree) :
    restRefsDefined g t = true ↔
      ∀ s, (s ∈ idsBelow g t "<internal_reference>" ∨ s ∈ idsBelow g t "<internal_reference_nospace>") →
        s ∈ idsBelow g t "<label>" :=
  Formats.restRefsDefined_iff g t

/-- a title "ab" underlined by "==" is accepted, by "=" rejected; duplicate labels and an undefined
reference are rejected -/
example : restUnderlineOk exG (exTitle "==") = true ∧ restUnderlineOk exG (exTitle "=") = false := by
  decide +kernel
example : restLabelsUnique exG (exDoc "x" "y" "x") = true ∧ restLabelsUnique exG (exDoc "x" "x" "x") = false := by
  decide +kernel
example : restRefsDefined exG (exDoc "x" "y" "y") = true ∧ restRefsDefined exG (exDoc "x" "y" "z") = false := by
  decide +kernel

end IslaVerif.C21
