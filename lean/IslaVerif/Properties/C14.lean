import IslaVerif.Proofs.Targets
import IslaVerif.Proofs.C10
/-
C14 — solver helpers that build trees to a target meet that target.

`create_fixed_length_tree`, the parsing of numeric model values and the completion performed by
`count` are searches; they are not modelled.  Proved: the three checkers through which every result
of the real helpers is passed are sound, for every grammar and tree; and the reachability oracle the
count checker relies on is exact whenever it answers (self-certifying saturation).
-/
namespace IslaVerif.C14
open IslaVerif Targets DTree Grammar

/-- an accepted fixed-length result: closed derivation tree of the requested nonterminal whose
string has exactly the requested number of characters -/
theorem fixedLenCheck_sound (g : Grammar) (start : String) (n : Nat) (r : DTree) (h : fixedLenCheck g start n r = true) :
    r.valid g = true ∧ r.closed = true ∧ r.sym = start ∧ (r.yieldC g).length = n :=
  fixedLenCheck_sound' g start n r h

/-- an accepted numeric value: closed derivation tree of the nonterminal whose string is an
(optionally signed, possibly zero-padded) numeral of the requested integer -/
theorem numericCheck_sound (g : Grammar) (nt : String) (v : Int) (r : DTree) (h : numericCheck g nt v r = true) :
    r.valid g = true ∧ r.closed = true ∧ r.sym = nt ∧ intOfChars (r.yieldC g) = some v :=
  numericCheck_sound' g nt v r h

/-- an accepted fixed-length result witnesses that the nonterminal's language contains a word of
exactly the requested length -/
theorem fixedLenCheck_inLang (g : Grammar) (start : String) (n : Nat) (r : DTree)
    (h : fixedLenCheck g start n r = true) : ∃ w, C10.InLang g start w ∧ w.length = n := by
  obtain ⟨h1, h2, h3, h4⟩ := fixedLenCheck_sound g start n r h
  exact ⟨r.yieldC g, ⟨r, h1, h2, h3, rfl⟩, h4⟩

/-- an accepted numeric value witnesses a numeral for `v` in the nonterminal's language -/
theorem numericCheck_inLang (g : Grammar) (nt : String) (v : Int) (r : DTree)
    (h : numericCheck g nt v r = true) : ∃ w, C10.InLang g nt w ∧ intOfChars w = some v := by
  obtain ⟨h1, h2, h3, h4⟩ := numericCheck_sound g nt v r h
  exact ⟨r.yieldC g, ⟨r, h1, h2, h3, rfl⟩, h4⟩

/-- on plain digit strings the numeral value is the positional value -/
theorem intOfChars_digits (ds : List Char) (h1 : ds ≠ []) (h2 : ds.all Char.isDigit = true) :
    intOfChars ds = some (Int.ofNat (ds.foldl (fun a c => 10 * a + (c.toNat - 48)) 0)) := intOfChars_digits' ds h1 h2

/-- the certified saturation is exactly reachability through one or more derivation steps -/
theorem reachSet_iff (g : Grammar) (A : String) (R : List String) (h : reachSet g A = some R) (B : String) :
    B ∈ R ↔ Reach g A B := reachSet_iff' g A R h B

/-- an accepted count completion: a derivation tree with the argument's root that contains the
argument's nodes (expanded nodes with their expansion), has exactly `n` nodes labelled with the needle, and has no open leaf from which a needle
can still be derived -/
theorem countCheck_sound (g : Grammar) (arg : DTree) (needle : String) (n : Nat) (r : DTree)
    (h : countCheck g arg needle n r = some true) :
    r.valid g = true ∧ r.sym = arg.sym ∧ countSym r needle = n ∧
    (∀ p u, r.get p = some u → u.isOpenLeaf = true → ¬ Reach g u.sym needle) ∧
    (∀ p u, arg.get p = some u → ∃ q v, r.get q = some v ∧ KeepsNode u v) := countCheck_sound' g arg needle n r h

/-! non-vacuity -/
def gEx : Grammar := [("<l>", [["<i>"], ["<i>", ",", "<l>"]]), ("<i>", [["x"], ["y"]])]
def argEx : DTree := .node 1 "<l>" [.node 2 "<i>" [.node 3 "x" []], .node 4 "," [], .openLeaf 5 "<l>"]
def resEx : DTree := .node 1 "<l>" [.node 2 "<i>" [.node 3 "x" []], .node 4 "," [], .node 5 "<l>" [.openLeaf 7 "<i>"]]
example : countCheck gEx argEx "<i>" 2 resEx = some true := by decide +kernel
example : countCheck gEx argEx "<i>" 2 argEx = some false := by decide +kernel
example : fixedLenCheck gEx "<l>" 3 (.node 1 "<l>" [.node 2 "<i>" [.node 3 "x" []], .node 4 "," [], .node 6 "<l>" [.node 7 "<i>" [.node 8 "y" []]]]) = true := by decide +kernel
example : intOfChars "-007".toList = some (-7) ∧ intOfChars "+12".toList = some 12 ∧ intOfChars "1a".toList = none := by decide +kernel

end IslaVerif.C14
