import IslaVerif.Proofs.Certify
import IslaVerif.Properties.C10
/-
C01 — every solver solution is grammar-valid and satisfies the constraint.

The solver is a cost-guided search around Z3; it is not modelled.  What is proved is the
*certifier* through which every tree returned by the real `solve()` is passed: acceptance implies
each clause of the property, for every grammar, formula and tree.  (`Sat`: Proofs/Sem.lean, the
Prop-valued specification; `InLang`: Proofs/C10.lean.)
-/
namespace IslaVerif.C01
open IslaVerif Sem

/-- an accepted tree is a closed derivation tree of the grammar rooted in the requested start
symbol, its string is in the language of that symbol, and it satisfies the constraint -/
theorem certify_sound (w : World) (startSym const : String) (f : Fm) (h : certify w startSym const f = true) :
    w.root.valid w.g = true ∧ w.root.closed = true ∧ w.root.sym = startSym ∧
    C10.InLang w.g startSym (w.root.yieldC w.g) ∧ Sat w [(const, Bind.path [])] f :=
  certify_sound' w startSym const f h

/-- a tree on which the reference decides FALSE does not satisfy the constraint: rejection for the
fourth clause with verdict `some false` is a genuine violation, not an artefact of the certifier -/
theorem reject_false (w : World) (const : String) (f : Fm)
    (h : evalRef w [(const, Bind.path [])] f = some false) : ¬ Sat w [(const, Bind.path [])] f :=
  fun hs => by have := (evalRef_sound' w _ f false h).2 hs; cases this

/-- acceptance is exactly the conjunction of the four reported flags -/
theorem certify_iff_flags (w : World) (startSym const : String) (f : Fm) :
    certify w startSym const f = true ↔
      (certFlags w startSym const f).valid = true ∧ (certFlags w startSym const f).closed = true ∧
      (certFlags w startSym const f).rootOk = true ∧ (certFlags w startSym const f).verdict = some true := by
  simp [certify, Bool.and_eq_true, and_assoc]

/-- every certified solution is accepted by the verified recognizer: whenever the recognizer answers
on the string of a certified tree, it answers `true` (solutions always re-parse) -/
theorem certified_recognized (w : World) (startSym const : String) (f : Fm) (b : Bool)
    (h : certify w startSym const f = true)
    (h0 : Grammar.isNT w.g "" = false) (hA : Grammar.isNT w.g startSym = true)
    (hr : Rec.recognize w.g startSym (w.root.yieldC w.g) = some b) : b = true :=
  (C10.recognize_inLang h0 hA hr).2 (certify_sound w startSym const f h).2.2.2.1

/-- a certified solution of `φ` is never a solution of `not φ` -/
theorem certified_not_neg (w : World) (startSym const : String) (f : Fm)
    (h : certify w startSym const f = true) : ¬ Sat w [(const, Bind.path [])] (.neg f) := by
  simp only [Sat]
  exact fun hn => hn (certify_sound w startSym const f h).2.2.2.2

/-! non-vacuity: the certifier accepts a satisfying tree and rejects a violating / an open one -/
def gEx : Grammar := [("<start>", [["<d>", "<d>"]]), ("<d>", [["0"], ["1"]])]
def good : DTree := .node 0 "<start>" [.node 1 "<d>" [.node 2 "1" []], .node 3 "<d>" [.node 4 "1" []]]
def bad : DTree := .node 0 "<start>" [.node 1 "<d>" [.node 2 "1" []], .node 3 "<d>" [.node 4 "0" []]]
def opn : DTree := .node 0 "<start>" [.node 1 "<d>" [.node 2 "1" []], .openLeaf 3 "<d>"]
def phi : Fm := .all "d" "<d>" "start" none (.smt (.app "eq" [.var "d", .str ['1']]))
def wOf (t : DTree) : World := { g := gEx, root := t, isNT := fun s => s.startsWith "<", intBound := 4 }
example : certify (wOf good) "<start>" "start" phi = true := by decide +kernel
example : certify (wOf bad) "<start>" "start" phi = false := by decide +kernel
example : certify (wOf opn) "<start>" "start" phi = false := by decide +kernel

end IslaVerif.C01
