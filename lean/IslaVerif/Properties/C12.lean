import IslaVerif.Proofs.TreeOps
import IslaVerif.Proofs.C10
/-
C12 — fuzzer expansions and mutations produce valid trees of the same kind.

The fuzzer's three-phase cost strategy and the mutator's random choices only SELECT which open
leaf is expanded by which alternative, which subtree is replaced or which two subtrees are swapped.
Proved for EVERY such selection: any sequence of expansion steps keeps validity, the root and every
already expanded part; replacing a subtree by a valid tree of the same symbol and swapping two
disjoint subtrees of the same symbol keep validity and the root.  The outputs of the real
`expand_tree` / `Mutator.mutate` are certified by the checkers proved sound below.
(`Embeds t r`: wherever `t` is expanded, `r` has the same nodes — identity, label, children; open
leaves of `t` are holes.  `IdPrefix` additionally fixes the identity of open leaves.)
-/
namespace IslaVerif.C12
open IslaVerif DTree Grammar

/-- one expansion of an open leaf by an alternative of its symbol -/
theorem expandAt_ok (g : Grammar) (t t' : DTree) (p : Path) (alt : List String) (ids : List Nat)
    (i : Nat) (s : String) (as : List (List String))
    (hv : t.valid g = true) (hg : t.get p = some (openLeaf i s)) (hs : alts g s = some as) (ha : alt ∈ as)
    (h0 : isNT g "" = false) (he : expandAt g t p alt ids = some t') :
    t'.valid g = true ∧ t'.sym = t.sym ∧ idPrefixOf t t' = true :=
  valid_expandAt' g t t' p alt ids i s as hv hg hs ha h0 he

/-- ANY sequence of expansion steps (every random choice, every strategy) keeps validity and the
root and has the input as identity-preserving prefix -/
theorem expandRun_ok (g : Grammar) (h0 : isNT g "" = false)
    (steps : List (Path × List String × List Nat)) (t : DTree) (hv : t.valid g = true) (hs : StepsOk g t steps) :
    (expandRun g t steps).valid g = true ∧ (expandRun g t steps).sym = t.sym ∧
    idPrefixOf t (expandRun g t steps) = true := expandRun_ok' g h0 steps t hv hs

/-- … and once no open leaf is left the result is closed -/
theorem closed_iff_no_open (t : DTree) : t.closed = true ↔ t.hasOpen = false := by
  simp [DTree.closed]

theorem idPrefix_embeds (a b : DTree) (h : IdPrefix a b) : Embeds a b := embeds_of_idPrefix' a b h
theorem idPrefixOf_iff (a b : DTree) : idPrefixOf a b = true ↔ IdPrefix a b := idPrefixOf_iff' a b

/-- mutation by replacement (`replace_subtree_randomly`, `generalize_subtree`) -/
theorem replace_ok (g : Grammar) (p : Path) (t u old t' : DTree) (hv : t.valid g = true) (hu : u.valid g = true)
    (hg : t.get p = some old) (hs : old.sym = u.sym) (hr : t.replace p u = some t') :
    t'.valid g = true ∧ t'.sym = t.sym := valid_replace' g p t u old t' hv hu hg hs hr

/-- mutation by swapping (`swap_subtrees`): same symbol, neither position below the other -/
theorem swap_ok (g : Grammar) (t t' a b : DTree) (p q : Path)
    (hv : t.valid g = true) (ha : t.get p = some a) (hb : t.get q = some b) (hsym : a.sym = b.sym)
    (hpq : ¬ p <+: q) (hqp : ¬ q <+: p) (hs : swap t p q = some t') :
    t'.valid g = true ∧ t'.sym = t.sym := valid_swap' g t t' a b p q hv ha hb hsym hpq hqp hs

/-- the checker for completions: an accepted result is a closed derivation tree of the grammar in
which every expanded part of the input is unchanged -/
theorem completionCheck_sound (g : Grammar) (t r : DTree) (h : completionCheck g t r = true) :
    r.valid g = true ∧ r.closed = true ∧ Embeds t r ∧ r.sym = t.sym := completionCheck_sound' g t r h

/-- the checker for mutations: closed derivation tree with the same root symbol -/
theorem mutationCheck_sound (g : Grammar) (t r : DTree) (h : mutationCheck g t r = true) :
    r.valid g = true ∧ r.closed = true ∧ r.sym = t.sym := mutationCheck_sound' g t r h

/-- the string of an accepted fuzzer completion / mutation result is a word of the language of the
input's root symbol (so it is accepted by the verified recognizer of C10) -/
theorem completionCheck_inLang (g : Grammar) (t r : DTree) (h : completionCheck g t r = true) :
    C10.InLang g t.sym (r.yieldC g) := by
  obtain ⟨h1, h2, _, h4⟩ := completionCheck_sound g t r h
  exact ⟨r, h1, h2, h4, rfl⟩

theorem mutationCheck_inLang (g : Grammar) (t r : DTree) (h : mutationCheck g t r = true) :
    C10.InLang g t.sym (r.yieldC g) := by
  obtain ⟨h1, h2, h3⟩ := mutationCheck_sound g t r h
  exact ⟨r, h1, h2, h3, rfl⟩

/-! non-vacuity -/
def gEx : Grammar := [("<s>", [["<a>"], ["<a>", "<s>"]]), ("<a>", [["x"], []])]
def t0 : DTree := .node 1 "<s>" [.openLeaf 2 "<a>", .openLeaf 3 "<s>"]
def steps : List (Path × List String × List Nat) := [([1], ["<a>"], [4]), ([0], [], [5]), ([1, 0], ["x"], [6])]
example : (expandRun gEx t0 steps).closed = true ∧ completionCheck gEx t0 (expandRun gEx t0 steps) = true := by decide +kernel
example : isNT gEx "" = false ∧ t0.valid gEx = true := by decide +kernel

end IslaVerif.C12
