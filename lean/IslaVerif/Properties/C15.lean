import IslaVerif.Model.Intervals
namespace IslaVerif.C15
theorem placeholder : True := trivial
end IslaVerif.C15
