import IslaVerif.Model.Intervals
import IslaVerif.Proofs.Regex
import IslaVerif.Proofs.C15a
import IslaVerif.Proofs.C15b
/-
C15 — integer intervals inferred from a regex are exactly the numbers it matches; compressing a
concatenation never changes the language.
`Lang` (Proofs/RegexLang.lean) is the SMT-LIB denotation of the regex AST; `Exact r I`, `Bounded`,
`Separated`, `Shape0` are defined in Proofs/C15b.lean.
-/
namespace IslaVerif.C15
open IslaVerif IslaVerif.Re IslaVerif.Intervals

/-- the executable matcher used as oracle by the checks decides the denotation, for every regex
(union, concatenation, star, plus, option, bounded loops, complement, intersection, difference) -/
theorem matchB_iff (r : Re) (w : List Char) : Re.matchB r w = true ↔ Lang r w := Re.matchB_iff' r w

/-- rewriting a concatenation into its compressed form never changes the matched language:
for ALL lists of regular expressions -/
theorem compress_lang (rs : List Re) (w : List Char) : LangCat (compress rs) w ↔ LangCat rs w :=
  compress_lang' rs w

/-- flattening nested concatenations (`z3_split_at_operator`) keeps the language -/
theorem splitConcat_lang (r : Re) (w : List Char) : LangCat (splitConcat r) w ↔ Lang r w :=
  splitConcat_lang' r w

/-- `merge_intervals` denotes the union of its arguments … -/
theorem mergeIntervals_mem (ls : List (List Iv)) (hne : ls ≠ []) (hb : ∀ l ∈ ls, Bounded l) (n : Int) :
    ∃ m, mergeIntervals (ls.map some) = some m ∧ (inIvs m n = true ↔ ∃ l ∈ ls, inIvs l n = true) :=
  mergeIntervals_mem' ls hne hb n

/-- … its result is sorted and the intervals are separated (never adjacent or overlapping) -/
theorem mergeIntervals_shape (ls : List (List Iv)) (m : List Iv) (hb : ∀ l ∈ ls, Bounded l)
    (h : mergeIntervals (ls.map some) = some m) : Bounded m ∧ Separated m :=
  mergeIntervals_shape' ls m hb h

theorem mergeIntervals_none (ls : List (Option (List Iv))) (h : Option.none ∈ ls) :
    mergeIntervals ls = Option.none := mergeIntervals_none' ls h

/-- PARTIAL (the full statement would quantify over the whole documented shape, including the four
sequence forms): on the concatenation-free part of the shape — digits, ordered digit ranges, zero
sequences, full digit sequences and arbitrary unions of these — the inference always answers and the
union of its intervals is exactly the set of integer values of the matched strings.
What is missing: the concatenation (sign / zero-padding / [1-9][0-9]*) cases, for which the real code
has the known finding `inexact:sign-not-leading`; they are covered by the probing search only. -/
theorem intervals_exact_partial (r : Re) (h : Shape0 r) :
    ∃ I, numericIntervals r = some I ∧ Bounded I ∧ Exact r I := intervals_exact_shape0' r h

/-- a proved counterexample to the full statement for today's code: a regex of the documented shape
(zero padding followed by a signed number) whose inferred intervals contain −5 although the only
string it matches is "0-5", which has no integer value -/
theorem sign_not_leading_counterexample :
    numericIntervals (.concat [.str ['0'], .concat [.str ['-'], .str ['5']]]) = some [(-5, -5)] ∧
    (∀ s, Re.matchB (.concat [.str ['0'], .concat [.str ['-'], .str ['5']]]) s = true → s = "0-5".toList) ∧
    intVal "0-5".toList = Option.none := by
  refine ⟨by decide, ?_, by decide⟩
  intro s hs
  have := (Re.matchB_iff' _ s).1 hs
  simp only [Lang, LangCat] at this
  obtain ⟨u, v, rfl, hu, v1, v2, rfl, ⟨a, b, rfl, ha, c, d, rfl, hc, hd⟩, hv2⟩ := this
  subst hu ha hc hd hv2
  rfl

/-! non-vacuity -/
example : Shape0 (.union [.str ['3'], .range ['1'] ['2'], .plus digitRange09]) :=
  .union _ (by simp) (by
    intro r hr
    simp only [List.mem_cons, List.mem_nil_iff, or_false] at hr
    rcases hr with rfl | rfl | rfl
    · exact .digit '3' (by decide)
    · exact .range '1' '2' (by decide) (by decide) (by decide)
    · exact .fullPlus)
example : numericIntervals (.union [.str ['6'], .range ['1'] ['4']]) = some [(1, 4), (6, 6)] := by decide
example : Re.beqL (compress [.star (.str ['a']), .str ['a'], .plus (.str ['a'])]) [.str ['a'], .plus (.str ['a'])] = true := by decide

end IslaVerif.C15
