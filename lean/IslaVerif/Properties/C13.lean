import IslaVerif.Proofs.TreeOps
/-
C13 — tree insertion yields valid trees keeping all original nodes and the new tree.

`insert_tree` and its three methods are graph searches; they are not modelled.  Proved here:
(1) the result checker through which every returned tree is passed is sound for the four clauses
of the property, for every grammar and all trees; (2) the generic facts the methods rely on —
replacing a subtree by a valid tree with the same symbol keeps validity and the root; expansion
steps keep validity, the root and every already expanded part.
`Embeds ins v`: wherever the inserted tree is expanded, `v` has the same nodes (identity and label);
open leaves of the inserted tree are holes that may have been filled (insertion plugs the host's
own subtree into them).
-/
namespace IslaVerif.C13
open IslaVerif DTree Grammar

/-- an accepted result is a derivation tree of the grammar with the host's root symbol, contains
every node of the host with its label (expanded nodes with their expansion), and contains the inserted tree -/
theorem insertCheck_sound (g : Grammar) (host ins r : DTree) (h : insertCheck g host ins r = true) :
    r.valid g = true ∧ r.sym = host.sym ∧
    (∀ p u, host.get p = some u → ∃ q v, r.get q = some v ∧ KeepsNode u v) ∧
    (∃ q v, r.get q = some v ∧ Embeds ins v) := insertCheck_sound' g host ins r h

/-- `KeepsNode u v`: same identity and label; an expanded node stays expanded by the same alternative -/
theorem keepsNode_iff (u v : DTree) : keepsNode u v = true ↔ KeepsNode u v := keepsNode_iff' u v

/-- the executable embedding test is the declarative relation -/
theorem embedsAt_iff (a b : DTree) : embedsAt a b = true ↔ Embeds a b := embedsAt_iff' a b

/-- every method builds its results by `replace_path`: replacing a subtree by a valid tree with the
same symbol keeps validity and the root symbol -/
theorem valid_replace (g : Grammar) (p : Path) (t u old t' : DTree) (hv : t.valid g = true) (hu : u.valid g = true)
    (hg : t.get p = some old) (hs : old.sym = u.sym) (hr : t.replace p u = some t') :
    t'.valid g = true ∧ t'.sym = t.sym := valid_replace' g p t u old t' hv hu hg hs hr

/-- … and nothing outside the replaced position changes (C16 `replace_get_disjoint`), so nodes of the
host that are not below the replaced position keep identity and label -/
theorem replace_keeps_other_nodes (t t' u : DTree) (p q : Path) (h : t.replace p u = some t')
    (hpq : ¬ p <+: q) (hqp : ¬ q <+: p) : t'.get q = t.get q := C16.replace_get_disjoint' t t' u p q h hpq hqp

/-- the host's root is kept as a node of the result, and an accepted result of inserting into a
result is again accepted-sound: in particular the root of the host survives with its identity and label -/
theorem insertCheck_keeps_root (g : Grammar) (host ins r : DTree) (h : insertCheck g host ins r = true) :
    ∃ q v, r.get q = some v ∧ v.id = host.id ∧ v.sym = host.sym := by
  obtain ⟨_, _, hk, _⟩ := insertCheck_sound g host ins r h
  obtain ⟨q, v, hq, hkn⟩ := hk [] host (by simp [DTree.get])
  exact ⟨q, v, hq, hkn.1, hkn.2.1⟩

/-- `KeepsNode` is reflexive and transitive: nodes kept by one insertion stay kept by the next one
(insert_trees / connect_trees chain insertions) -/
theorem keepsNode_refl (u : DTree) : KeepsNode u u :=
  ⟨rfl, rfl, fun i s ks h => ⟨i, s, ks, h, rfl⟩⟩

theorem keepsNode_trans (u v w : DTree) (h1 : KeepsNode u v) (h2 : KeepsNode v w) : KeepsNode u w := by
  refine ⟨h2.1.trans h1.1, h2.2.1.trans h1.2.1, ?_⟩
  intro i s ks hu
  obtain ⟨j, s', ks', hv, hm⟩ := h1.2.2 i s ks hu
  obtain ⟨j2, s2, ks2, hw, hm2⟩ := h2.2.2 j s' ks' hv
  exact ⟨j2, s2, ks2, hw, hm2.trans hm⟩

/-- chained insertions keep every node of the first host -/
theorem insertCheck_chain (g : Grammar) (host ins1 r1 ins2 r2 : DTree)
    (h1 : insertCheck g host ins1 r1 = true) (h2 : insertCheck g r1 ins2 r2 = true) :
    r2.valid g = true ∧ r2.sym = host.sym ∧
    (∀ p u, host.get p = some u → ∃ q v, r2.get q = some v ∧ KeepsNode u v) := by
  obtain ⟨_, s1, k1, _⟩ := insertCheck_sound g host ins1 r1 h1
  obtain ⟨v2, s2, k2, _⟩ := insertCheck_sound g r1 ins2 r2 h2
  refine ⟨v2, s2.trans s1, ?_⟩
  intro p u hu
  obtain ⟨q, v, hq, hkv⟩ := k1 p u hu
  obtain ⟨q', v', hq', hkv'⟩ := k2 q v hq
  exact ⟨q', v', hq', keepsNode_trans u v v' hkv hkv'⟩

/-! non-vacuity: the host `<s>(<a>("x"))` with `<s> ::= <a> | <a><s>`; inserting `<a>("y")` by self embedding -/
def gEx : Grammar := [("<s>", [["<a>"], ["<a>", "<s>"]]), ("<a>", [["x"], ["y"]])]
def host : DTree := .node 1 "<s>" [.node 2 "<a>" [.node 3 "x" []]]
def ins : DTree := .node 10 "<a>" [.node 11 "y" []]
def res : DTree := .node 20 "<s>" [.node 10 "<a>" [.node 11 "y" []], .node 1 "<s>" [.node 2 "<a>" [.node 3 "x" []]]]
def lossy : DTree := .node 1 "<s>" [.node 10 "<a>" [.node 11 "y" []]]
example : insertCheck gEx host ins res = true := by decide +kernel
example : insertCheck gEx host ins lossy = false := by decide +kernel

end IslaVerif.C13
