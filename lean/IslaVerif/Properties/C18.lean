import IslaVerif.Model.Agree
import IslaVerif.Proofs.Certify
import IslaVerif.Properties.C10
/-
C18 — check, parse, repair and mutate agree with the constraint and with each other.

`parseOutcome` / `checkStr` (Model/Agree.lean) compose the verified recognizer (C10), the tree
checker and the reference evaluator (C03).  The theorems tie each expected answer to the
specification: membership in the grammar's language (`C10.InLang`) and satisfaction (`Sat`).
The real `ISLaSolver.check / parse` are compared with these compositions; results of `repair`
and `mutate` go through the certifier of C01 (`certify_sound`).
-/
namespace IslaVerif.C18
open IslaVerif Sem Grammar

variable (g : Grammar) (isNT : String → Bool) (bound : Nat) (f : Fm) (const : String)

/-- "returns a tree": the string is in the language and the parsed tree satisfies the constraint -/
theorem parse_ok (s : List Char) (t? : Option DTree) (h0 : Grammar.isNT g "" = false) (hS : Grammar.isNT g "<start>" = true)
    (h : parseOutcome g isNT bound f const s t? = .ok) :
    C10.InLang g "<start>" s ∧ ∃ t, t? = some t ∧ t.valid g = true ∧ t.closed = true ∧ t.yieldC g = s ∧
      Sat { g := g, root := t, isNT := isNT, intBound := bound } [(const, Bind.path [])] f := by
  unfold parseOutcome at h
  split at h
  · cases h
  · cases h
  · rename_i hr
    split at h
    · cases h
    · rename_i t
      split at h
      · rename_i hc
        simp only [Bool.and_eq_true, beq_iff_eq] at hc
        obtain ⟨⟨⟨hv, hcl⟩, hsym⟩, hy⟩ := hc
        split at h
        · rename_i he
          refine ⟨(C10.recognize_inLang h0 hS hr).1 rfl, t, rfl, hv, hcl, hy, ?_⟩
          exact (evalRef_sound' _ _ f true he).1 rfl
        · cases h
        · cases h
      · cases h

/-- "SyntaxError": the string is not in the grammar's language -/
theorem parse_syntaxError (s : List Char) (t? : Option DTree) (h0 : Grammar.isNT g "" = false) (hS : Grammar.isNT g "<start>" = true)
    (h : parseOutcome g isNT bound f const s t? = .syntaxError) : ¬ C10.InLang g "<start>" s := by
  unfold parseOutcome at h
  split at h
  · cases h
  · rename_i hr
    intro hin
    have := (C10.recognize_inLang h0 hS hr).2 hin
    cases this
  · split at h
    · cases h
    · split at h
      · split at h <;> cases h
      · cases h

/-- "SemanticError": the string is in the language, but its parse tree violates the constraint -/
theorem parse_semanticError (s : List Char) (t? : Option DTree) (h0 : Grammar.isNT g "" = false) (hS : Grammar.isNT g "<start>" = true)
    (h : parseOutcome g isNT bound f const s t? = .semanticError) :
    C10.InLang g "<start>" s ∧ ∃ t, t? = some t ∧ t.yieldC g = s ∧
      ¬ Sat { g := g, root := t, isNT := isNT, intBound := bound } [(const, Bind.path [])] f := by
  unfold parseOutcome at h
  split at h
  · cases h
  · cases h
  · rename_i hr
    split at h
    · cases h
    · rename_i t
      split at h
      · rename_i hc
        simp only [Bool.and_eq_true, beq_iff_eq] at hc
        split at h
        · cases h
        · rename_i he
          refine ⟨(C10.recognize_inLang h0 hS hr).1 rfl, t, rfl, hc.2, ?_⟩
          intro hs
          have := (evalRef_sound' _ _ f false he).2 hs
          cases this
        · cases h
      · cases h

/-- `check(string)` is true exactly in the `ok` case, false exactly for the two error cases -/
theorem checkStr_true_iff (s : List Char) (t? : Option DTree) :
    checkStr g isNT bound f const s t? = some true ↔ parseOutcome g isNT bound f const s t? = .ok := by
  unfold checkStr; split <;> simp_all

theorem checkStr_false_iff (s : List Char) (t? : Option DTree) :
    checkStr g isNT bound f const s t? = some false ↔
      (parseOutcome g isNT bound f const s t? = .syntaxError ∨ parseOutcome g isNT bound f const s t? = .semanticError) := by
  unfold checkStr; split <;> simp_all

/-- `check(s) = True` means: `s` is a word of the grammar and its parse tree satisfies the constraint -/
theorem checkStr_true_sound (s : List Char) (t? : Option DTree) (h0 : Grammar.isNT g "" = false)
    (hS : Grammar.isNT g "<start>" = true) (h : checkStr g isNT bound f const s t? = some true) :
    C10.InLang g "<start>" s ∧ ∃ t, t? = some t ∧ t.valid g = true ∧ t.closed = true ∧ t.yieldC g = s ∧
      Sat { g := g, root := t, isNT := isNT, intBound := bound } [(const, Bind.path [])] f :=
  parse_ok g isNT bound f const s t? h0 hS ((checkStr_true_iff g isNT bound f const s t?).1 h)

/-- `check` and `parse` can never disagree: `check` is definite exactly when `parse` is, `True` goes
with a returned tree and `False` with one of the two errors; the three outcomes exclude each other -/
theorem check_parse_agree (s : List Char) (t? : Option DTree) (b : Bool)
    (h : checkStr g isNT bound f const s t? = some b) :
    (b = true ↔ parseOutcome g isNT bound f const s t? = .ok) := by
  cases b
  · have := (checkStr_false_iff g isNT bound f const s t?).1 h
    constructor
    · intro hb; cases hb
    · intro hp; rcases this with h' | h' <;> rw [hp] at h' <;> cases h'
  · exact ⟨fun _ => (checkStr_true_iff g isNT bound f const s t?).1 h, fun _ => rfl⟩

/-- results of `repair` / `mutate` (and `check` on a tree) are judged by the certifier of C01 -/
theorem certified_result (w : World) (startSym const : String) (f : Fm) (h : certify w startSym const f = true) :
    w.root.valid w.g = true ∧ w.root.closed = true ∧ w.root.sym = startSym ∧
    C10.InLang w.g startSym (w.root.yieldC w.g) ∧ Sat w [(const, Bind.path [])] f := certify_sound' w startSym const f h

/-! non-vacuity -/
def gEx : Grammar := [("<start>", [["<d>", "<d>"]]), ("<d>", [["0"], ["1"]])]
def phi : Fm := .all "d" "<d>" "start" none (.smt (.app "eq" [.var "d", .str ['1']]))
def t11 : DTree := .node 0 "<start>" [.node 1 "<d>" [.node 2 "1" []], .node 3 "<d>" [.node 4 "1" []]]
def t10 : DTree := .node 0 "<start>" [.node 1 "<d>" [.node 2 "1" []], .node 3 "<d>" [.node 4 "0" []]]
example : parseOutcome gEx (fun s => s.startsWith "<") 4 phi "start" "11".toList (some t11) = .ok := by decide +kernel
example : parseOutcome gEx (fun s => s.startsWith "<") 4 phi "start" "10".toList (some t10) = .semanticError := by decide +kernel
example : parseOutcome gEx (fun s => s.startsWith "<") 4 phi "start" "1".toList none = .syntaxError := by decide +kernel

end IslaVerif.C18
