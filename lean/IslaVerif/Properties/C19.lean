import IslaVerif.Model.Cli
/-
C19 — the command line honours its exit-code contract (decision table of `isla check` / `parse`).
Exit-code constants are regenerated from src/isla/cli.py on every run (Generated/Cli.lean).
-/
namespace IslaVerif.C19
open IslaVerif.Cli

def AllOk (f : Files) : Prop :=
  f.grammar = .ok ∧ f.constraints ≠ [] ∧ (∀ c ∈ f.constraints, c = .ok)

theorem hasMalformed_false_iff (cs : List ConstraintSt) :
    hasMalformed cs = false ↔ ∀ c ∈ cs, c = .ok := by
  induction cs with
  | nil => simp [hasMalformed]
  | cons c cs ih => cases c <;> simp_all [hasMalformed]

theorem hasMalformed_true_iff (cs : List ConstraintSt) :
    hasMalformed cs = true ↔ ∃ c ∈ cs, c = .malformed := by
  induction cs with
  | nil => simp [hasMalformed]
  | cons c cs ih => cases c <;> simp_all [hasMalformed]

theorem checkExit_ok (cs : List ConstraintSt) (i : InputSt) (hne : cs ≠ []) :
    checkExit ⟨.ok, cs, i⟩ = if hasMalformed cs then Generated.Cli.dataFormatError else inputExit i := by
  cases cs with
  | nil => exact absurd rfl hne
  | cons c cs => simp [checkExit]

/-- exit 0 exactly when grammar and constraints are fine and the single input is in the grammar and
satisfies the conjunction of all constraints -/
theorem check_exit0_iff (f : Files) :
    checkExit f = 0 ↔ AllOk f ∧ f.input = .given true .sat := by
  rcases f with ⟨g, cs, i⟩
  by_cases hne : cs = []
  · subst hne; cases g <;> simp [checkExit, AllOk, Generated.Cli.usageError]
  · cases g
    case ok =>
      rw [checkExit_ok cs i hne]
      cases hm : hasMalformed cs
      · have hall := (hasMalformed_false_iff cs).1 hm
        cases i with
        | none => simp [inputExit, Generated.Cli.usageError]
        | several => simp [inputExit, Generated.Cli.usageError]
        | given a b => cases a <;> cases b <;> simp [inputExit, AllOk, hne, Generated.Cli.dataFormatError] <;> exact hall
      · have hno : ¬ ∀ c ∈ cs, c = .ok := by
          intro h; rw [(hasMalformed_false_iff cs).2 h] at hm; cases hm
        simp [Generated.Cli.dataFormatError, AllOk, hno]
    all_goals
      cases cs with
      | nil => exact absurd rfl hne
      | cons c cs => simp [checkExit, AllOk, Generated.Cli.usageError, Generated.Cli.dataFormatError]

/-- with grammar and constraints fine and exactly one input, every other case exits 1 -/
theorem check_exit1 (f : Files) (h : AllOk f) (inG : Bool) (v : Verdict) (hi : f.input = .given inG v)
    (hn : inG = false ∨ v = .unsat) : checkExit f = 1 := by
  rcases f with ⟨g, cs, i⟩
  obtain ⟨hg, hne, hall⟩ := h
  simp only at hg hi hne hall
  subst hg hi
  rw [checkExit_ok cs _ hne, (hasMalformed_false_iff cs).2 hall]
  cases inG <;> cases v <;> simp_all [inputExit]

/-- a constraint that parses but cannot be evaluated on the (member) input ends with the data-format
code as well: no traceback -/
theorem not_evaluable_exit (f : Files) (h : AllOk f) (hi : f.input = .given true .error) :
    checkExit f = Generated.Cli.dataFormatError := by
  rcases f with ⟨g, cs, i⟩
  obtain ⟨hg, hne, hall⟩ := h
  simp only at hg hi hne hall
  subst hg hi
  rw [checkExit_ok cs _ hne, (hasMalformed_false_iff cs).2 hall]
  simp [inputExit]

/-- a malformed grammar or constraint (everything needed being present) ends with the data-format code -/
theorem malformed_exit (f : Files) (hc : f.constraints ≠ [])
    (hm : f.grammar = .malformed ∨ (f.grammar = .ok ∧ ∃ c ∈ f.constraints, c = .malformed)) :
    checkExit f = Generated.Cli.dataFormatError := by
  rcases f with ⟨g, cs, i⟩
  simp only at hc hm
  rcases hm with hm | ⟨hg, hex⟩
  · subst hm
    cases cs with
    | nil => exact absurd rfl hc
    | cons c cs => simp [checkExit]
  · subst hg
    rw [checkExit_ok cs i hc, (hasMalformed_true_iff cs).2 hex]; simp

/-- a missing grammar, constraint or input ends with the usage code -/
theorem missing_exit (f : Files)
    (h : f.grammar = .missing ∨ f.constraints = [] ∨
      (AllOk f ∧ (f.input = .none ∨ f.input = .several))) :
    checkExit f = Generated.Cli.usageError := by
  rcases f with ⟨g, cs, i⟩
  rcases h with h | h | ⟨⟨hg, hne, hall⟩, hi⟩
  · simp only at h; subst h; simp [checkExit]
  · simp only at h; subst h; cases g <;> simp [checkExit]
  · simp only at hg hne hi hall; subst hg
    rw [checkExit_ok cs i hne, (hasMalformed_false_iff cs).2 hall]
    rcases hi with hi | hi <;> subst hi <;> simp [inputExit]

/-- the decision function is total: it always yields one of the four documented codes -/
theorem exit_codes (f : Files) :
    checkExit f = 0 ∨ checkExit f = 1 ∨ checkExit f = Generated.Cli.usageError ∨
      checkExit f = Generated.Cli.dataFormatError := by
  rcases f with ⟨g, cs, i⟩
  unfold checkExit
  simp only
  repeat' split
  all_goals first
    | simp
    | (cases i with
       | none => simp [inputExit]
       | several => simp [inputExit]
       | given a b => cases a <;> cases b <;> simp [inputExit])

/-- the generated constants are the documented ones (re-checked when cli.py changes) -/
theorem documented_codes : Generated.Cli.usageError = 2 ∧ Generated.Cli.dataFormatError = 65 := by decide

/-- `isla parse` writes a tree exactly when `isla check` would exit 0 -/
theorem parse_writes_iff (f : Files) : parseWritesTree f = true ↔ checkExit f = 0 := by
  simp [parseWritesTree]

/-! non-vacuity -/
example : AllOk ⟨.ok, [.ok, .ok], .given true .unsat⟩ := by simp [AllOk]
example : checkExit ⟨.ok, [.ok, .ok], .given true .unsat⟩ = 1 ∧ checkExit ⟨.ok, [.ok], .given true .sat⟩ = 0
    ∧ checkExit ⟨.ok, [.ok, .malformed], .none⟩ = 65 ∧ checkExit ⟨.missing, [.ok], .given true .sat⟩ = 2
    ∧ checkExit ⟨.ok, [.ok], .given true .error⟩ = 65 ∧ checkExit ⟨.ok, [.ok], .given false .error⟩ = 1 := by decide

end IslaVerif.C19
