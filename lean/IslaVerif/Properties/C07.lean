import IslaVerif.Proofs.Alpha
/-
C07 — unparsed constraints parse back to the same constraint.

The ANTLR parser, the emitter and `ISLaUnparser` are not modelled.  What is proved is the notion of
"the same constraint" with which the two formula objects of a round trip (parse, and
parse ∘ unparse ∘ parse) are compared: equality of nameless forms (`Alpha.alphaEq`) over formulas
with named tree / match-expression / numeric binders.  Formulas accepted by that checker have the
same meaning under EVERY interpretation of the atoms and quantifier domains and in EVERY
environment — so an accepted round trip cannot change the verdict on any tree, whatever the grammar.
-/
namespace IslaVerif.C07
open IslaVerif

/-- a round trip accepted by the checker preserves the meaning on every tree / interpretation -/
theorem roundtrip_same_meaning {V : Type} [Inhabited V] (I : Alpha.Interp V) (ρ : String → V) (f g : Alpha.NF)
    (h : Alpha.alphaEq f g = true) : Alpha.SatN I ρ f ↔ Alpha.SatN I ρ g := Alpha.alphaEq_sound' I ρ f g h

/-- the checker accepts an identical re-parse -/
theorem roundtrip_refl (f : Alpha.NF) : Alpha.alphaEq f f = true := Alpha.alphaEq_refl' f

/-- equal nameless forms are equal as data: acceptance is an equivalence-of-structure statement,
not a hash comparison -/
theorem accepted_iff_same_nameless_form (f g : Alpha.NF) (h : Alpha.alphaEq f g = true) :
    Alpha.toDB [] f = Alpha.toDB [] g := Alpha.eqb_eq' _ _ h

/-- acceptance is symmetric and transitive (with `roundtrip_refl`: an equivalence relation), so
accepted round trips compose: parse → unparse → parse → unparse … never drifts -/
theorem roundtrip_symm (f g : Alpha.NF) (h : Alpha.alphaEq f g = true) : Alpha.alphaEq g f = true := by
  have e := Alpha.eqb_eq' _ _ h
  unfold Alpha.alphaEq; rw [← e]; exact Alpha.eqb_refl_aux _

theorem roundtrip_trans (f g k : Alpha.NF) (h1 : Alpha.alphaEq f g = true) (h2 : Alpha.alphaEq g k = true) :
    Alpha.alphaEq f k = true := by
  have e1 := Alpha.eqb_eq' _ _ h1
  have e2 := Alpha.eqb_eq' _ _ h2
  unfold Alpha.alphaEq; rw [e1, e2]; exact Alpha.eqb_refl_aux _

/-- acceptance is exactly equality of nameless forms -/
theorem accepted_iff (f g : Alpha.NF) : Alpha.alphaEq f g = true ↔ Alpha.toDB [] f = Alpha.toDB [] g :=
  ⟨Alpha.eqb_eq' _ _, fun e => by unfold Alpha.alphaEq; rw [e]; exact Alpha.eqb_refl_aux _⟩

/-! non-vacuity: a re-parse that only renames bound variables is accepted; one that loses a
quantifier (the free `<start>` capture described in DESIGN.md §9 #8) is rejected -/
def f1 : Alpha.NF := .all ["v"] "start" (.atom 1 ["v", "start"])
def f1' : Alpha.NF := .all ["v_0"] "start" (.atom 1 ["v_0", "start"])
def f1bad : Alpha.NF := .atom 1 ["start", "start"]
example : Alpha.alphaEq f1 f1' = true ∧ Alpha.alphaEq f1 f1bad = false := by decide +kernel

end IslaVerif.C07
