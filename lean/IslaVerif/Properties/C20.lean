import IslaVerif.Model.SemPreds
namespace IslaVerif.C20
theorem placeholder : True := trivial
end IslaVerif.C20
