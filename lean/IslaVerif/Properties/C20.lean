import IslaVerif.Model.SemPreds
import IslaVerif.Proofs.C20
/-
C20 — library semantic predicates decide their documented relation on concrete (closed) trees.
`posVal b ds` (Proofs/C20.lean) is the positional value Σ dᵢ·b^(n-1-i) of a digit list.
-/
namespace IslaVerif.C20
open IslaVerif.SemPreds

/-- count holds exactly when the needle occurs the given number of times -/
theorem countVerdict_iff (occ : Nat) (target : Int) : countVerdict occ target = true ↔ (occ : Int) = target :=
  countVerdict_iff' occ target

/-- octal_to_decimal (both arguments concrete) holds exactly when the octal digits denote the decimal number -/
theorem octalBoth_iff (o d : List Nat) : octalBoth o d = true ↔ posVal 8 o = posVal 10 d := octalBoth_iff' o d

/-- the explicit loop of the "concrete octal" branch computes the base-8 value -/
theorem octSum_eq (ds : List Nat) : octSum ds = posVal 8 ds := octSum_eq' ds

/-- the decimal string proposed for a concrete octal denotes the same number -/
theorem octalToDec_correct (o : List Nat) : posVal 10 (octalToDec o) = posVal 8 o := octalToDec_correct' o

/-- the octal string proposed for a concrete decimal denotes the same number and uses octal digits only -/
theorem decToOctal_correct (d : List Nat) : posVal 8 (decToOctal d) = posVal 10 d ∧ ∀ x ∈ decToOctal d, x < 8 :=
  decToOctal_correct' d

/-- octal → decimal → octal and decimal → octal → decimal give back the same number -/
theorem octal_roundtrip (o : List Nat) : posVal 8 (decToOctal (octalToDec o)) = posVal 8 o := by
  rw [(decToOctal_correct (octalToDec o)).1, octalToDec_correct]
theorem decimal_roundtrip (d : List Nat) : posVal 10 (octalToDec (decToOctal d)) = posVal 10 d := by
  rw [octalToDec_correct, (decToOctal_correct d).1]
/-- the converted pair always satisfies the predicate's own acceptance test -/
theorem octalBoth_after_toDec (o : List Nat) : octalBoth o (octalToDec o) = true :=
  (octalBoth_iff o _).2 (octalToDec_correct o).symm
theorem octalBoth_after_toOctal (d : List Nat) : octalBoth (decToOctal d) d = true :=
  (octalBoth_iff _ d).2 (decToOctal_correct d).1

/-- digit generation (`str(n)`, `oct(n)[2:]`) is inverted by positional evaluation, in every base ≥ 2 -/
theorem valDigits_toDigits (b n : Nat) (hb : 2 ≤ b) : valDigits b (toDigits b n) = n := valDigits_toDigits' b n hb

/-- crop holds exactly when the argument fits the width; otherwise the replacement is the cropped argument -/
theorem crop_true_iff (s : List Char) (w : Nat) : cropM s w = .verdict true ↔ s.length ≤ w := crop_true_iff' s w
theorem crop_replace (s out : List Char) (w : Nat) (h : cropM s w = .replace out) :
    out = s.take w ∧ out.length = w ∧ w < s.length := crop_replace' s out w h

/-- the justify predicates hold exactly when the argument already has the requested width -/
theorem just_true_iff (lj cr : Bool) (s : List Char) (w : Nat) (c : Char) :
    justM lj cr s w c = .verdict true ↔ s.length = w := just_true_iff' lj cr s w c

/-- they answer False exactly for an argument that is too long and may not be cropped -/
theorem just_false_iff (lj cr : Bool) (s : List Char) (w : Nat) (c : Char) :
    justM lj cr s w c = .verdict false ↔ (cr = false ∧ w < s.length) := just_false_iff' lj cr s w c

/-- every proposed replacement has exactly the requested width and is the padded / cropped argument -/
theorem just_replace (lj cr : Bool) (s out : List Char) (w : Nat) (c : Char)
    (h : justM lj cr s w c = .replace out) :
    out.length = w ∧
    (s.length < w →
      (lj = true → out = s ++ List.replicate (w - s.length) c) ∧
      (lj = false → out = List.replicate (w - s.length) c ++ s)) ∧
    (w < s.length → cr = true ∧ (lj = true → out = s.take w) ∧ (lj = false → out = s.drop (s.length - w))) :=
  just_replace' lj cr s out w c h

/-! non-vacuity -/
example : octalBoth [1, 7] [1, 5] = true ∧ octalBoth [1, 5] [1, 7] = false := by decide
example : octalToDec [0, 1, 7] = [1, 5] ∧ decToOctal [1, 5] = [1, 7] := by decide
example : justM false true "abc".toList 2 '0' = .replace "bc".toList ∧ justM true false "abc".toList 2 '0' = .verdict false := by decide

end IslaVerif.C20
