import IslaVerif.Model.XPath
import IslaVerif.Proofs.XPath
import IslaVerif.Model.Formula
import IslaVerif.Proofs.C09
/-
C08 — simplified syntax means exactly its documented core translation.

The emitter builds the derived connectives and the universal closure of free nonterminals from
the combinators `-`, `&`, `|` (modelled as `negF`, `andF`, `orF` in C09) and by pushing the
closing quantifier into the formula (`univ_close_over_var_push_in`).  Proved, for EVERY
interpretation of atoms and quantifier domains and every environment:
* `implies`, `iff`, `xor` as built by the emitter mean what the documentation says;
* pushing a universal quantifier into a disjunction is sound whenever the other disjunct does not
  depend on the bound variable; into a conjunction it is sound exactly when the domain is not
  empty — with a proved counterexample for the empty domain (the documented translation closes at
  top level; the difference is recorded in DESIGN.md).
XPath elimination and the default `in start` / fresh names are validated per generated constraint
against hand-expanded core forms (c08.py), not proved.
-/
namespace IslaVerif.C08
open IslaVerif IslaVerif.F IslaVerif.C09

variable {Env : Type}

/-- `left implies right` is emitted as `-left | right` -/
theorem implies_law (I : Interp Env) (ρ : Env) (a b na : F) (hn : negF a = some na) :
    Sat I ρ (orF na b) ↔ (Sat I ρ a → Sat I ρ b) := by
  rw [sat_orF' I ρ na b, sat_negF' I ρ a na hn]
  constructor
  · rintro (h | h) ha
    · exact absurd ha h
    · exact h
  · intro h
    by_cases ha : Sat I ρ a
    · exact Or.inr (h ha)
    · exact Or.inl ha

/-- `left iff right` is emitted as `(-left & -right) | (left & right)` -/
theorem iff_law (I : Interp Env) (ρ : Env) (a b na nb : F) (ha : negF a = some na) (hb : negF b = some nb) :
    Sat I ρ (orF (andF na nb) (andF a b)) ↔ (Sat I ρ a ↔ Sat I ρ b) := by
  rw [sat_orF', sat_andF', sat_andF', sat_negF' I ρ a na ha, sat_negF' I ρ b nb hb]
  constructor
  · rintro (⟨h1, h2⟩ | ⟨h1, h2⟩)
    · exact ⟨fun h => absurd h h1, fun h => absurd h h2⟩
    · exact ⟨fun _ => h2, fun _ => h1⟩
  · intro h
    by_cases h1 : Sat I ρ a
    · exact Or.inr ⟨h1, h.1 h1⟩
    · exact Or.inl ⟨h1, fun h2 => h1 (h.2 h2)⟩

/-- `left xor right` is emitted as `(left & -right) | (-left & right)` -/
theorem xor_law (I : Interp Env) (ρ : Env) (a b na nb : F) (ha : negF a = some na) (hb : negF b = some nb) :
    Sat I ρ (orF (andF a nb) (andF na b)) ↔ ¬ (Sat I ρ a ↔ Sat I ρ b) := by
  rw [sat_orF', sat_andF', sat_andF', sat_negF' I ρ a na ha, sat_negF' I ρ b nb hb]
  constructor
  · rintro (⟨h1, h2⟩ | ⟨h1, h2⟩) h
    · exact h2 (h.1 h1)
    · exact h1 (h.2 h2)
  · intro h
    by_cases h1 : Sat I ρ a
    · refine Or.inl ⟨h1, fun h2 => h ⟨fun _ => h2, fun _ => h1⟩⟩
    · by_cases h2 : Sat I ρ b
      · exact Or.inr ⟨h1, h2⟩
      · exact absurd ⟨fun h => absurd h h1, fun h => absurd h h2⟩ h

/-- `A` does not depend on the variable bound by quantifier `q` at `ρ` -/
def Indep (I : Interp Env) (ρ : Env) (q : Nat) (A : F) : Prop := ∀ ρ' ∈ I.dom q ρ, (Sat I ρ' A ↔ Sat I ρ A)

/-- pushing the closing universal quantifier into a disjunction -/
theorem pushin_or (I : Interp Env) (ρ : Env) (q : Nat) (A B : F) (hA : Indep I ρ q A) :
    Sat I ρ (.all q (.disj [A, B])) ↔ Sat I ρ (.disj [A, .all q B]) := by
  simp only [Sat, SatAny, or_false]
  constructor
  · intro h
    by_cases ha : Sat I ρ A
    · exact Or.inl ha
    · refine Or.inr fun ρ' hρ' => ?_
      rcases h ρ' hρ' with h1 | h1
      · exact absurd ((hA ρ' hρ').1 h1) ha
      · exact h1
  · rintro (h | h) ρ' hρ'
    · exact Or.inl ((hA ρ' hρ').2 h)
    · exact Or.inr (h ρ' hρ')

/-- … into a conjunction: sound when the quantifier's domain is not empty -/
theorem pushin_and (I : Interp Env) (ρ : Env) (q : Nat) (A B : F) (hA : Indep I ρ q A)
    (hne : I.dom q ρ ≠ []) :
    Sat I ρ (.all q (.conj [A, B])) ↔ Sat I ρ (.conj [A, .all q B]) := by
  simp only [Sat, SatAll, and_true]
  constructor
  · intro h
    obtain ⟨ρ0, h0⟩ := List.exists_mem_of_ne_nil _ hne
    exact ⟨(hA ρ0 h0).1 (h ρ0 h0).1, fun ρ' hρ' => (h ρ' hρ').2⟩
  · rintro ⟨h1, h2⟩ ρ' hρ'
    exact ⟨(hA ρ' hρ').2 h1, h2 ρ' hρ'⟩

/-- … and NOT sound over an empty domain: the quantified form holds vacuously, the pushed-in form
requires `A` (witness: A false, empty domain) -/
theorem pushin_and_counterexample :
    ∃ (I : Interp Unit) (ρ : Unit) (q : Nat) (A B : F),
      I.dom q ρ = [] ∧ Indep I ρ q A ∧ Sat I ρ (.all q (.conj [A, B])) ∧ ¬ Sat I ρ (.conj [A, .all q B]) := by
  refine ⟨{ atom := fun _ _ => False, smt := fun _ _ => False, dom := fun _ _ => [], bindInt := fun _ _ ρ => ρ }, (), 0, .atom 0, .atom 1, rfl, ?_, ?_, ?_⟩
  · intro ρ' h; cases h
  · simp [Sat]
  · simp [Sat, SatAll]

/-- one direction always holds: the pushed-in form implies the closed form -/
theorem pushin_and_mp (I : Interp Env) (ρ : Env) (q : Nat) (A B : F) (hA : Indep I ρ q A) :
    Sat I ρ (.conj [A, .all q B]) → Sat I ρ (.all q (.conj [A, B])) := by
  simp only [Sat, SatAll, and_true]
  rintro ⟨h1, h2⟩ ρ' hρ'
  exact ⟨(hA ρ' hρ').2 h1, h2 ρ' hρ'⟩

end IslaVerif.C08

/-
C08x — the documented translation of the XPath CHILD step `n.<T>[i]` means what it says.

`forall <V> n in c: φ(n.<T>[i])` is documented to mean: for every alternative `e` of `<V>` with at
least `i` occurrences of `<T>`, `forall <V> n="e, the i-th <T> bound to x" in c: φ(x)`, combined
by conjunction (`exists`: disjunction).  In the model this is ONE quantifier carrying the list
`childMTrees g V T i x` of match-expression trees (`list_is_conjunction` / `list_is_disjunction`
relate the two forms).  Proved:
* (a) `match_child`: a tree of the translation that matches a node binds exactly `x`, to the
  `i`-th `<T>`-labelled child of the node;
* (b) `match_child_complete`: if the node is labelled `<V>`, is expanded by one of `<V>`'s
  alternatives and has an `i`-th `<T>`-child, some tree of the translation matches;
* (c) `xpath_child_all`, `xpath_child_ex`: the translated quantifier ranges exactly over the nodes
  labelled `<V>` in the in-tree that HAVE an `i`-th `<T>`-child (nodes without one are skipped by
  `forall` and cannot witness `exists`), `n` bound to the node and `x` to the child;
  `…_valid`: the expansion hypothesis follows from validity of the reference tree when `T ≠ ""`;
* (d) `nthOcc_spec`, `childMTrees_eq_nil_iff`, `childMTrees_length`.
The only hypothesis is that the nodes in question are expanded by an alternative of `<V>`
*literally* (children labels = alternative).  `DTree.valid` also accepts the ε-alternative realised
by a single `""` child; such a node has no `T`-child for `T ≠ ""`, hence `T ≠ ""` suffices.
-/
namespace IslaVerif.C08x
open IslaVerif IslaVerif.Sem IslaVerif.XPath

/-! ### (a), (b) -/

theorem match_child (g : Grammar) (V T : String) (i : Nat) (x : String) (pos : Path) (t : DTree)
    (m : MTree) (bs : List (String × Path)) (hm : m ∈ childMTrees g V T i x)
    (h : matchM pos t m.tree m.binds = some bs) :
    ∃ k, bs = [(x, pos ++ [k])] ∧ nthChild T i t = some k :=
  XPath.match_child g V T i x pos t m bs hm h

/-- more: the matched node is labelled `V` and is expanded by the alternative of the tree -/
theorem match_child_full (g : Grammar) (V T : String) (i : Nat) (x : String) (pos : Path) (t : DTree)
    (m : MTree) (bs : List (String × Path)) (hm : m ∈ childMTrees g V T i x)
    (h : matchM pos t m.tree m.binds = some bs) :
    ∃ e k, e ∈ (g.alts V).getD [] ∧ m = { tree := altTree g V e, binds := [(x, [k])] } ∧
      t.sym = V ∧ t.kids.map DTree.sym = e ∧ bs = [(x, pos ++ [k])] ∧ nthChild T i t = some k :=
  XPath.match_child_full g V T i x pos t m bs hm h

theorem match_child_complete (g : Grammar) (V T : String) (i : Nat) (x : String) (pos : Path)
    (t : DTree) (k : Nat) (hs : t.sym = V) (he : t.kids.map DTree.sym ∈ (g.alts V).getD [])
    (hk : nthChild T i t = some k) :
    ∃ m, m ∈ childMTrees g V T i x ∧ matchM pos t m.tree m.binds = some [(x, pos ++ [k])] :=
  XPath.match_child_complete g V T i x pos t k hs he hk

/-- the same with the hypothesis in the `∃ e` form -/
theorem match_child_complete_of_alt (g : Grammar) (V T : String) (i : Nat) (x : String) (pos : Path)
    (t : DTree) (k : Nat) (hs : t.sym = V)
    (he : ∃ e ∈ (g.alts V).getD [], t.kids.map DTree.sym = e)
    (hk : nthChild T i t = some k) :
    ∃ m, m ∈ childMTrees g V T i x ∧ matchM pos t m.tree m.binds = some [(x, pos ++ [k])] := by
  obtain ⟨e, he1, he2⟩ := he
  exact XPath.match_child_complete g V T i x pos t k hs (he2 ▸ he1) hk

/-- all trees of the translation that match a node give the same binding -/
theorem match_child_unique (g : Grammar) (V T : String) (i : Nat) (x : String) (pos : Path) (t : DTree)
    (m m' : MTree) (bs bs' : List (String × Path)) (hm : m ∈ childMTrees g V T i x)
    (hm' : m' ∈ childMTrees g V T i x) (h : matchM pos t m.tree m.binds = some bs)
    (h' : matchM pos t m'.tree m'.binds = some bs') : bs = bs' :=
  XPath.match_child_unique g V T i x pos t m m' bs bs' hm hm' h h'

/-- a valid node with at least one child, whose children are not the single `""` leaf of an
ε-expansion, is expanded by one of its symbol's alternatives literally -/
theorem expanded_of_valid (g : Grammar) (t : DTree) (hv : t.valid g = true) (hne : t.kids ≠ [])
    (h0 : t.kids.map DTree.sym ≠ [""]) : t.kids.map DTree.sym ∈ (g.alts t.sym).getD [] :=
  XPath.expanded_of_valid g t hv hne h0

/-- for `T ≠ ""`, a valid node that has an `i`-th `T`-child is expanded by an alternative -/
theorem expanded_of_valid_nthChild (g : Grammar) (T : String) (i k : Nat) (t : DTree)
    (hT : T ≠ "") (hv : t.valid g = true) (hk : nthChild T i t = some k) :
    t.kids.map DTree.sym ∈ (g.alts t.sym).getD [] :=
  XPath.expanded_of_valid_nthChild g T i k t hT hv hk

/-! ### (c) -/

/-- the instances of the translated quantifier -/
theorem matchInst_child (w : World) (β : Env) (n V c T : String) (i : Nat) (x : String)
    (hv : ∀ p sub q t k, β.get c = some (.path p) → w.root.get p = some sub → sub.get q = some t →
      t.sym = V → nthChild T i t = some k → t.kids.map DTree.sym ∈ (w.g.alts V).getD [])
    (β' : Env) :
    MatchInst w β n V c (childMTrees w.g V T i x) β' ↔
      ∃ p sub q t k, β.get c = some (.path p) ∧ w.root.get p = some sub ∧ sub.get q = some t ∧
        t.sym = V ∧ nthChild T i t = some k ∧
        β' = (n, Bind.path (p ++ q)) :: (x, Bind.path (p ++ q ++ [k])) :: β :=
  XPath.matchInst_child w β n V c T i x hv β'

theorem xpath_child_all (w : World) (β : Env) (n V c T : String) (i : Nat) (x : String) (φ : Fm)
    (hv : ∀ p sub q t k, β.get c = some (.path p) → w.root.get p = some sub → sub.get q = some t →
      t.sym = V → nthChild T i t = some k → t.kids.map DTree.sym ∈ (w.g.alts V).getD []) :
    Sat w β (.all n V c (some (childMTrees w.g V T i x)) φ) ↔
      ∀ p sub q t k, β.get c = some (.path p) → w.root.get p = some sub → sub.get q = some t →
        t.sym = V → nthChild T i t = some k →
        Sat w ((n, .path (p ++ q)) :: (x, .path (p ++ q ++ [k])) :: β) φ :=
  XPath.xpath_child_all w β n V c T i x φ hv

theorem xpath_child_ex (w : World) (β : Env) (n V c T : String) (i : Nat) (x : String) (φ : Fm)
    (hv : ∀ p sub q t k, β.get c = some (.path p) → w.root.get p = some sub → sub.get q = some t →
      t.sym = V → nthChild T i t = some k → t.kids.map DTree.sym ∈ (w.g.alts V).getD []) :
    Sat w β (.ex n V c (some (childMTrees w.g V T i x)) φ) ↔
      ∃ p sub q t k, β.get c = some (.path p) ∧ w.root.get p = some sub ∧ sub.get q = some t ∧
        t.sym = V ∧ nthChild T i t = some k ∧
        Sat w ((n, .path (p ++ q)) :: (x, .path (p ++ q ++ [k])) :: β) φ :=
  XPath.xpath_child_ex w β n V c T i x φ hv

/-- `←` of `xpath_child_all` needs no hypothesis at all: the translation never binds anything but
the `i`-th `T`-child -/
theorem xpath_child_all_of (w : World) (β : Env) (n V c T : String) (i : Nat) (x : String) (φ : Fm)
    (h : ∀ p sub q t k, β.get c = some (.path p) → w.root.get p = some sub → sub.get q = some t →
        t.sym = V → nthChild T i t = some k →
        Sat w ((n, .path (p ++ q)) :: (x, .path (p ++ q ++ [k])) :: β) φ) :
    Sat w β (.all n V c (some (childMTrees w.g V T i x)) φ) :=
  XPath.xpath_child_all_of w β n V c T i x φ h

/-- `→` of `xpath_child_ex` needs no hypothesis either -/
theorem xpath_child_ex_elim (w : World) (β : Env) (n V c T : String) (i : Nat) (x : String) (φ : Fm)
    (h : Sat w β (.ex n V c (some (childMTrees w.g V T i x)) φ)) :
    ∃ p sub q t k, β.get c = some (.path p) ∧ w.root.get p = some sub ∧ sub.get q = some t ∧
      t.sym = V ∧ nthChild T i t = some k ∧
      Sat w ((n, .path (p ++ q)) :: (x, .path (p ++ q ++ [k])) :: β) φ :=
  XPath.xpath_child_ex_elim w β n V c T i x φ h

/-- on a valid reference tree, for `T ≠ ""` -/
theorem xpath_child_all_valid (w : World) (β : Env) (n V c T : String) (i : Nat) (x : String)
    (φ : Fm) (hT : T ≠ "") (hroot : w.root.valid w.g = true) :
    Sat w β (.all n V c (some (childMTrees w.g V T i x)) φ) ↔
      ∀ p sub q t k, β.get c = some (.path p) → w.root.get p = some sub → sub.get q = some t →
        t.sym = V → nthChild T i t = some k →
        Sat w ((n, .path (p ++ q)) :: (x, .path (p ++ q ++ [k])) :: β) φ :=
  XPath.xpath_child_all w β n V c T i x φ (XPath.expanded_in_valid w β V c T i hT hroot)

theorem xpath_child_ex_valid (w : World) (β : Env) (n V c T : String) (i : Nat) (x : String)
    (φ : Fm) (hT : T ≠ "") (hroot : w.root.valid w.g = true) :
    Sat w β (.ex n V c (some (childMTrees w.g V T i x)) φ) ↔
      ∃ p sub q t k, β.get c = some (.path p) ∧ w.root.get p = some sub ∧ sub.get q = some t ∧
        t.sym = V ∧ nthChild T i t = some k ∧
        Sat w ((n, .path (p ++ q)) :: (x, .path (p ++ q ++ [k])) :: β) φ :=
  XPath.xpath_child_ex w β n V c T i x φ (XPath.expanded_in_valid w β V c T i hT hroot)

/-- the documented form — one quantifier per match-expression tree, combined by conjunction — and
the model's form — one quantifier with the list of trees — mean the same -/
theorem list_is_conjunction (w : World) (β : Env) (v ty c : String) (ms : List MTree) (f : Fm) :
    Sat w β (.conj (ms.map fun m => .all v ty c (some [m]) f)) ↔ Sat w β (.all v ty c (some ms) f) :=
  XPath.all_mexprs_iff_conj w β v ty c ms f

theorem list_is_disjunction (w : World) (β : Env) (v ty c : String) (ms : List MTree) (f : Fm) :
    Sat w β (.disj (ms.map fun m => .ex v ty c (some [m]) f)) ↔ Sat w β (.ex v ty c (some ms) f) :=
  XPath.ex_mexprs_iff_disj w β v ty c ms f

/-! ### (d) -/

/-- `nthOcc` returns the position that carries `T` and has exactly `i - 1` occurrences of `T`
before it (and only that one) -/
theorem nthOcc_spec (T : String) (i : Nat) (e : List String) (k : Nat) :
    nthOcc T i e 0 = some k ↔ e[k]? = some T ∧ (e.take k).count T + 1 = i :=
  XPath.nthOcc_spec T i e k

theorem nthOcc_eq_none_iff (T : String) (e : List String) (i pos : Nat) :
    nthOcc T i e pos = none ↔ i = 0 ∨ e.count T < i :=
  XPath.nthOcc_eq_none_iff T e i pos

theorem childMTrees_eq_nil_iff (g : Grammar) (V T : String) (i : Nat) (x : String) :
    childMTrees g V T i x = [] ↔ ∀ e ∈ (g.alts V).getD [], i = 0 ∨ e.count T < i :=
  XPath.childMTrees_eq_nil_iff g V T i x

theorem childMTrees_length (g : Grammar) (V T : String) (i : Nat) (x : String) :
    (childMTrees g V T i x).length =
      (((g.alts V).getD []).filter fun e => decide (1 ≤ i ∧ i ≤ e.count T)).length :=
  XPath.childMTrees_length g V T i x

/-! ### examples -/

/-- `altTree` as in the documentation of the model -/
example (g : Grammar) (V : String) (e : List String) :
    altTree g V e =
      .node 0 V (e.map fun s => if g.isNT s then .openLeaf 0 s else .node 0 s []) := rfl

def asg : Grammar :=
  [("<start>", [["<stmt>"]]), ("<stmt>", [["<assgn>"], ["<assgn>", " ; ", "<stmt>"]]),
   ("<assgn>", [["<var>", " := ", "<rhs>"]]), ("<rhs>", [["<var>"], ["<digit>"]]),
   ("<var>", [["a"], ["b"]]), ("<digit>", [["0"], ["1"]])]

def pairs : Grammar :=
  [("<start>", [["<pair>"]]),
   ("<pair>", [["<key>", "=", "<val>"], ["<key>", "=", "<val>", "=", "<val>"]]),
   ("<key>", [["k"]]), ("<val>", [["v"]])]

/-- `<pair>.<val>[2]`: exactly one tree (the long alternative), binding position 4 -/
example : (childMTrees pairs "<pair>" "<val>" 2 "x").map (·.binds) = [[("x", [4])]] := by decide
example : (childMTrees pairs "<pair>" "<val>" 2 "x").map (·.tree) =
    [.node 0 "<pair>" [.openLeaf 0 "<key>", .node 0 "=" [], .openLeaf 0 "<val>", .node 0 "=" [],
      .openLeaf 0 "<val>"]] := by rfl
/-- `<pair>.<val>[1]`: two trees, both binding position 2 -/
example : (childMTrees pairs "<pair>" "<val>" 1 "x").length = 2 := by decide
example : (childMTrees pairs "<pair>" "<val>" 1 "x").map (·.binds) =
    [[("x", [2])], [("x", [2])]] := by decide
example : childMTrees pairs "<pair>" "<val>" 3 "x" = [] := by rfl
example : childMTrees pairs "<pair>" "<val>" 0 "x" = [] := by rfl
example : childMTrees pairs "<nope>" "<val>" 1 "x" = [] := by rfl

/-- assignment grammar: `<stmt>.<stmt>[1]` only exists in the second alternative -/
example : (childMTrees asg "<stmt>" "<stmt>" 1 "x").map (·.binds) = [[("x", [2])]] := by decide
example : (childMTrees asg "<stmt>" "<assgn>" 1 "x").map (·.binds) =
    [[("x", [0])], [("x", [0])]] := by decide
example : childMTrees asg "<stmt>" "<assgn>" 2 "x" = [] := by rfl
example : (childMTrees asg "<rhs>" "<var>" 1 "x").map (·.tree) =
    [.node 0 "<rhs>" [.openLeaf 0 "<var>"]] := by rfl
example : (childMTrees asg "<assgn>" "<rhs>" 1 "x").map (·.tree) =
    [.node 0 "<assgn>" [.openLeaf 0 "<var>", .node 0 " := " [], .openLeaf 0 "<rhs>"]] := by rfl

/-- matching concrete nodes -/
def stmt2 : DTree := .node 1 "<stmt>" [.node 2 "<assgn>" [], .node 3 " ; " [], .node 4 "<stmt>" []]
def stmt1 : DTree := .node 1 "<stmt>" [.node 2 "<assgn>" []]

example : nthChild "<stmt>" 1 stmt2 = some 2 := by decide
example : nthChild "<stmt>" 1 stmt1 = none := by decide
example : (childMTrees asg "<stmt>" "<stmt>" 1 "x").filterMap
    (fun m => matchM [0] stmt2 m.tree m.binds) = [[("x", [0, 2])]] := by decide
example : (childMTrees asg "<stmt>" "<stmt>" 1 "x").filterMap
    (fun m => matchM [0] stmt1 m.tree m.binds) = [] := by decide
/-- both `<assgn>`-trees exist, but only the one of the node's own alternative matches -/
example : (childMTrees asg "<stmt>" "<assgn>" 1 "x").map
    (fun m => matchM [] stmt2 m.tree m.binds) = [none, some [("x", [0])]] := by decide

/-- end to end with the reference evaluator: in `a ; a` (schematically) only the outer `<stmt>`
has a `<stmt>`-child; the single instance binds `n` to it and `x` to its third child -/
def root2 : DTree :=
  .node 0 "<start>" [.node 1 "<stmt>" [.node 2 "<assgn>" [], .node 3 " ; " [],
    .node 4 "<stmt>" [.node 5 "<assgn>" []]]]
def w2 : World := { g := asg, root := root2, isNT := fun s => s.startsWith "<", intBound := 2 }

example : mexprInstances w2 [("start", .path [])] "n" [[0], [0, 2]]
    (childMTrees asg "<stmt>" "<stmt>" 1 "x") =
    [[("n", .path [0]), ("x", .path [0, 2]), ("start", .path [])]] := by decide
example : evalRef w2 [("start", .path [])]
    (childAll asg "n" "<stmt>" "start" "<stmt>" 1 "x"
      (.pred "direct_child" [.var "x", .var "n"])) = some true := by decide
/-- no `<stmt>` has a second `<assgn>`-child: `exists` is false even for the body `true` -/
example : evalRef w2 [("start", .path [])]
    (childEx asg "n" "<stmt>" "start" "<assgn>" 2 "x" (.conj [])) = some false := by decide

end IslaVerif.C08x
