import IslaVerif.Model.Formula
import IslaVerif.Proofs.C09
/-
C08 — simplified syntax means exactly its documented core translation.

The emitter builds the derived connectives and the universal closure of free nonterminals from
the combinators `-`, `&`, `|` (modelled as `negF`, `andF`, `orF` in C09) and by pushing the
closing quantifier into the formula (`univ_close_over_var_push_in`).  Proved, for EVERY
interpretation of atoms and quantifier domains and every environment:
* `implies`, `iff`, `xor` as built by the emitter mean what the documentation says;
* pushing a universal quantifier into a disjunction is sound whenever the other disjunct does not
  depend on the bound variable; into a conjunction it is sound exactly when the domain is not
  empty — with a proved counterexample for the empty domain (the documented translation closes at
  top level; the difference is recorded in DESIGN.md).
XPath elimination and the default `in start` / fresh names are validated per generated constraint
against hand-expanded core forms (c08.py), not proved.
-/
namespace IslaVerif.C08
open IslaVerif IslaVerif.F IslaVerif.C09

variable {Env : Type}

/-- `left implies right` is emitted as `-left | right` -/
theorem implies_law (I : Interp Env) (ρ : Env) (a b na : F) (hn : negF a = some na) :
    Sat I ρ (orF na b) ↔ (Sat I ρ a → Sat I ρ b) := by
  rw [sat_orF' I ρ na b, sat_negF' I ρ a na hn]
  constructor
  · rintro (h | h) ha
    · exact absurd ha h
    · exact h
  · intro h
    by_cases ha : Sat I ρ a
    · exact Or.inr (h ha)
    · exact Or.inl ha

/-- `left iff right` is emitted as `(-left & -right) | (left & right)` -/
theorem iff_law (I : Interp Env) (ρ : Env) (a b na nb : F) (ha : negF a = some na) (hb : negF b = some nb) :
    Sat I ρ (orF (andF na nb) (andF a b)) ↔ (Sat I ρ a ↔ Sat I ρ b) := by
  rw [sat_orF', sat_andF', sat_andF', sat_negF' I ρ a na ha, sat_negF' I ρ b nb hb]
  constructor
  · rintro (⟨h1, h2⟩ | ⟨h1, h2⟩)
    · exact ⟨fun h => absurd h h1, fun h => absurd h h2⟩
    · exact ⟨fun _ => h2, fun _ => h1⟩
  · intro h
    by_cases h1 : Sat I ρ a
    · exact Or.inr ⟨h1, h.1 h1⟩
    · exact Or.inl ⟨h1, fun h2 => h1 (h.2 h2)⟩

/-- `left xor right` is emitted as `(left & -right) | (-left & right)` -/
theorem xor_law (I : Interp Env) (ρ : Env) (a b na nb : F) (ha : negF a = some na) (hb : negF b = some nb) :
    Sat I ρ (orF (andF a nb) (andF na b)) ↔ ¬ (Sat I ρ a ↔ Sat I ρ b) := by
  rw [sat_orF', sat_andF', sat_andF', sat_negF' I ρ a na ha, sat_negF' I ρ b nb hb]
  constructor
  · rintro (⟨h1, h2⟩ | ⟨h1, h2⟩) h
    · exact h2 (h.1 h1)
    · exact h1 (h.2 h2)
  · intro h
    by_cases h1 : Sat I ρ a
    · refine Or.inl ⟨h1, fun h2 => h ⟨fun _ => h2, fun _ => h1⟩⟩
    · by_cases h2 : Sat I ρ b
      · exact Or.inr ⟨h1, h2⟩
      · exact absurd ⟨fun h => absurd h h1, fun h => absurd h h2⟩ h

/-- `A` does not depend on the variable bound by quantifier `q` at `ρ` -/
def Indep (I : Interp Env) (ρ : Env) (q : Nat) (A : F) : Prop := ∀ ρ' ∈ I.dom q ρ, (Sat I ρ' A ↔ Sat I ρ A)

/-- pushing the closing universal quantifier into a disjunction -/
theorem pushin_or (I : Interp Env) (ρ : Env) (q : Nat) (A B : F) (hA : Indep I ρ q A) :
    Sat I ρ (.all q (.disj [A, B])) ↔ Sat I ρ (.disj [A, .all q B]) := by
  simp only [Sat, SatAny, or_false]
  constructor
  · intro h
    by_cases ha : Sat I ρ A
    · exact Or.inl ha
    · refine Or.inr fun ρ' hρ' => ?_
      rcases h ρ' hρ' with h1 | h1
      · exact absurd ((hA ρ' hρ').1 h1) ha
      · exact h1
  · rintro (h | h) ρ' hρ'
    · exact Or.inl ((hA ρ' hρ').2 h)
    · exact Or.inr (h ρ' hρ')

/-- … into a conjunction: sound when the quantifier's domain is not empty -/
theorem pushin_and (I : Interp Env) (ρ : Env) (q : Nat) (A B : F) (hA : Indep I ρ q A)
    (hne : I.dom q ρ ≠ []) :
    Sat I ρ (.all q (.conj [A, B])) ↔ Sat I ρ (.conj [A, .all q B]) := by
  simp only [Sat, SatAll, and_true]
  constructor
  · intro h
    obtain ⟨ρ0, h0⟩ := List.exists_mem_of_ne_nil _ hne
    exact ⟨(hA ρ0 h0).1 (h ρ0 h0).1, fun ρ' hρ' => (h ρ' hρ').2⟩
  · rintro ⟨h1, h2⟩ ρ' hρ'
    exact ⟨(hA ρ' hρ').2 h1, h2 ρ' hρ'⟩

/-- … and NOT sound over an empty domain: the quantified form holds vacuously, the pushed-in form
requires `A` (witness: A false, empty domain) -/
theorem pushin_and_counterexample :
    ∃ (I : Interp Unit) (ρ : Unit) (q : Nat) (A B : F),
      I.dom q ρ = [] ∧ Indep I ρ q A ∧ Sat I ρ (.all q (.conj [A, B])) ∧ ¬ Sat I ρ (.conj [A, .all q B]) := by
  refine ⟨{ atom := fun _ _ => False, smt := fun _ _ => False, dom := fun _ _ => [], bindInt := fun _ _ ρ => ρ }, (), 0, .atom 0, .atom 1, rfl, ?_, ?_, ?_⟩
  · intro ρ' h; cases h
  · simp [Sat]
  · simp [Sat, SatAll]

/-- one direction always holds: the pushed-in form implies the closed form -/
theorem pushin_and_mp (I : Interp Env) (ρ : Env) (q : Nat) (A B : F) (hA : Indep I ρ q A) :
    Sat I ρ (.conj [A, .all q B]) → Sat I ρ (.all q (.conj [A, B])) := by
  simp only [Sat, SatAll, and_true]
  rintro ⟨h1, h2⟩ ρ' hρ'
  exact ⟨(hA ρ' hρ').2 h1, h2 ρ' hρ'⟩

end IslaVerif.C08
