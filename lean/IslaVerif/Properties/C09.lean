import IslaVerif.Model.Formula
import IslaVerif.Proofs.C09
import IslaVerif.Proofs.Alpha
/-
C09 — formula negation and normal-form rewrites preserve meaning.
ONLY property theorems and non-vacuity examples; `Sat`, `Interp`, `WF`, `NegOnAtoms` are defined in
Proofs/C09.lean ("Specification").  All statements quantify over every interpretation of the atoms,
every (finite, possibly empty) quantifier domain and every environment, i.e. over all grammars,
closed trees and assignments.
-/
namespace IslaVerif.C09
open IslaVerif IslaVerif.F

/-- Python's `==` on formulas identifies only formulas with the same meaning -/
theorem sat_feq {Env} (I : Interp Env) (ρ : Env) (a b : F) (h : feq a b = true) :
    Sat I ρ a ↔ Sat I ρ b := sat_feq' I ρ a b h

/-- the simplifying `&` combinator is conjunction -/
theorem sat_andF {Env} (I : Interp Env) (ρ : Env) (a b : F) :
    Sat I ρ (andF a b) ↔ Sat I ρ a ∧ Sat I ρ b := sat_andF' I ρ a b

/-- the simplifying `|` combinator is disjunction -/
theorem sat_orF {Env} (I : Interp Env) (ρ : Env) (a b : F) :
    Sat I ρ (orF a b) ↔ Sat I ρ a ∨ Sat I ρ b := sat_orF' I ρ a b

theorem sat_splitConj {Env} (I : Interp Env) (ρ : Env) (f : F) :
    SatAll I ρ (splitConj f) ↔ Sat I ρ f := sat_splitConj' I ρ f

theorem sat_splitDisj {Env} (I : Interp Env) (ρ : Env) (f : F) :
    SatAny I ρ (splitDisj f) ↔ Sat I ρ f := sat_splitDisj' I ρ f

/-- negating a constraint inverts its verdict -/
theorem sat_negF {Env} (I : Interp Env) (ρ : Env) (f g : F) (h : negF f = some g) :
    Sat I ρ g ↔ ¬ Sat I ρ f := sat_negF' I ρ f g h

/-- negation never raises on a well-formed formula -/
theorem negF_total (f : F) (h : WF f = true) : ∃ g, negF f = some g := negF_total' f h

/-- NNF conversion preserves (resp. inverts, with `negate`) the verdict -/
theorem sat_nnf {Env} (I : Interp Env) (ρ : Env) (f g : F) (b : Bool) (h : nnf f b = some g) :
    Sat I ρ g ↔ (if b then ¬ Sat I ρ f else Sat I ρ f) := sat_nnf' I ρ f g b h

theorem nnf_total (f : F) (b : Bool) (h : WF f = true) : ∃ g, nnf f b = some g := nnf_total' f b h

/-- DNF conversion preserves the verdict whenever it returns -/
theorem sat_dnf {Env} (I : Interp Env) (ρ : Env) (f g : F) (deep : Bool) (h : dnf f deep = .ok g) :
    Sat I ρ g ↔ Sat I ρ f := sat_dnf' I ρ f g deep h

/-- DNF conversion never raises on a well-formed formula whose negations sit on predicate atoms
(n-ary conjunctions included: this is the statement that was false before fix 3599415) -/
theorem dnf_total (f : F) (deep : Bool) (hw : WF f = true) (hn : NegOnAtoms f = true) :
    ∃ g, dnf f deep = .ok g := dnf_total' f deep hw hn

/-! ### compositions used by the solver (corollaries, stated for every interpretation) -/
/-- double negation: `-(-f)` has the verdict of `f` under every interpretation, whatever shape the
two negations rewrote the formula into -/
theorem sat_negF_negF {Env} (I : Interp Env) (ρ : Env) (f g h : F)
    (h1 : negF f = some g) (h2 : negF g = some h) : Sat I ρ h ↔ Sat I ρ f := by
  rw [sat_negF I ρ g h h2, sat_negF I ρ f g h1]; exact Classical.not_not

/-- `convert_to_nnf(f, negate=True)` and `-f` agree under every interpretation -/
theorem sat_nnf_neg_eq_negF {Env} (I : Interp Env) (ρ : Env) (f g n : F)
    (h1 : nnf f true = some n) (h2 : negF f = some g) : Sat I ρ n ↔ Sat I ρ g := by
  rw [sat_nnf I ρ f n true h1, sat_negF I ρ f g h2]; simp

/-- the solver's normalisation pipeline NNF ∘ DNF preserves the verdict -/
theorem sat_dnf_nnf {Env} (I : Interp Env) (ρ : Env) (f n d : F) (deep : Bool)
    (h1 : nnf f false = some n) (h2 : dnf n deep = .ok d) : Sat I ρ d ↔ Sat I ρ f := by
  rw [sat_dnf I ρ n d deep h2, sat_nnf I ρ f n false h1]; simp

/-! non-vacuity -/
def exF : F := .conj [.disj [.atom 1, .smt 2 true], .all 0 (.disj [.atom 3, .neg (.atom 1)]), .smt 4 false]
example : WF exF = true ∧ NegOnAtoms exF = true := by decide
example : ∃ g, dnf exF false = .ok g := dnf_total exF false (by decide) (by decide)

/-! ### bound-variable renaming (`ensure_unique_bound_variables`)

The renaming procedure itself (name generation with a shared mutable set of used names) is not
modelled; every result of the real function is compared with its input by `Alpha.alphaEq` (equal
nameless forms).  Proved: formulas accepted by that checker have the same meaning under EVERY
interpretation of atoms and quantifier domains and in EVERY environment (`Alpha.SatN`,
Proofs/Alpha.lean: tree quantifiers bind their variable and their match-expression variables,
numeric quantifiers range over all naturals). -/

theorem rename_alphaEq_sound {V : Type} [Inhabited V] (I : Alpha.Interp V) (ρ : String → V) (f g : Alpha.NF)
    (h : Alpha.alphaEq f g = true) : Alpha.SatN I ρ f ↔ Alpha.SatN I ρ g := Alpha.alphaEq_sound' I ρ f g h

/-- the nameless form is faithful: a named formula and its nameless form agree whenever the named
environment agrees with the value stack through the binder stack -/
theorem rename_toDB_sat {V : Type} [Inhabited V] (I : Alpha.Interp V) (ρ0 : String → V)
    (f : Alpha.NF) (st : List String) (σ : List V) (ρ : String → V)
    (hl : st.length = σ.length) (hρ : ∀ v, ρ v = Alpha.valOf ρ0 σ (Alpha.resolve st v)) :
    Alpha.SatN I ρ f ↔ Alpha.SatD I ρ0 σ (Alpha.toDB st f) := Alpha.toDB_sat' I ρ0 f st σ ρ hl hρ

/-- the checker accepts an unchanged formula -/
theorem rename_alphaEq_refl (f : Alpha.NF) : Alpha.alphaEq f f = true := Alpha.alphaEq_refl' f

/-! non-vacuity: a correct renaming is accepted, a capturing one is rejected
(`forall x: forall y in x: exists x_0: p(x_0, x)` renamed with the outer x ↦ x_0) -/
def rnIn : Alpha.NF := .all ["x"] "start" (.all ["y"] "x" (.ex ["x_0"] "start" (.atom 1 ["x_0", "x"])))
def rnGood : Alpha.NF := .all ["x_1"] "start" (.all ["y"] "x_1" (.ex ["x_0"] "start" (.atom 1 ["x_0", "x_1"])))
def rnCapture : Alpha.NF := .all ["x_0"] "start" (.all ["y"] "x_0" (.ex ["x_0"] "start" (.atom 1 ["x_0", "x_0"])))
example : Alpha.alphaEq rnIn rnGood = true ∧ Alpha.alphaEq rnIn rnCapture = false := by decide +kernel

end IslaVerif.C09
