import IslaVerif.Model.Bnf
import IslaVerif.Proofs.C11
/-
C11 — BNF grammars survive printing and re-parsing: terminals keep their meaning.
The three tables (escape table of `unparse_grammar`, the simple escapes and hex digits of
`instantiate_escaped_symbols`) are REGENERATED from /repo's source on every run; the theorems are
re-checked against them (an edit of a table that breaks the round trip breaks these proofs).
-/
namespace IslaVerif.C11
open IslaVerif.Bnf

/-- un-escaping inverts escaping for EVERY string of code points (printable, control characters,
quotes, backslashes, non-ASCII, placeholder look-alikes, …) -/
theorem unescape_escape (s : List Nat) : unescape (escapeStr s) = s := unescape_escape' s

/-- the printed form of a terminal is exactly one STRING token of bnf.g4, whatever follows -/
theorem lex_printed (s rest : List Nat) : lexString (printTerminal s ++ rest) = some (escapeStr s, rest) :=
  lex_printed' s rest

/-- printing a terminal and reading it back yields the same terminal -/
theorem read_print (s rest : List Nat) : readTerminal (printTerminal s ++ rest) = some (s, rest) :=
  read_print' s rest

/-- distinct terminals never print to the same text (so no two different grammars' terminals can be
confused after printing), and escaping alone is already injective -/
theorem printTerminal_inj (a b : List Nat) (h : printTerminal a = printTerminal b) : a = b := by
  have ha := read_print a []
  have hb := read_print b []
  rw [h, hb] at ha
  exact (Prod.mk.inj (Option.some.inj ha)).1.symm

theorem escapeStr_inj (a b : List Nat) (h : escapeStr a = escapeStr b) : a = b := by
  rw [← unescape_escape a, ← unescape_escape b, h]

/-- two terminals printed one after the other (an alternative `"a" "b"`) are read back as the same two
terminals, in order, with the remaining text untouched -/
theorem read_print_two (a b rest : List Nat) :
    readTerminal (printTerminal a ++ (printTerminal b ++ rest)) = some (a, printTerminal b ++ rest) ∧
    readTerminal (printTerminal b ++ rest) = some (b, rest) :=
  ⟨read_print a _, read_print b rest⟩

/-! non-vacuity: quote, backslash, newline, NUL, a placeholder look-alike -/
example : unescape (escapeStr [34, 92, 10, 0, 36, 36, 66, 92, 110]) = [34, 92, 10, 0, 36, 36, 66, 92, 110] := by decide
example : escapeStr [34, 92, 10, 0] = [92, 34, 92, 92, 92, 110, 92, 120, 48, 48] := by decide

end IslaVerif.C11
