import IslaVerif.Model.Bnf
namespace IslaVerif.C11
theorem placeholder : True := trivial
end IslaVerif.C11
