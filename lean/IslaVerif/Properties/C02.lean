import IslaVerif.Proofs.SolveLoop
/-
C02 — solve() only returns solutions or signals exhaustion / timeout, then stays so.

`SolveLoop.run T s cs evts` (Model/SolveLoop.lean) is the exit logic of `ISLaSolver.solve()` over an
arbitrary stream of loop events (what the 4000-line search does between two exits is abstracted
into these events); the theorems hold for EVERY event stream, initial state and number of calls.
By construction the model's outcomes are `tree | stop | timeout` (`outOfEvents` only marks the end
of a finite recorded trace); that the solver *body* raises nothing else is explored, not proved.
-/
namespace IslaVerif.C02
open IslaVerif.SolveLoop

/-- StopIteration is raised only from a state with an empty queue and no pending solution -/
theorem stop_exhausted (T : Option Int) (c : Int) (s s' : St) (evts evts' : List Evt)
    (h : solveCall T c s evts = (.stop, s', evts')) : Exhausted s' := stop_exhausted' T c s s' evts evts' h

/-- … and from such a state every call raises it again, whatever the clock and the events -/
theorem exhausted_stop (T : Option Int) (c : Int) (s : St) (evts : List Evt) (h : Exhausted s) :
    (solveCall T c s evts).1 = .stop ∧ Exhausted (solveCall T c s evts).2.1 := exhausted_stop' T c s evts h

/-- once StopIteration, always StopIteration — every call sequence, every event stream -/
theorem stop_sticky (T : Option Int) (cs : List Int) (s : St) (evts : List Evt) (i j : Nat)
    (h : (run T s cs evts)[i]? = some .stop) (hij : i ≤ j) (hj : j < cs.length) :
    (run T s cs evts)[j]? = some .stop := run_stop_sticky' T cs s evts i j h hij hj

/-- once TimeoutError, always TimeoutError, provided the clock never goes back -/
theorem timeout_sticky (T : Option Int) (cs : List Int) (s : St) (evts : List Evt) (i j : Nat)
    (hm : Mono evts) (h : (run T s cs evts)[i]? = some .timeout) (hij : i ≤ j) (hj : j < cs.length) :
    (run T s cs evts)[j]? = some .timeout ∨ (run T s cs evts)[j]? = some .outOfEvents :=
  run_timeout_sticky' T cs s evts i j hm h hij hj

/-- no TimeoutError unless a timeout is configured -/
theorem no_timeout_without_limit (cs : List Int) (s : St) (evts : List Evt) :
    Outcome.timeout ∉ run none s cs evts := no_timeout_without_limit' cs s evts

/-- every returned tree was pending or reported by a processing step, in that order, none twice -/
theorem trees_sublist (T : Option Int) (cs : List Int) (s : St) (evts : List Evt) :
    List.Sublist (treesOf (run T s cs evts)) (s.sols ++ evts.flatMap (·.found)) := run_trees_sublist' T cs s evts

/-- exactly one outcome per call -/
theorem run_length (T : Option Int) (cs : List Int) (s : St) (evts : List Evt) :
    (run T s cs evts).length = cs.length := run_length' T cs s evts

/-- after StopIteration no later call returns a tree (nor times out) -/
theorem no_tree_after_stop (T : Option Int) (cs : List Int) (s : St) (evts : List Evt) (i j : Nat) (o : Outcome)
    (h : (run T s cs evts)[i]? = some .stop) (hij : i ≤ j) (ho : (run T s cs evts)[j]? = some o) :
    o = .stop := by
  have hj : j < cs.length := by
    have := (List.getElem?_eq_some_iff.1 ho).1
    rwa [run_length] at this
  have := stop_sticky T cs s evts i j h hij hj
  rw [this] at ho; exact (Option.some.inj ho).symm

/-- after TimeoutError no later call returns a tree or StopIteration (monotone clock) -/
theorem no_tree_after_timeout (T : Option Int) (cs : List Int) (s : St) (evts : List Evt) (i j : Nat) (o : Outcome)
    (hm : Mono evts) (h : (run T s cs evts)[i]? = some .timeout) (hij : i ≤ j)
    (ho : (run T s cs evts)[j]? = some o) : o = .timeout ∨ o = .outOfEvents := by
  have hj : j < cs.length := by
    have := (List.getElem?_eq_some_iff.1 ho).1
    rwa [run_length] at this
  rcases timeout_sticky T cs s evts i j hm h hij hj with h' | h' <;> rw [h'] at ho
  · left; exact (Option.some.inj ho).symm
  · right; exact (Option.some.inj ho).symm

/-! non-vacuity: two solutions found by the first iteration, then exhaustion; a timeout that sticks -/
example : run none { qlen := 1, sols := [], start := none } [0, 0, 0, 0]
    [{ now := 0, qafter := 0, found := [7, 8] }] = [.tree 7, .tree 8, .stop, .stop] := by decide +kernel
example : run (some 2) { qlen := 1, sols := [], start := none } [10, 0, 0]
    [{ now := 11, qafter := 1, found := [5] }, { now := 13, qafter := 1, found := [] }, { now := 13, qafter := 1, found := [] }]
    = [.timeout, .timeout, .outOfEvents] := by decide +kernel
example : Mono [({ now := 11, qafter := 1, found := [5] } : Evt), { now := 13, qafter := 1, found := [] }] := by
  simp [Mono]

end IslaVerif.C02
