import IslaVerif.Model.Formats
import IslaVerif.Proofs.C04
/-
Declarative (Prop-valued) specifications for the executable format checkers of Model/Formats.lean
and soundness / completeness theorems relating the two.
-/
namespace IslaVerif.Formats
open IslaVerif

/-! ### reST numbering -/

/-- each adjacent pair `(a, b)` has `0 < a` and `b = a + 1` -/
def Consecutive : List Nat → Prop
  | [] => True
  | [_] => True
  | a :: b :: rest => (0 < a ∧ b = a + 1) ∧ Consecutive (b :: rest)

theorem consecutive_iff_getElem (ns : List Nat) :
    Consecutive ns ↔ ∀ i, (h : i + 1 < ns.length) → 0 < ns[i] ∧ ns[i + 1] = ns[i] + 1 := by
  induction ns with
  | nil => simp [Consecutive]
  | cons a t ih =>
    cases t with
    | nil => simp [Consecutive]
    | cons b rest =>
      simp only [Consecutive, ih]
      constructor
      · rintro ⟨hab, h⟩ i hi
        cases i with
        | zero => simpa using hab
        | succ j =>
          have := h j (by simpa using hi)
          simpa using this
      · intro h
        refine ⟨by simpa using h 0 (by simp), fun i hi => ?_⟩
        have := h (i + 1) (by simpa using hi)
        simpa using this

/-- the checker accepts exactly the lists in which every item carries a number and the numbers of
adjacent items are positive and consecutive -/
theorem consecutiveFrom_iff_consecutive (l : List (Option Nat)) :
    consecutiveFrom l = true ↔ ∃ ns : List Nat, l = ns.map some ∧ Consecutive ns := by
  induction l with
  | nil => exact ⟨fun _ => ⟨[], rfl, trivial⟩, fun _ => rfl⟩
  | cons x t ih =>
    cases x with
    | none =>
      constructor
      · intro h; simp [consecutiveFrom] at h
      · rintro ⟨ns, h, _⟩; cases ns <;> simp at h
    | some a =>
      cases t with
      | nil => exact ⟨fun _ => ⟨[a], rfl, trivial⟩, fun _ => rfl⟩
      | cons y rest =>
        cases y with
        | none =>
          constructor
          · intro h; simp [consecutiveFrom] at h
          · rintro ⟨ns, h, _⟩
            cases ns with
            | nil => simp at h
            | cons _ ns => cases ns <;> simp at h
        | some b =>
          simp only [consecutiveFrom, Bool.and_eq_true, decide_eq_true_eq, beq_iff_eq, ih]
          constructor
          · rintro ⟨⟨ha, hb⟩, ns, hns, hc⟩
            cases ns with
            | nil => simp at hns
            | cons b' ns =>
              simp only [List.map_cons, List.cons.injEq, Option.some.injEq] at hns
              obtain ⟨rfl, hr⟩ := hns
              exact ⟨a :: b :: ns, by simp [hr], ⟨ha, hb⟩, hc⟩
          · rintro ⟨ns, hns, hc⟩
            cases ns with
            | nil => simp at hns
            | cons a' ns =>
              cases ns with
              | nil => simp at hns
              | cons b' ns =>
                simp only [List.map_cons, List.cons.injEq, Option.some.injEq] at hns
                obtain ⟨rfl, rfl, hr⟩ := hns
                exact ⟨hc.1, b :: ns, by simp [hr], hc.2⟩

/-- headline form: all items carry a number, and each adjacent pair `(a, b)` has `0 < a`, `b = a + 1` -/
theorem consecutiveFrom_iff (l : List (Option Nat)) :
    consecutiveFrom l = true ↔
      ∃ ns : List Nat, l = ns.map some ∧
        ∀ i, (h : i + 1 < ns.length) → 0 < ns[i] ∧ ns[i + 1] = ns[i] + 1 := by
  simp only [consecutiveFrom_iff_consecutive, consecutive_iff_getElem]

example : ∃ ns : List Nat, [some 3, some 4, some 5] = ns.map some ∧
    ∀ i, (h : i + 1 < ns.length) → 0 < ns[i] ∧ ns[i + 1] = ns[i] + 1 :=
  (consecutiveFrom_iff _).1 (by decide)

/-- the tree-level rule: in every enumeration all items carry a number and adjacent items are
numbered consecutively from a positive number -/
theorem restNumberingOk_iff (g : Grammar) (t : DTree) :
    restNumberingOk g t = true ↔
      ∀ e ∈ nodesOf t "<enumeration>", ∃ ns : List Nat, enumNumbers g e = ns.map some ∧
        ∀ i, (h : i + 1 < ns.length) → 0 < ns[i] ∧ ns[i + 1] = ns[i] + 1 := by
  simp only [restNumberingOk, List.all_eq_true, consecutiveFrom_iff]

/-! ### CSV -/

/-- text of one record without quotes and line feeds -/
def Plain (l : List Char) : Prop := ∀ c ∈ l, c ≠ '"' ∧ c ≠ '\n'

/-- the lines, each terminated by a line feed -/
def joinLines (ls : List (List Char)) : List Char := ls.flatMap (· ++ ['\n'])

@[simp] theorem joinLines_nil : joinLines [] = [] := rfl
@[simp] theorem joinLines_cons (l : List Char) (ls : List (List Char)) :
    joinLines (l :: ls) = l ++ '\n' :: joinLines ls := by
  simp [joinLines]

/-- on text without quotes the scanner counts, per line, one field more than there are separators -/
theorem csvScan_plain_line (l : List Char) (n : Nat) (acc : List Nat) (rest : List Char)
    (hq : Plain l) :
    csvScan (l ++ '\n' :: rest) false n acc = csvScan rest false 1 ((n + l.count ';') :: acc) := by
  induction l generalizing n with
  | nil => simp [csvScan]
  | cons c cs ih =>
    have hc := hq c (by simp)
    have hcs : Plain cs := fun x hx => hq x (by simp [hx])
    by_cases hs : c = ';'
    · subst hs
      simp only [List.cons_append, csvScan]
      rw [ih (n + 1) hcs, List.count_cons_self]
      have e : n + 1 + List.count ';' cs = n + (List.count ';' cs + 1) := by omega
      rw [e]
      simp
    · have h1 : (c == '"') = false := by simpa using hc.1
      have h2 : (c == '\n') = false := by simpa using hc.2
      have h3 : (c == ';') = false := by simpa using hs
      simp only [List.cons_append, csvScan, h1, h2, h3, Bool.false_eq_true, if_false]
      rw [ih n hcs, List.count_cons_of_ne hs]

/-- quote-free text: the scanner yields, per line, one more than the number of separators -/
theorem csvScan_plain_lines (ls : List (List Char)) (acc : List Nat) (rest : List Char)
    (hq : ∀ l ∈ ls, Plain l) :
    csvScan (joinLines ls ++ rest) false 1 acc
      = csvScan rest false 1 ((ls.map fun l => 1 + l.count ';').reverse ++ acc) := by
  induction ls generalizing acc with
  | nil => simp
  | cons l ls ih =>
    have hl : Plain l := hq l (by simp)
    have hls : ∀ x ∈ ls, Plain x := fun x hx => hq x (by simp [hx])
    rw [joinLines_cons, List.append_assoc, List.cons_append, csvScan_plain_line _ _ _ _ hl, ih _ hls]
    simp

theorem csvScan_plain (ls : List (List Char)) (hq : ∀ l ∈ ls, Plain l) :
    csvScan (joinLines ls) false 1 [] = ls.map fun l => 1 + l.count ';' := by
  have := csvScan_plain_lines ls [] [] hq
  simpa [csvScan] using this

/-- quote-free text with at least one record is accepted iff all lines have the same number of `;` -/
theorem csvOk_plain (l₀ : List Char) (ls : List (List Char)) (hq : ∀ l ∈ l₀ :: ls, Plain l) :
    csvOk (joinLines (l₀ :: ls)) = true ↔ ∀ l ∈ ls, l.count ';' = l₀.count ';' := by
  simp only [csvOk, csvScan_plain _ hq, List.map_cons, List.all_eq_true, List.mem_map, beq_iff_eq]
  constructor
  · intro h l hl
    have := h _ ⟨l, hl, rfl⟩
    omega
  · rintro h _ ⟨l, hl, rfl⟩
    rw [h l hl]

/-- symmetric form: some `k` is the separator count of every line -/
theorem csvOk_plain' (ls : List (List Char)) (hne : ls ≠ []) (hq : ∀ l ∈ ls, Plain l) :
    csvOk (joinLines ls) = true ↔ ∃ k, ∀ l ∈ ls, l.count ';' = k := by
  cases ls with
  | nil => exact absurd rfl hne
  | cons l₀ ls =>
    rw [csvOk_plain l₀ ls hq]
    constructor
    · intro h
      exact ⟨l₀.count ';', fun l hl => by
        rcases List.mem_cons.1 hl with rfl | hl
        · rfl
        · exact h l hl⟩
    · rintro ⟨k, hk⟩ l hl
      rw [hk l (by simp [hl]), hk l₀ (by simp)]

/-- no input without any record is accepted -/
theorem csvOk_nil : csvOk [] = false := rfl

/-- inside quotes everything up to the closing quote is skipped -/
theorem csvScan_inQuote (q rest : List Char) (n : Nat) (acc : List Nat) (hq : ∀ c ∈ q, c ≠ '"') :
    csvScan (q ++ '"' :: rest) true n acc = csvScan rest false n acc := by
  induction q with
  | nil => simp [csvScan]
  | cons c cs ih =>
    have h1 : (c == '"') = false := by simpa using hq c (by simp)
    simp only [List.cons_append, csvScan, h1, Bool.false_eq_true, if_false, if_true]
    exact ih fun x hx => hq x (by simp [hx])

/-- quoted separators and line feeds are skipped -/
theorem csvScan_quoted (q rest : List Char) (n : Nat) (acc : List Nat) (hq : ∀ c ∈ q, c ≠ '"') :
    csvScan ('"' :: q ++ '"' :: rest) false n acc = csvScan rest false n acc := by
  simp only [List.cons_append, csvScan, beq_self_eq_true, if_true, Bool.not_false]
  exact csvScan_inQuote q rest n acc hq

example : ∀ l ∈ ["a;b".toList, "c;d".toList, ";".toList], Plain l := by
  simp only [Plain]; decide
example : csvOk (joinLines ["a;b".toList, "c;d".toList, ";".toList]) = true :=
  (csvOk_plain' _ (by simp) (by simp only [Plain]; decide)).2 ⟨1, by decide⟩
example : csvScan "\"x;\ny\"a;b\n".toList false 1 [] = csvScan "a;b\n".toList false 1 [] :=
  csvScan_quoted "x;\ny".toList _ 1 [] (by decide)

/-! ### CSV with quoted fields -/

/-- a piece of a record: text without quotes and line feeds, or a quoted string -/
inductive Seg where
  | plain (l : List Char)
  | quoted (q : List Char)

def Seg.render : Seg → List Char
  | .plain l => l
  | .quoted q => '"' :: q ++ ['"']

/-- plain pieces contain neither `"` nor a line feed, quoted strings contain no `"` -/
def Seg.Ok : Seg → Prop
  | .plain l => Plain l
  | .quoted q => ∀ c ∈ q, c ≠ '"'

/-- separators that count: those outside quotes -/
def Seg.seps : Seg → Nat
  | .plain l => l.count ';'
  | .quoted _ => 0

def renderRecord (segs : List Seg) : List Char := segs.flatMap Seg.render

/-- records, each terminated by a line feed -/
def renderRecords (rs : List (List Seg)) : List Char := rs.flatMap fun segs => renderRecord segs ++ ['\n']

def recordSeps (segs : List Seg) : Nat := (segs.map Seg.seps).sum

theorem csvScan_plain_seg (l : List Char) (n : Nat) (acc : List Nat) (rest : List Char) (hq : Plain l) :
    csvScan (l ++ rest) false n acc = csvScan rest false (n + l.count ';') acc := by
  induction l generalizing n with
  | nil => simp
  | cons c cs ih =>
    have hc := hq c (by simp)
    have hcs : Plain cs := fun x hx => hq x (by simp [hx])
    by_cases hs : c = ';'
    · subst hs
      simp only [List.cons_append, csvScan]
      rw [ih (n + 1) hcs, List.count_cons_self]
      have e : n + 1 + List.count ';' cs = n + (List.count ';' cs + 1) := by omega
      rw [e]
      simp
    · have h1 : (c == '"') = false := by simpa using hc.1
      have h2 : (c == '\n') = false := by simpa using hc.2
      have h3 : (c == ';') = false := by simpa using hs
      simp only [List.cons_append, csvScan, h1, h2, h3, Bool.false_eq_true, if_false]
      rw [ih n hcs, List.count_cons_of_ne hs]

theorem csvScan_record (segs : List Seg) (n : Nat) (acc : List Nat) (rest : List Char)
    (hok : ∀ g ∈ segs, g.Ok) :
    csvScan (renderRecord segs ++ rest) false n acc = csvScan rest false (n + recordSeps segs) acc := by
  induction segs generalizing n with
  | nil => simp [renderRecord, recordSeps]
  | cons g gs ih =>
    have hg := hok g (by simp)
    have hgs : ∀ x ∈ gs, x.Ok := fun x hx => hok x (by simp [hx])
    have e : renderRecord (g :: gs) ++ rest = g.render ++ (renderRecord gs ++ rest) := by
      simp [renderRecord]
    have e2 : recordSeps (g :: gs) = g.seps + recordSeps gs := by simp [recordSeps]
    rw [e, e2]
    cases g with
    | plain l =>
      simp only [Seg.render, Seg.seps]
      rw [csvScan_plain_seg _ _ _ _ hg, ih _ hgs, Nat.add_assoc]
    | quoted q =>
      simp only [Seg.render, Seg.seps]
      have := csvScan_quoted q (renderRecord gs ++ rest) n acc hg
      simp only [List.cons_append, List.append_assoc, List.nil_append] at this ⊢
      rw [this, ih _ hgs, Nat.zero_add]

theorem csvScan_newline (rest : List Char) (n : Nat) (acc : List Nat) :
    csvScan ('\n' :: rest) false n acc = csvScan rest false 1 (n :: acc) := by
  simp [csvScan]

theorem csvScan_records_aux (rs : List (List Seg)) (hok : ∀ r ∈ rs, ∀ g ∈ r, g.Ok) (acc : List Nat)
    (rest : List Char) :
    csvScan (renderRecords rs ++ rest) false 1 acc
      = csvScan rest false 1 ((rs.map fun r => 1 + recordSeps r).reverse ++ acc) := by
  induction rs generalizing acc with
  | nil => simp [renderRecords]
  | cons r rs ih =>
    have hr := hok r (by simp)
    have hrs : ∀ x ∈ rs, ∀ g ∈ x, g.Ok := fun x hx => hok x (by simp [hx])
    have e : renderRecords (r :: rs) ++ rest = renderRecord r ++ ('\n' :: (renderRecords rs ++ rest)) := by
      simp [renderRecords]
    rw [e, csvScan_record _ _ _ _ hr]
    rw [csvScan_newline, ih hrs]
    simp

/-- quote-aware: the scanner yields, per record, one more than the number of separators outside
quotes -/
theorem csvScan_records (rs : List (List Seg)) (hok : ∀ r ∈ rs, ∀ g ∈ r, g.Ok) :
    csvScan (renderRecords rs) false 1 [] = rs.map fun r => 1 + recordSeps r := by
  have := csvScan_records_aux rs hok [] []
  simpa [csvScan] using this

/-- a quote-aware text with at least one record is accepted iff all records have the same number
of separators outside quotes -/
theorem csvOk_records (rs : List (List Seg)) (hne : rs ≠ []) (hok : ∀ r ∈ rs, ∀ g ∈ r, g.Ok) :
    csvOk (renderRecords rs) = true ↔ ∃ k, ∀ r ∈ rs, recordSeps r = k := by
  cases rs with
  | nil => exact absurd rfl hne
  | cons r₀ rs =>
    simp only [csvOk, csvScan_records _ hok, List.map_cons, List.all_eq_true, List.mem_map, beq_iff_eq]
    constructor
    · intro h
      refine ⟨recordSeps r₀, fun r hr => ?_⟩
      rcases List.mem_cons.1 hr with rfl | hr
      · rfl
      · have := h _ ⟨r, hr, rfl⟩
        omega
    · rintro ⟨k, hk⟩ _ ⟨r, hr, rfl⟩
      rw [hk r (by simp [hr]), hk r₀ (by simp)]

example : csvOk (renderRecords [[.plain "a;".toList, .quoted "b;c\n".toList], [.plain "d;e".toList]]) = true :=
  (csvOk_records _ (by simp) (by simp [Seg.Ok, Plain])).2 ⟨1, by decide⟩


/-! ### takeUntil -/

theorem takeUntil_append (stop : Char → Bool) (s : List Char) :
    (takeUntil stop s).1 ++ (takeUntil stop s).2 = s := by
  induction s with
  | nil => simp [takeUntil]
  | cons c cs ih =>
    simp only [takeUntil]
    split
    · simp
    · simpa using ih

theorem takeUntil_fst_not (stop : Char → Bool) (s : List Char) :
    ∀ c ∈ (takeUntil stop s).1, stop c = false := by
  induction s with
  | nil => simp [takeUntil]
  | cons c cs ih =>
    simp only [takeUntil]
    split
    · simp
    · rename_i h
      intro x hx
      simp only [List.mem_cons] at hx
      rcases hx with rfl | hx
      · simpa using h
      · exact ih x hx

theorem takeUntil_snd_head (stop : Char → Bool) (s : List Char) (c : Char) (r : List Char)
    (h : (takeUntil stop s).2 = c :: r) : stop c = true := by
  induction s with
  | nil => simp [takeUntil] at h
  | cons d ds ih =>
    simp only [takeUntil] at h
    split at h
    · rename_i hd
      simp only [List.cons.injEq] at h
      rw [← h.1]; exact hd
    · exact ih h

/-- `takeUntil` splits at the first character satisfying `stop` -/
theorem takeUntil_eq (stop : Char → Bool) (a b : List Char) (ha : ∀ c ∈ a, stop c = false)
    (hb : ∀ c r, b = c :: r → stop c = true) : takeUntil stop (a ++ b) = (a, b) := by
  induction a with
  | nil =>
    cases b with
    | nil => simp [takeUntil]
    | cons c r => simp [takeUntil, hb c r rfl]
  | cons x xs ih =>
    have hx : stop x = false := ha x (by simp)
    simp only [List.cons_append, takeUntil, hx, Bool.false_eq_true, if_false]
    rw [ih fun c hc => ha c (by simp [hc])]

/-! ### TAR -/

/-- a NUL-padded field denotes `nm` iff it is `nm`, which contains no NUL, followed by NULs only -/
theorem nameField_eq_some_iff (f nm : List Char) :
    nameField f = some nm ↔ nul ∉ nm ∧ ∃ k, f = nm ++ List.replicate k nul := by
  constructor
  · intro h
    unfold nameField at h
    have ha := takeUntil_append (· == nul) f
    have hn := takeUntil_fst_not (· == nul) f
    generalize takeUntil (· == nul) f = p at h ha hn
    obtain ⟨a, b⟩ := p
    simp only at h ha hn
    split at h
    · rename_i hall
      injection h with h
      subst h
      refine ⟨fun hm => by simpa using hn nul hm, b.length, ?_⟩
      have : b = List.replicate b.length nul := by
        rw [List.eq_replicate_iff]
        exact ⟨rfl, fun x hx => by simpa using (List.all_eq_true.1 hall) x hx⟩
      rw [← this, ha]
    · simp at h
  · rintro ⟨hn, k, rfl⟩
    unfold nameField
    rw [takeUntil_eq]
    · simp
    · intro c hc
      have : c ≠ nul := fun h => hn (h ▸ hc)
      simpa using this
    · intro c r h
      have : c ∈ List.replicate k nul := by rw [h]; simp
      simpa using (List.mem_replicate.1 this).2

/-- the sum the checksum field has to denote, as the checker computes it -/
def tarSum (e : List Char) : Nat :=
  ((e.take 100 ++ List.replicate 8 ' ' ++ [(e.drop 108).headD ' '] ++ (e.drop 109).take 100).map
    Char.toNat).foldl (· + ·) 0

/-- exact characterisation of the accepted entries -/
theorem tarEntry_eq_some_iff (e : List Char) (r : TarEntry) :
    tarEntry e = some r ↔
      e.length = 216 ∧
      nameField (e.take 100) = some r.name ∧ r.name ≠ [] ∧
      nameField ((e.drop 109).take 100) = some r.linked ∧
      (e.drop 108).headD ' ' = r.typeflag ∧
      octVal ((e.drop 100).take 6) = some (tarSum e) ∧
      (e.drop 106).take 2 = [nul, ' '] ∧
      (r.typeflag = '0' ∨ r.typeflag = '2') ∧
      e.drop 209 = "CONTENT".toList := by
  have e1 : List.take 6 (List.take 8 (List.drop 100 e)) = List.take 6 (List.drop 100 e) := by
    rw [List.take_take]; rfl
  have e2 : List.drop 6 (List.take 8 (List.drop 100 e)) = List.take 2 (List.drop 106 e) := by
    rw [List.drop_take, List.drop_drop]
  constructor
  · intro h
    unfold tarEntry at h
    split at h
    · simp at h
    · rename_i hl
      simp only [bne_iff_ne, ne_eq, Decidable.not_not] at hl
      simp only at h
      split at h
      · rename_i nm ln v h1 h2 h3
        split at h
        · rename_i hc
          simp only [Bool.and_eq_true, beq_iff_eq, Bool.or_eq_true, Bool.not_eq_true',
            List.isEmpty_eq_false_iff] at hc
          injection h with h
          subst h
          obtain ⟨⟨⟨⟨⟨c1, _⟩, c3⟩, c4⟩, c5⟩, c6⟩ := hc
          rw [e1] at h3
          rw [e2] at c3
          exact ⟨hl, h1, c1, h2, rfl, by rw [h3, c4]; rfl, c3, c5, c6⟩
        · simp at h
      · simp at h
  · rintro ⟨hl, h1, c1, h2, c2, h3, c3, c5, c6⟩
    have hh : (List.take 209 e).length = 209 := by simp [hl]
    have c1' : r.name.isEmpty = false := by simpa using c1
    unfold tarEntry
    rw [if_neg (by simp [hl])]
    simp only [e1, e2, h1, h2, h3]
    have hs : tarSum e = List.foldl (fun x1 x2 => x1 + x2) 0
                    (List.map Char.toNat
                      (List.take 100 e ++ List.replicate 8 ' ' ++ [(List.drop 108 e).headD ' '] ++
                        List.take 100 (List.drop 109 e))) := rfl
    rw [if_pos]
    · cases r; simp_all
    · rw [← hs, c2, c3, c6, hh, c1']
      rcases c5 with c5 | c5 <;> simp [c5]

theorem chunks_getElem? (n : Nat) : ∀ (i f : Nat) (s : List Char), n * i < s.length → i < f →
    (chunks n f s)[i]? = some ((s.drop (n * i)).take n) := by
  intro i
  induction i with
  | zero =>
    intro f s hs hf
    cases f with
    | zero => omega
    | succ f =>
      cases s with
      | nil => simp at hs
      | cons c cs => simp [chunks]
  | succ i ih =>
    intro f s hs hf
    cases f with
    | zero => omega
    | succ f =>
      cases s with
      | nil => simp at hs
      | cons c cs =>
        rw [chunks]
        · rw [List.getElem?_cons_succ, ih f _ (by simp only [List.length_drop]; rw [Nat.mul_succ] at hs; omega) (by omega)]
          rw [List.drop_drop, Nat.mul_succ, Nat.add_comm]
        · simp

/-- the `i`-th 216-character block -/
def tarBlock (s : List Char) (i : Nat) : List Char := (s.drop (216 * i)).take 216

theorem tarOk_sound (s : List Char) (h : tarOk s = true) :
    s.length % 216 = 0 ∧ s ≠ [] ∧
      ∀ i, i < s.length / 216 → ∃ e, tarEntry ((s.drop (216 * i)).take 216) = some e := by
  unfold tarOk at h
  split at h
  · simp at h
  · rename_i hc
    simp at hc
    simp only [Bool.and_eq_true, List.all_eq_true, List.mem_map] at h
    refine ⟨hc.2, hc.1, fun i hi => ?_⟩
    have hlen : 216 * i < s.length := by omega
    have hg := chunks_getElem? 216 i (s.length / 216 + 1) s hlen (by omega)
    have hm := List.mem_of_getElem? hg
    have := h.1 _ ⟨_, hm, rfl⟩
    exact Option.isSome_iff_exists.1 this

/-- the first 209 characters (the header) with the 8 checksum characters replaced by blanks -/
def blankChecksum (e : List Char) : List Char :=
  e.take 100 ++ List.replicate 8 ' ' ++ (e.drop 108).take 101

theorem blankChecksum_length (e : List Char) (he : e.length = 216) : (blankChecksum e).length = 209 := by
  simp [blankChecksum, he]

theorem blankChecksum_getElem? (e : List Char) (he : e.length = 216) (i : Nat) (hi : i < 209) :
    (blankChecksum e)[i]? = if 100 ≤ i ∧ i < 108 then some ' ' else e[i]? := by
  simp only [blankChecksum, List.getElem?_append, List.length_append, List.length_take,
    List.length_replicate, he, List.getElem?_take, List.getElem?_replicate, List.getElem?_drop]
  by_cases h1 : i < 100
  · have : ¬ (100 ≤ i ∧ i < 108) := by omega
    simp [h1, this]; omega
  · by_cases h2 : i < 108
    · have h3 : i - 100 < 8 := by omega
      simp [h1, h2, h3]
    · have h3 : i - 108 < 101 := by omega
      have h4 : 108 + (i - 108) = i := by omega
      simp [h2, h3, h4]

theorem tarSum_eq (e : List Char) (he : e.length = 216) :
    tarSum e = ((blankChecksum e).map Char.toNat).sum := by
  have h : [(e.drop 108).headD ' '] ++ (e.drop 109).take 100 = (e.drop 108).take 101 := by
    rw [List.drop_eq_getElem_cons (i := 108) (by omega)]
    simp only [List.headD_cons, List.take_succ_cons, List.singleton_append]
  rw [List.sum_eq_foldl]
  unfold tarSum blankChecksum
  rw [List.append_assoc _ [_] _, h]


/-- `octVal` accepts the non-empty strings of octal digits and returns their positional value -/
theorem octVal_eq_some_iff (ds : List Char) (v : Nat) :
    octVal ds = some v ↔
      ds ≠ [] ∧ (∀ c ∈ ds, '0' ≤ c ∧ c ≤ '7') ∧ v = ds.foldl (fun a c => 8 * a + (c.toNat - 48)) 0 := by
  unfold octVal
  split
  · rename_i h
    simp only [Bool.or_eq_true, List.isEmpty_iff, Bool.not_eq_true', List.all_eq_false] at h
    constructor
    · intro h'; simp at h'
    · rintro ⟨h1, h2, _⟩
      rcases h with h | ⟨c, hc, hh⟩
      · exact absurd h h1
      · have := h2 c hc
        simp [this.1, this.2] at hh
  · rename_i h
    simp only [Bool.or_eq_true, List.isEmpty_iff, Bool.not_eq_true', not_or, Bool.not_eq_false,
      List.all_eq_true, Bool.and_eq_true, decide_eq_true_eq] at h
    simp only [Option.some.injEq]
    exact ⟨fun hv => ⟨h.1, h.2, hv.symm⟩, fun hv => hv.2.2.symm⟩

/-- readable soundness statement for one entry -/
theorem tarEntry_sound (e : List Char) (r : TarEntry) (h : tarEntry e = some r) :
    e.length = 216 ∧
    -- the 6 octal digits at offset 100 denote the sum of the character codes of the header with
    -- the checksum field blanked
    octVal ((e.drop 100).take 6) = some ((blankChecksum e).map Char.toNat).sum ∧
    e[106]? = some nul ∧ e[107]? = some ' ' ∧
    (e[108]? = some '0' ∨ e[108]? = some '2') ∧ e[108]? = some r.typeflag ∧
    e.drop 209 = "CONTENT".toList ∧
    -- the two name fields are NUL-padded names, the first one non-empty
    r.name ≠ [] ∧ nul ∉ r.name ∧ (∃ k, e.take 100 = r.name ++ List.replicate k nul) ∧
    nul ∉ r.linked ∧ (∃ k, (e.drop 109).take 100 = r.linked ++ List.replicate k nul) := by
  obtain ⟨hl, h1, c1, h2, c2, h3, c3, c5, c6⟩ := (tarEntry_eq_some_iff e r).1 h
  have t108 : e[108]? = some r.typeflag := by
    rw [← c2, List.headD_eq_head?_getD, List.head?_drop, List.getElem?_eq_getElem (by omega)]
    rfl
  have a106 : e[106]? = some nul := by
    have := congrArg (·[0]?) c3
    simpa [List.getElem?_take, List.getElem?_drop] using this
  have a107 : e[107]? = some ' ' := by
    have := congrArg (·[1]?) c3
    simpa [List.getElem?_take, List.getElem?_drop] using this
  rw [nameField_eq_some_iff] at h1 h2
  refine ⟨hl, by rw [h3, tarSum_eq e hl], a106, a107, ?_, t108, c6, c1, h1.1, h1.2, h2.1, h2.2⟩
  rw [t108]
  rcases c5 with c5 | c5 <;> simp [c5]


theorem chunks_eq_map_range (n : Nat) (hn : 0 < n) : ∀ (k f : Nat) (s : List Char), s.length = n * k → k ≤ f →
    chunks n f s = (List.range k).map fun i => (s.drop (n * i)).take n := by
  intro k
  induction k with
  | zero =>
    intro f s hs _
    have : s = [] := List.eq_nil_of_length_eq_zero (by simpa using hs)
    subst this
    cases f <;> simp [chunks]
  | succ k ih =>
    intro f s hs hf
    cases f with
    | zero => omega
    | succ f =>
      cases s with
      | nil =>
        rw [Nat.mul_succ] at hs
        simp at hs
        omega
      | cons c cs =>
        rw [chunks]
        · rw [ih f _ (by simp only [List.length_drop]; rw [Nat.mul_succ] at hs; omega) (by omega)]
          rw [List.range_succ_eq_map]
          simp [List.drop_drop, Nat.mul_succ, Nat.add_comm]
        · simp

/-- declarative validity of a simple TAR archive `s` with decoded entries `es` -/
structure TarValid (s : List Char) (es : List TarEntry) : Prop where
  nonempty : s ≠ []
  length : s.length = 216 * es.length
  /-- every 216-character block is an entry -/
  entry : ∀ i, (h : i < es.length) → tarEntry (tarBlock s i) = some es[i]
  /-- every link with a non-empty target points to the name of ANOTHER entry -/
  link : ∀ i, (h : i < es.length) → es[i].typeflag = '2' → es[i].linked ≠ [] →
    ∃ j, ∃ hj : j < es.length, j ≠ i ∧ es[j].name = es[i].linked

theorem all_isSome_eq_map_some {α : Type} (l : List (Option α)) (h : l.all Option.isSome = true) :
    l = (l.filterMap id).map some := by
  induction l with
  | nil => rfl
  | cons x xs ih =>
    simp only [List.all_cons, Bool.and_eq_true] at h
    cases x with
    | none => simp at h
    | some a =>
      simp only [List.filterMap_cons, id, List.map_cons]
      rw [← ih h.2]

/-- the link-target part of `tarOk`, on the decoded entries -/
theorem tarLinks_iff (es : List TarEntry) :
    ((List.range es.length).all fun i =>
      match es[i]? with
      | some e => e.typeflag != '2' || e.linked.isEmpty || (List.range es.length).any fun j =>
          j != i && (match es[j]? with | some e' => e'.name == e.linked | none => false)
      | none => true) = true ↔
    ∀ i, (h : i < es.length) → es[i].typeflag = '2' → es[i].linked ≠ [] →
      ∃ j, ∃ hj : j < es.length, j ≠ i ∧ es[j].name = es[i].linked := by
  simp only [List.all_eq_true, List.mem_range]
  constructor
  · intro h i hi ht hl
    have := h i hi
    rw [List.getElem?_eq_getElem hi] at this
    simp only [Bool.or_eq_true, bne_iff_ne, ne_eq, ht, not_true_eq_false, List.isEmpty_iff, hl,
      false_or, List.any_eq_true, List.mem_range, Bool.and_eq_true] at this
    obtain ⟨j, hj, hne, hm⟩ := this
    rw [List.getElem?_eq_getElem hj] at hm
    exact ⟨j, hj, hne, by simpa using hm⟩
  · intro h i hi
    rw [List.getElem?_eq_getElem hi]
    simp only [Bool.or_eq_true, bne_iff_ne, ne_eq, List.isEmpty_iff, List.any_eq_true, List.mem_range,
      Bool.and_eq_true]
    by_cases ht : es[i].typeflag = '2'
    · by_cases hl : es[i].linked = []
      · exact Or.inl (Or.inr hl)
      · obtain ⟨j, hj, hne, hm⟩ := h i hi ht hl
        refine Or.inr ⟨j, hj, hne, ?_⟩
        rw [List.getElem?_eq_getElem hj]
        simpa using hm
    · exact Or.inl (Or.inl ht)

/-- `tarOk` is sound and complete for the declarative validity -/
theorem tarOk_iff (s : List Char) : tarOk s = true ↔ ∃ es, TarValid s es := by
  constructor
  · intro h
    obtain ⟨hm, hne, _⟩ := tarOk_sound s h
    unfold tarOk at h
    rw [if_neg (by simp [hne, hm])] at h
    simp only [Bool.and_eq_true] at h
    obtain ⟨hall, hlink⟩ := h
    have hlen : s.length = 216 * (s.length / 216) := by omega
    rw [chunks_eq_map_range 216 (by omega) (s.length / 216) _ s hlen (by omega)] at hall hlink
    have hmap := all_isSome_eq_map_some _ hall
    generalize hes : List.filterMap id (List.map tarEntry (List.map (fun i => List.take 216 (List.drop (216 * i) s)) (List.range (s.length / 216)))) = es at hmap hlink
    have hl : es.length = s.length / 216 := by
      have := congrArg List.length hmap
      simpa using this.symm
    refine ⟨es, hne, by omega, fun i hi => ?_, (tarLinks_iff es).1 hlink⟩
    have := congrArg (·[i]?) hmap
    simp only [List.map_map, List.getElem?_map, List.getElem?_range (by omega : i < s.length / 216),
      List.getElem?_eq_getElem hi, Option.map_some, Function.comp] at this
    simpa [tarBlock] using this
  · rintro ⟨es, hne, hlen, hentry, hlink⟩
    have hk : s.length / 216 = es.length := by omega
    unfold tarOk
    rw [if_neg (by simp [hne]; omega)]
    rw [chunks_eq_map_range 216 (by omega) es.length _ s hlen (by omega)]
    have hmap : List.map tarEntry (List.map (fun i => List.take 216 (List.drop (216 * i) s)) (List.range es.length))
        = es.map some := by
      apply List.ext_getElem?
      intro i
      by_cases hi : i < es.length
      · simp only [List.map_map, List.getElem?_map, List.getElem?_range hi, List.getElem?_eq_getElem hi,
          Option.map_some, Function.comp]
        exact congrArg some (hentry i hi)
      · simp [hi]
    simp only [hmap]
    have hf : List.filterMap id (es.map some) = es := by simp [List.filterMap_map]
    rw [hf]
    simp only [Bool.and_eq_true]
    exact ⟨by simp, (tarLinks_iff es).2 hlink⟩


/-- a two-entry archive: file `a` and a link `b` to it -/
example : ∃ es, TarValid
    (('a' :: List.replicate 99 nul ++ "000621".toList ++ [nul, ' ', '0'] ++ List.replicate 100 nul ++
        "CONTENT".toList) ++
      ('b' :: List.replicate 99 nul ++ "000765".toList ++ [nul, ' ', '2'] ++
        ('a' :: List.replicate 99 nul) ++ "CONTENT".toList)) es :=
  (tarOk_iff _).1 (by decide +kernel)

example : ∃ r, tarEntry ('a' :: List.replicate 99 nul ++ "000621".toList ++ [nul, ' ', '0'] ++
    List.replicate 100 nul ++ "CONTENT".toList) = some r :=
  Option.isSome_iff_exists.1 (by decide +kernel)

/-! ### XML -/

/-- lexical items of a document: a character of text, or a tag -/
inductive Token where
  | text (c : Char)
  | tag (t : Tag)

/-- `s` is the concatenation of the given tokens: text characters other than `<`, and tags as
read by `parseTag` after a `<` -/
inductive Tokenizes : List Char → List Token → Prop
  | nil : Tokenizes [] []
  | text {c : Char} {rest : List Char} {ts : List Token} :
      c ≠ '<' → Tokenizes rest ts → Tokenizes (c :: rest) (.text c :: ts)
  | tag {rest rest' : List Char} {t : Tag} {ts : List Token} :
      parseTag rest = some (t, rest') → Tokenizes rest' ts → Tokenizes ('<' :: rest) (.tag t :: ts)

/-- element content in namespace scope `sc`: a sequence of text characters, empty elements and
elements `<o> body </c>` with matching names, whose tags satisfy `tagOk` in their scope and whose
body is content in the scope extended by the prefixes declared by `o` -/
inductive Content : List (List Char) → List Token → Prop
  | nil {sc} : Content sc []
  | text {sc} {c : Char} {rest} : Content sc rest → Content sc (.text c :: rest)
  | selfClosing {sc} {t : Tag} {rest} :
      t.kind = .selfClosing → tagOk sc t = true → Content sc rest → Content sc (.tag t :: rest)
  | node {sc} {o c : Tag} {body rest} :
      o.kind = .opening → tagOk sc o = true → c.kind = .closing → c.name = o.name →
      Content (declared o ++ sc) body → Content sc rest →
      Content sc (.tag o :: body ++ .tag c :: rest)

/-- a single element -/
inductive Element (sc : List (List Char)) : List Token → Prop
  | selfClosing {t : Tag} : t.kind = .selfClosing → tagOk sc t = true → Element sc [.tag t]
  | node {o c : Tag} {body} :
      o.kind = .opening → tagOk sc o = true → c.kind = .closing → c.name = o.name →
      Content (declared o ++ sc) body → Element sc (.tag o :: body ++ [.tag c])

theorem Content.elem {sc e rest} (he : Element sc e) (hr : Content sc rest) : Content sc (e ++ rest) := by
  cases he with
  | selfClosing h1 h2 => exact Content.selfClosing h1 h2 hr
  | node h1 h2 h3 h4 h5 =>
    have := Content.node h1 h2 h3 h4 h5 hr
    simpa using this

/-- the namespace scope at the top of the stack -/
def scopeOf : List (List Char × List (List Char)) → List (List Char)
  | [] => []
  | (_, sc) :: _ => sc

/-- the remaining tokens close the open elements of the stack, innermost first; at top level they
are nothing (root seen) or exactly one element (root not yet seen) -/
def Closes : List (List Char × List (List Char)) → Bool → List Token → Prop
  | [], true, toks => toks = []
  | [], false, toks => Element [] toks
  | (n, sc) :: st, _, toks => ∃ body c rest, toks = body ++ .tag c :: rest ∧ Content sc body ∧
      c.kind = .closing ∧ c.name = n ∧ Closes st true rest

theorem Closes.prepend {stack seen e rest} (he : Element (scopeOf stack) e) (hr : Closes stack true rest)
    (h1 : stack = [] → seen = false) : Closes stack seen (e ++ rest) := by
  cases stack with
  | nil =>
    rw [h1 rfl]
    simp only [Closes] at hr ⊢
    subst hr
    simpa [scopeOf] using he
  | cons p st =>
    obtain ⟨n, sc⟩ := p
    obtain ⟨body, c, rest', rfl, hb, hk, hn, hc⟩ := hr
    exact ⟨e ++ body, c, rest', by simp, Content.elem he hb, hk, hn, hc⟩

theorem xmlScan_sound : ∀ (f : Nat) (s : List Char) (stack : List (List Char × List (List Char))) (seen : Bool),
    xmlScan f s stack seen = true → (stack ≠ [] → seen = true) →
    ∃ toks, Tokenizes s toks ∧ Closes stack seen toks := by
  intro f
  induction f with
  | zero => intro s stack seen h; simp [xmlScan] at h
  | succ f ih =>
    intro s stack seen h hinv
    cases s with
    | nil =>
      simp only [xmlScan, Bool.and_eq_true, List.isEmpty_iff] at h
      obtain ⟨rfl, rfl⟩ := h
      exact ⟨[], .nil, rfl⟩
    | cons c rest =>
      by_cases hc : c = '<'
      · subst hc
        cases stack with
        | nil =>
          simp only [xmlScan] at h
          split at h
          · simp at h
          · rename_i t rest' hp
            split at h
            · simp at h
            · rename_i hk
              simp only [List.isEmpty_nil, forall_const, Bool.not_eq_true', Bool.and_eq_true,
                decide_eq_true_eq, List.append_nil] at h
              obtain ⟨⟨hs, hok⟩, hscan⟩ := h
              obtain ⟨toks, ht, body, c, rest2, rfl, hb, hck, hcn, hcl⟩ := ih _ _ _ hscan (fun _ => rfl)
              refine ⟨.tag t :: (body ++ .tag c :: rest2), .tag hp ht, ?_⟩
              have he : Element (scopeOf []) (.tag t :: body ++ [.tag c]) :=
                .node hk hok hck hcn (by simpa [scopeOf] using hb)
              have := Closes.prepend (seen := seen) he hcl (fun _ => hs)
              simpa using this
            · rename_i hk
              simp only [List.isEmpty_nil, forall_const, Bool.not_eq_true', Bool.and_eq_true,
                decide_eq_true_eq] at h
              obtain ⟨⟨hs, hok⟩, hscan⟩ := h
              obtain ⟨toks, ht, hcl⟩ := ih _ _ _ hscan (fun _ => rfl)
              refine ⟨.tag t :: toks, .tag hp ht, ?_⟩
              have he : Element (scopeOf []) [.tag t] := .selfClosing hk hok
              exact Closes.prepend (seen := seen) he hcl (fun _ => hs)
        | cons p st =>
          obtain ⟨n, sc⟩ := p
          simp only [xmlScan] at h
          have hseen : seen = true := hinv (by simp)
          subst hseen
          split at h
          · simp at h
          · rename_i t rest' hp
            split at h
            · rename_i hk
              simp only [Bool.and_eq_true, beq_iff_eq] at h
              obtain ⟨hn, hscan⟩ := h
              obtain ⟨toks, ht, hcl⟩ := ih _ _ _ hscan (fun _ => rfl)
              exact ⟨.tag t :: toks, .tag hp ht, [], t, toks, rfl, .nil, hk, hn.symm, hcl⟩
            · rename_i hk
              simp only [Bool.and_eq_true, decide_eq_true_eq] at h
              obtain ⟨⟨_, hok⟩, hscan⟩ := h
              obtain ⟨toks, ht, body, c, rest2, rfl, hb, hck, hcn, hcl⟩ := ih _ _ _ hscan (fun _ => rfl)
              refine ⟨.tag t :: (body ++ .tag c :: rest2), .tag hp ht, ?_⟩
              have he : Element (scopeOf ((n, sc) :: st)) (.tag t :: body ++ [.tag c]) :=
                .node hk hok hck hcn hb
              have := Closes.prepend (seen := true) he hcl (fun h => by simp at h)
              simpa using this
            · rename_i hk
              simp only [Bool.and_eq_true, decide_eq_true_eq] at h
              obtain ⟨⟨_, hok⟩, hscan⟩ := h
              obtain ⟨toks, ht, hcl⟩ := ih _ _ _ hscan (fun _ => rfl)
              refine ⟨.tag t :: toks, .tag hp ht, ?_⟩
              have he : Element (scopeOf ((n, sc) :: st)) [.tag t] := .selfClosing hk hok
              exact Closes.prepend (seen := true) he hcl (fun h => by simp at h)
      · rw [xmlScan] at h
        · simp only [Bool.and_eq_true, Bool.not_eq_true', List.isEmpty_eq_false_iff] at h
          obtain ⟨⟨hne, _⟩, hscan⟩ := h
          obtain ⟨toks, ht, hcl⟩ := ih rest stack seen hscan hinv
          refine ⟨.text c :: toks, .text hc ht, ?_⟩
          cases stack with
          | nil => exact absurd rfl hne
          | cons p st =>
            obtain ⟨n, sc⟩ := p
            obtain ⟨body, c', rest', rfl, hb, hk, hn, hc'⟩ := hcl
            exact ⟨.text c :: body, c', rest', by simp, .text hb, hk, hn, hc'⟩
        · exact hc


/-- accepted documents consist of exactly one well-formed root element: tags are balanced with
matching names, there is no text outside the root, attribute names are unique per tag and every
namespace prefix is declared by the element itself or an enclosing one -/
theorem xmlOk_sound (s : List Char) (h : xmlOk s = true) :
    ∃ toks, Tokenizes s toks ∧ Element [] toks :=
  xmlScan_sound _ s [] false h (fun h => absurd rfl h)


theorem takeUntil_snd_length {stop : Char → Bool} {s a b : List Char} (h : takeUntil stop s = (a, b)) :
    b.length ≤ s.length := by
  have := takeUntil_length stop s
  rw [h] at this
  exact this

theorem parseAttrs_length (f : Nat) (s : List Char) (acc : List (List Char × List Char))
    (k : TagKind) (a : List (List Char × List Char)) (r : List Char)
    (h : parseAttrs f s acc = some (k, a, r)) : r.length ≤ s.length := by
  fun_induction parseAttrs f s acc
  case case1 => simp at h
  case case2 =>
    simp only [Option.some.injEq, Prod.mk.injEq] at h
    rw [← h.2.2]; simp
  case case3 =>
    simp only [Option.some.injEq, Prod.mk.injEq] at h
    rw [← h.2.2]; simp; omega
  case case4 ih =>
    have := ih h
    simp only [List.length_cons]; omega
  case case5 => simp at h
  case case6 h1 h2 ih =>
    have := ih h
    have := takeUntil_snd_length h1
    have := takeUntil_snd_length h2
    simp only [List.length_cons] at *
    omega
  case case7 => simp at h
  case case8 => simp at h

theorem parseTag_length (s : List Char) (t : Tag) (r : List Char) (h : parseTag s = some (t, r)) :
    r.length ≤ s.length := by
  unfold parseTag at h
  split at h
  · rename_i rest
    generalize hg : takeUntil (fun x => x == '>') rest = p at h
    obtain ⟨nm, r1⟩ := p
    have := takeUntil_snd_length hg
    simp only at h
    split at h
    · split at h
      · simp at h
      · simp only [Option.some.injEq, Prod.mk.injEq] at h
        rw [← h.2]
        simp only [List.length_cons] at *
        omega
    · simp at h
  · generalize hg : takeUntil (fun c => c == ' ' || c == '>' || c == '/') s = p at h
    obtain ⟨nm, r1⟩ := p
    have := takeUntil_snd_length hg
    simp only at h
    split at h
    · simp at h
    · split at h
      · rename_i k attrs r' hp
        have := parseAttrs_length _ _ _ _ _ _ hp
        simp only [Option.some.injEq, Prod.mk.injEq] at h
        rw [← h.2]
        omega
      · simp at h

theorem xmlScan_text (f : Nat) (c : Char) (rest : List Char) (stack : List (List Char × List (List Char)))
    (seen : Bool) (hc : c ≠ '<') :
    xmlScan (f + 1) (c :: rest) stack seen = (!stack.isEmpty && xmlScan f rest stack seen) := by
  rw [xmlScan]
  · have : (c != '<') = true := by simpa using hc
    rw [this, Bool.and_true]
  · exact hc

theorem xmlScan_tag (f : Nat) (rest rest' : List Char) (t : Tag) (stack : List (List Char × List (List Char)))
    (seen : Bool) (hp : parseTag rest = some (t, rest')) :
    xmlScan (f + 1) ('<' :: rest) stack seen =
      match t.kind with
      | .closing =>
        (match stack with
          | (nm, _) :: st => nm == t.name && xmlScan f rest' st seen
          | [] => false)
      | .opening =>
        decide (stack.isEmpty → !seen) && tagOk (scopeOf stack) t &&
          xmlScan f rest' ((t.name, declared t ++ scopeOf stack) :: stack) true
      | .selfClosing =>
        decide (stack.isEmpty → !seen) && tagOk (scopeOf stack) t && xmlScan f rest' stack true := by
  cases stack with
  | nil =>
    simp only [xmlScan, hp, scopeOf]
    generalize t.kind = k
    cases k <;> rfl
  | cons p st =>
    obtain ⟨n, sc⟩ := p
    simp only [xmlScan, hp, scopeOf]
    generalize t.kind = k
    cases k <;> rfl


/-- scanning the tokens of element content inside an open element leaves the stack unchanged -/
theorem xmlScan_content {sc : List (List Char)} {body : List Token} (hb : Content sc body) :
    ∀ (s : List Char) (toksRest : List Token) (f : Nat) (stack : List (List Char × List (List Char))),
      Tokenizes s (body ++ toksRest) → stack ≠ [] → scopeOf stack = sc → s.length < f →
      ∃ s' f', Tokenizes s' toksRest ∧ s'.length < f' ∧
        xmlScan f s stack true = xmlScan f' s' stack true := by
  induction hb with
  | nil => intro s toksRest f stack ht _ _ hf; exact ⟨s, f, by simpa using ht, hf, rfl⟩
  | text hr ih =>
    intro s toksRest f stack ht hne hsc hf
    simp only [List.cons_append] at ht
    cases ht with
    | text hc ht' =>
      cases f with
      | zero => omega
      | succ f =>
        obtain ⟨s', f', h1, h2, h3⟩ := ih _ _ f stack ht' hne hsc (by simp at hf; omega)
        refine ⟨s', f', h1, h2, ?_⟩
        have : stack.isEmpty = false := by simpa using hne
        rw [xmlScan_text _ _ _ _ _ hc, ← h3, this]
        rfl
  | selfClosing hk hok hr ih =>
    intro s toksRest f stack ht hne hsc hf
    simp only [List.cons_append] at ht
    cases ht with
    | tag hp ht' =>
      cases f with
      | zero => omega
      | succ f =>
        have hlen := parseTag_length _ _ _ hp
        obtain ⟨s', f', h1, h2, h3⟩ := ih _ _ f stack ht' hne hsc (by simp at hf; omega)
        refine ⟨s', f', h1, h2, ?_⟩
        have : stack.isEmpty = false := by simpa using hne
        rw [xmlScan_tag _ _ _ _ _ _ hp, hk, ← h3]
        subst hsc
        simp [this, hok]
  | node hk hok hck hcn hbody hr ihb ihr =>
    intro s toksRest f stack ht hne hsc hf
    simp only [List.cons_append, List.append_assoc] at ht
    cases ht with
    | tag hp ht' =>
      cases f with
      | zero => omega
      | succ f =>
        have hlen := parseTag_length _ _ _ hp
        subst hsc
        obtain ⟨s1, f1, h1, h2, h3⟩ := ihb _ _ f ((_, _) :: stack) ht' (by simp) rfl
          (by simp at hf; omega)
        cases h1 with
        | tag hp2 ht2 =>
          cases f1 with
          | zero => omega
          | succ f1 =>
            have hlen2 := parseTag_length _ _ _ hp2
            obtain ⟨s', f', h4, h5, h6⟩ := ihr _ _ f1 stack ht2 hne rfl (by simp at h2; omega)
            refine ⟨s', f', h4, h5, ?_⟩
            have : stack.isEmpty = false := by simpa using hne
            rw [xmlScan_tag _ _ _ _ _ _ hp, hk]
            simp only [this, Bool.false_eq_true, false_implies, decide_true, Bool.true_and, hok]
            rw [h3, xmlScan_tag _ _ _ _ _ _ hp2, hck]
            simp only [hcn, beq_self_eq_true, Bool.true_and]
            exact h6


theorem Tokenizes.nil_inv {s : List Char} (h : Tokenizes s []) : s = [] := by
  cases h; rfl

theorem xmlOk_complete (s : List Char) (toks : List Token) (ht : Tokenizes s toks)
    (he : Element [] toks) : xmlOk s = true := by
  unfold xmlOk
  cases he with
  | selfClosing hk hok =>
    cases ht with
    | tag hp ht' =>
      have := ht'.nil_inv
      subst this
      rw [xmlScan_tag _ _ _ _ _ _ hp, hk]
      simp only [List.length_cons]
      simp [xmlScan, scopeOf, hok]
  | node hk hok hck hcn hbody =>
    simp only [List.cons_append] at ht
    cases ht with
    | tag hp ht' =>
      rename_i rest rest'
      have hlen := parseTag_length _ _ _ hp
      rw [xmlScan_tag _ _ _ _ _ _ hp, hk]
      obtain ⟨s1, f1, h1, h2, h3⟩ := xmlScan_content hbody _ _ (List.length ('<' :: rest))
        [(_, _ ++ scopeOf [])] ht' (by simp) rfl (by simp only [List.length_cons]; omega)
      cases h1 with
      | tag hp2 ht2 =>
        have := ht2.nil_inv
        subst this
        cases f1 with
        | zero => omega
        | succ f1 =>
          cases f1 with
          | zero => simp at h2
          | succ f1 =>
            have hok' : tagOk (scopeOf []) _ = true := hok
            simp only [List.isEmpty_nil, forall_const, Bool.not_false, decide_true, Bool.true_and, hok']
            rw [h3, xmlScan_tag _ _ _ _ _ _ hp2, hck]
            simp [hcn, xmlScan]

/-- `xmlOk` is sound and complete: the accepted documents are exactly those whose token sequence is
one well-formed element -/
theorem xmlOk_iff (s : List Char) : xmlOk s = true ↔ ∃ toks, Tokenizes s toks ∧ Element [] toks :=
  ⟨xmlOk_sound s, fun ⟨toks, ht, he⟩ => xmlOk_complete s toks ht he⟩

/-! ### XML: small facts and the tag-level conditions -/

theorem xmlOk_nil : xmlOk [] = false := rfl

/-- text outside any element is rejected -/
theorem xmlScan_text_outside (f : Nat) (c : Char) (rest : List Char) (seen : Bool) (hc : c ≠ '<') :
    xmlScan (f + 1) (c :: rest) [] seen = false := by
  rw [xmlScan_text _ _ _ _ _ hc]; rfl

/-- a closing tag whose name differs from the innermost open element is rejected -/
theorem xmlScan_close_mismatch (f : Nat) (rest rest' : List Char) (t : Tag) (n : List Char)
    (sc : List (List Char)) (st : List (List Char × List (List Char))) (seen : Bool)
    (hp : parseTag rest = some (t, rest')) (hk : t.kind = .closing) (hn : n ≠ t.name) :
    xmlScan (f + 1) ('<' :: rest) ((n, sc) :: st) seen = false := by
  rw [xmlScan_tag _ _ _ _ _ _ hp, hk]
  simp [hn]

/-- a closing tag without an open element is rejected -/
theorem xmlScan_close_unopened (f : Nat) (rest rest' : List Char) (t : Tag) (seen : Bool)
    (hp : parseTag rest = some (t, rest')) (hk : t.kind = .closing) :
    xmlScan (f + 1) ('<' :: rest) [] seen = false := by
  rw [xmlScan_tag _ _ _ _ _ _ hp, hk]

/-- a second root element is rejected -/
theorem xmlScan_second_root (f : Nat) (rest rest' : List Char) (t : Tag)
    (hp : parseTag rest = some (t, rest')) (hk : t.kind ≠ .closing) :
    xmlScan (f + 1) ('<' :: rest) [] true = false := by
  rw [xmlScan_tag _ _ _ _ _ _ hp]
  cases h : t.kind <;> simp_all

/-- the token sequence of a document is unique -/
theorem Tokenizes.unique {s : List Char} {t₁ t₂ : List Token} (h₁ : Tokenizes s t₁) (h₂ : Tokenizes s t₂) :
    t₁ = t₂ := by
  induction h₁ generalizing t₂ with
  | nil => cases h₂; rfl
  | text hc _ ih =>
    cases h₂ with
    | text _ h => rw [ih h]
    | tag _ _ => exact absurd rfl hc
  | tag hp _ ih =>
    cases h₂ with
    | text hc _ => exact absurd rfl hc
    | tag hp' h =>
      rw [hp] at hp'
      simp only [Option.some.injEq, Prod.mk.injEq] at hp'
      obtain ⟨rfl, rfl⟩ := hp'
      rw [ih h]

theorem noDup_iff (l : List (List Char)) : noDup l = true ↔ l.Nodup := by
  induction l with
  | nil => simp [noDup]
  | cons x xs ih => simp [noDup, ih]

/-- the per-tag conditions: attribute names are pairwise distinct; the prefix of the tag name is
declared by the tag or in the enclosing scope; so is the prefix of every attribute name other
than `xmlns` -/
theorem tagOk_iff (scope : List (List Char)) (t : Tag) :
    tagOk scope t = true ↔
      (t.attrs.map (·.1)).Nodup ∧
      (∀ p, prefixOf t.name = some p → p ∈ declared t ++ scope) ∧
      ∀ a ∈ t.attrs, ∀ p, prefixOf a.1 = some p → p = xmlns ∨ p ∈ declared t ++ scope := by
  unfold tagOk
  simp only [Bool.and_eq_true, noDup_iff, List.all_eq_true, and_assoc]
  refine and_congr Iff.rfl (and_congr ?_ ?_)
  · cases prefixOf t.name <;> simp
  · refine forall_congr' fun a => forall_congr' fun _ => ?_
    obtain ⟨n, v⟩ := a
    cases prefixOf n <;> simp

/-- number of tags of kind `k` -/
def countKind (k : TagKind) : List Token → Nat
  | [] => 0
  | .text _ :: ts => countKind k ts
  | .tag t :: ts => (if t.kind = k then 1 else 0) + countKind k ts

theorem countKind_append (k : TagKind) (a b : List Token) :
    countKind k (a ++ b) = countKind k a + countKind k b := by
  induction a with
  | nil => simp [countKind]
  | cons x xs ih => cases x <;> simp [countKind, ih] <;> omega

theorem Content.balanced {sc toks} (h : Content sc toks) :
    countKind .opening toks = countKind .closing toks := by
  induction h with
  | nil => rfl
  | text _ ih => simpa [countKind] using ih
  | selfClosing hk _ _ ih => simpa [countKind, hk] using ih
  | node hk _ hck _ _ _ ih1 ih2 =>
    simp [countKind, countKind_append, hk, hck, ih1, ih2]; omega

theorem Element.content {sc toks} (h : Element sc toks) : Content sc toks := by
  have := Content.elem h .nil
  simpa using this

/-- in an accepted document there are as many opening as closing tags -/
theorem xmlOk_balanced (s : List Char) (h : xmlOk s = true) :
    ∃ toks, Tokenizes s toks ∧ countKind .opening toks = countKind .closing toks := by
  obtain ⟨toks, ht, he⟩ := xmlOk_sound s h
  exact ⟨toks, ht, he.content.balanced⟩


example : ∃ toks, Tokenizes "<a xmlns:p=\"u\"><p:b x=\"1\" y=\"2\"/>t<c></c></a>".toList toks ∧ Element [] toks :=
  (xmlOk_iff _).1 (by decide +kernel)

/-! ### reST (tree level): section titles, link targets -/

/-- the nodes of `t` labelled `sym` are the subtrees of `t` (at some path) carrying that label -/
theorem mem_nodesOf_iff (t : DTree) (sym : String) (n : DTree) :
    n ∈ nodesOf t sym ↔ ∃ p, t.get p = some n ∧ n.sym = sym := by
  simp only [nodesOf, List.mem_map, List.mem_filter, beq_iff_eq, Prod.exists]
  constructor
  · rintro ⟨p, x, ⟨hm, hs⟩, rfl⟩
    exact ⟨p, (C04.mem_paths_iff t p x).1 hm, hs⟩
  · rintro ⟨p, hg, hs⟩
    exact ⟨p, n, ⟨(C04.mem_paths_iff t p n).2 hg, hs⟩, rfl⟩

theorem titleKidsOk_iff (g : Grammar) (ks : List DTree) :
    (match ks with
      | [ti, _, ul] => decide (0 < (ti.yieldC g).length) && decide ((ti.yieldC g).length ≤ (ul.yieldC g).length)
      | _ => false) = true ↔
      ∃ ti sep ul, ks = [ti, sep, ul] ∧ 0 < (ti.yieldC g).length ∧
        (ti.yieldC g).length ≤ (ul.yieldC g).length := by
  rcases ks with _ | ⟨a, _ | ⟨b, _ | ⟨c, _ | ⟨d, r⟩⟩⟩⟩ <;> simp
  constructor
  · intro h
    exact ⟨a, b, c, ⟨rfl, rfl, rfl⟩, h⟩
  · rintro ⟨ti, sep, ul, ⟨rfl, rfl, rfl⟩, h⟩
    exact h

/-- every `<section-title>` node has exactly three children (title text, line break, underline); the
title is non-empty and the underline is at least as long as the title -/
theorem restUnderlineOk_iff (g : Grammar) (t : DTree) :
    restUnderlineOk g t = true ↔
      ∀ n ∈ nodesOf t "<section-title>", ∃ ti sep ul, n.kids = [ti, sep, ul] ∧
        0 < (ti.yieldC g).length ∧ (ti.yieldC g).length ≤ (ul.yieldC g).length := by
  simp only [restUnderlineOk, List.all_eq_true]
  constructor
  · intro h n hn
    exact (titleKidsOk_iff g n.kids).1 (h n hn)
  · intro h n hn
    exact (titleKidsOk_iff g n.kids).2 (h n hn)

/-- the identifiers below the `sym` nodes: the strings of the `<id>` nodes inside a `sym` node -/
theorem mem_idsBelow_iff (g : Grammar) (t : DTree) (sym : String) (s : List Char) :
    s ∈ idsBelow g t sym ↔ ∃ n ∈ nodesOf t sym, ∃ i ∈ nodesOf n "<id>", i.yieldC g = s := by
  simp only [idsBelow, List.mem_flatMap, List.mem_map]

/-- link targets are pairwise distinct (as a list: no identifier is defined twice) -/
theorem restLabelsUnique_iff (g : Grammar) (t : DTree) :
    restLabelsUnique g t = true ↔ (idsBelow g t "<label>").Nodup := by
  simp only [restLabelsUnique, noDup_iff]

/-- every referenced identifier is a defined link target -/
theorem restRefsDefined_iff (g : Grammar) (t : DTree) :
    restRefsDefined g t = true ↔
      ∀ s, (s ∈ idsBelow g t "<internal_reference>" ∨ s ∈ idsBelow g t "<internal_reference_nospace>") →
        s ∈ idsBelow g t "<label>" := by
  simp only [restRefsDefined, List.all_eq_true, List.mem_append, List.contains_iff_mem]

/-! examples: a grammar fragment, a section title "ab" underlined by "==" / by "=", and a document
with two link targets and a reference -/

def exG : Grammar :=
  [("<section-title>", [["<title-text>", "\n", "<underline>"]]), ("<title-text>", [["ab"]]),
   ("<underline>", [["=="], ["="]]), ("<doc>", [["<label>", "<label>", "<internal_reference>"]]),
   ("<label>", [["_", "<id>", ":"]]), ("<internal_reference>", [["<id>", "_"]]), ("<id>", [["x"], ["y"], ["z"]])]

def exTitle (ul : String) : DTree :=
  .node 0 "<section-title>" [.node 1 "<title-text>" [.node 2 "ab" []], .node 3 "\n" [],
    .node 4 "<underline>" [.node 5 ul []]]

def exId (i : Nat) (s : String) : DTree := .node i "<id>" [.node (i + 1) s []]

def exDoc (l₁ l₂ r : String) : DTree :=
  .node 0 "<doc>" [.node 1 "<label>" [.node 2 "_" [], exId 3 l₁, .node 5 ":" []],
    .node 6 "<label>" [.node 7 "_" [], exId 8 l₂, .node 10 ":" []],
    .node 11 "<internal_reference>" [exId 12 r, .node 14 "_" []]]

example : exId 8 "y" ∈ nodesOf (exDoc "x" "y" "x") "<id>" :=
  (mem_nodesOf_iff _ _ _).2 ⟨[1, 1], rfl, rfl⟩

example : restUnderlineOk exG (exTitle "==") = true ∧ restUnderlineOk exG (exTitle "=") = false := by
  decide +kernel

example : idsBelow exG (exDoc "x" "y" "x") "<label>" = ["x".toList, "y".toList] := by decide +kernel

example : restLabelsUnique exG (exDoc "x" "y" "x") = true ∧ restLabelsUnique exG (exDoc "x" "x" "x") = false := by
  decide +kernel

example : restRefsDefined exG (exDoc "x" "y" "y") = true ∧ restRefsDefined exG (exDoc "x" "y" "z") = false := by
  decide +kernel

example : ∀ s, (s ∈ idsBelow exG (exDoc "x" "y" "y") "<internal_reference>" ∨
      s ∈ idsBelow exG (exDoc "x" "y" "y") "<internal_reference_nospace>") →
    s ∈ idsBelow exG (exDoc "x" "y" "y") "<label>" :=
  (restRefsDefined_iff _ _).1 (by decide +kernel)

example : ∀ n ∈ nodesOf (exTitle "==") "<section-title>", ∃ ti sep ul, n.kids = [ti, sep, ul] ∧
    0 < (ti.yieldC exG).length ∧ (ti.yieldC exG).length ≤ (ul.yieldC exG).length :=
  (restUnderlineOk_iff _ _).1 (by decide +kernel)

end IslaVerif.Formats
