import IslaVerif.Model.Smt
import IslaVerif.Proofs.Regex
/- lemmas behind C05: the oracle model `Smt.eval` implements the SMT-LIB definitions -/
namespace IslaVerif.C05
open IslaVerif IslaVerif.Smt

theorem smtDiv_eq (a b : Int) : smtDiv a b = a / b := by
  unfold smtDiv
  split
  · exact Int.fdiv_eq_ediv_of_nonneg a (by omega)
  · rw [Int.fdiv_eq_ediv_of_nonneg a (by omega), Int.ediv_neg, Int.neg_neg]

theorem smtMod_eq (a b : Int) : smtMod a b = a % b := by
  unfold smtMod
  rw [smtDiv_eq a b]
  have := Int.mul_ediv_add_emod a b
  omega

/-- SMT-LIB Ints: for b ≠ 0, a = b·(a div b) + (a mod b) with 0 ≤ a mod b < |b| -/
theorem divMod_spec' (a b : Int) (hb : b ≠ 0) :
    a = b * smtDiv a b + smtMod a b ∧ 0 ≤ smtMod a b ∧ smtMod a b < (Int.ofNat b.natAbs) := by
  rw [smtMod_eq a b, smtDiv_eq a b]
  refine ⟨(Int.mul_ediv_add_emod a b).symm, Int.emod_nonneg a hb, ?_⟩
  have := Int.emod_lt a hb
  simpa using this

/-- the quotient/remainder pair is the unique one with that property -/
theorem divMod_unique' (a b q r : Int) (hb : b ≠ 0) (h : a = b * q + r) (h0 : 0 ≤ r)
    (h1 : r < (Int.ofNat b.natAbs)) : q = smtDiv a b ∧ r = smtMod a b := by
  rw [smtMod_eq a b, smtDiv_eq a b]
  rcases Int.lt_or_gt_of_ne hb with hneg | hpos
  · have := (Int.ediv_emod_unique' (a := a) (b := b) (r := r) (q := q) hneg).2
      ⟨by omega, h0, by simp at h1; omega⟩
    exact ⟨this.1.symm, this.2.symm⟩
  · have := (Int.ediv_emod_unique (a := a) (b := b) (r := r) (q := q) hpos).2
      ⟨by omega, h0, by simp at h1; omega⟩
    exact ⟨this.1.symm, this.2.symm⟩

theorem isPrefix_iff' (a b : List Char) : isPrefix a b = true ↔ a <+: b := by
  induction a generalizing b with
  | nil => simp [isPrefix]
  | cons x xs ih =>
    cases b with
    | nil => simp [isPrefix]
    | cons y ys =>
      simp [isPrefix, ih, List.cons_prefix_cons]

/-- `findFrom t s pos` returns the offset (plus `pos`) of the first occurrence of `t` in `s` -/
theorem findFrom_some' (t s : List Char) (pos j : Nat) (h : findFrom t s pos = some j) :
    pos ≤ j ∧ j - pos ≤ s.length ∧ t <+: s.drop (j - pos) ∧
    ∀ k, k < j - pos → ¬ t <+: s.drop k := by
  induction s generalizing pos with
  | nil =>
    simp only [findFrom] at h
    split at h
    · cases h
      simp_all
    · cases h
  | cons c cs ih =>
    simp only [findFrom] at h
    split at h
    · cases h
      rename_i hp
      simp [isPrefix_iff'] at hp
      simp [hp]
    · rename_i hp
      obtain ⟨h1, h2, h3, h4⟩ := ih (pos + 1) h
      have e : j - pos = (j - (pos + 1)) + 1 := by omega
      refine ⟨by omega, by simp; omega, ?_, ?_⟩
      · rw [e, List.drop_succ_cons]; exact h3
      · intro k hk
        cases k with
        | zero => simpa [isPrefix_iff'] using hp
        | succ k => rw [List.drop_succ_cons]; exact h4 k (by omega)

theorem findFrom_none' (t s : List Char) (pos : Nat) (h : findFrom t s pos = none) :
    ∀ k, k ≤ s.length → ¬ t <+: s.drop k := by
  induction s generalizing pos with
  | nil =>
    simp only [findFrom] at h
    split at h
    · cases h
    · rename_i ht
      intro k _
      simp
      intro e; simp [e] at ht
  | cons c cs ih =>
    simp only [findFrom] at h
    split at h
    · cases h
    · rename_i hp
      intro k hk
      cases k with
      | zero => simpa [isPrefix_iff'] using hp
      | succ k => rw [List.drop_succ_cons]; exact ih (pos + 1) h k (by simpa using hk)

/-- SMT-LIB str.substr: for 0 ≤ m < |w| and 0 < n the result is the factor of length min(n, |w| − m)
starting at m; otherwise it is empty -/
theorem substr_spec' (w : List Char) (m n : Int) :
    (0 ≤ m ∧ m < w.length ∧ 0 < n →
      ∃ w1 w3, w = w1 ++ strSubstr w m n ++ w3 ∧ (w1.length : Int) = m ∧
        ((strSubstr w m n).length : Int) = min n (w.length - m)) ∧
    (¬ (0 ≤ m ∧ m < w.length ∧ 0 < n) → strSubstr w m n = []) := by
  constructor
  · rintro ⟨h0, h1, h2⟩
    have e : strSubstr w m n = (w.drop m.toNat).take n.toNat := by
      unfold strSubstr
      rw [if_neg]
      simp; omega
    rw [e]
    refine ⟨w.take m.toNat, (w.drop m.toNat).drop n.toNat, ?_, ?_, ?_⟩
    · rw [List.append_assoc, List.take_append_drop, List.take_append_drop]
    · simp [List.length_take]; omega
    · simp [List.length_take, List.length_drop]; omega
  · intro h
    unfold strSubstr
    rw [if_pos]
    simp; omega

/-- SMT-LIB str.at -/
theorem at_spec' (w : List Char) (m : Int) :
    (0 ≤ m ∧ m < w.length → ∃ c, w[m.toNat]? = some c ∧ strAtF w m = [c]) ∧
    (¬ (0 ≤ m ∧ m < w.length) → strAtF w m = []) := by
  constructor
  · rintro ⟨h0, h1⟩
    have hl : m.toNat < w.length := by omega
    refine ⟨w[m.toNat], by simp [hl], ?_⟩
    unfold strAtF
    rw [if_neg (by simp; omega)]
    rw [List.drop_eq_getElem_cons hl]; rfl
  · intro h
    unfold strAtF
    rw [if_pos]
    simp; omega

theorem findFrom_drop_some (t s : List Char) (p j : Nat) (hp : p ≤ s.length)
    (h : findFrom t (s.drop p) p = some j) :
    p ≤ j ∧ j ≤ s.length ∧ t <+: s.drop j ∧ ∀ k, p ≤ k → k < j → ¬ t <+: s.drop k := by
  obtain ⟨h1, h2, h3, h4⟩ := findFrom_some' _ _ _ _ h
  rw [List.length_drop] at h2
  rw [List.drop_drop] at h3
  refine ⟨h1, by omega, ?_, ?_⟩
  · have e : p + (j - p) = j := by omega
    rwa [e] at h3
  · intro k hk1 hk2
    have := h4 (k - p) (by omega)
    rw [List.drop_drop] at this
    have e : p + (k - p) = k := by omega
    rwa [e] at this

theorem findFrom_drop_none (t s : List Char) (p : Nat) (hp : p ≤ s.length)
    (h : findFrom t (s.drop p) p = none) :
    ∀ k, p ≤ k → k ≤ s.length → ¬ t <+: s.drop k := by
  intro k hk1 hk2
  have := findFrom_none' _ _ _ h (k - p) (by rw [List.length_drop]; omega)
  rw [List.drop_drop] at this
  have e : p + (k - p) = k := by omega
  rwa [e] at this

/-- SMT-LIB str.indexof -/
theorem indexOf_spec' (s t : List Char) (i : Int) :
    (strIndexOf s t i = -1 ↔ (i < 0 ∨ i > s.length ∨ ∀ k : Nat, i ≤ k → k ≤ s.length → ¬ t <+: s.drop k)) ∧
    (∀ j : Nat, strIndexOf s t i = j →
      i ≤ j ∧ t <+: s.drop j ∧ ∀ k : Nat, i ≤ k → k < j → ¬ t <+: s.drop k) := by
  unfold strIndexOf
  by_cases hi : i < 0 ∨ i > s.length
  · rw [if_pos (by simpa using hi)]
    constructor
    · simp only [true_iff]
      rcases hi with h | h
      · exact Or.inl h
      · exact Or.inr (Or.inl h)
    · intro j hj; omega
  · rw [if_neg (by simpa using hi)]
    have hp : i.toNat ≤ s.length := by omega
    cases hf : findFrom t (List.drop i.toNat s) i.toNat with
    | none =>
      have hn := findFrom_drop_none t s _ hp hf
      constructor
      · simp only [true_iff]
        refine Or.inr (Or.inr ?_)
        intro k hk1 hk2
        exact hn k (by omega) hk2
      · intro j hj; simp at hj
    | some j' =>
      obtain ⟨h1, h2, h3, h4⟩ := findFrom_drop_some t s _ _ hp hf
      constructor
      · constructor
        · intro h; simp at h
        · rintro (h | h | h)
          · omega
          · omega
          · exact absurd h3 (h j' (by omega) h2)
      · intro j hj
        have hj : j' = j := by simp at hj; omega
        subst hj
        refine ⟨by omega, h3, ?_⟩
        intro k hk1 hk2
        exact h4 k (by omega) hk2

/-- SMT-LIB str.replace: the first occurrence is replaced (prepending for the empty pattern) -/
theorem replace_spec' (s t t' : List Char) :
    (strContains s t = false → strReplace s t t' = s) ∧
    (strContains s t = true → ∃ u v, s = u ++ t ++ v ∧ strReplace s t t' = u ++ t' ++ v ∧
      ∀ k, k < u.length → ¬ t <+: s.drop k) := by
  unfold strContains strReplace
  cases hf : findFrom t s 0 with
  | none => simp
  | some j =>
    simp only [Option.isSome_some, reduceCtorEq, false_imp_iff, true_and, forall_const]
    obtain ⟨-, h2, h3, h4⟩ := findFrom_some' _ _ _ _ hf
    simp only [Nat.sub_zero] at h2 h3 h4
    obtain ⟨v, hv⟩ := h3
    have hv' : s.drop (j + t.length) = v := by
      rw [← List.drop_drop, ← hv]; simp
    refine ⟨s.take j, v, ?_, by rw [hv'], ?_⟩
    · rw [List.append_assoc, hv, List.take_append_drop]
    · intro k hk
      exact h4 k (by rw [List.length_take] at hk; omega)

theorem digitChar_toNat : ∀ d : Fin 10, (Char.ofNat (48 + d.val)).toNat = 48 + d.val := by decide

theorem digitChar_toNat' (d : Nat) (h : d < 10) : (Char.ofNat ('0'.toNat + d)).toNat = 48 + d :=
  digitChar_toNat ⟨d, h⟩

theorem digitChar_isDigit (d : Nat) (h : d < 10) : isDigitC (Char.ofNat ('0'.toNat + d)) = true := by
  unfold isDigitC
  rw [digitChar_toNat' d h]
  have : '0'.toNat = 48 := rfl
  have : '9'.toNat = 57 := rfl
  simp [*]; omega

theorem natDigitsAux_acc (fuel n : Nat) (acc : List Char) :
    natDigitsAux fuel n acc = natDigitsAux fuel n [] ++ acc := by
  induction fuel generalizing n acc with
  | zero => simp [natDigitsAux]
  | succ f ih =>
    simp only [natDigitsAux]
    split
    · simp
    · rw [ih (n / 10) (_ :: acc), ih (n / 10) [_]]; simp

theorem digitsVal_snoc (xs : List Char) (c : Char) :
    digitsVal (xs ++ [c]) = digitsVal xs * 10 + (c.toNat - '0'.toNat) := by
  simp [digitsVal, List.foldl_append]

theorem digitsVal_natDigitsAux (fuel n : Nat) (h : n < fuel) :
    digitsVal (natDigitsAux fuel n []) = n := by
  induction fuel generalizing n with
  | zero => omega
  | succ f ih =>
    simp only [natDigitsAux]
    split
    · rename_i hn
      simp only [digitsVal, List.foldl_cons, List.foldl_nil]
      rw [digitChar_toNat' _ (Nat.mod_lt _ (by omega))]
      have : '0'.toNat = 48 := rfl
      omega
    · rw [natDigitsAux_acc, digitsVal_snoc, ih (n / 10) (by omega),
        digitChar_toNat' _ (Nat.mod_lt _ (by omega))]
      have : '0'.toNat = 48 := rfl
      omega

theorem natDigitsAux_all (fuel n : Nat) (acc : List Char) (h : acc.all isDigitC = true) :
    (natDigitsAux fuel n acc).all isDigitC = true := by
  induction fuel generalizing n acc with
  | zero => simpa [natDigitsAux] using h
  | succ f ih =>
    simp only [natDigitsAux]
    have hd := digitChar_isDigit (n % 10) (Nat.mod_lt _ (by omega))
    split
    · simp only [List.all_cons, hd, h, Bool.and_self]
    · apply ih
      simp only [List.all_cons, hd, h, Bool.and_self]

theorem natDigitsAux_ne_nil (fuel n : Nat) (acc : List Char) (h : acc ≠ [] ∨ 0 < fuel) :
    natDigitsAux fuel n acc ≠ [] := by
  induction fuel generalizing n acc with
  | zero => rcases h with h | h
            · simpa [natDigitsAux] using h
            · omega
  | succ f ih =>
    simp only [natDigitsAux]
    split
    · simp
    · apply ih; left; simp

/-- str.from_int / str.to_int are inverse on the non-negative integers -/
theorem toInt_fromInt' (n : Int) (h : 0 ≤ n) : strToInt (strFromInt n) = n := by
  unfold strFromInt
  rw [if_neg (by omega)]
  unfold strToInt natDigits
  have h1 := natDigitsAux_ne_nil (n.toNat + 1) n.toNat [] (Or.inr (by omega))
  have h2 := natDigitsAux_all (n.toNat + 1) n.toNat [] (by simp)
  have h3 := digitsVal_natDigitsAux (n.toNat + 1) n.toNat (by omega)
  rw [if_pos]
  · rw [h3]; omega
  · simp only [h2, Bool.and_true, Bool.not_eq_eq_eq_not, Bool.not_true, List.isEmpty_eq_false_iff]
    exact h1

theorem toInt_nonnumeral' (s : List Char) (h : s = [] ∨ ∃ c ∈ s, isDigitC c = false) : strToInt s = -1 := by
  unfold strToInt
  rw [if_neg]
  rcases h with h | ⟨c, hc, hd⟩
  · simp [h]
  · simp only [Bool.and_eq_true, not_and, List.all_eq_true]
    intro _ hall
    have := hall c hc
    simp [hd] at this

/-- regex membership atoms are decided according to the SMT-LIB denotation of the regex -/
theorem inRe_spec' (s : List Char) (r : Re) :
    eval (.inRe (.strLit s) r) = some (.bool (decide (Re.matchB r s = true))) ∧
    (Re.matchB r s = true ↔ Re.Lang r s) := by
  refine ⟨by simp [eval], Re.matchB_iff' ..⟩

/-! typing: evaluation of well-typed terms is total except for division by zero -/
inductive Ty where | str | int | bool
  deriving DecidableEq, Repr

def valTy : Val → Ty
  | .str _ => .str
  | .int _ => .int
  | .bool _ => .bool

mutual
/-- `WT t τ`: `t` is well typed of type τ -/
def wt : Term → Ty → Bool
  | .strLit _, τ => τ == .str
  | .intLit _, τ => τ == .int
  | .boolLit _, τ => τ == .bool
  | .len t, τ => τ == .int && wt t .str
  | .concat ts, τ => τ == .str && wtAll ts .str
  | .strAt s i, τ => τ == .str && wt s .str && wt i .int
  | .substr s i n, τ => τ == .str && wt s .str && wt i .int && wt n .int
  | .prefixof a b, τ => τ == .bool && wt a .str && wt b .str
  | .suffixof a b, τ => τ == .bool && wt a .str && wt b .str
  | .contains a b, τ => τ == .bool && wt a .str && wt b .str
  | .indexof s t i, τ => τ == .int && wt s .str && wt t .str && wt i .int
  | .replace s t u, τ => τ == .str && wt s .str && wt t .str && wt u .str
  | .toInt s, τ => τ == .int && wt s .str
  | .fromInt n, τ => τ == .str && wt n .int
  | .toCode s, τ => τ == .int && wt s .str
  | .isDigit s, τ => τ == .bool && wt s .str
  | .strLe a b, τ => τ == .bool && wt a .str && wt b .str
  | .inRe s _, τ => τ == .bool && wt s .str
  | .add ts, τ => τ == .int && wtAll ts .int
  | .sub ts, τ => τ == .int && !ts.isEmpty && wtAll ts .int
  | .mul ts, τ => τ == .int && wtAll ts .int
  | .div a b, τ => τ == .int && wt a .int && wt b .int
  | .mod a b, τ => τ == .int && wt a .int && wt b .int
  | .neg a, τ => τ == .int && wt a .int
  | .abs a, τ => τ == .int && wt a .int
  | .eq a b, τ => τ == .bool && ((wt a .str && wt b .str) || (wt a .int && wt b .int) || (wt a .bool && wt b .bool))
  | .lt a b, τ => τ == .bool && wt a .int && wt b .int
  | .le a b, τ => τ == .bool && wt a .int && wt b .int
  | .gt a b, τ => τ == .bool && wt a .int && wt b .int
  | .ge a b, τ => τ == .bool && wt a .int && wt b .int
  | .not a, τ => τ == .bool && wt a .bool
  | .and ts, τ => τ == .bool && wtAll ts .bool
  | .or ts, τ => τ == .bool && wtAll ts .bool
  | .implies a b, τ => τ == .bool && wt a .bool && wt b .bool
  | .xor a b, τ => τ == .bool && wt a .bool && wt b .bool
def wtAll : List Term → Ty → Bool
  | [], _ => true
  | t :: ts, τ => wt t τ && wtAll ts τ
end

/-- a well-typed term never evaluates to a value of another type -/
theorem eval_type' (t : Term) (τ : Ty) (v : Val) (h : wt t τ = true) (he : eval t = some v) : valTy v = τ := by
  cases t <;> simp [wt] at h <;> simp [eval] at he <;> (repeat' split at he) <;>
    first
    | (subst he; simp_all [valTy])
    | (obtain ⟨_, _, rfl⟩ := he; simp_all [valTy])
    | simp_all

mutual
/-- `none` arises only from a division or modulo by zero: if every divisor occurring in the term
evaluates to a non-zero integer, a well-typed term has a value -/
def divisorsOk : Term → Bool
  | .div a b => divisorsOk a && divisorsOk b && (match eval b with | some (.int n) => n != 0 | _ => false)
  | .mod a b => divisorsOk a && divisorsOk b && (match eval b with | some (.int n) => n != 0 | _ => false)
  | .len t => divisorsOk t
  | .concat ts => divisorsOkL ts
  | .strAt s i => divisorsOk s && divisorsOk i
  | .substr s i n => divisorsOk s && divisorsOk i && divisorsOk n
  | .prefixof a b => divisorsOk a && divisorsOk b
  | .suffixof a b => divisorsOk a && divisorsOk b
  | .contains a b => divisorsOk a && divisorsOk b
  | .indexof s t i => divisorsOk s && divisorsOk t && divisorsOk i
  | .replace s t u => divisorsOk s && divisorsOk t && divisorsOk u
  | .toInt s => divisorsOk s
  | .fromInt n => divisorsOk n
  | .toCode s => divisorsOk s
  | .isDigit s => divisorsOk s
  | .strLe a b => divisorsOk a && divisorsOk b
  | .inRe s _ => divisorsOk s
  | .add ts => divisorsOkL ts
  | .sub ts => divisorsOkL ts
  | .mul ts => divisorsOkL ts
  | .neg a => divisorsOk a
  | .abs a => divisorsOk a
  | .eq a b => divisorsOk a && divisorsOk b
  | .lt a b => divisorsOk a && divisorsOk b
  | .le a b => divisorsOk a && divisorsOk b
  | .gt a b => divisorsOk a && divisorsOk b
  | .ge a b => divisorsOk a && divisorsOk b
  | .not a => divisorsOk a
  | .and ts => divisorsOkL ts
  | .or ts => divisorsOkL ts
  | .implies a b => divisorsOk a && divisorsOk b
  | .xor a b => divisorsOk a && divisorsOk b
  | _ => true
def divisorsOkL : List Term → Bool
  | [] => true
  | t :: ts => divisorsOk t && divisorsOkL ts
end

theorem ex_str {t : Term} (h : ∃ v, eval t = some v ∧ valTy v = .str) : ∃ s, eval t = some (.str s) := by
  obtain ⟨v, hv, ht⟩ := h
  cases v <;> simp [valTy] at ht
  exact ⟨_, hv⟩

theorem ex_int {t : Term} (h : ∃ v, eval t = some v ∧ valTy v = .int) : ∃ s, eval t = some (.int s) := by
  obtain ⟨v, hv, ht⟩ := h
  cases v <;> simp [valTy] at ht
  exact ⟨_, hv⟩

theorem ex_bool {t : Term} (h : ∃ v, eval t = some v ∧ valTy v = .bool) : ∃ s, eval t = some (.bool s) := by
  obtain ⟨v, hv, ht⟩ := h
  cases v <;> simp [valTy] at ht
  exact ⟨_, hv⟩

mutual

theorem evalDef : ∀ (t : Term) (τ : Ty), wt t τ = true → divisorsOk t = true →
    ∃ v, eval t = some v ∧ valTy v = τ
  | .strLit s, τ, h, _ => by simp [wt] at h; simp [eval, valTy, h]
  | .intLit s, τ, h, _ => by simp [wt] at h; simp [eval, valTy, h]
  | .boolLit s, τ, h, _ => by simp [wt] at h; simp [eval, valTy, h]
  | .len a, τ, h, hd => by
    simp [wt] at h; simp [divisorsOk] at hd
    obtain ⟨rfl, ha⟩ := h
    obtain ⟨x, hx⟩ := ex_str (evalDef a _ ha hd)
    simp [eval, hx, valTy]
  | .toInt a, τ, h, hd => by
    simp [wt] at h; simp [divisorsOk] at hd
    obtain ⟨rfl, ha⟩ := h
    obtain ⟨x, hx⟩ := ex_str (evalDef a _ ha hd)
    simp [eval, hx, valTy]
  | .toCode a, τ, h, hd => by
    simp [wt] at h; simp [divisorsOk] at hd
    obtain ⟨rfl, ha⟩ := h
    obtain ⟨x, hx⟩ := ex_str (evalDef a _ ha hd)
    simp only [eval, hx]; split <;> simp_all [valTy]
  | .isDigit a, τ, h, hd => by
    simp [wt] at h; simp [divisorsOk] at hd
    obtain ⟨rfl, ha⟩ := h
    obtain ⟨x, hx⟩ := ex_str (evalDef a _ ha hd)
    simp only [eval, hx]; split <;> simp_all [valTy]
  | .inRe a r, τ, h, hd => by
    simp [wt] at h; simp [divisorsOk] at hd
    obtain ⟨rfl, ha⟩ := h
    obtain ⟨x, hx⟩ := ex_str (evalDef a _ ha hd)
    simp [eval, hx, valTy]
  | .fromInt a, τ, h, hd => by
    simp [wt] at h; simp [divisorsOk] at hd
    obtain ⟨rfl, ha⟩ := h
    obtain ⟨x, hx⟩ := ex_int (evalDef a _ ha hd)
    simp [eval, hx, valTy]
  | .neg a, τ, h, hd => by
    simp [wt] at h; simp [divisorsOk] at hd
    obtain ⟨rfl, ha⟩ := h
    obtain ⟨x, hx⟩ := ex_int (evalDef a _ ha hd)
    simp [eval, hx, valTy]
  | .abs a, τ, h, hd => by
    simp [wt] at h; simp [divisorsOk] at hd
    obtain ⟨rfl, ha⟩ := h
    obtain ⟨x, hx⟩ := ex_int (evalDef a _ ha hd)
    simp [eval, hx, valTy]
  | .not a, τ, h, hd => by
    simp [wt] at h; simp [divisorsOk] at hd
    obtain ⟨rfl, ha⟩ := h
    obtain ⟨x, hx⟩ := ex_bool (evalDef a _ ha hd)
    simp [eval, hx, valTy]
  | .prefixof a b, τ, h, hd => by
    simp [wt] at h; simp [divisorsOk] at hd
    obtain ⟨⟨rfl, ha⟩, hb⟩ := h
    obtain ⟨x, hx⟩ := ex_str (evalDef a _ ha hd.1)
    obtain ⟨y, hy⟩ := ex_str (evalDef b _ hb hd.2)
    simp [eval, hx, hy, valTy]
  | .suffixof a b, τ, h, hd => by
    simp [wt] at h; simp [divisorsOk] at hd
    obtain ⟨⟨rfl, ha⟩, hb⟩ := h
    obtain ⟨x, hx⟩ := ex_str (evalDef a _ ha hd.1)
    obtain ⟨y, hy⟩ := ex_str (evalDef b _ hb hd.2)
    simp [eval, hx, hy, valTy]
  | .contains a b, τ, h, hd => by
    simp [wt] at h; simp [divisorsOk] at hd
    obtain ⟨⟨rfl, ha⟩, hb⟩ := h
    obtain ⟨x, hx⟩ := ex_str (evalDef a _ ha hd.1)
    obtain ⟨y, hy⟩ := ex_str (evalDef b _ hb hd.2)
    simp [eval, hx, hy, valTy]
  | .strLe a b, τ, h, hd => by
    simp [wt] at h; simp [divisorsOk] at hd
    obtain ⟨⟨rfl, ha⟩, hb⟩ := h
    obtain ⟨x, hx⟩ := ex_str (evalDef a _ ha hd.1)
    obtain ⟨y, hy⟩ := ex_str (evalDef b _ hb hd.2)
    simp [eval, hx, hy, valTy]
  | .lt a b, τ, h, hd => by
    simp [wt] at h; simp [divisorsOk] at hd
    obtain ⟨⟨rfl, ha⟩, hb⟩ := h
    obtain ⟨x, hx⟩ := ex_int (evalDef a _ ha hd.1)
    obtain ⟨y, hy⟩ := ex_int (evalDef b _ hb hd.2)
    simp [eval, hx, hy, valTy]
  | .le a b, τ, h, hd => by
    simp [wt] at h; simp [divisorsOk] at hd
    obtain ⟨⟨rfl, ha⟩, hb⟩ := h
    obtain ⟨x, hx⟩ := ex_int (evalDef a _ ha hd.1)
    obtain ⟨y, hy⟩ := ex_int (evalDef b _ hb hd.2)
    simp [eval, hx, hy, valTy]
  | .gt a b, τ, h, hd => by
    simp [wt] at h; simp [divisorsOk] at hd
    obtain ⟨⟨rfl, ha⟩, hb⟩ := h
    obtain ⟨x, hx⟩ := ex_int (evalDef a _ ha hd.1)
    obtain ⟨y, hy⟩ := ex_int (evalDef b _ hb hd.2)
    simp [eval, hx, hy, valTy]
  | .ge a b, τ, h, hd => by
    simp [wt] at h; simp [divisorsOk] at hd
    obtain ⟨⟨rfl, ha⟩, hb⟩ := h
    obtain ⟨x, hx⟩ := ex_int (evalDef a _ ha hd.1)
    obtain ⟨y, hy⟩ := ex_int (evalDef b _ hb hd.2)
    simp [eval, hx, hy, valTy]
  | .div a b, τ, h, hd => by
    simp [wt] at h; simp [divisorsOk] at hd
    obtain ⟨⟨rfl, ha⟩, hb⟩ := h
    obtain ⟨x, hx⟩ := ex_int (evalDef a _ ha hd.1.1)
    obtain ⟨y, hy⟩ := ex_int (evalDef b _ hb hd.1.2)
    have hz := hd.2; rw [hy] at hz; simp at hz
    simp [eval, hx, hy, hz, valTy]
  | .mod a b, τ, h, hd => by
    simp [wt] at h; simp [divisorsOk] at hd
    obtain ⟨⟨rfl, ha⟩, hb⟩ := h
    obtain ⟨x, hx⟩ := ex_int (evalDef a _ ha hd.1.1)
    obtain ⟨y, hy⟩ := ex_int (evalDef b _ hb hd.1.2)
    have hz := hd.2; rw [hy] at hz; simp at hz
    simp [eval, hx, hy, hz, valTy]
  | .implies a b, τ, h, hd => by
    simp [wt] at h; simp [divisorsOk] at hd
    obtain ⟨⟨rfl, ha⟩, hb⟩ := h
    obtain ⟨x, hx⟩ := ex_bool (evalDef a _ ha hd.1)
    obtain ⟨y, hy⟩ := ex_bool (evalDef b _ hb hd.2)
    simp [eval, hx, hy, valTy]
  | .xor a b, τ, h, hd => by
    simp [wt] at h; simp [divisorsOk] at hd
    obtain ⟨⟨rfl, ha⟩, hb⟩ := h
    obtain ⟨x, hx⟩ := ex_bool (evalDef a _ ha hd.1)
    obtain ⟨y, hy⟩ := ex_bool (evalDef b _ hb hd.2)
    simp [eval, hx, hy, valTy]
  | .strAt a b, τ, h, hd => by
    simp [wt] at h; simp [divisorsOk] at hd
    obtain ⟨⟨rfl, ha⟩, hb⟩ := h
    obtain ⟨x, hx⟩ := ex_str (evalDef a _ ha hd.1)
    obtain ⟨y, hy⟩ := ex_int (evalDef b _ hb hd.2)
    simp [eval, hx, hy, valTy]
  | .substr a b c, τ, h, hd => by
    simp [wt] at h; simp [divisorsOk] at hd
    obtain ⟨⟨⟨rfl, ha⟩, hb⟩, hc⟩ := h
    obtain ⟨x, hx⟩ := ex_str (evalDef a _ ha hd.1.1)
    obtain ⟨y, hy⟩ := ex_int (evalDef b _ hb hd.1.2)
    obtain ⟨z, hz⟩ := ex_int (evalDef c _ hc hd.2)
    simp [eval, hx, hy, hz, valTy]
  | .indexof a b c, τ, h, hd => by
    simp [wt] at h; simp [divisorsOk] at hd
    obtain ⟨⟨⟨rfl, ha⟩, hb⟩, hc⟩ := h
    obtain ⟨x, hx⟩ := ex_str (evalDef a _ ha hd.1.1)
    obtain ⟨y, hy⟩ := ex_str (evalDef b _ hb hd.1.2)
    obtain ⟨z, hz⟩ := ex_int (evalDef c _ hc hd.2)
    simp [eval, hx, hy, hz, valTy]
  | .replace a b c, τ, h, hd => by
    simp [wt] at h; simp [divisorsOk] at hd
    obtain ⟨⟨⟨rfl, ha⟩, hb⟩, hc⟩ := h
    obtain ⟨x, hx⟩ := ex_str (evalDef a _ ha hd.1.1)
    obtain ⟨y, hy⟩ := ex_str (evalDef b _ hb hd.1.2)
    obtain ⟨z, hz⟩ := ex_str (evalDef c _ hc hd.2)
    simp [eval, hx, hy, hz, valTy]
  | .concat ts, τ, h, hd => by
    simp [wt] at h; simp [divisorsOk] at hd
    obtain ⟨rfl, ha⟩ := h
    obtain ⟨s, hs⟩ := evalStrsDef ts ha hd
    simp [eval, hs, valTy]
  | .add ts, τ, h, hd => by
    simp [wt] at h; simp [divisorsOk] at hd
    obtain ⟨rfl, ha⟩ := h
    obtain ⟨s, hs⟩ := evalIntsDef ts ha hd
    simp [eval, hs, valTy]
  | .mul ts, τ, h, hd => by
    simp [wt] at h; simp [divisorsOk] at hd
    obtain ⟨rfl, ha⟩ := h
    obtain ⟨s, hs⟩ := evalIntsDef ts ha hd
    simp [eval, hs, valTy]
  | .sub ts, τ, h, hd => by
    simp [wt] at h; simp [divisorsOk] at hd
    obtain ⟨⟨rfl, hne⟩, ha⟩ := h
    obtain ⟨s, hs⟩ := evalIntsDef ts ha hd
    cases s with
    | nil =>
      cases ts with
      | nil => simp at hne
      | cons t ts =>
        simp only [evalInts] at hs
        split at hs <;> simp at hs
    | cons n ns => simp [eval, hs, valTy]
  | .and ts, τ, h, hd => by
    simp [wt] at h; simp [divisorsOk] at hd
    obtain ⟨rfl, ha⟩ := h
    obtain ⟨s, hs⟩ := evalBoolsDef ts ha hd
    simp [eval, hs, valTy]
  | .or ts, τ, h, hd => by
    simp [wt] at h; simp [divisorsOk] at hd
    obtain ⟨rfl, ha⟩ := h
    obtain ⟨s, hs⟩ := evalBoolsDef ts ha hd
    simp [eval, hs, valTy]
  | .eq a b, τ, h, hd => by
    simp [wt] at h; simp [divisorsOk] at hd
    obtain ⟨rfl, h⟩ := h
    rcases h with (⟨ha, hb⟩ | ⟨ha, hb⟩) | ⟨ha, hb⟩
    all_goals
      obtain ⟨x, hx, -⟩ := evalDef a _ ha hd.1
      obtain ⟨y, hy, -⟩ := evalDef b _ hb hd.2
      simp [eval, hx, hy, valTy]

theorem evalStrsDef : ∀ (ts : List Term), wtAll ts .str = true → divisorsOkL ts = true →
    ∃ ss, evalStrs ts = some ss
  | [], _, _ => ⟨[], by simp [evalStrs]⟩
  | t :: ts, h, hd => by
    simp [wtAll] at h; simp [divisorsOkL] at hd
    obtain ⟨x, hx⟩ := ex_str (evalDef t _ h.1 hd.1)
    obtain ⟨y, hy⟩ := evalStrsDef ts h.2 hd.2
    simp [evalStrs, hx, hy]

theorem evalIntsDef : ∀ (ts : List Term), wtAll ts .int = true → divisorsOkL ts = true →
    ∃ ss, evalInts ts = some ss
  | [], _, _ => ⟨[], by simp [evalInts]⟩
  | t :: ts, h, hd => by
    simp [wtAll] at h; simp [divisorsOkL] at hd
    obtain ⟨x, hx⟩ := ex_int (evalDef t _ h.1 hd.1)
    obtain ⟨y, hy⟩ := evalIntsDef ts h.2 hd.2
    simp [evalInts, hx, hy]

theorem evalBoolsDef : ∀ (ts : List Term), wtAll ts .bool = true → divisorsOkL ts = true →
    ∃ ss, evalBools ts = some ss
  | [], _, _ => ⟨[], by simp [evalBools]⟩
  | t :: ts, h, hd => by
    simp [wtAll] at h; simp [divisorsOkL] at hd
    obtain ⟨x, hx⟩ := ex_bool (evalDef t _ h.1 hd.1)
    obtain ⟨y, hy⟩ := evalBoolsDef ts h.2 hd.2
    simp [evalBools, hx, hy]
end

theorem eval_defined' (t : Term) (τ : Ty) (h : wt t τ = true) (hd : divisorsOk t = true) :
    ∃ v, eval t = some v ∧ valTy v = τ := evalDef t τ h hd

end IslaVerif.C05
