import IslaVerif.Model.Grammar
import IslaVerif.Proofs.Recognizer
/-
C10: the position-based derivation relation `Der` used by the recognizer coincides with the
existence of a valid, closed derivation tree (the notion the property talks about).
-/
namespace IslaVerif.C10
open IslaVerif Grammar Rec

/-- `s` is in the language of nonterminal `A`: some valid closed derivation tree rooted in `A` yields it -/
def InLang (g : Grammar) (A : String) (s : List Char) : Prop :=
  ∃ t : DTree, t.valid g = true ∧ t.closed = true ∧ t.sym = A ∧ t.yieldC g = s

/-! ### helpers -/

theorem alts_none_of_notNT {g : Grammar} {X : String} (h : isNT g X = false) : alts g X = none := by
  simp only [isNT, alts] at *
  cases hl : g.lookup X with
  | none => rfl
  | some v => rw [hl] at h; cases h

theorem isNT_of_alts {g : Grammar} {X : String} {as} (h : alts g X = some as) : isNT g X = true := by
  simp only [isNT, alts] at *
  rw [h]; rfl

/-- the yield of an inner node of a nonterminal is the yield of its children (also for `[]`) -/
theorem yieldC_node_NT {g : Grammar} {n : Nat} {A : String} (hA : isNT g A = true) (ks : List DTree) :
    DTree.yieldC g (.node n A ks) = DTree.yieldCL g ks := by
  cases ks with
  | nil => simp [DTree.yieldC, DTree.yieldCL, hA]
  | cons k ks => simp [DTree.yieldC]

/-- a valid closed tree whose symbol is a terminal is a leaf yielding that terminal -/
theorem yieldC_terminal {g : Grammar} : ∀ (t : DTree), t.valid g = true → t.hasOpen = false →
    isNT g t.sym = false → t.yieldC g = t.sym.toList
  | .openLeaf _ _, _, ho, _ => by simp [DTree.hasOpen] at ho
  | .node n X ks, hv, _, hnt => by
    simp only [DTree.sym] at hnt
    simp only [DTree.valid, alts_none_of_notNT hnt, List.isEmpty_iff] at hv
    subst hv
    simp [DTree.yieldC, DTree.sym, hnt]

/-- splitting an occurrence of `y1 ++ y2` -/
theorem take_split {l y1 y2 : List Char}
    (h : l.take (y1 ++ y2).length = y1 ++ y2) :
    l.take y1.length = y1 ∧ (l.drop y1.length).take y2.length = y2 := by
  rw [List.length_append, List.take_add] at h
  have hlen : (l.take (y1.length + y2.length)).length = y1.length + y2.length := by
    rw [List.take_add, h, List.length_append]
  have h1 : (l.take y1.length).length = y1.length := by
    simp only [List.length_take] at hlen ⊢; omega
  exact List.append_inj h h1

/-- joining two adjacent windows -/
theorem take_join {s : List Char} {i k j : Nat} (hik : i ≤ k) (hkj : k ≤ j) :
    (s.drop i).take (k - i) ++ (s.drop k).take (j - k) = (s.drop i).take (j - i) := by
  have e1 : j - i = (k - i) + (j - k) := by omega
  have e2 : s.drop k = (s.drop i).drop (k - i) := by
    rw [List.drop_drop]; congr 1; omega
  rw [e1, List.take_add, e2]

/-! ### tree → positions -/

mutual
theorem der_of_tree_aux (g : Grammar) (h0 : isNT g "" = false) (s : List Char) :
    ∀ (t : DTree) (i : Nat), t.valid g = true → t.hasOpen = false → isNT g t.sym = true →
      (s.drop i).take (t.yieldC g).length = t.yieldC g →
      Der g s t.sym i (i + (t.yieldC g).length)
  | .openLeaf _ _, _, _, ho, _, _ => by simp [DTree.hasOpen] at ho
  | .node n A ks, i, hv, ho, hnt, hy => by
    simp only [DTree.sym] at hnt ⊢
    rw [yieldC_node_NT hnt] at hy ⊢
    simp only [DTree.hasOpen] at ho
    cases has : alts g A with
    | none =>
      simp only [isNT] at hnt; simp only [alts] at has
      rw [has] at hnt; cases hnt
    | some as =>
      simp only [DTree.valid, has, Bool.and_eq_true, List.any_eq_true] at hv
      obtain ⟨⟨alt, halt, hkm⟩, hvl⟩ := hv
      simp only [kidsMatch, Bool.or_eq_true, Bool.and_eq_true, beq_iff_eq, List.isEmpty_iff] at hkm
      rcases hkm with hkm | ⟨halt0, hsyms⟩
      · exact .mk has halt (derSeq_of_kids_aux g h0 s ks alt i hkm hvl ho hy)
      · subst halt0
        -- the single child is the empty terminal
        cases ks with
        | nil => simp at hsyms
        | cons k ks' =>
          cases ks' with
          | cons _ _ => simp at hsyms
          | nil =>
          simp only [List.map_cons, List.map_nil, List.cons.injEq, and_true] at hsyms
          simp only [DTree.validL, Bool.and_true] at hvl
          simp only [DTree.hasOpenL, Bool.or_false] at ho
          have hk : k.yieldC g = [] := by
            have := yieldC_terminal k hvl ho (by rw [hsyms]; exact h0)
            rw [this, hsyms]; rfl
          simp only [DTree.yieldCL, hk, List.append_nil, List.length_nil, Nat.add_zero]
          exact .mk has halt .nil
theorem derSeq_of_kids_aux (g : Grammar) (h0 : isNT g "" = false) (s : List Char) :
    ∀ (ks : List DTree) (alt : List String) (i : Nat), ks.map DTree.sym = alt →
      DTree.validL g ks = true → DTree.hasOpenL ks = false →
      (s.drop i).take (DTree.yieldCL g ks).length = DTree.yieldCL g ks →
      DerSeq g s alt i (i + (DTree.yieldCL g ks).length)
  | [], alt, i, hm, _, _, _ => by
    simp only [List.map_nil] at hm
    subst hm
    simp only [DTree.yieldCL, List.length_nil, Nat.add_zero]
    exact .nil
  | k :: ks, alt, i, hm, hv, ho, hy => by
    simp only [List.map_cons] at hm
    subst hm
    simp only [DTree.validL, Bool.and_eq_true] at hv
    simp only [DTree.hasOpenL, Bool.or_eq_false_iff] at ho
    simp only [DTree.yieldCL] at hy ⊢
    obtain ⟨hy1, hy2⟩ := take_split hy
    rw [List.drop_drop] at hy2
    have ih := derSeq_of_kids_aux g h0 s ks _ (i + (k.yieldC g).length) rfl hv.2 ho.2 hy2
    rw [List.length_append, ← Nat.add_assoc]
    cases hnt : isNT g k.sym with
    | true =>
      exact .consN hnt (der_of_tree_aux g h0 s k i hv.1 ho.1 hnt hy1) ih
    | false =>
      have hk := yieldC_terminal k hv.1 ho.1 hnt
      refine .consT hnt ?_ ih
      rw [hk] at hy1 ⊢
      simp [termAt, hy1]
end

/-- the hypothesis `isNT g "" = false` of `der_of_tree'` cannot be dropped: if `""` is a nonterminal,
the ε-realisation `[node _ "" …]` of `kidsMatch` may carry a non-empty yield -/
theorem der_of_tree_counterexample :
    ∃ (g : Grammar) (A : String) (s : List Char),
      isNT g A = true ∧ InLang g A s ∧ ¬ Der g s A 0 s.length := by
  refine ⟨[("<a>", [[]]), ("", [["x"]])], "<a>", ['x'], by rfl,
    ⟨.node 0 "<a>" [.node 0 "" [.node 0 "x" []]], by decide, by decide, rfl, by decide⟩, ?_⟩
  intro h
  cases h with
  | mk has halt hs =>
    simp [alts, List.lookup] at has
    subst has
    simp at halt
    subst halt
    cases hs

/-- tree → positions -/
theorem der_of_tree' (g : Grammar) (A : String) (s : List Char) (h0 : isNT g "" = false)
    (hA : isNT g A = true) (h : InLang g A s) : Der g s A 0 s.length := by
  obtain ⟨t, hv, hc, hs, hy⟩ := h
  have ho : t.hasOpen = false := by simpa [DTree.closed] using hc
  have := der_of_tree_aux g h0 s t 0 hv ho (by rw [hs]; exact hA) (by rw [hy]; simp)
  rw [hs, hy] at this
  simpa using this

/-! ### positions → tree -/

mutual
theorem tree_of_der_aux (g : Grammar) (s : List Char) :
    ∀ {A i j}, Der g s A i j → i ≤ s.length →
      ∃ t : DTree, t.valid g = true ∧ t.hasOpen = false ∧ t.sym = A ∧
        t.yieldC g = (s.drop i).take (j - i)
  | A, i, j, .mk (as := as) (alt := alt) has halt hs, hi => by
    obtain ⟨ks, hm, hv, ho, hy⟩ := kids_of_derSeq_aux g s hs hi
    refine ⟨.node 0 A ks, ?_, ?_, rfl, ?_⟩
    · simp only [DTree.valid, has, Bool.and_eq_true, List.any_eq_true]
      exact ⟨⟨alt, halt, by simp [kidsMatch, hm]⟩, hv⟩
    · simpa [DTree.hasOpen] using ho
    · rw [yieldC_node_NT (isNT_of_alts has)]; exact hy
theorem kids_of_derSeq_aux (g : Grammar) (s : List Char) :
    ∀ {alt i j}, DerSeq g s alt i j → i ≤ s.length →
      ∃ ks : List DTree, ks.map DTree.sym = alt ∧ DTree.validL g ks = true ∧
        DTree.hasOpenL ks = false ∧ DTree.yieldCL g ks = (s.drop i).take (j - i)
  | _, _, _, .nil, _ => ⟨[], rfl, by simp [DTree.validL], by simp [DTree.hasOpenL],
      by simp [DTree.yieldCL]⟩
  | _, i, j, .consT (X := X) (k := k) hnt ht hr, hi => by
    have h1 := termAt_bounds ht hi
    have h2 := derSeq_bounds hr h1.2
    obtain ⟨ks, hm, hv, ho, hy⟩ := kids_of_derSeq_aux g s hr h1.2
    refine ⟨.node 0 X [] :: ks, by simp [DTree.sym, hm], ?_, ?_, ?_⟩
    · simp [DTree.validL, DTree.valid, alts_none_of_notNT hnt, hv]
    · simp [DTree.hasOpenL, DTree.hasOpen, ho]
    · simp only [termAt, Bool.and_eq_true, beq_iff_eq] at ht
      obtain ⟨hk, htk⟩ := ht
      simp only [DTree.yieldCL, DTree.yieldC, hnt, hy]
      rw [← take_join h1.1 h2.1]
      congr 1
      have e : k - i = X.toList.length := by omega
      rw [e, htk]; simp
  | _, i, j, .consN (X := X) (k := k) hnt hd hr, hi => by
    have h1 := der_bounds hd hi
    have h2 := derSeq_bounds hr h1.2
    obtain ⟨t, hvt, hot, hst, hyt⟩ := tree_of_der_aux g s hd hi
    obtain ⟨ks, hm, hv, ho, hy⟩ := kids_of_derSeq_aux g s hr h1.2
    refine ⟨t :: ks, by simp [hst, hm], ?_, ?_, ?_⟩
    · simp [DTree.validL, hvt, hv]
    · simp [DTree.hasOpenL, hot, ho]
    · simp only [DTree.yieldCL, hyt, hy]
      exact take_join h1.1 h2.1
end

/-- positions → tree -/
theorem tree_of_der' (g : Grammar) (A : String) (s : List Char)
    (h : Der g s A 0 s.length) : InLang g A s := by
  obtain ⟨t, hv, ho, hs, hy⟩ := tree_of_der_aux g s h (Nat.zero_le _)
  exact ⟨t, hv, by simp [DTree.closed, ho], hs, by simpa using hy⟩

end IslaVerif.C10
