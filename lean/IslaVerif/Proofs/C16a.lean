import IslaVerif.Model.PTree
/-
C16, part a: the cached openness flags are never wrong, over every operation sequence.
-/
namespace IslaVerif.C16
open IslaVerif IslaVerif.PTree

/-! ### Specification -/
mutual
/-- every cached flag that is present equals the actual openness of its subtree -/
def cacheOk : PTree → Bool
  | .openLeaf _ _ => true
  | .node _ _ ks c => (c == none || c == some (DTree.hasOpenL (eraseL ks))) && cacheOkL ks
def cacheOkL : List PTree → Bool
  | [] => true
  | k :: ks => cacheOk k && cacheOkL ks
end

/-! ### Helper lemmas -/

theorem cacheOk_node (i : Nat) (s : String) (ks : List PTree) (c : Option Bool) :
    cacheOk (.node i s ks c) =
      ((c == none || c == some (DTree.hasOpenL (eraseL ks))) && cacheOkL ks) := by
  simp [cacheOk]

theorem cacheOk_node_kids {i : Nat} {s : String} {ks : List PTree} {c : Option Bool}
    (h : cacheOk (.node i s ks c) = true) : cacheOkL ks = true := by
  rw [cacheOk_node] at h
  simp only [Bool.and_eq_true] at h
  exact h.2

theorem cacheOk_node_flag {i : Nat} {s : String} {ks : List PTree} {c : Option Bool}
    (h : cacheOk (.node i s ks c) = true) : c = none ∨ c = some (DTree.hasOpenL (eraseL ks)) := by
  rw [cacheOk_node] at h
  simp only [Bool.and_eq_true, Bool.or_eq_true, beq_iff_eq] at h
  exact h.1

theorem cacheOk_node_intro {i : Nat} {s : String} {ks : List PTree} {c : Option Bool}
    (hk : cacheOkL ks = true) (hc : c = none ∨ c = some (DTree.hasOpenL (eraseL ks))) :
    cacheOk (.node i s ks c) = true := by
  rw [cacheOk_node]
  simp only [Bool.and_eq_true, Bool.or_eq_true, beq_iff_eq]
  exact ⟨hc, hk⟩

/-- a cached `true` is really open -/
theorem cache_true_open (k : PTree) (hk : cacheOk k = true) (hc : k.cache = some true) :
    (erase k).hasOpen = true := by
  cases k with
  | openLeaf i s => simp [erase, DTree.hasOpen]
  | node i s ks c =>
    simp only [cache] at hc
    subst hc
    rcases cacheOk_node_flag hk with h | h
    · simp at h
    · simp only [erase, DTree.hasOpen]
      simpa using h.symm

/-- a cached `false` is really closed -/
theorem cache_false_closed (k : PTree) (hk : cacheOk k = true) (hc : k.cache = some false) :
    (erase k).hasOpen = false := by
  cases k with
  | openLeaf i s => simp [cache] at hc
  | node i s ks c =>
    simp only [cache] at hc
    subst hc
    rcases cacheOk_node_flag hk with h | h
    · simp at h
    · simp only [erase, DTree.hasOpen]
      simpa using h.symm

theorem any_cache_true_open : ∀ (ks : List PTree), cacheOkL ks = true →
    ks.any (fun k => k.cache == some true) = true → DTree.hasOpenL (eraseL ks) = true
  | [], _, h => by simp at h
  | k :: ks, hk, h => by
    simp only [cacheOkL, Bool.and_eq_true] at hk
    simp only [List.any_cons, Bool.or_eq_true, beq_iff_eq] at h
    simp only [eraseL, DTree.hasOpenL, Bool.or_eq_true]
    rcases h with h | h
    · exact Or.inl (cache_true_open k hk.1 h)
    · exact Or.inr (any_cache_true_open ks hk.2 h)

theorem eraseL_set : ∀ (ks : List PTree) (j : Nat) (k : PTree),
    eraseL (ks.set j k) = (eraseL ks).set j (erase k)
  | [], _, _ => by simp [eraseL]
  | _ :: _, 0, _ => by simp [eraseL]
  | _ :: ks, j + 1, k => by simp [eraseL, eraseL_set ks j k]

theorem eraseL_get : ∀ (ks : List PTree) (j : Nat) (k : PTree), ks[j]? = some k →
    (eraseL ks)[j]? = some (erase k)
  | [], _, _, h => by simp at h
  | x :: _, 0, k, h => by
    simp at h; subst h; simp [eraseL]
  | _ :: ks, j + 1, k, h => by
    simp at h; simp [eraseL, eraseL_get ks j k h]

theorem eraseL_get_none : ∀ (ks : List PTree) (j : Nat), ks[j]? = none →
    (eraseL ks)[j]? = none
  | [], _, _ => by simp [eraseL]
  | _ :: _, 0, h => by simp at h
  | _ :: ks, j + 1, h => by
    simp at h; simp only [eraseL, List.getElem?_cons_succ]
    exact eraseL_get_none ks j (by simpa using h)

theorem eraseL_set_same : ∀ (ks : List PTree) (j : Nat) (k k' : PTree), ks[j]? = some k →
    erase k' = erase k → eraseL (ks.set j k') = eraseL ks
  | [], _, _, _, h, _ => by simp at h
  | x :: _, 0, k, k', h, he => by
    simp at h; subst h; simp [eraseL, he]
  | _ :: ks, j + 1, k, k', h, he => by
    simp at h; simp [eraseL, eraseL_set_same ks j k k' h he]

theorem cacheOkL_set : ∀ (ks : List PTree) (j : Nat) (k : PTree), cacheOkL ks = true →
    cacheOk k = true → cacheOkL (ks.set j k) = true
  | [], _, _, _, _ => by simp [cacheOkL]
  | _ :: _, 0, _, h, hk => by
    simp only [cacheOkL, Bool.and_eq_true] at h
    simp [cacheOkL, hk, h.2]
  | _ :: ks, j + 1, k, h, hk => by
    simp only [cacheOkL, Bool.and_eq_true] at h
    simp [cacheOkL, h.1, cacheOkL_set ks j k h.2 hk]

theorem cacheOkL_get : ∀ (ks : List PTree) (j : Nat) (k : PTree), ks[j]? = some k →
    cacheOkL ks = true → cacheOk k = true
  | [], _, _, h, _ => by simp at h
  | _ :: _, 0, _, h, hk => by
    simp only [cacheOkL, Bool.and_eq_true] at hk
    simp at h; subst h; exact hk.1
  | _ :: ks, j + 1, k, h, hk => by
    simp only [cacheOkL, Bool.and_eq_true] at hk
    simp at h; exact cacheOkL_get ks j k h hk.2

theorem hasOpenL_set_true : ∀ (ds : List DTree) (j : Nat) (d : DTree), j < ds.length →
    d.hasOpen = true → DTree.hasOpenL (ds.set j d) = true
  | [], _, _, h, _ => by simp at h
  | _ :: _, 0, _, _, hd => by simp [DTree.hasOpenL, hd]
  | _ :: ds, j + 1, d, h, hd => by
    simp at h
    simp [DTree.hasOpenL, hasOpenL_set_true ds j d h hd]

theorem hasOpenL_set_false : ∀ (ds : List DTree) (j : Nat) (d : DTree),
    DTree.hasOpenL ds = false → d.hasOpen = false → DTree.hasOpenL (ds.set j d) = false
  | [], _, _, _, _ => by simp [DTree.hasOpenL]
  | _ :: _, 0, _, h, hd => by
    simp only [DTree.hasOpenL, Bool.or_eq_false_iff] at h
    simp [DTree.hasOpenL, hd, h.2]
  | _ :: ds, j + 1, d, h, hd => by
    simp only [DTree.hasOpenL, Bool.or_eq_false_iff] at h
    simp [DTree.hasOpenL, h.1, hasOpenL_set_false ds j d h.2 hd]

theorem eraseL_length : ∀ (ks : List PTree), (eraseL ks).length = ks.length
  | [] => by simp [eraseL]
  | _ :: ks => by simp [eraseL, eraseL_length ks]

mutual
theorem computeOpen_eq : ∀ (t : PTree), cacheOk t = true → computeOpen t = (erase t).hasOpen
  | .openLeaf _ _, _ => by simp [computeOpen, erase, DTree.hasOpen]
  | .node i s ks c, h => by
    have hks := cacheOk_node_kids h
    have ih := computeOpenL_eq ks hks
    simp only [computeOpen, erase, DTree.hasOpen, ih]
    rcases cacheOk_node_flag h with hc | hc
    · subst hc; simp
    · cases hb : DTree.hasOpenL (eraseL ks) <;> simp [hc, hb]
theorem computeOpenL_eq : ∀ (ks : List PTree), cacheOkL ks = true →
    computeOpenL ks = DTree.hasOpenL (eraseL ks)
  | [], _ => by simp [computeOpenL, eraseL, DTree.hasOpenL]
  | k :: ks, h => by
    simp only [cacheOkL, Bool.and_eq_true] at h
    simp [computeOpenL, eraseL, DTree.hasOpenL, computeOpen_eq k h.1, computeOpenL_eq ks h.2]
end

theorem cacheOkL_map {α : Type} (f : α → PTree) (hf : ∀ x, cacheOk (f x) = true) :
    ∀ (l : List α), cacheOkL (l.map f) = true
  | [] => by simp [cacheOkL]
  | x :: l => by simp [cacheOkL, hf x, cacheOkL_map f hf l]

theorem cacheOk_get : ∀ (p : Path) (t u : PTree), cacheOk t = true → get t p = some u →
    cacheOk u = true := by
  intro p
  induction p with
  | nil => intro t u ht h; simp [PTree.get] at h; subst h; exact ht
  | cons j p ih =>
    intro t u ht h
    simp only [PTree.get] at h
    split at h
    · simp at h
    · rename_i k hk
      cases t with
      | openLeaf i s => simp [kids] at hk
      | node i s ks c =>
        simp only [kids] at hk
        exact ih k u (cacheOkL_get ks j k hk (cacheOk_node_kids ht)) h

/-! ### Lemmas -/

theorem cacheOk_mkNode' (i : Nat) (s : String) (ks : List PTree) (a : Option Bool)
    (hk : cacheOkL ks = true) (ha : a = none ∨ a = some (DTree.hasOpenL (eraseL ks))) :
    cacheOk (mkNode i s ks a) = true := by
  unfold mkNode
  split
  · rename_i he
    have : ks = [] := by simpa using he
    subst this
    exact cacheOk_node_intro hk (Or.inr (by simp [eraseL, DTree.hasOpenL]))
  · split
    · rename_i hany
      exact cacheOk_node_intro hk (Or.inr (by rw [any_cache_true_open ks hk hany]))
    · exact cacheOk_node_intro hk ha

theorem erase_mkNode (i : Nat) (s : String) (ks : List PTree) (a : Option Bool) :
    erase (mkNode i s ks a) = .node i s (eraseL ks) := by
  unfold mkNode
  split
  · simp [erase]
  · split <;> simp [erase]

mutual
theorem cacheOk_ofDTree_aux : ∀ (d : DTree), cacheOk (ofDTree d) = true
  | .openLeaf _ _ => by simp [ofDTree, cacheOk]
  | .node i s ks => by
    simp only [ofDTree]
    exact cacheOk_mkNode' i s _ none (cacheOkL_ofDTreeL_aux ks) (Or.inl rfl)
theorem cacheOkL_ofDTreeL_aux : ∀ (ds : List DTree), cacheOkL (ofDTreeL ds) = true
  | [] => by simp [ofDTreeL, cacheOkL]
  | d :: ds => by
    simp [ofDTreeL, cacheOkL, cacheOk_ofDTree_aux d, cacheOkL_ofDTreeL_aux ds]
end

theorem cacheOk_ofDTree' (d : DTree) : cacheOk (ofDTree d) = true := cacheOk_ofDTree_aux d

mutual
theorem erase_ofDTree_aux : ∀ (d : DTree), erase (ofDTree d) = d
  | .openLeaf _ _ => by simp [ofDTree, erase]
  | .node i s ks => by
    simp only [ofDTree, erase_mkNode, eraseL_ofDTreeL_aux ks]
theorem eraseL_ofDTreeL_aux : ∀ (ds : List DTree), eraseL (ofDTreeL ds) = ds
  | [] => by simp [ofDTreeL, eraseL]
  | d :: ds => by
    simp [ofDTreeL, eraseL, erase_ofDTree_aux d, eraseL_ofDTreeL_aux ds]
end

theorem erase_ofDTree' (d : DTree) : erase (ofDTree d) = d := erase_ofDTree_aux d

/-- `is_open()` answers correctly on every tree whose caches are consistent, and keeps them consistent -/
theorem isOpenOp_correct' (t : PTree) (h : cacheOk t = true) :
    (isOpenOp t).1 = (erase t).hasOpen ∧ cacheOk (isOpenOp t).2 = true ∧ erase (isOpenOp t).2 = erase t := by
  cases t with
  | openLeaf i s => simp [isOpenOp, erase, DTree.hasOpen, cacheOk]
  | node i s ks c =>
    have hks := cacheOk_node_kids h
    cases c with
    | some b =>
      simp only [isOpenOp]
      refine ⟨?_, h, trivial⟩
      rcases cacheOk_node_flag h with hc | hc
      · simp at hc
      · simp only [erase, DTree.hasOpen]
        simpa using hc
    | none =>
      simp only [isOpenOp, erase, DTree.hasOpen]
      refine ⟨computeOpenL_eq ks hks, ?_, trivial⟩
      exact cacheOk_node_intro hks (Or.inr (by rw [computeOpenL_eq ks hks]))

theorem cacheOk_replaceRaw : ∀ (p : Path) (t r t' : PTree), cacheOk t = true → cacheOk r = true →
    replaceRaw t p r = some t' → cacheOk t' = true := by
  intro p
  induction p with
  | nil => intro t r t' ht hr h; simp [replaceRaw] at h; subst h; exact hr
  | cons j p ih =>
    intro t r t' ht hr h
    cases t with
    | openLeaf i s => simp [replaceRaw] at h
    | node i s ks c =>
      simp only [replaceRaw] at h
      split at h
      · simp at h
      · rename_i k hk
        split at h
        · simp at h
        · rename_i k' hk'
          simp only [Option.some.injEq] at h
          subst h
          have hks := cacheOk_node_kids ht
          have hkok := cacheOkL_get ks j k hk hks
          have hk'ok := ih k r k' hkok hr hk'
          have hj : j < ks.length := by
            rcases List.getElem?_eq_some_iff.mp hk with ⟨hlt, _⟩
            exact hlt
          apply cacheOk_mkNode' i s _ _ (cacheOkL_set ks j k' hks hk'ok)
          unfold parentFlag
          split
          · rename_i h1
            right
            rw [eraseL_set, hasOpenL_set_true _ _ _ (by rw [eraseL_length]; exact hj)
              (cache_true_open k' hk'ok (by simpa using h1))]
          · split
            · rename_i h2
              simp only [Bool.and_eq_true, beq_iff_eq] at h2
              right
              have hc : c = some false := h2.2
              subst hc
              have hold : DTree.hasOpenL (eraseL ks) = false := by
                rcases cacheOk_node_flag ht with hc | hc
                · simp at hc
                · simpa using hc.symm
              rw [eraseL_set, hasOpenL_set_false _ _ _ hold (cache_false_closed k' hk'ok h2.1)]
            · left; rfl

theorem cacheOk_replacePath' (t r t' : PTree) (p : Path) (b : Bool)
    (ht : cacheOk t = true) (hr : cacheOk r = true) (h : replacePath t p r b = some t') :
    cacheOk t' = true := by
  unfold replacePath at h
  split at h
  · simp at h
  · rename_i old hold
    simp only at h
    refine cacheOk_replaceRaw p t _ t' ht ?_ h
    cases b with
    | false => simpa using hr
    | true =>
      simp only [if_true]
      cases r with
      | openLeaf i s => simp [cacheOk]
      | node i s ks c =>
        simp only
        apply cacheOk_mkNode' _ _ _ _ (cacheOk_node_kids hr)
        right
        have := (isOpenOp_correct' _ hr).1
        rw [this]; simp [erase, DTree.hasOpen]

theorem cacheOk_setAt : ∀ (p : Path) (t u u' t' : PTree), cacheOk t = true → cacheOk u' = true →
    erase u' = erase u → PTree.get t p = some u → setAt t p u' = some t' →
    cacheOk t' = true ∧ erase t' = erase t := by
  intro p
  induction p with
  | nil =>
    intro t u u' t' ht hu' he hg h
    simp [PTree.get] at hg; simp [setAt] at h
    subst hg; subst h
    exact ⟨hu', he⟩
  | cons j p ih =>
    intro t u u' t' ht hu' he hg h
    cases t with
    | openLeaf i s => simp [setAt] at h
    | node i s ks c =>
      simp only [PTree.get, kids] at hg
      simp only [setAt] at h
      split at h
      · simp at h
      · rename_i k hk
        rw [hk] at hg
        simp only at hg
        cases hs : setAt k p u' with
        | none => simp [hs] at h
        | some k' =>
          simp only [hs, Option.map_some, Option.some.injEq] at h
          subst h
          have hks := cacheOk_node_kids ht
          have hkok := cacheOkL_get ks j k hk hks
          obtain ⟨h1, h2⟩ := ih k u u' k' hkok hu' he hg hs
          have hE : eraseL (ks.set j k') = eraseL ks := eraseL_set_same ks j k k' hk h2
          refine ⟨?_, by simp [erase, hE]⟩
          apply cacheOk_node_intro (cacheOkL_set ks j k' hks h1)
          rw [hE]
          exact cacheOk_node_flag ht

theorem cacheOk_isOpenAt' (t t' : PTree) (p : Path) (b : Bool)
    (ht : cacheOk t = true) (h : isOpenAt t p = some (b, t')) :
    cacheOk t' = true ∧ erase t' = erase t ∧ ∃ u, get t p = some u ∧ b = (erase u).hasOpen := by
  unfold isOpenAt at h
  split at h
  · simp at h
  · rename_i u hu
    have huok := cacheOk_get p t u ht hu
    obtain ⟨c1, c2, c3⟩ := isOpenOp_correct' u huok
    simp only at h
    cases hs : setAt t p (isOpenOp u).2 with
    | none => simp [hs] at h
    | some t2 =>
      simp only [hs, Option.map_some, Option.some.injEq, Prod.mk.injEq] at h
      obtain ⟨hb, ht2⟩ := h
      subst ht2
      obtain ⟨h1, h2⟩ := cacheOk_setAt p t u _ t2 ht c2 c3 hu hs
      exact ⟨h1, h2, u, hu, by rw [← hb, c1]⟩

theorem cacheOk_substituteIds : ∀ (m : List (Nat × PTree)) (t : PTree), cacheOk t = true →
    (∀ x ∈ m, cacheOk x.2 = true) → cacheOk (substituteIds t m) = true := by
  intro m
  induction m with
  | nil => intro t ht _; simpa [substituteIds] using ht
  | cons x rest ih =>
    intro t ht hm
    obtain ⟨i, r⟩ := x
    have hrest : ∀ x ∈ rest, cacheOk x.2 = true := fun x hx => hm x (List.mem_cons_of_mem _ hx)
    have hr : cacheOk r = true := hm (i, r) (List.mem_cons_self ..)
    simp only [substituteIds]
    split
    · exact ih t ht hrest
    · rename_i p hp
      split
      · exact ih t ht hrest
      · rename_i t2 ht2
        exact ih t2 (cacheOk_replacePath' t r t2 p false ht hr ht2) hrest

theorem cacheOk_substitute' (t : PTree) (m : List (Nat × PTree))
    (ht : cacheOk t = true) (hm : ∀ x ∈ m, cacheOk x.2 = true) :
    cacheOk (substitute t m) = true := by
  unfold substitute
  apply cacheOk_substituteIds _ t ht
  intro x hx
  unfold substFilter at hx
  exact hm x (List.mem_filter.mp hx).1

theorem cacheOk_expandAt' (isNT : String → Bool) (t t' : PTree) (p : Path) (alt : List String) (ids : List Nat)
    (ht : cacheOk t = true) (h : expandAt isNT t p alt ids = some t') : cacheOk t' = true := by
  unfold expandAt at h
  split at h
  · rename_i i s hg
    simp only at h
    refine cacheOk_replacePath' t _ t' p false ht ?_ h
    apply cacheOk_mkNode' _ _ _ _ _ (Or.inl rfl)
    apply cacheOkL_map
    intro x
    obtain ⟨c, k⟩ := x
    simp only
    split
    · simp [cacheOk]
    · exact cacheOk_mkNode' k c [] none (by simp [cacheOkL]) (Or.inl rfl)
  · simp at h

theorem cacheOk_applyOp' (isNT : String → Bool) (t t' : PTree) (op : Op) (r : Option Bool)
    (ht : cacheOk t = true) (h : applyOp isNT t op = some (t', r)) : cacheOk t' = true := by
  cases op with
  | replace p d b =>
    simp only [applyOp] at h
    cases hr : replacePath t p (ofDTree d) b with
    | none => simp [hr] at h
    | some t2 =>
      simp only [hr, Option.map_some, Option.some.injEq, Prod.mk.injEq] at h
      obtain ⟨h1, _⟩ := h
      subst h1
      exact cacheOk_replacePath' t _ t2 p b ht (cacheOk_ofDTree' d) hr
  | isOpen p =>
    simp only [applyOp] at h
    cases hr : isOpenAt t p with
    | none => simp [hr] at h
    | some bt =>
      obtain ⟨b, t2⟩ := bt
      simp only [hr, Option.map_some, Option.some.injEq, Prod.mk.injEq] at h
      obtain ⟨h1, _⟩ := h
      subst h1
      exact (cacheOk_isOpenAt' t t2 p b ht hr).1
  | substitute m =>
    simp only [applyOp, Option.some.injEq, Prod.mk.injEq] at h
    obtain ⟨h1, _⟩ := h
    subst h1
    apply cacheOk_substitute' t _ ht
    intro x hx
    rcases List.mem_map.mp hx with ⟨y, _, hy⟩
    subst hy
    obtain ⟨i, d⟩ := y
    exact cacheOk_ofDTree' d
  | expand p alt ids =>
    simp only [applyOp] at h
    cases hr : expandAt isNT t p alt ids with
    | none => simp [hr] at h
    | some t2 =>
      simp only [hr, Option.map_some, Option.some.injEq, Prod.mk.injEq] at h
      obtain ⟨h1, _⟩ := h
      subst h1
      exact cacheOk_expandAt' isNT t t2 p alt ids ht hr

theorem cacheOk_runOps_aux (isNT : String → Bool) : ∀ (ops : List Op) (t : PTree),
    cacheOk t = true → cacheOk (runOps isNT t ops) = true := by
  intro ops
  induction ops with
  | nil => intro t ht; simpa [runOps] using ht
  | cons op ops ih =>
    intro t ht
    simp only [runOps]
    split
    · exact ih t ht
    · rename_i t2 r hop
      exact ih t2 (cacheOk_applyOp' isNT t t2 op r ht hop)

/-- the invariant holds in every state reachable by any operation sequence from any constructor-built tree -/
theorem cacheOk_runOps' (isNT : String → Bool) (d : DTree) (ops : List Op) :
    cacheOk (runOps isNT (ofDTree d) ops) = true :=
  cacheOk_runOps_aux isNT ops _ (cacheOk_ofDTree' d)

theorem erase_replaceRaw : ∀ (p : Path) (t r t' : PTree), replaceRaw t p r = some t' →
    DTree.replace (erase t) p (erase r) = some (erase t') := by
  intro p
  induction p with
  | nil => intro t r t' h; simp [replaceRaw] at h; subst h; simp [DTree.replace]
  | cons j p ih =>
    intro t r t' h
    cases t with
    | openLeaf i s => simp [replaceRaw] at h
    | node i s ks c =>
      simp only [replaceRaw] at h
      split at h
      · simp at h
      · rename_i k hk
        split at h
        · simp at h
        · rename_i k' hk'
          simp only [Option.some.injEq] at h
          subst h
          simp only [erase, DTree.replace, eraseL_get ks j k hk, ih k r k' hk', erase_mkNode,
            eraseL_set]

/-- replacing (without retain_id) acts on the underlying plain tree as plain path replacement -/
theorem erase_replacePath' (t r t' : PTree) (p : Path) (h : replacePath t p r false = some t') :
    DTree.replace (erase t) p (erase r) = some (erase t') := by
  unfold replacePath at h
  split at h
  · simp at h
  · simp only [Bool.false_eq_true, if_false] at h
    exact erase_replaceRaw p t r t' h

end IslaVerif.C16
