import IslaVerif.Model.Open
import IslaVerif.Proofs.Sem
import IslaVerif.Proofs.Targets
import IslaVerif.Proofs.TreeOps
namespace IslaVerif.Sem
open IslaVerif

/-- the world of a completion: same grammar and parameters, the completed tree -/
def World.withRoot (w : World) (t' : DTree) : World := { w with root := t' }

/-! ### prefix facts -/

/-- (P1) every node of a prefix is a node of the extension, at the same path -/
theorem prefix_get : ∀ (p : Path) (t t' u : DTree), DTree.idPrefixOf t t' = true → t.get p = some u →
    ∃ u', t'.get p = some u' ∧ DTree.idPrefixOf u u' = true := by
  intro p
  induction p with
  | nil =>
    intro t t' u h hg
    simp only [DTree.get, Option.some.injEq] at hg
    subst hg
    exact ⟨t', rfl, h⟩
  | cons j p ih =>
    intro t t' u h hg
    cases t with
    | openLeaf i s => simp [DTree.get, DTree.kids] at hg
    | node i s ks =>
      cases t' with
      | openLeaf i' s' => simp [DTree.idPrefixOf] at h
      | node i' s' ks' =>
        simp only [DTree.idPrefixOf, Bool.and_eq_true] at h
        obtain ⟨hl, hall⟩ := (DTree.idPrefixOfL_iff_forall ks ks').1 h.2
        simp only [DTree.get, DTree.kids] at hg ⊢
        cases hk : ks[j]? with
        | none => simp [hk] at hg
        | some k =>
          simp only [hk] at hg
          obtain ⟨hj, hkj⟩ := List.getElem?_eq_some_iff.1 hk
          have hj' : j < ks'.length := hl ▸ hj
          have := hall j hj hj'
          rw [hkj] at this
          rw [List.getElem?_eq_getElem hj']
          exact ih k ks'[j] u this hg

mutual
/-- (P2) a closed prefix is the whole tree -/
theorem prefix_closed_eq : ∀ (u u' : DTree), u.hasOpen = false → DTree.idPrefixOf u u' = true → u' = u
  | .openLeaf i s, _, h, _ => by simp [DTree.hasOpen] at h
  | .node i s ks, .openLeaf _ _, _, h => by simp [DTree.idPrefixOf] at h
  | .node i s ks, .node j s' ks', hc, h => by
    simp only [DTree.idPrefixOf, Bool.and_eq_true, beq_iff_eq] at h
    simp only [DTree.hasOpen] at hc
    obtain ⟨⟨rfl, rfl⟩, hl⟩ := h
    rw [prefix_closedL_eq ks ks' hc hl]
theorem prefix_closedL_eq : ∀ (ks ks' : List DTree), DTree.hasOpenL ks = false →
    DTree.idPrefixOfL ks ks' = true → ks' = ks
  | [], [], _, _ => rfl
  | [], _ :: _, _, h => by simp [DTree.idPrefixOfL] at h
  | _ :: _, [], _, h => by simp [DTree.idPrefixOfL] at h
  | a :: as, b :: bs, hc, h => by
    simp only [DTree.idPrefixOfL, Bool.and_eq_true] at h
    simp only [DTree.hasOpenL, Bool.or_eq_false_iff] at hc
    rw [prefix_closed_eq a b hc.1 h.1, prefix_closedL_eq as bs hc.2 h.2]
end

theorem closed_iff (t : DTree) : t.closed = true ↔ t.hasOpen = false := by
  simp [DTree.closed]

/-- (D2) a node of the extension is a node of the prefix or lies strictly below one of its open leaves -/
theorem prefix_get_cases : ∀ (q : Path) (t t' x' : DTree), DTree.idPrefixOf t t' = true →
    t'.get q = some x' →
    (∃ x, t.get q = some x ∧ DTree.idPrefixOf x x' = true) ∨
    (∃ q0 q1 i s u', q = q0 ++ q1 ∧ q1 ≠ [] ∧ t.get q0 = some (.openLeaf i s) ∧
      t'.get q0 = some u' ∧ u'.sym = s ∧ u'.get q1 = some x') := by
  intro q
  induction q with
  | nil =>
    intro t t' x' h hg
    simp only [DTree.get, Option.some.injEq] at hg
    subst hg
    exact Or.inl ⟨t, rfl, h⟩
  | cons j q ih =>
    intro t t' x' h hg
    cases t with
    | openLeaf i s =>
      right
      refine ⟨[], j :: q, i, s, t', rfl, by simp, rfl, rfl, ?_, hg⟩
      exact (DTree.idPrefixOf_id_sym _ _ h).2
    | node i s ks =>
      cases t' with
      | openLeaf i' s' => simp [DTree.idPrefixOf] at h
      | node i' s' ks' =>
        simp only [DTree.idPrefixOf, Bool.and_eq_true] at h
        obtain ⟨hl, hall⟩ := (DTree.idPrefixOfL_iff_forall ks ks').1 h.2
        simp only [DTree.get, DTree.kids] at hg
        cases hk : ks'[j]? with
        | none => simp [hk] at hg
        | some k' =>
          simp only [hk] at hg
          obtain ⟨hj', hkj⟩ := List.getElem?_eq_some_iff.1 hk
          have hj : j < ks.length := hl ▸ hj'
          have hp := hall j hj hj'
          rw [hkj] at hp
          have hkk : ks[j]? = some ks[j] := List.getElem?_eq_getElem hj
          rcases ih ks[j] k' x' hp hg with ⟨x, hx, hxx⟩ | ⟨q0, q1, i0, s0, u', rfl, hne, h1, h2, h3, h4⟩
          · left
            exact ⟨x, by simp only [DTree.get, DTree.kids, hkk]; exact hx, hxx⟩
          · right
            refine ⟨j :: q0, q1, i0, s0, u', rfl, hne, ?_, ?_, h3, h4⟩
            · simp only [DTree.get, DTree.kids, hkk]; exact h1
            · simp only [DTree.get, DTree.kids, hk]; exact h2

/-! ### reachability below a node of a valid tree -/

theorem reach_front {g : Grammar} {A B C : String} (h : B ∈ Targets.succs g A)
    (hr : Targets.Reach g B C) : Targets.Reach g A C := by
  induction hr with
  | step hb => exact Targets.Reach.trans (Targets.Reach.step h) hb
  | trans _ hc ih => exact Targets.Reach.trans ih hc

theorem child_mem_succs (g : Grammar) (h0 : Grammar.isNT g "" = false) (i : Nat) (s : String)
    (ks : List DTree) (k : DTree) (hv : (DTree.node i s ks).valid g = true) (hk : k ∈ ks)
    (hnt : Grammar.isNT g k.sym = true) : k.sym ∈ Targets.succs g s := by
  cases hs : Grammar.alts g s with
  | none =>
    rw [DTree.valid_node_of_not_alts hs] at hv
    cases ks with
    | nil => simp at hk
    | cons _ _ => simp at hv
  | some as =>
    rw [DTree.valid_node_of_alts hs, Bool.and_eq_true, List.any_eq_true] at hv
    obtain ⟨⟨alt, halt, hm⟩, _⟩ := hv
    unfold Targets.succs
    rw [hs]
    simp only [Option.getD_some, List.mem_filter, List.mem_flatten]
    refine ⟨⟨alt, halt, ?_⟩, hnt⟩
    simp only [Grammar.kidsMatch, Bool.or_eq_true, Bool.and_eq_true, beq_iff_eq] at hm
    have hmem : k.sym ∈ ks.map DTree.sym := List.mem_map_of_mem hk
    rcases hm with hm | ⟨_, hm⟩
    · rw [hm] at hmem; exact hmem
    · rw [hm] at hmem
      simp only [List.mem_singleton] at hmem
      rw [hmem, h0] at hnt
      cases hnt

/-- (R) a nonterminal-labelled node strictly below the root of a valid tree is reachable from the root's symbol -/
theorem valid_reach (g : Grammar) (h0 : Grammar.isNT g "" = false) : ∀ (q : Path) (u x : DTree),
    u.valid g = true → u.get q = some x → q ≠ [] → Grammar.isNT g x.sym = true →
    Targets.Reach g u.sym x.sym := by
  intro q
  induction q with
  | nil => intro u x _ _ hne; exact absurd rfl hne
  | cons j q ih =>
    intro u x hv hg _ hnt
    cases u with
    | openLeaf i s => simp [DTree.get, DTree.kids] at hg
    | node i s ks =>
      simp only [DTree.get, DTree.kids] at hg
      cases hk : ks[j]? with
      | none => simp [hk] at hg
      | some k =>
        simp only [hk] at hg
        have hm : k ∈ ks := List.mem_of_getElem? hk
        have hkv : k.valid g = true :=
          DTree.valid_get g [j] _ k hv (by simp [DTree.get, DTree.kids, hk])
        cases q with
        | nil =>
          simp only [DTree.get, Option.some.injEq] at hg
          subst hg
          exact Targets.Reach.step (child_mem_succs g h0 i s ks k hv hm hnt)
        | cons j' q' =>
          have hr := ih k x hkv hg (by simp) hnt
          have hknt : Grammar.isNT g k.sym = true := by
            cases k with
            | openLeaf i' s' => simp [DTree.get, DTree.kids] at hg
            | node i' s' ks' =>
              cases hs : Grammar.alts g s' with
              | none =>
                rw [DTree.valid_node_of_not_alts hs] at hkv
                cases ks' with
                | nil => simp [DTree.get, DTree.kids] at hg
                | cons _ _ => simp at hkv
              | some as =>
                simp only [Grammar.alts] at hs
                simp [Grammar.isNT, DTree.sym, hs]
          exact reach_front (child_mem_succs g h0 i s ks k hv hm hknt) hr

/-! ### worlds of completions -/

theorem withRoot_self (w : World) : w.withRoot w.root = w := by cases w; rfl

theorem completes_spec {g : Grammar} {t t' : DTree} (h : completes g t t' = true) :
    DTree.idPrefixOf t t' = true ∧ t'.closed = true ∧ t'.valid g = true := by
  simp only [completes, Bool.and_eq_true] at h
  exact ⟨h.1.1, h.1.2, h.2⟩

theorem withRoot_of_closed (w : World) (t' : DTree) (hp : DTree.idPrefixOf w.root t' = true)
    (hcl : w.root.closed = true) : w.withRoot t' = w := by
  rw [prefix_closed_eq w.root t' ((closed_iff _).1 hcl) hp]
  exact withRoot_self w

theorem strOf_closedAt (w : World) (t' : DTree) (hp : DTree.idPrefixOf w.root t' = true)
    (β : Env) (v : String) (h : closedAt w β v = true) :
    (w.withRoot t').strOf β v = w.strOf β v := by
  unfold closedAt at h
  unfold World.strOf
  cases hb : β.get v with
  | none => rfl
  | some bd =>
    cases bd with
    | num n => rfl
    | path p =>
      simp only [hb] at h
      cases hg : w.root.get p with
      | none => simp [hg] at h
      | some t =>
        simp only [hg] at h
        obtain ⟨u', hu', hpu⟩ := prefix_get p w.root t' t hp hg
        have := prefix_closed_eq t u' ((closed_iff _).1 h) hpu
        subst this
        show Option.map _ (t'.get p) = Option.map _ (w.root.get p)
        rw [hu', hg]
        rfl

mutual
theorem toTerm_congr (σ σ' : String → Option (List Char)) : ∀ (t : TermV),
    (∀ v ∈ termVars t, σ v = σ' v) → toTerm σ t = toTerm σ' t
  | .var n, h => by simp only [toTerm, h n (by simp [termVars])]
  | .str _, _ => by simp only [toTerm]
  | .int _, _ => by simp only [toTerm]
  | .bool _, _ => by simp only [toTerm]
  | .inre s r, h => by
    simp only [toTerm, toTerm_congr σ σ' s (by simpa [termVars] using h)]
  | .app op args, h => by
    simp only [toTerm, toTermL_congr σ σ' args (by simpa [termVars] using h)]
theorem toTermL_congr (σ σ' : String → Option (List Char)) : ∀ (ts : List TermV),
    (∀ v ∈ termVarsL ts, σ v = σ' v) → toTermL σ ts = toTermL σ' ts
  | [], _ => by simp only [toTermL]
  | t :: ts, h => by
    simp only [toTermL, toTerm_congr σ σ' t (fun v hv => h v (by simp [termVarsL, hv])),
      toTermL_congr σ σ' ts (fun v hv => h v (by simp [termVarsL, hv]))]
end

theorem evalSmt_stable (w : World) (t' : DTree) (hp : DTree.idPrefixOf w.root t' = true)
    (β : Env) (t : TermV) (h : (termVars t).all (closedAt w β) = true) :
    evalSmt (w.withRoot t') β t = evalSmt w β t := by
  unfold evalSmt
  rw [toTerm_congr ((w.withRoot t').strOf β) (w.strOf β) t]
  intro v hv
  exact strOf_closedAt w t' hp β v (List.all_eq_true.1 h v hv)

/-! ### path-only predicates -/

theorem evalPred_pathOnly (w : World) (t' : DTree) (β : Env) (name : String) (args : List Arg)
    (h : pathOnly name = true) :
    evalPred (w.withRoot t') β name args = evalPred w β name args := by
  simp only [pathOnly, Bool.or_eq_true, beq_iff_eq] at h
  rcases h with ((((rfl | rfl) | rfl) | rfl) | rfl) | rfl <;>
  · unfold evalPred
    split <;> first | rfl | simp_all

/-! ### quantifier domains -/

@[simp] theorem withRoot_root (w : World) (t' : DTree) : (w.withRoot t').root = t' := rfl
@[simp] theorem withRoot_g (w : World) (t' : DTree) : (w.withRoot t').g = w.g := rfl
@[simp] theorem withRoot_isNT (w : World) (t' : DTree) : (w.withRoot t').isNT = w.isNT := rfl
@[simp] theorem withRoot_intBound (w : World) (t' : DTree) : (w.withRoot t').intBound = w.intBound := rfl

theorem domain_some_inv {w : World} {β : Env} {ty inVar : String} {ps : List Path}
    (h : domain w β ty inVar = some ps) :
    ∃ p sub, β.get inVar = some (.path p) ∧ w.root.get p = some sub := by
  unfold domain at h
  split at h
  · rename_i p hp
    cases hsub : w.root.get p with
    | none => simp [hsub] at h
    | some sub => exact ⟨p, sub, hp, hsub⟩
  · cases h

theorem domain_eq_some (w : World) (β : Env) (ty inVar : String) (p : Path) (sub : DTree)
    (hb : β.get inVar = some (.path p)) (hs : w.root.get p = some sub) :
    ∃ ps, domain w β ty inVar = some ps := by
  unfold domain
  simp [hb, hs]

/-- (D1) the domain only grows in a completion -/
theorem domain_mono (w : World) (t' : DTree) (hp : DTree.idPrefixOf w.root t' = true)
    (β : Env) (ty inVar : String) (ps : List Path) (h : domain w β ty inVar = some ps) :
    ∃ ps', domain (w.withRoot t') β ty inVar = some ps' ∧ ∀ r ∈ ps, r ∈ ps' := by
  obtain ⟨p, sub, hb, hsub⟩ := domain_some_inv h
  obtain ⟨sub', hsub', hpp⟩ := prefix_get p w.root t' sub hp hsub
  obtain ⟨ps', hd'⟩ := domain_eq_some (w.withRoot t') β ty inVar p sub' hb hsub'
  refine ⟨ps', hd', ?_⟩
  intro r hr
  obtain ⟨p1, sub1, q, x, h1, h2, h3, h4, rfl⟩ := (domain_spec w β ty inVar ps h r).1 hr
  rw [hb] at h1
  cases h1
  rw [hsub] at h2
  cases h2
  obtain ⟨x', hx', hxx⟩ := prefix_get q sub sub' x hpp h3
  refine (domain_spec (w.withRoot t') β ty inVar ps' hd' _).2 ⟨p, sub', q, x', hb, hsub', hx', ?_, rfl⟩
  rw [(DTree.idPrefixOf_id_sym _ _ hxx).2]
  exact h4

/-- (D2) with certified non-growth, the completion's domain is the existing one -/
theorem domain_exact (w : World) (t' : DTree) (h0 : Grammar.isNT w.g "" = false)
    (hp : DTree.idPrefixOf w.root t' = true) (hv : t'.valid w.g = true)
    (β : Env) (ty inVar : String) (p : Path) (ps ps' : List Path)
    (hb : β.get inVar = some (.path p)) (hd : domain w β ty inVar = some ps)
    (hd' : domain (w.withRoot t') β ty inVar = some ps')
    (hnt : Grammar.isNT w.g ty = true) (hg : mightGrow w p ty = some false) :
    ∀ r ∈ ps', r ∈ ps := by
  intro r hr
  obtain ⟨p1, sub', q, x', h1, h2, h3, h4, rfl⟩ := (domain_spec _ β ty inVar ps' hd' r).1 hr
  rw [hb] at h1
  cases h1
  obtain ⟨p2, sub, hb2, hsub⟩ := domain_some_inv hd
  rw [hb] at hb2
  cases hb2
  obtain ⟨sub'', hsub'', hpp⟩ := prefix_get p w.root t' sub hp hsub
  rw [withRoot_root] at h2
  rw [h2] at hsub''
  cases hsub''
  rcases prefix_get_cases q sub sub' x' hpp h3 with ⟨x, hx, hxx⟩ | ⟨q0, q1, i, s, u', rfl, hne, g1, g2, g3, g4⟩
  · refine (domain_spec w β ty inVar ps hd _).2 ⟨p, sub, q, x, hb, hsub, hx, ?_, rfl⟩
    rw [← (DTree.idPrefixOf_id_sym _ _ hxx).2]
    exact h4
  · exfalso
    have hu'v : u'.valid w.g = true :=
      DTree.valid_get w.g q0 sub' u' (DTree.valid_get w.g p t' sub' hv h2) g2
    have hreach := valid_reach w.g h0 q1 u' x' hu'v g4 hne (by rw [h4]; exact hnt)
    rw [g3, h4] at hreach
    unfold mightGrow at hg
    simp only [hsub] at hg
    split at hg
    · cases hg
    · rename_i rs hm
      simp only [Option.some.injEq] at hg
      have hmem : s ∈ (sub.openLeaves.map fun pu => pu.2.sym) := by
        rw [List.mem_map]
        refine ⟨(q0, .openLeaf i s), ?_, rfl⟩
        unfold DTree.openLeaves
        rw [List.mem_filter]
        exact ⟨(C04.mem_paths_iff sub q0 _).2 g1, rfl⟩
      obtain ⟨b, hb', hfb⟩ := Targets.mapM_option_spec _ _ _ hm _ hmem
      have hbt := (Targets.reaches_iff' w.g s ty b hfb).2 hreach
      subst hbt
      have : rs.any id = true := List.any_eq_true.2 ⟨true, hb', rfl⟩
      rw [this] at hg
      cases hg

theorem tvAnd_none_eq (a : TV) (b : Bool) (h : tvAnd a none = some b) : b = false ∧ a = some false := by
  rcases a with _ | _ | _ <;> cases b <;> simp [tvAnd] at h ⊢

theorem tvOr_none_eq (a : TV) (b : Bool) (h : tvOr a none = some b) : b = true ∧ a = some true := by
  rcases a with _ | _ | _ <;> cases b <;> simp [tvOr] at h ⊢

/-! ### the main induction -/

mutual
theorem evalOpen_stable_aux (w : World) (t' : DTree) (h0 : Grammar.isNT w.g "" = false)
    (hp : DTree.idPrefixOf w.root t' = true) (hv : t'.valid w.g = true) :
    ∀ (β : Env) (f : Fm) (b : Bool), evalOpen w β f = some b → evalRef (w.withRoot t') β f = some b
  | β, .smt t, b, h => by
    simp only [evalOpen] at h
    split at h
    · rename_i hall
      simp only [evalRef]
      rw [evalSmt_stable w t' hp β t hall]
      exact h
    · cases h
  | β, .pred name args, b, h => by
    simp only [evalOpen] at h
    split at h
    · rename_i hor
      simp only [evalRef]
      rcases Bool.or_eq_true_iff.1 hor with hpo | hcl
      · rw [evalPred_pathOnly w t' β name args hpo]
        exact h
      · rw [withRoot_of_closed w t' hp hcl]
        exact h
    · cases h
  | β, .count tv needle num, b, h => by
    simp only [evalOpen] at h
    split at h
    · rename_i hcl
      simp only [evalRef]
      rw [withRoot_of_closed w t' hp hcl]
      exact h
    · cases h
  | β, .neg f, b, h => by
    simp only [evalOpen] at h
    simp only [evalRef]
    exact (tvNot_eq _ _).2 (evalOpen_stable_aux w t' h0 hp hv β f (!b) ((tvNot_eq _ _).1 h))
  | β, .conj fs, b, h => by
    simp only [evalOpen] at h
    simp only [evalRef]
    exact evalOpenAll_stable_aux w t' h0 hp hv β fs b h
  | β, .disj fs, b, h => by
    simp only [evalOpen] at h
    simp only [evalRef]
    exact evalOpenAny_stable_aux w t' h0 hp hv β fs b h
  | β, .all v ty inVar none f, b, h => by
    simp only [evalOpen] at h
    split at h
    · rename_i p ps hb hd
      obtain ⟨ps', hd', hmono⟩ := domain_mono w t' hp β ty inVar ps hd
      simp only [evalRef, hd']
      have hfalse : (ps.map fun q => (v, Bind.path q) :: β).foldr
            (fun β' acc => tvAnd (evalOpen w β' f) acc) (some true) = some false →
          (ps'.map fun q => (v, Bind.path q) :: β).foldr
            (fun β' acc => tvAnd (evalRef (w.withRoot t') β' f) acc) (some true) = some false := by
        intro hf
        obtain ⟨β', hβ', hF⟩ := (foldAnd_eq_false (fun β' => evalOpen w β' f) _).1 hf
        obtain ⟨r, hr, rfl⟩ := List.mem_map.1 hβ'
        exact (foldAnd_eq_false (fun β' => evalRef (w.withRoot t') β' f) _).2
          ⟨_, List.mem_map.2 ⟨r, hmono r hr, rfl⟩, evalOpen_stable_aux w t' h0 hp hv _ f false hF⟩
      split at h
      · rename_i hnt hg
        have hex := domain_exact w t' h0 hp hv β ty inVar p ps ps' hb hd hd' hnt hg
        cases b with
        | true =>
          have h' := (foldAnd_eq_true (fun β' => evalOpen w β' f) _).1 h
          refine (foldAnd_eq_true (fun β' => evalRef (w.withRoot t') β' f) _).2 ?_
          intro β' hβ'
          obtain ⟨r, hr, rfl⟩ := List.mem_map.1 hβ'
          exact evalOpen_stable_aux w t' h0 hp hv _ f true
            (h' _ (List.mem_map.2 ⟨r, hex r hr, rfl⟩))
        | false => exact hfalse h
      · obtain ⟨rfl, hi⟩ := tvAnd_none_eq _ _ h
        exact hfalse hi
    · cases h
  | β, .ex v ty inVar none f, b, h => by
    simp only [evalOpen] at h
    split at h
    · rename_i p ps hb hd
      obtain ⟨ps', hd', hmono⟩ := domain_mono w t' hp β ty inVar ps hd
      simp only [evalRef, hd']
      have htrue : (ps.map fun q => (v, Bind.path q) :: β).foldr
            (fun β' acc => tvOr (evalOpen w β' f) acc) (some false) = some true →
          (ps'.map fun q => (v, Bind.path q) :: β).foldr
            (fun β' acc => tvOr (evalRef (w.withRoot t') β' f) acc) (some false) = some true := by
        intro hf
        obtain ⟨β', hβ', hF⟩ := (foldOr_eq_true (fun β' => evalOpen w β' f) _).1 hf
        obtain ⟨r, hr, rfl⟩ := List.mem_map.1 hβ'
        exact (foldOr_eq_true (fun β' => evalRef (w.withRoot t') β' f) _).2
          ⟨_, List.mem_map.2 ⟨r, hmono r hr, rfl⟩, evalOpen_stable_aux w t' h0 hp hv _ f true hF⟩
      split at h
      · rename_i hnt hg
        have hex := domain_exact w t' h0 hp hv β ty inVar p ps ps' hb hd hd' hnt hg
        cases b with
        | false =>
          have h' := (foldOr_eq_false (fun β' => evalOpen w β' f) _).1 h
          refine (foldOr_eq_false (fun β' => evalRef (w.withRoot t') β' f) _).2 ?_
          intro β' hβ'
          obtain ⟨r, hr, rfl⟩ := List.mem_map.1 hβ'
          exact evalOpen_stable_aux w t' h0 hp hv _ f false
            (h' _ (List.mem_map.2 ⟨r, hex r hr, rfl⟩))
        | true => exact htrue h
      · obtain ⟨rfl, hi⟩ := tvOr_none_eq _ _ h
        exact htrue hi
    · cases h
  | β, .all v ty inVar (some ms) f, b, h => by
    simp only [evalOpen] at h
    split at h
    · rename_i hcl
      rw [withRoot_of_closed w t' hp hcl]
      exact h
    · cases h
  | β, .ex v ty inVar (some ms) f, b, h => by
    simp only [evalOpen] at h
    split at h
    · rename_i hcl
      rw [withRoot_of_closed w t' hp hcl]
      exact h
    · cases h
  | β, .allInt v f, b, h => by
    simp only [evalOpen] at h
    split at h
    · rename_i hfold
      cases h
      obtain ⟨β', hβ', hF⟩ := (foldAnd_eq_false (fun β' => evalOpen w β' f) _).1 hfold
      have := (foldAnd_eq_false (fun β' => evalRef (w.withRoot t') β' f) _).2
        ⟨β', hβ', evalOpen_stable_aux w t' h0 hp hv β' f false hF⟩
      simp only [evalRef, withRoot_intBound, this]
    · cases h
  | β, .exInt v f, b, h => by
    simp only [evalOpen] at h
    split at h
    · rename_i hfold
      cases h
      obtain ⟨β', hβ', hF⟩ := (foldOr_eq_true (fun β' => evalOpen w β' f) _).1 hfold
      have := (foldOr_eq_true (fun β' => evalRef (w.withRoot t') β' f) _).2
        ⟨β', hβ', evalOpen_stable_aux w t' h0 hp hv β' f true hF⟩
      simp only [evalRef, withRoot_intBound, this]
    · cases h
theorem evalOpenAll_stable_aux (w : World) (t' : DTree) (h0 : Grammar.isNT w.g "" = false)
    (hp : DTree.idPrefixOf w.root t' = true) (hv : t'.valid w.g = true) :
    ∀ (β : Env) (fs : List Fm) (b : Bool), evalOpenAll w β fs = some b →
      evalAll (w.withRoot t') β fs = some b
  | β, [], b, h => by
    simp only [evalOpenAll] at h
    simp only [evalAll, h]
  | β, f :: fs, b, h => by
    simp only [evalOpenAll] at h
    simp only [evalAll]
    cases b with
    | true =>
      obtain ⟨h1, h2⟩ := (tvAnd_eq_true _ _).1 h
      exact (tvAnd_eq_true _ _).2 ⟨evalOpen_stable_aux w t' h0 hp hv β f true h1,
        evalOpenAll_stable_aux w t' h0 hp hv β fs true h2⟩
    | false =>
      rcases (tvAnd_eq_false _ _).1 h with h1 | h2
      · exact (tvAnd_eq_false _ _).2 (Or.inl (evalOpen_stable_aux w t' h0 hp hv β f false h1))
      · exact (tvAnd_eq_false _ _).2 (Or.inr (evalOpenAll_stable_aux w t' h0 hp hv β fs false h2))
theorem evalOpenAny_stable_aux (w : World) (t' : DTree) (h0 : Grammar.isNT w.g "" = false)
    (hp : DTree.idPrefixOf w.root t' = true) (hv : t'.valid w.g = true) :
    ∀ (β : Env) (fs : List Fm) (b : Bool), evalOpenAny w β fs = some b →
      evalAny (w.withRoot t') β fs = some b
  | β, [], b, h => by
    simp only [evalOpenAny] at h
    simp only [evalAny, h]
  | β, f :: fs, b, h => by
    simp only [evalOpenAny] at h
    simp only [evalAny]
    cases b with
    | false =>
      obtain ⟨h1, h2⟩ := (tvOr_eq_false _ _).1 h
      exact (tvOr_eq_false _ _).2 ⟨evalOpen_stable_aux w t' h0 hp hv β f false h1,
        evalOpenAny_stable_aux w t' h0 hp hv β fs false h2⟩
    | true =>
      rcases (tvOr_eq_true _ _).1 h with h1 | h2
      · exact (tvOr_eq_true _ _).2 (Or.inl (evalOpen_stable_aux w t' h0 hp hv β f true h1))
      · exact (tvOr_eq_true _ _).2 (Or.inr (evalOpenAny_stable_aux w t' h0 hp hv β fs true h2))
end

/-- MAIN THEOREM: a definite verdict of `evalOpen` on a partial tree is the verdict of the reference
evaluator on EVERY closed completion of that tree -/
theorem evalOpen_stable' (w : World) (t' : DTree) (h0 : Grammar.isNT w.g "" = false)
    (hc : completes w.g w.root t' = true) :
    ∀ (β : Env) (f : Fm) (b : Bool), evalOpen w β f = some b → evalRef (w.withRoot t') β f = some b := by
  obtain ⟨hp, _, hv⟩ := completes_spec hc
  exact evalOpen_stable_aux w t' h0 hp hv

/-- … hence it is the truth value of the specification on every completion -/
theorem evalOpen_sat' (w : World) (t' : DTree) (h0 : Grammar.isNT w.g "" = false)
    (hc : completes w.g w.root t' = true) (β : Env) (f : Fm) (b : Bool) (h : evalOpen w β f = some b) :
    b = true ↔ Sat (w.withRoot t') β f :=
  evalRef_sound' (w.withRoot t') β f b (evalOpen_stable' w t' h0 hc β f b h)

/-- on a closed tree `evalOpen` may be more reserved than `evalRef` but never disagrees -/
theorem evalOpen_closed' (w : World) (h0 : Grammar.isNT w.g "" = false) (hv : w.root.valid w.g = true)
    (hcl : w.root.closed = true) (β : Env) (f : Fm) (b : Bool) (h : evalOpen w β f = some b) :
    evalRef w β f = some b := by
  have hc : completes w.g w.root w.root = true := by
    simp only [completes, DTree.idPrefixOf_refl', hcl, hv, Bool.and_self]
  have := evalOpen_stable' w w.root h0 hc β f b h
  rw [withRoot_self] at this
  exact this

end IslaVerif.Sem

