import IslaVerif.Model.Preds
/-
Specifications and helper lemmas for C04.
-/
namespace IslaVerif.C04
open IslaVerif IslaVerif.Preds

/-! ### Specifications -/

/-- strictly earlier in document order, neither below the other -/
def DocBefore (p q : Path) : Prop :=
  ∃ (r : Path) (a b : Nat) (p' q' : Path), p = r ++ a :: p' ∧ q = r ++ b :: q' ∧ a < b

/-- in the pre-order list `l` of (relative path, subtree), the entry at `rel` exists and is the
`n`-th entry (1-based) labelled `nt`, counting up to and including it -/
def NthSpec (nt : String) (n : Nat) (rel : Path) (l : List (Path × DTree)) : Prop :=
  ∃ pre x post, l = pre ++ (rel, x) :: post ∧ (∀ e ∈ pre, e.1 ≠ rel) ∧
    ((pre ++ [(rel, x)]).filter (fun e => e.2.sym == nt)).length = n

/-- the `nt`-labelled proper ancestors of the node at `path` that lie strictly below the
prefix of length `k` (as prefix lengths) -/
def OccsSpec (t : DTree) (nt : String) (k : Nat) (path : Path) (i : Nat) : Prop :=
  k < i ∧ i < path.length ∧ labelAt t (path.take i) = some nt

def LevelCondSpec (op : LevelOp) (none1 none2 : Prop) : Prop :=
  match op with
  | .EQ => none1 ∧ none2
  | .GE => none1
  | .LE => none2
  | .GT => none1 ∧ ¬ none2
  | .LT => none2 ∧ ¬ none1

def LevelSpec (t : DTree) (op : LevelOp) (nt : String) (p q : Path) : Prop :=
  ∃ k, (k = 0 ∨ (k ≤ p.length ∧ k ≤ q.length ∧ p.take k = q.take k ∧ labelAt t (p.take k) = some nt)) ∧
    LevelCondSpec op (¬ ∃ i, OccsSpec t nt k p i) (¬ ∃ i, OccsSpec t nt k q i)

/-! ### Lemmas -/

theorem docBefore_nil_left (q : Path) : ¬ DocBefore [] q := by
  rintro ⟨r, a, b, p', q', h1, _, _⟩
  cases r <;> simp at h1

theorem docBefore_nil_right (p : Path) : ¬ DocBefore p [] := by
  rintro ⟨r, a, b, p', q', _, h2, _⟩
  cases r <;> simp at h2

theorem docBefore_cons (a b : Nat) (p q : Path) :
    DocBefore (a :: p) (b :: q) ↔ a < b ∨ (a = b ∧ DocBefore p q) := by
  constructor
  · rintro ⟨r, a', b', p', q', h1, h2, h3⟩
    cases r with
    | nil =>
      simp at h1 h2
      left; omega
    | cons c r =>
      simp at h1 h2
      right
      exact ⟨by omega, r, a', b', p', q', h1.2, h2.2, h3⟩
  · rintro (h | ⟨rfl, r, a', b', p', q', h1, h2, h3⟩)
    · exact ⟨[], a, b, p, q, rfl, rfl, h⟩
    · exact ⟨a :: r, a', b', p', q', by simp [h1], by simp [h2], h3⟩

theorem isBefore_iff (p q : Path) : isBefore p q = true ↔ DocBefore p q := by
  fun_induction isBefore p q with
  | case1 q => simp [docBefore_nil_left]
  | case2 a p => simp [docBefore_nil_right]
  | case3 a p b q h => simp [docBefore_cons, h]
  | case4 a p b q h1 h2 =>
    simp [docBefore_cons]
    omega
  | case5 a p b q h1 h2 ih =>
    have : a = b := by omega
    simp [docBefore_cons, ih, this]

theorem docBefore_not_prefix {p q : Path} (h : DocBefore p q) : ¬ p <+: q ∧ ¬ q <+: p := by
  obtain ⟨r, a, b, p', q', rfl, rfl, h3⟩ := h
  constructor
  · intro h
    rw [List.prefix_append_right_inj, List.cons_prefix_cons] at h
    omega
  · intro h
    rw [List.prefix_append_right_inj, List.cons_prefix_cons] at h
    omega

theorem inTree_iff (p q : Path) : inTree p q = true ↔ q <+: p := by
  simp only [inTree, List.prefix_iff_eq_take, beq_iff_eq]
  exact eq_comm

theorem isDirectChild_iff (p q : Path) : isDirectChild p q = true ↔ ∃ i, p = q ++ [i] := by
  unfold isDirectChild
  constructor
  · intro h
    split at h
    · simp at h
    · rename_i hl
      simp at hl h
      have := List.take_append_drop q.length p
      rw [h] at this
      have hd : (p.drop q.length).length = 1 := by simp; omega
      match hp : p.drop q.length, hd with
      | [i], _ => exact ⟨i, by rw [← this, hp]⟩
  · rintro ⟨i, rfl⟩
    simp

theorem get_append (t : DTree) (r s : Path) :
    t.get (r ++ s) = (t.get r).bind (fun sub => sub.get s) := by
  induction r generalizing t with
  | nil => simp [DTree.get]
  | cons i r ih =>
    simp only [List.cons_append, DTree.get]
    cases t.kids[i]? with
    | none => simp
    | some k => simp [ih]

mutual
theorem mem_paths_iff : ∀ (t : DTree) (r : Path) (x : DTree), (r, x) ∈ t.paths ↔ t.get r = some x
  | .openLeaf i s, r, x => by
    cases r <;> simp [DTree.paths, DTree.get, DTree.kids, eq_comm]
  | .node i s ks, r, x => by
    rw [DTree.paths, List.mem_cons, mem_pathsL_iff ks 0 r x]
    cases r with
    | nil => simp [DTree.get, eq_comm]
    | cons j rest =>
      simp only [Prod.mk.injEq, reduceCtorEq, false_and, false_or, DTree.get, DTree.kids]
      constructor
      · rintro ⟨j', rest', h, k, hk, hg⟩
        simp at h
        obtain ⟨rfl, rfl⟩ := h
        simp [hk, hg]
      · intro h
        cases hk : ks[j]? with
        | none => simp [hk] at h
        | some k =>
          simp [hk] at h
          exact ⟨j, rest, by simp, k, hk, h⟩
theorem mem_pathsL_iff : ∀ (ks : List DTree) (i : Nat) (r : Path) (x : DTree),
    (r, x) ∈ DTree.pathsL ks i ↔
      ∃ j rest, r = (i + j) :: rest ∧ ∃ k, ks[j]? = some k ∧ k.get rest = some x
  | [], i, r, x => by simp [DTree.pathsL]
  | k :: ks, i, r, x => by
    rw [DTree.pathsL, List.mem_append, mem_pathsL_iff ks (i+1) r x]
    simp only [List.mem_map, Prod.mk.injEq, Prod.exists]
    constructor
    · rintro (⟨a, b, hm, rfl, rfl⟩ | ⟨j, rest, rfl, k', hk, hg⟩)
      · exact ⟨0, a, rfl, k, rfl, (mem_paths_iff k a b).1 hm⟩
      · exact ⟨j+1, rest, by simp; omega, k', by simpa using hk, hg⟩
    · rintro ⟨j, rest, rfl, k', hk, hg⟩
      cases j with
      | zero =>
        left; simp at hk; subst hk
        exact ⟨rest, x, (mem_paths_iff k rest x).2 hg, rfl, rfl⟩
      | succ j => right; exact ⟨j, rest, by simp; omega, k', by simpa using hk, hg⟩
end

theorem nthLoop_iff (nt : String) (n : Nat) (rel : Path) (l : List (Path × DTree)) (idx : Nat)
    (hl : ∀ e ∈ l, e.1 = rel → e.2.sym = nt) :
    nthLoop nt n rel l idx = true ↔
      ∃ pre x post, l = pre ++ (rel, x) :: post ∧ (∀ e ∈ pre, e.1 ≠ rel) ∧
        idx + ((pre ++ [(rel, x)]).filter (fun e => e.2.sym == nt)).length = n := by
  induction l generalizing idx with
  | nil => simp [nthLoop]
  | cons e rest ih =>
    obtain ⟨path, sub⟩ := e
    have hrest : ∀ e ∈ rest, e.1 = rel → e.2.sym = nt := fun e he => hl e (List.mem_cons_of_mem _ he)
    have hcount : ∀ L : List (Path × DTree),
        idx + (((path, sub) :: L).filter (fun e => e.2.sym == nt)).length =
          (if sub.sym == nt then idx + 1 else idx) + (L.filter (fun e => e.2.sym == nt)).length := by
      intro L
      simp only [List.filter_cons]
      split <;> simp <;> omega
    simp only [nthLoop]
    generalize (if sub.sym == nt then idx + 1 else idx) = idx' at hcount ⊢
    by_cases hp : path = rel
    · subst hp
      simp only [beq_self_eq_true, if_true]
      constructor
      · intro h
        refine ⟨[], sub, rest, rfl, by simp, ?_⟩
        rw [List.nil_append, hcount]
        simpa using h
      · rintro ⟨pre, x, post, h1, h2, h3⟩
        cases pre with
        | nil =>
          simp at h1
          obtain ⟨rfl, rfl⟩ := h1
          rw [List.nil_append, hcount] at h3
          simpa using h3
        | cons e pre =>
          simp at h1
          exact absurd (h1.1 ▸ rfl) (h2 e (by simp))
    · have hp' : (path == rel) = false := by simpa using hp
      simp only [hp', Bool.false_eq_true, if_false]
      split
      · rename_i hge
        simp only [Bool.false_eq_true, false_iff]
        rintro ⟨pre, x, post, h1, h2, h3⟩
        cases pre with
        | nil => simp at h1; exact hp h1.1.1
        | cons e pre =>
          simp at h1
          obtain ⟨rfl, h1⟩ := h1
          have hx : x.sym = nt := hrest (rel, x) (by simp [h1]) rfl
          rw [List.cons_append, hcount] at h3
          simp [List.filter_append, hx] at h3
          omega
      · rename_i hge
        rw [ih _ hrest]
        constructor
        · rintro ⟨pre, x, post, h1, h2, h3⟩
          refine ⟨(path, sub) :: pre, x, post, by simp [h1], ?_, ?_⟩
          · intro e he
            rcases List.mem_cons.1 he with rfl | he
            · exact hp
            · exact h2 e he
          · rw [List.cons_append, hcount]; exact h3
        · rintro ⟨pre, x, post, h1, h2, h3⟩
          cases pre with
          | nil => simp at h1; exact absurd h1.1.1 hp
          | cons e pre =>
            simp at h1
            obtain ⟨rfl, h1⟩ := h1
            refine ⟨pre, x, post, h1, fun e he => h2 e (List.mem_cons_of_mem _ he), ?_⟩
            rw [List.cons_append, hcount] at h3; exact h3


theorem isNth_iff (isNT : String → Bool) (t : DTree) (n : Nat) (p q : Path) (u v : DTree)
    (hu : t.get p = some u) (hv : t.get q = some v) (hnt : isNT u.sym = true) :
    isNth isNT t n p q = .val true ↔ q <+: p ∧ NthSpec u.sym n (p.drop q.length) v.paths := by
  unfold isNth
  by_cases hin : inTree p q = true
  · have hpre := (inTree_iff p q).1 hin
    simp only [hin, Bool.not_true, Bool.false_eq_true, if_false, hu, hv, hnt]
    rw [PRes.val.injEq, nthLoop_iff]
    · simp [hpre, NthSpec]
    · intro e he h1
      have h2 := (mem_paths_iff v e.1 e.2).1 he
      obtain ⟨s, rfl⟩ := hpre
      simp at h1
      rw [get_append, hv] at hu
      simp [← h1, h2] at hu
      rw [hu]
  · simp only [hin]
    simp
    intro h; exact absurd ((inTree_iff p q).2 h) hin

theorem lcp_prefix_left (p q : Path) : lcp p q <+: p := by
  fun_induction lcp p q <;> simp_all [List.cons_prefix_cons]

theorem lcp_prefix_right (p q : Path) : lcp p q <+: q := by
  fun_induction lcp p q <;> simp_all [List.cons_prefix_cons]

theorem lcp_prefix_between (p l q : Path) (h1 : isBefore p l = true) (h2 : isBefore l q = true) :
    lcp p q <+: l := by
  induction p generalizing l q with
  | nil => simp [lcp]
  | cons a p ih =>
    cases q with
    | nil => simp [lcp]
    | cons b q =>
      cases l with
      | nil => simp [isBefore] at h1
      | cons c l =>
        simp only [lcp]
        split
        · rename_i hab
          have hab : a = b := by simpa using hab
          subst hab
          simp only [isBefore] at h1 h2
          have hac : a = c := by
            rcases Nat.lt_trichotomy a c with h | h | h
            · have : ¬ c < a := by omega
              simp [this, h] at h2
            · exact h
            · have : ¬ a < c := by omega
              simp [this, h] at h1
          subst hac
          simp at h1 h2
          simpa [List.cons_prefix_cons] using ih l q h1 h2
        · simp

theorem mem_leaves_append (t sub : DTree) (r s : Path) (x : DTree) (h : t.get r = some sub) :
    (r ++ s, x) ∈ t.leaves ↔ (s, x) ∈ sub.leaves := by
  simp only [DTree.leaves, List.mem_filter, mem_paths_iff, get_append, h, Option.bind_some]

theorem isBefore_irrefl (p : Path) : isBefore p p = false := by
  cases h : isBefore p p with
  | false => rfl
  | true => exact absurd (List.prefix_refl p) (docBefore_not_prefix ((isBefore_iff p p).1 h)).1

theorem consecutive_iff' (t : DTree) (p q : Path) (u v : DTree)
    (hu : t.get p = some u) (hv : t.get q = some v) :
    consecutive t p q = .val true ↔
      DocBefore p q ∧ ¬ ∃ l ∈ t.leaves, l.1 ≠ p ∧ l.1 ≠ q ∧ DocBefore p l.1 ∧ DocBefore l.1 q := by
  unfold consecutive
  cases hb : isBefore p q with
  | false =>
    have : ¬ DocBefore p q := by rw [← isBefore_iff, hb]; simp
    simp [this]
  | true =>
    have hpq : (p == q) = false := by
      cases hpq : p == q with
      | false => rfl
      | true =>
        have : p = q := by simpa using hpq
        subst this
        rw [isBefore_irrefl] at hb; cases hb
    have hD : DocBefore p q := (isBefore_iff p q).1 hb
    simp only [hpq, Bool.not_true, Bool.or_self, Bool.false_eq_true, if_false]
    obtain ⟨s, hs⟩ := lcp_prefix_left p q
    have hsub : ∃ sub, t.get (lcp p q) = some sub := by
      rw [← hs, get_append] at hu
      cases hg : t.get (lcp p q) with
      | none => simp [hg] at hu
      | some sub => exact ⟨sub, rfl⟩
    obtain ⟨sub, hsub⟩ := hsub
    simp only [hsub, PRes.val.injEq, Bool.not_eq_true', List.any_eq_false, hD, true_and]
    constructor
    · rintro h ⟨⟨l, x⟩, hl, h1, h2, h3, h4⟩
      have h3' := (isBefore_iff _ _).2 h3
      have h4' := (isBefore_iff _ _).2 h4
      obtain ⟨s', hs'⟩ := lcp_prefix_between p l q h3' h4'
      simp only at hs' h1 h2 h3' h4'
      subst hs'
      rw [mem_leaves_append t sub _ _ _ hsub] at hl
      apply h (s', x) hl
      simp [h1, h2, h3', h4']
    · intro h pl hpl hc
      simp only [Bool.and_eq_true, bne_iff_ne, ne_eq] at hc
      obtain ⟨⟨⟨c1, c2⟩, c3⟩, c4⟩ := hc
      refine h ⟨(lcp p q ++ pl.1, pl.2), ?_, c1, c2, (isBefore_iff _ _).1 c3, (isBefore_iff _ _).1 c4⟩
      rw [mem_leaves_append t sub _ _ _ hsub]
      exact hpl

theorem mem_go_iff (t : DTree) (nt : String) (p : Path) (k : Nat) (p₁ q₁ : Path) (idx : Nat) :
    k ∈ commonNtPrefixes.go t nt p idx p₁ q₁ ↔
      idx < k ∧ k ≤ idx + p₁.length ∧ k ≤ idx + q₁.length ∧
        p₁.take (k - idx) = q₁.take (k - idx) ∧ labelAt t (p.take k) = some nt := by
  induction p₁ generalizing idx q₁ with
  | nil =>
    simp only [commonNtPrefixes.go, List.not_mem_nil, List.length_nil, false_iff]
    omega
  | cons a p' ih =>
    cases q₁ with
    | nil =>
      simp only [commonNtPrefixes.go, List.not_mem_nil, List.length_nil, false_iff]
      omega
    | cons b q' =>
      simp only [commonNtPrefixes.go]
      by_cases hab : a = b
      · subst hab
        simp only [bne_self_eq_false, Bool.false_eq_true, if_false, List.length_cons]
        have hrest := ih q' (idx + 1)
        rcases Nat.lt_trichotomy k (idx + 1) with hk | hk | hk
        · have h1 : k ∉ commonNtPrefixes.go t nt p (idx + 1) p' q' := by
            rw [hrest]; omega
          have h2 : k ≠ idx + 1 := by omega
          split <;> simp [h1, h2] <;> omega
        · subst hk
          have h1 : idx + 1 ∉ commonNtPrefixes.go t nt p (idx + 1) p' q' := by
            rw [hrest]; omega
          have h3 : idx + 1 - idx = 1 := by omega
          split
          · rename_i hl
            have hl : labelAt t (List.take (idx + 1) p) = some nt := by simpa using hl
            simp [hl, h3]
          · rename_i hl
            have hl : ¬ labelAt t (List.take (idx + 1) p) = some nt := by simpa using hl
            simp [hl, h1]
        · have h2 : k ≠ idx + 1 := by omega
          have h3 : k - idx = (k - (idx + 1)) + 1 := by omega
          have : k ∈ (if (labelAt t (List.take (idx + 1) p) == some nt) = true then
              (idx + 1) :: commonNtPrefixes.go t nt p (idx + 1) p' q'
              else commonNtPrefixes.go t nt p (idx + 1) p' q') ↔
              k ∈ commonNtPrefixes.go t nt p (idx + 1) p' q' := by
            split <;> simp [h2]
          rw [this, hrest, h3, List.take_succ_cons, List.take_succ_cons]
          simp only [List.cons.injEq, true_and]
          constructor
          · rintro ⟨_, _, _, h4, h5⟩; exact ⟨by omega, by omega, by omega, h4, h5⟩
          · rintro ⟨_, _, _, h4, h5⟩; exact ⟨by omega, by omega, by omega, h4, h5⟩
      · have hab' : (a != b) = true := by simpa using hab
        simp only [hab', if_true, List.not_mem_nil, false_iff]
        rintro ⟨h1, _, _, h4, _⟩
        have h3 : k - idx = (k - (idx + 1)) + 1 := by omega
        rw [h3, List.take_succ_cons, List.take_succ_cons] at h4
        simp at h4
        exact hab h4.1

theorem mem_occs_iff (t : DTree) (nt : String) (k : Nat) (path : Path) (i : Nat) :
    i ∈ occs t nt k path ↔ OccsSpec t nt k path i := by
  simp only [occs, OccsSpec, List.mem_filter, List.mem_range, decide_eq_true_eq, beq_iff_eq]
  constructor
  · rintro ⟨⟨h1, h2⟩, h3⟩; exact ⟨by omega, h1, h3⟩
  · rintro ⟨h1, h2, h3⟩; exact ⟨⟨h2, by omega⟩, h3⟩

theorem occs_isEmpty_iff (t : DTree) (nt : String) (k : Nat) (path : Path) :
    (occs t nt k path).isEmpty = true ↔ ¬ ∃ i, OccsSpec t nt k path i := by
  rw [List.isEmpty_iff, List.eq_nil_iff_forall_not_mem]
  simp only [mem_occs_iff, not_exists]

theorem levelCond_iff (t : DTree) (op : LevelOp) (nt : String) (k : Nat) (p q : Path) :
    levelCond op (occs t nt k p) (occs t nt k q) = true ↔
      LevelCondSpec op (¬ ∃ i, OccsSpec t nt k p i) (¬ ∃ i, OccsSpec t nt k q i) := by
  cases op <;>
    simp only [levelCond, LevelCondSpec, Bool.and_eq_true, Bool.not_eq_true', occs_isEmpty_iff,
      ← Bool.not_eq_true]

theorem levelCheck_iff (t : DTree) (op : LevelOp) (nt : String) (p q : Path) :
    levelCheck t op nt p q = true ↔ LevelSpec t op nt p q := by
  simp only [levelCheck, LevelSpec, List.any_eq_true, levelCond_iff, commonNtPrefixes,
    List.mem_cons, mem_go_iff, Nat.sub_zero, Nat.zero_add]
  constructor
  · rintro ⟨k, hk, hc⟩
    refine ⟨k, ?_, hc⟩
    rcases hk with rfl | ⟨_, h2, h3, h4, h5⟩
    · exact Or.inl rfl
    · exact Or.inr ⟨h2, h3, h4, h5⟩
  · rintro ⟨k, hk, hc⟩
    refine ⟨k, ?_, hc⟩
    rcases hk with rfl | ⟨h2, h3, h4, h5⟩
    · exact Or.inl rfl
    · rcases Nat.eq_zero_or_pos k with h0 | h0
      · exact Or.inl h0
      · exact Or.inr ⟨h0, h2, h3, h4, h5⟩

end IslaVerif.C04
