import IslaVerif.Model.Intervals
import IslaVerif.Proofs.RegexLang
/- C15: compressing the elements of a concatenation never changes the matched language -/
namespace IslaVerif.C15
open IslaVerif IslaVerif.Re IslaVerif.Intervals

mutual
theorem beq_eq_aux : ∀ (a b : Re), Re.beq a b = true → a = b
  | .str s, b, h => by cases b <;> simp_all [Re.beq]
  | .range lo hi, b, h => by cases b <;> simp_all [Re.beq]
  | .allchar, b, h => by cases b <;> simp_all [Re.beq]
  | .all, b, h => by cases b <;> simp_all [Re.beq]
  | .none, b, h => by cases b <;> simp_all [Re.beq]
  | .union as, b, h => by
      cases b <;> simp [Re.beq] at h
      rw [beqL_eq_aux _ _ h]
  | .concat as, b, h => by
      cases b <;> simp [Re.beq] at h
      rw [beqL_eq_aux _ _ h]
  | .inter as, b, h => by
      cases b <;> simp [Re.beq] at h
      rw [beqL_eq_aux _ _ h]
  | .star a, b, h => by
      cases b <;> simp [Re.beq] at h
      rw [beq_eq_aux _ _ h]
  | .plus a, b, h => by
      cases b <;> simp [Re.beq] at h
      rw [beq_eq_aux _ _ h]
  | .opt a, b, h => by
      cases b <;> simp [Re.beq] at h
      rw [beq_eq_aux _ _ h]
  | .comp a, b, h => by
      cases b <;> simp [Re.beq] at h
      rw [beq_eq_aux _ _ h]
  | .loop a l h', b, h => by
      cases b <;> simp [Re.beq] at h
      obtain ⟨⟨h1, h2⟩, h3⟩ := h
      rw [beq_eq_aux _ _ h1, h2, h3]
  | .diff a a', b, h => by
      cases b <;> simp [Re.beq] at h
      rw [beq_eq_aux _ _ h.1, beq_eq_aux _ _ h.2]
theorem beqL_eq_aux : ∀ (as bs : List Re), Re.beqL as bs = true → as = bs
  | [], bs, h => by cases bs <;> simp_all [Re.beqL]
  | a :: as, bs, h => by
      cases bs with
      | nil => simp [Re.beqL] at h
      | cons b bs =>
        simp [Re.beqL] at h
        rw [beq_eq_aux a b h.1, beqL_eq_aux as bs h.2]
end

/-- structural equality test is sound -/
theorem beq_eq' (a b : Re) (h : Re.beq a b = true) : a = b := beq_eq_aux a b h

theorem langCat_append (l₁ l₂ : List Re) (w : List Char) :
    LangCat (l₁ ++ l₂) w ↔ ∃ u v, w = u ++ v ∧ LangCat l₁ u ∧ LangCat l₂ v := by
  induction l₁ generalizing w with
  | nil =>
    simp only [List.nil_append, LangCat]
    constructor
    · intro h; exact ⟨[], w, rfl, rfl, h⟩
    · rintro ⟨u, v, rfl, rfl, h⟩; exact h
  | cons r l ih =>
    simp only [List.cons_append, LangCat, ih]
    constructor
    · rintro ⟨u, v, rfl, hr, u', v', rfl, h1, h2⟩
      exact ⟨u ++ u', v', by simp, ⟨u, u', rfl, hr, h1⟩, h2⟩
    · rintro ⟨u, v, rfl, ⟨u1, u2, rfl, hr, h1⟩, h2⟩
      exact ⟨u1, u2 ++ v, by simp, hr, u2, v, rfl, h1, h2⟩

theorem langCat_single (r : Re) (w : List Char) : LangCat [r] w ↔ Lang r w := by
  simp only [LangCat]
  constructor
  · rintro ⟨u, v, rfl, h, rfl⟩; simpa using h
  · intro h; exact ⟨w, [], by simp, h, rfl⟩

mutual
theorem splitConcat_aux : ∀ (r : Re) (w : List Char), LangCat (splitConcat r) w ↔ Lang r w
  | .concat rs, w => by
      simp only [splitConcat, Lang]
      exact splitConcatL_aux rs w
  | .str s, w => by simp only [splitConcat]; exact langCat_single _ _
  | .range lo hi, w => by simp only [splitConcat]; exact langCat_single _ _
  | .allchar, w => by simp only [splitConcat]; exact langCat_single _ _
  | .all, w => by simp only [splitConcat]; exact langCat_single _ _
  | .none, w => by simp only [splitConcat]; exact langCat_single _ _
  | .union _, w => by simp only [splitConcat]; exact langCat_single _ _
  | .inter _, w => by simp only [splitConcat]; exact langCat_single _ _
  | .star _, w => by simp only [splitConcat]; exact langCat_single _ _
  | .plus _, w => by simp only [splitConcat]; exact langCat_single _ _
  | .opt _, w => by simp only [splitConcat]; exact langCat_single _ _
  | .comp _, w => by simp only [splitConcat]; exact langCat_single _ _
  | .loop _ _ _, w => by simp only [splitConcat]; exact langCat_single _ _
  | .diff _ _, w => by simp only [splitConcat]; exact langCat_single _ _
theorem splitConcatL_aux : ∀ (rs : List Re) (w : List Char), LangCat (splitConcatL rs) w ↔ LangCat rs w
  | [], w => by simp [splitConcatL]
  | r :: rs, w => by
      simp only [splitConcatL, langCat_append, LangCat]
      constructor
      · rintro ⟨u, v, rfl, h1, h2⟩
        exact ⟨u, v, rfl, (splitConcat_aux r u).1 h1, (splitConcatL_aux rs v).1 h2⟩
      · rintro ⟨u, v, rfl, h1, h2⟩
        exact ⟨u, v, rfl, (splitConcat_aux r u).2 h1, (splitConcatL_aux rs v).2 h2⟩
end

/-- flattening nested concatenations keeps the language -/
theorem splitConcat_lang' (r : Re) (w : List Char) : LangCat (splitConcat r) w ↔ Lang r w :=
  splitConcat_aux r w


/-! ### powers of a language -/

/-- `w` is a concatenation of `n` factors (at least `n` factors if `u`) from `L` -/
def Fac (L : List Char → Prop) (n : Nat) (u : Bool) (w : List Char) : Prop :=
  ∃ ws : List (List Char), n ≤ ws.length ∧ (u = false → ws.length = n) ∧ w = ws.flatten ∧ ∀ x ∈ ws, L x

theorem fac_cat (L : List Char → Prop) (a b : Nat) (ua ub : Bool) (w : List Char) :
    (∃ u v, w = u ++ v ∧ Fac L a ua u ∧ Fac L b ub v) ↔ Fac L (a + b) (ua || ub) w := by
  constructor
  · rintro ⟨u, v, rfl, ⟨ws1, h1, e1, rfl, m1⟩, ⟨ws2, h2, e2, rfl, m2⟩⟩
    refine ⟨ws1 ++ ws2, by simp; omega, ?_, by simp, ?_⟩
    · intro h
      simp at h
      have := e1 h.1; have := e2 h.2
      simp; omega
    · intro x hx
      rcases List.mem_append.1 hx with h | h
      · exact m1 x h
      · exact m2 x h
  · rintro ⟨ws, h, e, rfl, m⟩
    cases ub with
    | true =>
      refine ⟨(ws.take a).flatten, (ws.drop a).flatten, ?_, ⟨ws.take a, ?_, ?_, rfl, ?_⟩, ⟨ws.drop a, ?_, ?_, rfl, ?_⟩⟩
      · rw [← List.flatten_append, List.take_append_drop]
      · simp; omega
      · intro _; simp; omega
      · intro x hx; exact m x (List.mem_of_mem_take hx)
      · simp; omega
      · intro h'; cases h'
      · intro x hx; exact m x (List.mem_of_mem_drop hx)
    | false =>
      refine ⟨(ws.take (ws.length - b)).flatten, (ws.drop (ws.length - b)).flatten, ?_,
        ⟨ws.take (ws.length - b), ?_, ?_, rfl, ?_⟩, ⟨ws.drop (ws.length - b), ?_, ?_, rfl, ?_⟩⟩
      · rw [← List.flatten_append, List.take_append_drop]
      · simp; omega
      · intro h'; subst h'; have := e rfl; simp; omega
      · intro x hx; exact m x (List.mem_of_mem_take hx)
      · simp; omega
      · intro _; simp; omega
      · intro x hx; exact m x (List.mem_of_mem_drop hx)

theorem lang_star_fac (k : Re) (w : List Char) : Lang (star k) w ↔ Fac (Lang k) 0 true w := by
  simp [Lang, Fac]

theorem lang_plus_fac (k : Re) (w : List Char) : Lang (plus k) w ↔ Fac (Lang k) 1 true w := by
  simp only [Lang, Fac]
  constructor
  · rintro ⟨ws, h, rfl, m⟩
    refine ⟨ws, ?_, by simp, rfl, m⟩
    cases ws with
    | nil => exact absurd rfl h
    | cons _ _ => simp
  · rintro ⟨ws, h, _, rfl, m⟩
    refine ⟨ws, ?_, rfl, m⟩
    rintro rfl; simp at h

theorem lang_atom_fac (k : Re) (w : List Char) : Lang k w ↔ Fac (Lang k) 1 false w := by
  unfold Fac
  constructor
  · intro h; exact ⟨[w], by simp, by simp, by simp, by simpa using h⟩
  · rintro ⟨ws, _, e, rfl, m⟩
    have := e rfl
    match ws, this, m with
    | [x], _, m => simpa using m x (by simp)

theorem fac_cons (k e : Re) (n : Nat) (u : Bool) (l : List Re) (a : Nat) (b : Bool)
    (he : ∀ w, Lang e w ↔ Fac (Lang k) n u w) (hl : ∀ w, LangCat l w ↔ Fac (Lang k) a b w) (w : List Char) :
    LangCat (e :: l) w ↔ Fac (Lang k) (n + a) (u || b) w := by
  rw [← fac_cat]
  simp only [LangCat, he, hl]

theorem langCat_replicate (k : Re) (n : Nat) (w : List Char) :
    LangCat (List.replicate n k) w ↔ Fac (Lang k) n false w := by
  induction n generalizing w with
  | zero => simp [LangCat, Fac]
  | succ n ih =>
    rw [List.replicate_succ, fac_cons k k 1 false _ n false (lang_atom_fac k) ih]
    simp [Nat.add_comm]

theorem langCat_replicate_plus (k : Re) (n : Nat) (w : List Char) :
    LangCat (List.replicate n k ++ [plus k]) w ↔ Fac (Lang k) (n + 1) true w := by
  have h := fac_cat (Lang k) n 1 false true w
  simp only [Bool.false_or] at h
  rw [langCat_append, ← h]
  simp only [langCat_replicate, langCat_single, lang_plus_fac]

/-! ### runs -/

/-- the shape of an element of a run with key `k` -/
def InRun (k e : Re) : Prop :=
  e = star k ∨ e = plus k ∨ (e = k ∧ isStar e = false ∧ isPlus e = false)

theorem inRun_of_key (k e : Re) (h : groupKey e = k) : InRun k e := by
  cases e <;> simp_all [groupKey, InRun, isStar, isPlus]


theorem fac_congr (L : List Char → Prop) {n n' : Nat} {u u' : Bool} (w : List Char)
    (hn : n = n') (hu : u = u') : Fac L n u w ↔ Fac L n' u' w := by
  subst hn; subst hu; exact Iff.rfl

/-- the atoms of a run -/
def atomsOf (g : List Re) : List Re := (g.filter (fun e => !isStar e)).filter (fun e => !isPlus e)
/-- the plus elements of a run -/
def plusOf (g : List Re) : List Re := (g.filter (fun e => !isStar e)).filter isPlus

theorem run_lang (k : Re) (g : List Re) (hg : ∀ e ∈ g, InRun k e) (w : List Char) :
    LangCat g w ↔
      Fac (Lang k) ((atomsOf g).length + (plusOf g).length) (g.any isStar || g.any isPlus) w := by
  induction g generalizing w with
  | nil => simp [LangCat, Fac, atomsOf, plusOf]
  | cons e g ih =>
    have ih' := ih (fun e he => hg e (List.mem_cons_of_mem _ he))
    rcases hg e List.mem_cons_self with h | h | ⟨h, h1, h2⟩
    · subst h
      refine (fac_cons k _ 0 true g _ _ (lang_star_fac k) ih' w).trans (fac_congr _ _ ?_ ?_)
      · have s1 : isStar (star k) = true := rfl
        simp [atomsOf, plusOf, s1]
      · have s1 : isStar (star k) = true := rfl
        simp [s1]
    · subst h
      refine (fac_cons k _ 1 true g _ _ (lang_plus_fac k) ih' w).trans (fac_congr _ _ ?_ ?_)
      · have s1 : isStar (plus k) = false := rfl
        have s2 : isPlus (plus k) = true := rfl
        simp [atomsOf, plusOf, s1, s2]; omega
      · have s2 : isPlus (plus k) = true := rfl
        simp [s2]
    · subst h
      refine (fac_cons e _ 1 false g _ _ (lang_atom_fac e) ih' w).trans (fac_congr _ _ ?_ ?_)
      · simp [atomsOf, plusOf, h1, h2]; omega
      · simp [h1, h2]

theorem dropLastMap_cons2 (f : Re → Re) (x y : Re) (t : List Re) :
    dropLastMap f (x :: y :: t) = f x :: dropLastMap f (y :: t) := by
  simp [dropLastMap]

theorem mapLast_cons2 (f : Re → Re) (x y : Re) (t : List Re) :
    mapLast f (x :: y :: t) = x :: mapLast f (y :: t) := by
  simp [mapLast]

theorem dropLastMap_append (f : Re → Re) (l₁ l₂ : List Re) (h : l₂ ≠ []) :
    dropLastMap f (l₁ ++ l₂) = l₁.map f ++ dropLastMap f l₂ := by
  induction l₁ with
  | nil => simp
  | cons x l ih =>
    cases hl : l ++ l₂ with
    | nil => simp at hl; exact absurd hl.2 h
    | cons y t =>
      rw [List.cons_append, hl, dropLastMap_cons2, ← hl, ih]
      simp

theorem dropLastMap_replicate (k : Re) (n : Nat) :
    dropLastMap unPlus (List.replicate (n + 1) (plus k)) = List.replicate n k ++ [plus k] := by
  induction n with
  | zero => simp [dropLastMap]
  | succ n ih =>
    rw [List.replicate_succ, List.replicate_succ, dropLastMap_cons2, ← List.replicate_succ, ih]
    simp [unPlus, List.replicate_succ]

theorem mapLast_replicate (k : Re) (n : Nat) :
    mapLast plus (List.replicate (n + 1) k) = List.replicate n k ++ [plus k] := by
  induction n with
  | zero => simp [mapLast]
  | succ n ih =>
    rw [List.replicate_succ, List.replicate_succ, mapLast_cons2, ← List.replicate_succ, ih]
    simp [List.replicate_succ]

theorem isStar_of_isPlus (e : Re) (h : isPlus e = true) : isStar e = false := by
  cases e <;> simp_all [isStar, isPlus]

theorem unPlus_of_not_isPlus (e : Re) (h : isPlus e = false) : unPlus e = id e := by
  cases e <;> simp_all [unPlus, isPlus]

theorem compressGroup_cons2 (x y : Re) (t : List Re) :
    compressGroup (x :: y :: t) =
      if (x :: y :: t).all isStar then [x]
      else if (x :: y :: t).any isPlus then
        dropLastMap unPlus (atomsOf (x :: y :: t) ++ plusOf (x :: y :: t))
      else if (x :: y :: t).any isStar then
        mapLast plus ((x :: y :: t).filter (fun e => !isStar e))
      else x :: y :: t := rfl

theorem compress_core (k : Re) (g : List Re) (x : Re) (hx : x ∈ g) (hg : ∀ e ∈ g, InRun k e)
    (w : List Char) :
    LangCat (if g.all isStar then [x]
      else if g.any isPlus then dropLastMap unPlus (atomsOf g ++ plusOf g)
      else if g.any isStar then mapLast plus (g.filter (fun e => !isStar e))
      else g) w ↔ LangCat g w := by
  by_cases h1 : g.all isStar = true
  · rw [if_pos h1, run_lang k g hg]
    have hxs : isStar x = true := List.all_eq_true.1 h1 x hx
    have hxk : x = star k := by
      rcases hg x hx with h | h | ⟨_, h, _⟩
      · exact h
      · subst h; simp [isStar] at hxs
      · rw [h] at hxs; cases hxs
    have hf : g.filter (fun e => !isStar e) = [] := by
      rw [List.filter_eq_nil_iff]
      intro e he; simp [List.all_eq_true.1 h1 e he]
    have ha : g.any isStar = true := List.any_eq_true.2 ⟨x, hx, hxs⟩
    rw [langCat_single, hxk, lang_star_fac]
    exact fac_congr _ _ (by simp [atomsOf, plusOf, hf]) (by simp [ha])
  · rw [if_neg h1]
    by_cases h2 : g.any isPlus = true
    · rw [if_pos h2, run_lang k g hg]
      have hA : ∀ e ∈ atomsOf g, e = k ∧ isPlus e = false := by
        intro e he
        simp only [atomsOf, List.mem_filter] at he
        obtain ⟨⟨heg, hs⟩, hp⟩ := he
        rcases hg e heg with h | h | ⟨h, _, _⟩
        · subst h; simp [isStar] at hs
        · subst h; simp [isPlus] at hp
        · exact ⟨h, by simpa using hp⟩
      have hP : ∀ e ∈ plusOf g, e = plus k := by
        intro e he
        simp only [plusOf, List.mem_filter] at he
        obtain ⟨⟨heg, hs⟩, hp⟩ := he
        rcases hg e heg with h | h | ⟨_, _, h⟩
        · subst h; simp [isStar] at hs
        · exact h
        · rw [h] at hp; cases hp
      have hPne : plusOf g ≠ [] := by
        obtain ⟨e, he, hp⟩ := List.any_eq_true.1 h2
        have : e ∈ plusOf g := by
          simp only [plusOf, List.mem_filter]
          exact ⟨⟨he, by simp [isStar_of_isPlus e hp]⟩, hp⟩
        intro h; rw [h] at this; cases this
      have eA : atomsOf g = List.replicate (atomsOf g).length k :=
        List.eq_replicate_iff.2 ⟨rfl, fun e he => (hA e he).1⟩
      have eP : plusOf g = List.replicate (plusOf g).length (plus k) :=
        List.eq_replicate_iff.2 ⟨rfl, hP⟩
      have mA : (atomsOf g).map unPlus = atomsOf g := by
        rw [List.map_congr_left (g := id)]
        · simp
        · intro e he
          exact unPlus_of_not_isPlus e (hA e he).2
      obtain ⟨p, hp⟩ : ∃ p, (plusOf g).length = p + 1 := by
        cases h : plusOf g with
        | nil => exact absurd h hPne
        | cons _ t => exact ⟨t.length, by simp⟩
      rw [dropLastMap_append _ _ _ hPne, mA, eP, hp, dropLastMap_replicate, ← hp, eA,
        ← List.append_assoc, List.replicate_append_replicate, langCat_replicate_plus]
      simp only [List.length_replicate]
      exact fac_congr _ _ (by omega) (by simp [h2])
    · rw [if_neg h2]
      by_cases h3 : g.any isStar = true
      · rw [if_pos h3, run_lang k g hg]
        have h2' : ∀ e ∈ g, isPlus e = false := by
          intro e he
          cases hp : isPlus e with
          | false => rfl
          | true => exact absurd (List.any_eq_true.2 ⟨e, he, hp⟩) h2
        have hC : ∀ e ∈ g.filter (fun e => !isStar e), e = k := by
          intro e he
          simp only [List.mem_filter] at he
          obtain ⟨heg, hs⟩ := he
          rcases hg e heg with h | h | ⟨h, _, _⟩
          · subst h; simp [isStar] at hs
          · have := h2' e heg; subst h; simp [isPlus] at this
          · exact h
        have hCne : g.filter (fun e => !isStar e) ≠ [] := by
          intro h
          rw [List.filter_eq_nil_iff] at h
          apply h1
          rw [List.all_eq_true]
          intro e he
          simpa using h e he
        have eA : atomsOf g = g.filter (fun e => !isStar e) := by
          simp only [atomsOf]
          rw [List.filter_eq_self]
          intro e he
          simp [h2' e (List.mem_filter.1 he).1]
        have eP : plusOf g = [] := by
          simp only [plusOf]
          rw [List.filter_eq_nil_iff]
          intro e he
          simp [h2' e (List.mem_filter.1 he).1]
        have eC : g.filter (fun e => !isStar e) = List.replicate (g.filter (fun e => !isStar e)).length k :=
          List.eq_replicate_iff.2 ⟨rfl, hC⟩
        obtain ⟨a, ha⟩ : ∃ a, (g.filter (fun e => !isStar e)).length = a + 1 := by
          cases h : g.filter (fun e => !isStar e) with
          | nil => exact absurd h hCne
          | cons _ t => exact ⟨t.length, by simp⟩
        rw [eA, eP, eC, ha, mapLast_replicate, langCat_replicate_plus]
        exact fac_congr _ _ (by simp) (by simp [h3])
      · rw [if_neg h3]

theorem compressGroup_lang (k : Re) (g : List Re) (hg : ∀ e ∈ g, InRun k e) (w : List Char) :
    LangCat (compressGroup g) w ↔ LangCat g w := by
  match g, hg with
  | [], _ => exact Iff.rfl
  | [x], _ => exact Iff.rfl
  | x :: y :: t, hg =>
    rw [compressGroup_cons2]
    exact compress_core k (x :: y :: t) x List.mem_cons_self hg w

/-! ### from runs to the whole list -/

theorem groupRuns_flatten (rs : List Re) : (groupRuns rs).flatten = rs := by
  induction rs with
  | nil => rfl
  | cons r rs ih =>
    simp only [groupRuns]
    split
    · next h => rw [h] at ih; simp at ih; simp [ih]
    · next g gs' h =>
      rw [h] at ih
      split
      · simp at ih; simp [ih]
      · next x t =>
        split
        · simp at ih; simp [ih]
        · simp at ih; simp [ih]

theorem groupRuns_inv (rs : List Re) : ∀ g ∈ groupRuns rs, ∃ k, ∀ e ∈ g, groupKey e = k := by
  induction rs with
  | nil => intro g hg; simp [groupRuns] at hg
  | cons r rs ih =>
    simp only [groupRuns]
    split
    · intro g hg
      simp at hg; subst hg
      exact ⟨groupKey r, by simp⟩
    · next g0 gs' h =>
      rw [h] at ih
      split
      · intro g hg
        rcases List.mem_cons.1 hg with rfl | hg
        · exact ⟨groupKey r, by simp⟩
        · exact ih g (List.mem_cons_of_mem _ hg)
      · next x t =>
        split
        · next hb =>
          intro g hg
          rcases List.mem_cons.1 hg with rfl | hg
          · obtain ⟨k, hk⟩ := ih (x :: t) List.mem_cons_self
            refine ⟨k, ?_⟩
            intro e he
            rcases List.mem_cons.1 he with rfl | he
            · rw [beq_eq' _ _ hb]; exact hk x List.mem_cons_self
            · exact hk e he
          · exact ih g (List.mem_cons_of_mem _ hg)
        · intro g hg
          rcases List.mem_cons.1 hg with rfl | hg
          · exact ⟨groupKey r, by simp⟩
          · exact ih g hg

theorem flatMap_compress_lang (gs : List (List Re))
    (h : ∀ g ∈ gs, ∃ k, ∀ e ∈ g, groupKey e = k) (w : List Char) :
    LangCat (gs.flatMap compressGroup) w ↔ LangCat gs.flatten w := by
  induction gs generalizing w with
  | nil => exact Iff.rfl
  | cons g gs ih =>
    obtain ⟨k, hk⟩ := h g List.mem_cons_self
    have hg : ∀ e ∈ g, InRun k e := fun e he => inRun_of_key k e (hk e he)
    have ih' := ih (fun g hg => h g (List.mem_cons_of_mem _ hg))
    simp only [List.flatMap_cons, List.flatten_cons, langCat_append, compressGroup_lang k g hg, ih']

/-- `compress_concatenation_elements` preserves the language of the concatenation, for ALL element lists -/
theorem compress_lang' (rs : List Re) (w : List Char) : LangCat (compress rs) w ↔ LangCat rs w := by
  unfold compress
  rw [flatMap_compress_lang _ (groupRuns_inv rs), groupRuns_flatten]

end IslaVerif.C15
