import IslaVerif.Model.Bnf
/- C11: terminals survive printing (escaping + quoting) and re-reading (lexing + un-escaping) -/
namespace IslaVerif.C11
open IslaVerif.Bnf IslaVerif.Generated.Escapes

/-! ### decidable facts about the generated tables -/

/-- the second character of an `ESC` of `bnf.g4` -/
def isEscSnd (n : Nat) : Bool := n == 98 || n == 116 || n == 110 || n == 114 || n == 34 || n == 92

/-- neither a quote nor a backslash -/
def plain (n : Nat) : Bool := n != 34 && n != 92

/-- an entry of the escape table is either `\n` with `n` a simple escape denoting the key (and an ESC
of the lexer), or `\xhh` with two hex digits denoting the key -/
def GoodEntry (e : Nat × List Nat) : Bool :=
  match e.2 with
  | [92, n] => lookupSimple n simpleEscapes == some e.1 && isEscSnd n
  | [92, 120, h1, h2] =>
    isHex h1 && isHex h2 && hexVal h1 * 16 + hexVal h2 == e.1 && plain h1 && plain h2
  | _ => false

theorem table_good : escapeTable.all GoodEntry = true := by decide +kernel
theorem x_not_simple : lookupSimple 120 simpleEscapes = none := by decide
theorem table_backslash : (lookupEsc 92 escapeTable).isSome = true := by decide +kernel
theorem table_quote : (lookupEsc 34 escapeTable).isSome = true := by decide +kernel

theorem lookupEsc_mem {c : Nat} {v : List Nat} :
    ∀ {t : List (Nat × List Nat)}, lookupEsc c t = some v → (c, v) ∈ t
  | [], h => by simp [lookupEsc] at h
  | (k, w) :: t, h => by
    simp only [lookupEsc] at h
    split at h
    · rename_i hk
      simp at hk h
      subst hk; subst h
      exact List.mem_cons_self
    · exact List.mem_cons_of_mem _ (lookupEsc_mem h)

/-- the three shapes of an escaped character -/
theorem escapeChar_cases (c : Nat) :
    (escapeChar c = [c] ∧ c ≠ 92 ∧ c ≠ 34) ∨
    (∃ n, escapeChar c = [92, n] ∧ lookupSimple n simpleEscapes = some c ∧ isEscSnd n = true) ∨
    (∃ h1 h2, escapeChar c = [92, 120, h1, h2] ∧ isHex h1 = true ∧ isHex h2 = true ∧
      hexVal h1 * 16 + hexVal h2 = c ∧ plain h1 = true ∧ plain h2 = true) := by
  unfold escapeChar
  cases h : lookupEsc c escapeTable with
  | none =>
    left
    refine ⟨rfl, ?_, ?_⟩
    · rintro rfl
      have := table_backslash
      rw [h] at this
      exact absurd this (by decide)
    · rintro rfl
      have := table_quote
      rw [h] at this
      exact absurd this (by decide)
  | some v =>
    right
    have hg : GoodEntry (c, v) = true := List.all_eq_true.mp table_good _ (lookupEsc_mem h)
    simp only [Option.getD_some]
    unfold GoodEntry at hg
    split at hg
    · rename_i n hv
      simp only at hv
      subst hv
      left
      simp at hg
      exact ⟨n, rfl, hg.1, hg.2⟩
    · rename_i h1 h2 hv
      simp only at hv
      subst hv
      right
      simp at hg
      exact ⟨h1, h2, rfl, by simp [hg]⟩
    · simp at hg

/-! ### un-escaping -/

theorem unescapeF_lit {c : Nat} (hc : c ≠ 92) (f : Nat) (r : List Nat) :
    unescapeF (f + 1) (c :: r) = c :: unescapeF f r := by
  rw [unescapeF.eq_def]
  split <;> simp_all

theorem unescapeF_simple {n v : Nat} (h : lookupSimple n simpleEscapes = some v) (f : Nat) (r : List Nat) :
    unescapeF (f + 1) (92 :: n :: r) = v :: unescapeF f r := by
  rw [unescapeF.eq_def]
  simp [h]

theorem unescapeF_hex {h1 h2 : Nat} (i1 : isHex h1 = true) (i2 : isHex h2 = true) (f : Nat) (r : List Nat) :
    unescapeF (f + 1) (92 :: 120 :: h1 :: h2 :: r) = (hexVal h1 * 16 + hexVal h2) :: unescapeF f r := by
  rw [unescapeF.eq_def]
  simp [x_not_simple, i1, i2]

theorem unescapeF_escapeStr : ∀ (s : List Nat) (f : Nat), (escapeStr s).length ≤ f →
    unescapeF f (escapeStr s) = s
  | [], f, _ => by cases f <;> simp [escapeStr, unescapeF]
  | c :: cs, f, hf => by
    simp only [escapeStr, List.length_append] at hf ⊢
    rcases escapeChar_cases c with ⟨he, h92, _⟩ | ⟨n, he, hn, _⟩ | ⟨h1, h2, he, i1, i2, hv, _⟩
    · rw [he] at hf ⊢
      obtain ⟨f, rfl⟩ : ∃ g, f = g + 1 := ⟨f - 1, by simp at hf; omega⟩
      simp only [List.singleton_append]
      rw [unescapeF_lit h92, unescapeF_escapeStr cs f (by simp at hf; omega)]
    · rw [he] at hf ⊢
      obtain ⟨f, rfl⟩ : ∃ g, f = g + 1 := ⟨f - 1, by simp at hf; omega⟩
      simp only [List.cons_append, List.nil_append]
      rw [unescapeF_simple hn, unescapeF_escapeStr cs f (by simp at hf; omega)]
    · rw [he] at hf ⊢
      obtain ⟨f, rfl⟩ : ∃ g, f = g + 1 := ⟨f - 1, by simp at hf; omega⟩
      simp only [List.cons_append, List.nil_append]
      rw [unescapeF_hex i1 i2, unescapeF_escapeStr cs f (by simp at hf; omega), hv]

/-- un-escaping inverts escaping, for EVERY string (all code points: printable, control characters,
quotes, backslashes, non-ASCII) — proved for the tables as extracted from the source -/
theorem unescape_escape' (s : List Nat) : unescape (escapeStr s) = s :=
  unescapeF_escapeStr s _ (Nat.le_refl _)

/-! ### lexing -/

theorem lexBodyF_quote (f : Nat) (r : List Nat) : lexBodyF (f + 1) (34 :: r) = some ([], r) := by
  simp [lexBodyF]

theorem lexBodyF_plain {c : Nat} (hc : plain c = true) (f : Nat) (r : List Nat) :
    lexBodyF (f + 1) (c :: r) = (lexBodyF f r).map fun (b, r') => (c :: b, r') := by
  simp [plain] at hc
  rw [lexBodyF.eq_def]
  split <;> simp_all

theorem lexBodyF_esc {n : Nat} (hn : isEscSnd n = true) (f : Nat) (r : List Nat) :
    lexBodyF (f + 1) (92 :: n :: r) = (lexBodyF f r).map fun (b, r') => (92 :: n :: b, r') := by
  simp [isEscSnd] at hn
  rw [lexBodyF.eq_def]
  simp [hn]

theorem lexBodyF_x (f : Nat) (r : List Nat) :
    lexBodyF (f + 1) (92 :: 120 :: r) = (lexBodyF f (120 :: r)).map fun (b, r') => (92 :: b, r') := by
  rw [lexBodyF.eq_def]
  simp

theorem lexBodyF_escapeStr (rest : List Nat) : ∀ (s : List Nat) (f : Nat), (escapeStr s).length + 1 ≤ f →
    lexBodyF f (escapeStr s ++ 34 :: rest) = some (escapeStr s, rest)
  | [], f, hf => by
    obtain ⟨f, rfl⟩ : ∃ g, f = g + 1 := ⟨f - 1, by omega⟩
    simp [escapeStr, lexBodyF_quote]
  | c :: cs, f, hf => by
    simp only [escapeStr, List.length_append] at hf ⊢
    rcases escapeChar_cases c with ⟨he, h92, h34⟩ | ⟨n, he, _, hn⟩ | ⟨h1, h2, he, _, _, _, p1, p2⟩
    · rw [he] at hf ⊢
      obtain ⟨f, rfl⟩ : ∃ g, f = g + 1 := ⟨f - 1, by omega⟩
      simp only [List.cons_append, List.nil_append]
      rw [lexBodyF_plain (by simp [plain, h92, h34]), lexBodyF_escapeStr rest cs f (by simp at hf; omega)]
      rfl
    · rw [he] at hf ⊢
      obtain ⟨f, rfl⟩ : ∃ g, f = g + 1 := ⟨f - 1, by omega⟩
      simp only [List.cons_append, List.nil_append]
      rw [lexBodyF_esc hn, lexBodyF_escapeStr rest cs f (by simp at hf; omega)]
      rfl
    · rw [he] at hf ⊢
      obtain ⟨f, rfl⟩ : ∃ g, f = g + 4 := ⟨f - 4, by simp at hf; omega⟩
      simp only [List.cons_append, List.nil_append]
      rw [lexBodyF_x, lexBodyF_plain (c := 120) (by decide), lexBodyF_plain p1, lexBodyF_plain p2,
        lexBodyF_escapeStr rest cs f (by simp at hf; omega)]
      rfl

/-- the printed form of a terminal is exactly one STRING token of bnf.g4 -/
theorem lex_printed' (s rest : List Nat) : lexString (printTerminal s ++ rest) = some (escapeStr s, rest) := by
  simp only [printTerminal, List.cons_append, List.append_assoc, lexString]
  exact lexBodyF_escapeStr rest s _ (by simp)

/-- printing a terminal and reading it back yields the same terminal, whatever follows -/
theorem read_print' (s rest : List Nat) : readTerminal (printTerminal s ++ rest) = some (s, rest) := by
  simp [readTerminal, lex_printed', unescape_escape']

end IslaVerif.C11
