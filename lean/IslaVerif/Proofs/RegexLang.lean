import IslaVerif.Model.Regex
/-
Denotational semantics of the regex AST (the specification the matcher and the C15/C05 theorems
refer to): SMT-LIB RegLan semantics.
-/
namespace IslaVerif.Re

mutual
/-- `w ∈ L(r)` -/
def Lang : Re → List Char → Prop
  | str s, w => w = s
  | range lo hi, w => ∃ c, w = [c] ∧ rangeHas lo hi c = true
  | allchar, w => ∃ c, w = [c]
  | all, _ => True
  | none, _ => False
  | union rs, w => LangAny rs w
  | concat rs, w => LangCat rs w
  | star r, w => ∃ ws : List (List Char), w = ws.flatten ∧ ∀ x ∈ ws, Lang r x
  | plus r, w => ∃ ws : List (List Char), ws ≠ [] ∧ w = ws.flatten ∧ ∀ x ∈ ws, Lang r x
  | opt r, w => w = [] ∨ Lang r w
  | loop r lo hi, w => ∃ ws : List (List Char), lo ≤ ws.length ∧ ws.length ≤ hi ∧ w = ws.flatten ∧ ∀ x ∈ ws, Lang r x
  | comp r, w => ¬ Lang r w
  | inter rs, w => LangAll rs w
  | diff a b, w => Lang a w ∧ ¬ Lang b w
def LangAny : List Re → List Char → Prop
  | [], _ => False
  | r :: rs, w => Lang r w ∨ LangAny rs w
def LangAll : List Re → List Char → Prop
  | [], _ => True
  | r :: rs, w => Lang r w ∧ LangAll rs w
/-- concatenation of the languages, in order -/
def LangCat : List Re → List Char → Prop
  | [], w => w = []
  | r :: rs, w => ∃ u v, w = u ++ v ∧ Lang r u ∧ LangCat rs v
end

end IslaVerif.Re
