import IslaVerif.Model.SolveLoop
namespace IslaVerif.SolveLoop

/-- the clock readings of the loop events never go back (time.time() is read in program order) -/
def Mono : List Evt → Prop
  | [] => True
  | e :: es => (∀ e' ∈ es, e.now ≤ e'.now) ∧ Mono es

/-- a state in which `solve()` has nothing left: empty queue, no pending solution -/
def Exhausted (s : St) : Prop := s.qlen = 0 ∧ s.sols = []

/-! ### helpers: one-step equations and a case principle for `loop` -/

/-- the timeout test of one iteration -/
def expired (T : Option Int) (s : St) (e : Evt) : Bool :=
  match T, s.start with
  | some T, some t0 => decide (e.now - t0 > T)
  | _, _ => false

theorem loop_q0 (T : Option Int) (s : St) (evts : List Evt) (hq : s.qlen = 0) :
    loop T s evts = match s.sols with
      | x :: rest => (.tree x, { s with sols := rest }, evts)
      | [] => (.stop, s, evts) := by
  rw [loop.eq_def]; dsimp only; rw [if_pos hq]; rfl

theorem loop_nil (T : Option Int) (s : St) (hq : s.qlen ≠ 0) :
    loop T s [] = (.outOfEvents, s, []) := by
  rw [loop.eq_def]; dsimp only; rw [if_neg hq]

theorem loop_cons (T : Option Int) (s : St) (e : Evt) (rest : List Evt) (hq : s.qlen ≠ 0) :
    loop T s (e :: rest) =
      if expired T s e = true then (.timeout, s, rest)
      else match s.sols with
        | x :: more => (.tree x, { s with sols := more }, rest)
        | [] => loop T { s with qlen := e.qafter, sols := e.found } rest := by
  rw [loop.eq_def]; dsimp only; rw [if_neg hq]; rfl

/-- case principle: a property of (input state, input events, result) holds of `loop` if it holds
for each of its six branches -/
theorem loop_cases (T : Option Int) (P : St → List Evt → Outcome × St × List Evt → Prop)
    (h1 : ∀ s evts x r, s.qlen = 0 → s.sols = x :: r → P s evts (.tree x, { s with sols := r }, evts))
    (h2 : ∀ s evts, s.qlen = 0 → s.sols = [] → P s evts (.stop, s, evts))
    (h3 : ∀ s, s.qlen ≠ 0 → P s [] (.outOfEvents, s, []))
    (h4 : ∀ s e rest, s.qlen ≠ 0 → expired T s e = true → P s (e :: rest) (.timeout, s, rest))
    (h5 : ∀ s e rest x more, s.qlen ≠ 0 → expired T s e = false → s.sols = x :: more →
      P s (e :: rest) (.tree x, { s with sols := more }, rest))
    (h6 : ∀ s e rest r, s.qlen ≠ 0 → expired T s e = false → s.sols = [] →
      P { s with qlen := e.qafter, sols := e.found } rest r → P s (e :: rest) r) :
    ∀ s evts, P s evts (loop T s evts) := by
  intro s evts
  induction evts generalizing s with
  | nil =>
    by_cases hq : s.qlen = 0
    · rw [loop_q0 T s _ hq]
      split
      · exact h1 s _ _ _ hq ‹_›
      · exact h2 s _ hq ‹_›
    · rw [loop_nil T s hq]; exact h3 s hq
  | cons e rest ih =>
    by_cases hq : s.qlen = 0
    · rw [loop_q0 T s _ hq]
      split
      · exact h1 s _ _ _ hq ‹_›
      · exact h2 s _ hq ‹_›
    · rw [loop_cons T s e rest hq]
      cases hx : expired T s e with
      | true => rw [if_pos rfl]; exact h4 s e rest hq hx
      | false =>
        rw [if_neg (by decide)]
        split
        · exact h5 s e rest _ _ hq hx ‹_›
        · exact h6 s e rest _ hq hx ‹_› (ih _)

theorem expired_true {T : Option Int} {s : St} {e : Evt} (h : expired T s e = true) :
    ∃ T0 t0, T = some T0 ∧ s.start = some t0 ∧ e.now - t0 > T0 := by
  unfold expired at h
  split at h
  · exact ⟨_, _, rfl, ‹_›, of_decide_eq_true h⟩
  · cases h

theorem expired_of {T : Option Int} {s : St} {e : Evt} {T0 t0 : Int}
    (hT : T = some T0) (hs : s.start = some t0) (h : e.now - t0 > T0) : expired T s e = true := by
  subst hT
  unfold expired
  rw [hs]
  exact decide_eq_true h

theorem expired_none (s : St) (e : Evt) : expired none s e = false := by
  cases h : expired none s e with
  | false => rfl
  | true =>
    obtain ⟨_, _, hT, _⟩ := expired_true h
    cases hT

/-! ### what `solveCall` does before entering the loop -/

def pre (T : Option Int) (c : Int) (s : St) : St :=
  if T.isSome && s.start.isNone then { s with start := some c } else s

theorem solveCall_eq (T : Option Int) (c : Int) (s : St) (evts : List Evt) :
    solveCall T c s evts = loop T (pre T c s) evts := rfl

theorem pre_qlen (T : Option Int) (c : Int) (s : St) : (pre T c s).qlen = s.qlen := by
  unfold pre; split <;> rfl

theorem pre_sols (T : Option Int) (c : Int) (s : St) : (pre T c s).sols = s.sols := by
  unfold pre; split <;> rfl

theorem pre_of_start (T : Option Int) (c : Int) (s : St) (t0 : Int) (h : s.start = some t0) :
    pre T c s = s := by
  unfold pre; rw [h]; simp

theorem run_cons (T : Option Int) (s : St) (c : Int) (cs : List Int) (evts : List Evt) :
    run T s (c :: cs) evts =
      (solveCall T c s evts).1 ::
        run T (solveCall T c s evts).2.1 cs (solveCall T c s evts).2.2 := rfl

/-! ### StopIteration -/

theorem loop_stop (T : Option Int) : ∀ s evts,
    (loop T s evts).1 = .stop → Exhausted (loop T s evts).2.1 := by
  apply loop_cases T (fun _ _ r => r.1 = .stop → Exhausted r.2.1)
  · intro s evts x r _ _ h; cases h
  · intro s evts hq hs _; exact ⟨hq, hs⟩
  · intro s _ h; cases h
  · intro s e rest _ _ h; cases h
  · intro s e rest x more _ _ _ h; cases h
  · intro s e rest r _ _ _ ih; exact ih

theorem loop_exhausted (T : Option Int) (s : St) (evts : List Evt) (h : Exhausted s) :
    loop T s evts = (.stop, s, evts) := by
  rw [loop_q0 T s evts h.1, h.2]

/-- StopIteration is raised exactly from an exhausted state and leaves it exhausted -/
theorem stop_exhausted' (T : Option Int) (c : Int) (s s' : St) (evts evts' : List Evt)
    (h : solveCall T c s evts = (.stop, s', evts')) : Exhausted s' := by
  rw [solveCall_eq] at h
  have := loop_stop T (pre T c s) evts (by rw [h])
  rw [h] at this
  exact this

/-- from an exhausted state every call raises StopIteration again, whatever the clock and the
event stream, and the state stays exhausted -/
theorem exhausted_stop' (T : Option Int) (c : Int) (s : St) (evts : List Evt) (h : Exhausted s) :
    (solveCall T c s evts).1 = .stop ∧ Exhausted (solveCall T c s evts).2.1 := by
  have hp : Exhausted (pre T c s) := ⟨by rw [pre_qlen]; exact h.1, by rw [pre_sols]; exact h.2⟩
  rw [solveCall_eq, loop_exhausted T _ evts hp]
  exact ⟨rfl, hp⟩

/-- one outcome per call -/
theorem run_length' (T : Option Int) : ∀ (cs : List Int) (s : St) (evts : List Evt),
    (run T s cs evts).length = cs.length := by
  intro cs
  induction cs with
  | nil => intro s evts; rfl
  | cons c cs ih =>
    intro s evts
    rw [run_cons, List.length_cons, List.length_cons, ih]

theorem run_get_mem (T : Option Int) (s : St) (cs : List Int) (evts : List Evt) (j : Nat)
    (h : j < cs.length) :
    ∃ o, (run T s cs evts)[j]? = some o ∧ o ∈ run T s cs evts := by
  have h' : j < (run T s cs evts).length := by rw [run_length']; exact h
  exact ⟨_, List.getElem?_eq_getElem h', List.getElem_mem h'⟩

theorem exhausted_run (T : Option Int) : ∀ (cs : List Int) (s : St) (evts : List Evt),
    Exhausted s → ∀ o ∈ run T s cs evts, o = .stop := by
  intro cs
  induction cs with
  | nil => intro s evts _ o ho; cases ho
  | cons c cs ih =>
    intro s evts hs o ho
    rw [run_cons] at ho
    have h2 := exhausted_stop' T c s evts hs
    rcases List.mem_cons.1 ho with h | h
    · rw [h]; exact h2.1
    · exact ih _ _ h2.2 o h

/-- generic stickiness: if a property `Inv` of (state, remaining events) established by outcome
`o0` forces all later outcomes into `Q`, and `Pre` is preserved by every call, then from the first
`o0` on all outcomes are in `Q` -/
theorem run_sticky (T : Option Int) (o0 : Outcome) (Q : Outcome → Prop) (hQ0 : Q o0)
    (Pre : List Evt → Prop)
    (Inv : St → List Evt → Prop)
    (hpre : ∀ c s evts, Pre evts → Pre (solveCall T c s evts).2.2)
    (hest : ∀ c s evts, Pre evts → (solveCall T c s evts).1 = o0 →
      Inv (solveCall T c s evts).2.1 (solveCall T c s evts).2.2)
    (hinv : ∀ cs s evts, Inv s evts → ∀ o ∈ run T s cs evts, Q o) :
    ∀ (cs : List Int) (s : St) (evts : List Evt) (i j : Nat), Pre evts →
      (run T s cs evts)[i]? = some o0 → i ≤ j → j < cs.length →
      ∃ o, (run T s cs evts)[j]? = some o ∧ Q o := by
  intro cs
  induction cs with
  | nil => intro s evts i j _ _ _ hj; cases hj
  | cons c cs ih =>
    intro s evts i j hp hi hij hj
    rw [run_cons] at hi ⊢
    cases i with
    | zero =>
      rw [List.getElem?_cons_zero] at hi
      have ho : (solveCall T c s evts).1 = o0 := Option.some.inj hi
      cases j with
      | zero => exact ⟨o0, by rw [List.getElem?_cons_zero, ho], hQ0⟩
      | succ j =>
        rw [List.getElem?_cons_succ]
        have hj' : j < cs.length := Nat.lt_of_succ_lt_succ hj
        obtain ⟨o, ho1, ho2⟩ := run_get_mem T (solveCall T c s evts).2.1 cs
          (solveCall T c s evts).2.2 j hj'
        exact ⟨o, ho1, hinv cs _ _ (hest c s evts hp ho) o ho2⟩
    | succ i =>
      cases j with
      | zero => cases hij
      | succ j =>
        rw [List.getElem?_cons_succ] at hi ⊢
        exact ih _ _ i j (hpre c s evts hp) hi (Nat.le_of_succ_le_succ hij)
          (Nat.lt_of_succ_lt_succ hj)

/-- the whole call sequence: once an outcome is StopIteration, every later outcome is StopIteration -/
theorem run_stop_sticky' (T : Option Int) : ∀ (cs : List Int) (s : St) (evts : List Evt) (i j : Nat),
    (run T s cs evts)[i]? = some .stop → i ≤ j → j < cs.length →
    (run T s cs evts)[j]? = some .stop := by
  intro cs s evts i j hi hij hj
  obtain ⟨o, ho, hq⟩ := run_sticky T .stop (fun o => o = .stop) rfl (fun _ => True)
    (fun s _ => Exhausted s)
    (fun _ _ _ _ => trivial)
    (fun c s evts _ h => by
      rw [solveCall_eq] at h ⊢
      exact loop_stop T _ _ h)
    (fun cs s evts h => exhausted_run T cs s evts h)
    cs s evts i j trivial hi hij hj
  rw [ho, hq]

/-! ### TimeoutError -/

/-- the timeout test fires in state `s` at clock reading `now` -/
def TimedOut (T : Option Int) (s : St) (now : Int) : Prop :=
  ∃ T0 t0, T = some T0 ∧ s.start = some t0 ∧ now - t0 > T0 ∧ s.qlen ≠ 0

/-- all remaining readings are at least `now` -/
def After (now : Int) (evts : List Evt) : Prop := ∀ e ∈ evts, now ≤ e.now

/-- the situation after a TimeoutError (or after the recorded trace has run out with a non-empty
queue) -/
def Stuck (T : Option Int) (s : St) (evts : List Evt) : Prop :=
  (∃ now, TimedOut T s now ∧ After now evts) ∨ (s.qlen ≠ 0 ∧ evts = [])

theorem loop_mono (T : Option Int) : ∀ s evts, Mono evts → Mono (loop T s evts).2.2 := by
  apply loop_cases T (fun _ evts r => Mono evts → Mono r.2.2)
  · intro s evts x r _ _ h; exact h
  · intro s evts _ _ h; exact h
  · intro s _ h; exact h
  · intro s e rest _ _ h; exact h.2
  · intro s e rest x more _ _ _ h; exact h.2
  · intro s e rest r _ _ _ ih h; exact ih h.2

theorem loop_timeout (T : Option Int) : ∀ s evts, Mono evts → (loop T s evts).1 = .timeout →
    ∃ now, TimedOut T (loop T s evts).2.1 now ∧ After now (loop T s evts).2.2 := by
  apply loop_cases T (fun _ evts r => Mono evts → r.1 = .timeout →
    ∃ now, TimedOut T r.2.1 now ∧ After now r.2.2)
  · intro s evts x r _ _ _ h; cases h
  · intro s evts _ _ _ h; cases h
  · intro s _ _ h; cases h
  · intro s e rest hq hx hm _
    obtain ⟨T0, t0, hT, hs, hgt⟩ := expired_true hx
    exact ⟨e.now, ⟨T0, t0, hT, hs, hgt, hq⟩, hm.1⟩
  · intro s e rest x more _ _ _ _ h; cases h
  · intro s e rest r _ _ _ ih hm h; exact ih hm.2 h

/-- a call from a stuck state raises TimeoutError again (or runs out of events) and stays stuck -/
theorem stuck_call (T : Option Int) (c : Int) (s : St) (evts : List Evt) (h : Stuck T s evts) :
    ((solveCall T c s evts).1 = .timeout ∨ (solveCall T c s evts).1 = .outOfEvents) ∧
      Stuck T (solveCall T c s evts).2.1 (solveCall T c s evts).2.2 := by
  rcases h with ⟨now, ⟨T0, t0, hT, hs, hgt, hq⟩, haft⟩ | ⟨hq, he⟩
  · rw [solveCall_eq, pre_of_start T c s t0 hs]
    cases evts with
    | nil =>
      rw [loop_nil T s hq]
      exact ⟨Or.inr rfl, Or.inr ⟨hq, rfl⟩⟩
    | cons e rest =>
      have hle : now ≤ e.now := haft e (List.mem_cons_self ..)
      have hx : expired T s e = true := expired_of hT hs (by omega)
      rw [loop_cons T s e rest hq, if_pos hx]
      refine ⟨Or.inl rfl, Or.inl ⟨now, ⟨T0, t0, hT, hs, hgt, hq⟩, ?_⟩⟩
      intro e' he'
      exact haft e' (List.mem_cons_of_mem _ he')
  · subst he
    have hq' : (pre T c s).qlen ≠ 0 := by rw [pre_qlen]; exact hq
    rw [solveCall_eq, loop_nil T _ hq']
    exact ⟨Or.inr rfl, Or.inr ⟨hq', rfl⟩⟩

theorem stuck_run (T : Option Int) : ∀ (cs : List Int) (s : St) (evts : List Evt),
    Stuck T s evts → ∀ o ∈ run T s cs evts, o = .timeout ∨ o = .outOfEvents := by
  intro cs
  induction cs with
  | nil => intro s evts _ o ho; cases ho
  | cons c cs ih =>
    intro s evts hs o ho
    rw [run_cons] at ho
    have h2 := stuck_call T c s evts hs
    rcases List.mem_cons.1 ho with h | h
    · rw [h]; exact h2.1
    · exact ih _ _ h2.2 o h

/-- once an outcome is TimeoutError, every later outcome is TimeoutError — provided the clock is
monotone (or the recorded event stream has ended: `outOfEvents` is not an outcome of the real code) -/
theorem run_timeout_sticky' (T : Option Int) : ∀ (cs : List Int) (s : St) (evts : List Evt) (i j : Nat),
    Mono evts →
    (run T s cs evts)[i]? = some .timeout → i ≤ j → j < cs.length →
    ((run T s cs evts)[j]? = some .timeout ∨ (run T s cs evts)[j]? = some .outOfEvents) := by
  intro cs s evts i j hm hi hij hj
  obtain ⟨o, ho, hq⟩ := run_sticky T .timeout (fun o => o = .timeout ∨ o = .outOfEvents)
    (Or.inl rfl) Mono (Stuck T)
    (fun c s evts h => by rw [solveCall_eq]; exact loop_mono T _ _ h)
    (fun c s evts hm h => by
      rw [solveCall_eq] at h ⊢
      exact Or.inl (loop_timeout T _ _ hm h))
    (fun cs s evts h => stuck_run T cs s evts h)
    cs s evts i j hm hi hij hj
  rw [ho]
  rcases hq with h | h
  · exact Or.inl (by rw [h])
  · exact Or.inr (by rw [h])

theorem loop_no_timeout : ∀ s evts, (loop none s evts).1 ≠ .timeout := by
  apply loop_cases none (fun _ _ r => r.1 ≠ .timeout)
  · intro s evts x r _ _ h; cases h
  · intro s evts _ _ h; cases h
  · intro s _ h; cases h
  · intro s e rest _ hx _; rw [expired_none] at hx; cases hx
  · intro s e rest x more _ _ _ h; cases h
  · intro s e rest r _ _ _ ih; exact ih

/-- without a configured timeout TimeoutError is never raised -/
theorem no_timeout_without_limit' : ∀ (cs : List Int) (s : St) (evts : List Evt),
    Outcome.timeout ∉ run none s cs evts := by
  intro cs
  induction cs with
  | nil => intro s evts h; cases h
  | cons c cs ih =>
    intro s evts h
    rw [run_cons] at h
    rcases List.mem_cons.1 h with h | h
    · rw [solveCall_eq] at h
      exact loop_no_timeout _ _ h.symm
    · exact ih _ _ h

/-! ### returned trees -/

theorem treesOf_cons (o : Outcome) (os : List Outcome) :
    treesOf (o :: os) = treesOf [o] ++ treesOf os := by
  cases o <;> rfl

theorem loop_trees (T : Option Int) : ∀ s evts,
    List.Sublist
      (treesOf [(loop T s evts).1] ++
        ((loop T s evts).2.1.sols ++ (loop T s evts).2.2.flatMap (·.found)))
      (s.sols ++ evts.flatMap (·.found)) := by
  apply loop_cases T (fun s evts r => List.Sublist
    (treesOf [r.1] ++ (r.2.1.sols ++ r.2.2.flatMap (·.found))) (s.sols ++ evts.flatMap (·.found)))
  · intro s evts x r _ hs
    rw [hs]; exact List.Sublist.refl _
  · intro s evts _ _; exact List.Sublist.refl _
  · intro s _; exact List.Sublist.refl _
  · intro s e rest _ _
    rw [List.flatMap_cons]
    show List.Sublist (s.sols ++ rest.flatMap (·.found))
      (s.sols ++ (e.found ++ rest.flatMap (·.found)))
    exact List.Sublist.append (List.Sublist.refl _) (List.sublist_append_right _ _)
  · intro s e rest x more _ _ hs
    rw [hs, List.flatMap_cons]
    show List.Sublist ((x :: more) ++ rest.flatMap (·.found))
      ((x :: more) ++ (e.found ++ rest.flatMap (·.found)))
    exact List.Sublist.append (List.Sublist.refl _) (List.sublist_append_right _ _)
  · intro s e rest r _ _ hs ih
    rw [hs, List.flatMap_cons]
    exact ih

/-- every returned tree was found (pending at the start or reported by a processing step), in the
order found, and none is returned twice: the returned ids form a sublist of pending ++ found -/
theorem run_trees_sublist' (T : Option Int) : ∀ (cs : List Int) (s : St) (evts : List Evt),
    List.Sublist (treesOf (run T s cs evts)) (s.sols ++ evts.flatMap (·.found)) := by
  intro cs
  induction cs with
  | nil => intro s evts; exact List.nil_sublist _
  | cons c cs ih =>
    intro s evts
    rw [run_cons, treesOf_cons]
    have h1 := ih (solveCall T c s evts).2.1 (solveCall T c s evts).2.2
    have h2 := loop_trees T (pre T c s) evts
    rw [pre_sols] at h2
    rw [solveCall_eq] at h1 ⊢
    exact (List.Sublist.append (List.Sublist.refl _) h1).trans h2

end IslaVerif.SolveLoop

