import IslaVerif.Model.Grammar
/-
Correctness of the reference recognizer `Rec.recognize` w.r.t. the declarative, position-based
derivation relation `Der` (soundness by induction on the rounds, completeness from the checked
closure by mutual structural recursion on the derivation).
-/
namespace IslaVerif.Rec
open IslaVerif Grammar

mutual
inductive Der (g : Grammar) (s : List Char) : String → Nat → Nat → Prop
  | mk {A as alt i j} : alts g A = some as → alt ∈ as → DerSeq g s alt i j → Der g s A i j
inductive DerSeq (g : Grammar) (s : List Char) : List String → Nat → Nat → Prop
  | nil {i} : DerSeq g s [] i i
  | consT {X rest i k j} : isNT g X = false → termAt s X i k = true → DerSeq g s rest k j → DerSeq g s (X :: rest) i j
  | consN {X rest i k j} : isNT g X = true → Der g s X i k → DerSeq g s rest k j → DerSeq g s (X :: rest) i j
end

def Sound (g : Grammar) (s : List Char) (R : List Fact) : Prop := ∀ f ∈ R, Der g s f.1 f.2.1 f.2.2

theorem matchSeq_sound {g s R} (hR : Sound g s R) :
    ∀ alt i j, matchSeq g s R alt i j = true → DerSeq g s alt i j := by
  intro alt
  induction alt with
  | nil => intro i j h; simp [matchSeq] at h; subst h; exact .nil
  | cons X rest ih =>
    intro i j h
    simp only [matchSeq, List.any_eq_true, Bool.and_eq_true, decide_eq_true_eq] at h
    obtain ⟨k, _, ⟨_, hx⟩, hrest⟩ := h
    by_cases hnt : isNT g X = true
    · simp [hnt] at hx
      exact .consN hnt (hR _ hx) (ih _ _ hrest)
    · simp at hnt; simp [hnt] at hx
      exact .consT hnt hx (ih _ _ hrest)

theorem derivable_sound {g s R} (hR : Sound g s R) (f : Fact) (h : derivable g s R f = true) :
    Der g s f.1 f.2.1 f.2.2 := by
  unfold derivable at h
  split at h
  · simp at h
  · rename_i as has
    simp only [List.any_eq_true] at h
    obtain ⟨alt, halt, hm⟩ := h
    exact .mk has halt (matchSeq_sound hR _ _ _ hm)

theorem newFacts_sound {g s R} (hR : Sound g s R) : Sound g s (R ++ newFacts g s R) := by
  intro f hf
  simp only [newFacts, List.mem_append, List.mem_filter, Bool.and_eq_true] at hf
  rcases hf with hf | ⟨_, _, hd⟩
  · exact hR f hf
  · exact derivable_sound hR f hd

theorem iter_sound {g s} : ∀ n R, Sound g s R → Sound g s (iter g s n R)
  | 0, R, h => h
  | n+1, R, h => by
    simp only [iter]
    split
    · exact h
    · exact iter_sound n _ (newFacts_sound h)

theorem termAt_bounds {s : List Char} {x : String} {i k : Nat} (h : termAt s x i k = true) (hi : i ≤ s.length) :
    i ≤ k ∧ k ≤ s.length := by
  simp only [termAt, Bool.and_eq_true, beq_iff_eq] at h
  obtain ⟨hk, ht⟩ := h
  have hl : ((s.drop i).take x.toList.length).length = x.toList.length := by rw [ht]
  simp [List.length_take, List.length_drop] at hl
  omega

mutual
theorem der_bounds {g s} : ∀ {A i j}, Der g s A i j → i ≤ s.length → i ≤ j ∧ j ≤ s.length
  | _, _, _, .mk _ _ hs, hi => derSeq_bounds hs hi
theorem derSeq_bounds {g s} : ∀ {alt i j}, DerSeq g s alt i j → i ≤ s.length → i ≤ j ∧ j ≤ s.length
  | _, _, _, .nil, hi => ⟨Nat.le_refl _, hi⟩
  | _, _, _, .consT _ ht hr, hi => by
      have h1 := termAt_bounds ht hi
      have h2 := derSeq_bounds hr h1.2
      omega
  | _, _, _, .consN _ hd hr, hi => by
      have h1 := der_bounds hd hi
      have h2 := derSeq_bounds hr h1.2
      omega
end

theorem lookup_mem {g : Grammar} {A : String} {as} (h : g.lookup A = some as) : (A, as) ∈ g := by
  induction g with
  | nil => simp [List.lookup] at h
  | cons p g ih =>
    obtain ⟨B, bs⟩ := p
    by_cases hB : A = B
    · subst hB; simp [List.lookup] at h; subst h; simp
    · have : (A == B) = false := by simpa using hB
      simp [List.lookup, this] at h
      exact List.mem_cons_of_mem _ (ih h)

theorem mem_allFacts {g : Grammar} {n A i j as} (hA : alts g A = some as) (hi : i ≤ n) (hj : j ≤ n) :
    (A, i, j) ∈ allFacts g n := by
  simp only [allFacts, List.mem_flatMap, List.mem_map, List.mem_range]
  exact ⟨(A, as), lookup_mem hA, i, by omega, j, by omega, rfl⟩

theorem closed_mem {g s R} (hc : closedUnder g s R = true) {f : Fact} (hmem : f ∈ allFacts g s.length)
    (hd : derivable g s R f = true) : f ∈ R := by
  simp only [closedUnder, List.all_eq_true, Bool.or_eq_true, Bool.not_eq_true'] at hc
  rcases hc _ hmem with h | h
  · simpa using h
  · rw [hd] at h; cases h

mutual
theorem der_complete {g s R} (hc : closedUnder g s R = true) :
    ∀ {A i j}, Der g s A i j → i ≤ s.length → (A, i, j) ∈ R
  | A, i, j, .mk (as := as) (alt := alt) has halt hs, hi => by
      have hb := derSeq_bounds hs hi
      have hm := derSeq_complete hc hs hi
      have hd : derivable g s R (A, i, j) = true := by
        simp only [derivable, has, List.any_eq_true]
        exact ⟨alt, halt, hm⟩
      exact closed_mem hc (mem_allFacts has hi hb.2) hd
theorem derSeq_complete {g s R} (hc : closedUnder g s R = true) :
    ∀ {alt i j}, DerSeq g s alt i j → i ≤ s.length → matchSeq g s R alt i j = true
  | _, _, _, .nil, _ => by simp [matchSeq]
  | _, i, j, .consT (X := X) (k := k) hnt ht hr, hi => by
      have h1 := termAt_bounds ht hi
      have h2 := derSeq_bounds hr h1.2
      have ih := derSeq_complete hc hr h1.2
      simp only [matchSeq, List.any_eq_true, List.mem_range, Bool.and_eq_true, decide_eq_true_eq]
      refine ⟨k, by omega, ⟨h1.1, ?_⟩, ih⟩
      simp [hnt, ht]
  | _, i, j, .consN (X := X) (k := k) hnt hd hr, hi => by
      have h1 := der_bounds hd hi
      have h2 := derSeq_bounds hr h1.2
      have ih1 := der_complete hc hd hi
      have ih2 := derSeq_complete hc hr h1.2
      simp only [matchSeq, List.any_eq_true, List.mem_range, Bool.and_eq_true, decide_eq_true_eq]
      refine ⟨k, by omega, ⟨h1.1, ?_⟩, ih2⟩
      simp [hnt, ih1]
end

/-- whenever the recognizer answers, its answer is exactly derivability of the whole string -/
theorem recognize_iff' {g A s b} (h : recognize g A s = some b) :
    b = true ↔ Der g s A 0 s.length := by
  unfold recognize at h
  simp only at h
  split at h
  · rename_i hc
    injection h with h
    subst h
    constructor
    · intro hm
      have := iter_sound (g := g) (s := s) ((allFacts g s.length).length + 1) [] (by intro f hf; cases hf)
      exact this _ (by simpa using hm)
    · intro hd
      simpa using der_complete hc hd (Nat.zero_le _)
  · cases h

end IslaVerif.Rec
