import IslaVerif.Model.SemPreds
/- lemmas behind C20 -/
namespace IslaVerif.C20
open IslaVerif.SemPreds

/-- positional value of a digit list (most significant first): Σ dᵢ · b^(n-1-i) -/
def posVal (b : Nat) : List Nat → Nat
  | [] => 0
  | d :: ds => d * b ^ ds.length + posVal b ds

theorem countVerdict_iff' (occ : Nat) (target : Int) : countVerdict occ target = true ↔ (occ : Int) = target := by
  unfold countVerdict
  split <;> rename_i h <;> simp at h ⊢ <;> omega

theorem foldl_eq_posVal (b : Nat) (ds : List Nat) (a : Nat) :
    ds.foldl (fun acc d => acc * b + d) a = a * b ^ ds.length + posVal b ds := by
  induction ds generalizing a with
  | nil => simp [posVal]
  | cons d ds ih =>
    simp only [List.foldl_cons, ih, posVal, List.length_cons, Nat.pow_succ, Nat.add_mul]
    rw [Nat.mul_assoc, Nat.mul_comm b, Nat.add_assoc]

theorem valDigits_eq_posVal' (b : Nat) (ds : List Nat) : valDigits b ds = posVal b ds := by
  unfold valDigits
  rw [foldl_eq_posVal]; simp

theorem posVal_append_single (b : Nat) (ds : List Nat) (d : Nat) :
    posVal b (ds ++ [d]) = posVal b ds * b + d := by
  induction ds with
  | nil => simp [posVal]
  | cons x ds ih =>
    simp only [List.cons_append, posVal, ih, List.length_append, List.length_cons, List.length_nil,
      Nat.pow_succ, Nat.add_mul]
    rw [Nat.mul_assoc, Nat.add_assoc]

theorem octLoop_eq (l : List Nat) (idx : Nat) : octLoop l idx = 8 ^ idx * posVal 8 l.reverse := by
  induction l generalizing idx with
  | nil => simp [octLoop, posVal]
  | cons d rest ih =>
    simp only [octLoop, ih, List.reverse_cons, posVal_append_single, Nat.pow_succ, Nat.mul_add]
    rw [Nat.add_comm, Nat.mul_assoc, Nat.mul_comm 8]

/-- the explicit loop of the "concrete octal" branch computes the base-8 value -/
theorem octSum_eq' (ds : List Nat) : octSum ds = posVal 8 ds := by
  unfold octSum
  rw [octLoop_eq]; simp

theorem toDigitsAux_acc (b fuel n : Nat) (acc : List Nat) :
    toDigitsAux b fuel n acc = toDigitsAux b fuel n [] ++ acc := by
  induction fuel generalizing n acc with
  | zero => simp [toDigitsAux]
  | succ fuel ih =>
    unfold toDigitsAux
    split
    · simp
    · rw [ih, ih (n / b) [n % b]]; simp

theorem posVal_toDigitsAux (b : Nat) (hb : 2 ≤ b) (fuel n : Nat) (h : n < fuel) :
    posVal b (toDigitsAux b fuel n []) = n := by
  induction fuel generalizing n with
  | zero => omega
  | succ fuel ih =>
    unfold toDigitsAux
    split
    · simp [posVal]
    · rename_i hn
      have hn : b ≤ n := Nat.le_of_not_lt hn
      have hlt : n / b < n := Nat.div_lt_self (by omega) (by omega)
      rw [toDigitsAux_acc, posVal_append_single, ih (n / b) (by omega)]
      rw [Nat.mul_comm]; exact Nat.div_add_mod n b

/-- `toDigits` inverts the positional value (so `str(n)` / `oct(n)[2:]` denote `n`) -/
theorem valDigits_toDigits' (b n : Nat) (hb : 2 ≤ b) : valDigits b (toDigits b n) = n := by
  rw [valDigits_eq_posVal']
  exact posVal_toDigitsAux b hb (n + 1) n (by omega)

theorem toDigitsAux_lt (b : Nat) (hb : 2 ≤ b) (fuel n : Nat) (acc : List Nat)
    (hacc : ∀ d ∈ acc, d < b) : ∀ d ∈ toDigitsAux b fuel n acc, d < b := by
  induction fuel generalizing n acc with
  | zero => simpa [toDigitsAux] using hacc
  | succ fuel ih =>
    unfold toDigitsAux
    split
    · rename_i hn
      intro d hd
      rcases List.mem_cons.mp hd with rfl | hd
      · exact hn
      · exact hacc d hd
    · apply ih
      intro d hd
      rcases List.mem_cons.mp hd with rfl | hd
      · exact Nat.mod_lt _ (by omega)
      · exact hacc d hd

theorem toDigits_lt' (b n : Nat) (hb : 2 ≤ b) : ∀ d ∈ toDigits b n, d < b :=
  toDigitsAux_lt b hb (n + 1) n [] (by simp)

theorem octalBoth_iff' (o d : List Nat) : octalBoth o d = true ↔ posVal 8 o = posVal 10 d := by
  unfold octalBoth
  rw [valDigits_eq_posVal', valDigits_eq_posVal']; simp

theorem octalToDec_correct' (o : List Nat) : posVal 10 (octalToDec o) = posVal 8 o := by
  unfold octalToDec
  rw [← valDigits_eq_posVal', valDigits_toDigits' 10 _ (by omega), octSum_eq']

theorem decToOctal_correct' (d : List Nat) : posVal 8 (decToOctal d) = posVal 10 d ∧ ∀ x ∈ decToOctal d, x < 8 := by
  unfold decToOctal
  refine ⟨?_, toDigits_lt' 8 _ (by omega)⟩
  rw [← valDigits_eq_posVal', valDigits_toDigits' 8 _ (by omega), valDigits_eq_posVal']

theorem crop_true_iff' (s : List Char) (w : Nat) : cropM s w = .verdict true ↔ s.length ≤ w := by
  unfold cropM
  split <;> simp [*]

theorem crop_replace' (s out : List Char) (w : Nat) (h : cropM s w = .replace out) :
    out = s.take w ∧ out.length = w ∧ w < s.length := by
  unfold cropM at h
  split at h
  · cases h
  · rename_i hn
    injection h with h
    subst h
    refine ⟨rfl, ?_, by omega⟩
    rw [List.length_take]; omega

theorem crop_never_false' (s : List Char) (w : Nat) : cropM s w ≠ .verdict false := by
  unfold cropM
  split <;> simp

theorem just_true_iff' (lj cr : Bool) (s : List Char) (w : Nat) (c : Char) :
    justM lj cr s w c = .verdict true ↔ s.length = w := by
  unfold justM
  by_cases h : s.length = w
  · simp [h]
  · simp only [beq_iff_eq, h, if_false, iff_false]
    cases lj <;> cases cr <;> simp <;> split <;> simp

theorem just_false_iff' (lj cr : Bool) (s : List Char) (w : Nat) (c : Char) :
    justM lj cr s w c = .verdict false ↔ (cr = false ∧ w < s.length) := by
  unfold justM
  by_cases h : s.length = w
  · simp [h]
  · simp only [beq_iff_eq, h, if_false]
    cases lj <;> cases cr <;> simp <;> omega

/-- a proposed replacement always has exactly the requested width; it extends the argument by fill
characters on the proper side, or (crop variants) is the proper end of the argument -/
theorem just_replace' (lj cr : Bool) (s out : List Char) (w : Nat) (c : Char)
    (h : justM lj cr s w c = .replace out) :
    out.length = w ∧
    (s.length < w →
      (lj = true → out = s ++ List.replicate (w - s.length) c) ∧
      (lj = false → out = List.replicate (w - s.length) c ++ s)) ∧
    (w < s.length → cr = true ∧ (lj = true → out = s.take w) ∧ (lj = false → out = s.drop (s.length - w))) := by
  unfold justM at h
  by_cases hw : s.length = w
  · simp [hw] at h
  · simp only [beq_iff_eq, hw, if_false] at h
    have hcase : s.length < w ∨ w < s.length := by omega
    cases lj <;> cases cr <;> simp at h
    · split at h
      · rename_i hc
        injection h with h
        subst h
        refine ⟨by simp; omega, fun _ => ⟨by simp, fun _ => rfl⟩, fun hlt => by omega⟩
      · cases h
    · subst h
      rcases hcase with hlt | hlt
      · have h0 : w - s.length + s.length - w = 0 := by omega
        rw [h0, List.drop_zero]
        refine ⟨by simp; omega, fun _ => ⟨by simp, fun _ => rfl⟩, fun hlt' => by omega⟩
      · have h0 : w - s.length = 0 := by omega
        rw [h0]
        simp only [List.replicate_zero, List.nil_append, Nat.zero_add]
        refine ⟨by simp; omega, fun hlt' => by omega, fun _ => by simp⟩
    · split at h
      · rename_i hc
        injection h with h
        subst h
        refine ⟨by simp; omega, fun _ => ⟨fun _ => rfl, by simp⟩, fun hlt => by omega⟩
      · cases h
    · subst h
      rcases hcase with hlt | hlt
      · have hl : (s ++ List.replicate (w - s.length) c).length ≤ w := by simp; omega
        rw [List.take_of_length_le hl]
        refine ⟨by simp; omega, fun _ => ⟨fun _ => rfl, by simp⟩, fun hlt' => by omega⟩
      · have h0 : w - s.length = 0 := by omega
        rw [h0]
        simp only [List.replicate_zero, List.append_nil]
        refine ⟨by simp; omega, fun hlt' => by omega, fun _ => by simp⟩

end IslaVerif.C20
