import IslaVerif.Model.Alpha
/-
Meaning of named formulas under an arbitrary interpretation, meaning of nameless forms, and the
theorem that α-equivalent formulas (same nameless form) mean the same.
-/
namespace IslaVerif.Alpha

/-- an arbitrary interpretation over a value domain `V` -/
structure Interp (V : Type) where
  atom : Nat → List V → Prop              -- an atom's meaning from the values of its variables
  dom : Nat → V → List (List V)           -- tree quantifier with n binders over the value of `in`: the binder-value tuples
  num : Nat → V                           -- the value denoting a natural number

def upd {V : Type} (ρ : String → V) (x : String) (v : V) : String → V := fun y => if y = x then v else ρ y

/-- bind the binders to the values, in order (a later binder of the same name wins) -/
def bindAll {V : Type} (ρ : String → V) : List String → List V → String → V
  | b :: bs, v :: vs => bindAll (upd ρ b v) bs vs
  | _, _ => ρ

mutual
def SatN {V : Type} (I : Interp V) : (String → V) → NF → Prop
  | ρ, .atom t vs => I.atom t (vs.map ρ)
  | ρ, .neg f => ¬ SatN I ρ f
  | ρ, .conj fs => SatNAll I ρ fs
  | ρ, .disj fs => SatNAny I ρ fs
  | ρ, .all bs iv f => ∀ vals ∈ I.dom bs.length (ρ iv), vals.length = bs.length → SatN I (bindAll ρ bs vals) f
  | ρ, .ex bs iv f => ∃ vals ∈ I.dom bs.length (ρ iv), vals.length = bs.length ∧ SatN I (bindAll ρ bs vals) f
  | ρ, .allInt v f => ∀ n : Nat, SatN I (upd ρ v (I.num n)) f
  | ρ, .exInt v f => ∃ n : Nat, SatN I (upd ρ v (I.num n)) f
def SatNAll {V : Type} (I : Interp V) : (String → V) → List NF → Prop
  | _, [] => True
  | ρ, f :: fs => SatN I ρ f ∧ SatNAll I ρ fs
def SatNAny {V : Type} (I : Interp V) : (String → V) → List NF → Prop
  | _, [] => False
  | ρ, f :: fs => SatN I ρ f ∨ SatNAny I ρ fs
end

/-- value of a nameless occurrence: bound = position in the value stack (innermost first), free = by name -/
def valOf {V : Type} [Inhabited V] (ρ : String → V) (σ : List V) : Ref → V
  | .bound i => σ[i]?.getD default
  | .free n => ρ n

mutual
def SatD {V : Type} [Inhabited V] (I : Interp V) (ρ : String → V) : List V → DB → Prop
  | σ, .atom t rs => I.atom t (rs.map (valOf ρ σ))
  | σ, .neg f => ¬ SatD I ρ σ f
  | σ, .conj fs => SatDAll I ρ σ fs
  | σ, .disj fs => SatDAny I ρ σ fs
  | σ, .all n iv f => ∀ vals ∈ I.dom n (valOf ρ σ iv), vals.length = n → SatD I ρ (vals.reverse ++ σ) f
  | σ, .ex n iv f => ∃ vals ∈ I.dom n (valOf ρ σ iv), vals.length = n ∧ SatD I ρ (vals.reverse ++ σ) f
  | σ, .allInt f => ∀ n : Nat, SatD I ρ (I.num n :: σ) f
  | σ, .exInt f => ∃ n : Nat, SatD I ρ (I.num n :: σ) f
def SatDAll {V : Type} [Inhabited V] (I : Interp V) (ρ : String → V) : List V → List DB → Prop
  | _, [] => True
  | σ, f :: fs => SatD I ρ σ f ∧ SatDAll I ρ σ fs
def SatDAny {V : Type} [Inhabited V] (I : Interp V) (ρ : String → V) : List V → List DB → Prop
  | _, [] => False
  | σ, f :: fs => SatD I ρ σ f ∨ SatDAny I ρ σ fs
end

theorem Ref.eq_of_beq : ∀ a b : Ref, (a == b) = true → a = b := by
  intro a b h
  cases a <;> cases b <;> simp [BEq.beq, instBEqRef.beq] at h ⊢ <;> exact h

theorem Ref.beq_self : ∀ a : Ref, (a == a) = true := by
  intro a
  cases a <;> simp [BEq.beq, instBEqRef.beq]

instance : LawfulBEq Ref where
  eq_of_beq := Ref.eq_of_beq _ _
  rfl := Ref.beq_self _

mutual
theorem eqb_eq_aux : ∀ (a b : DB), DB.eqb a b = true → a = b
  | .atom t vs, b, h => by
      cases b <;> simp [DB.eqb] at h ⊢
      exact h
  | .neg f, b, h => by
      cases b <;> simp [DB.eqb] at h ⊢
      exact eqb_eq_aux f _ h
  | .conj fs, b, h => by
      cases b <;> simp [DB.eqb] at h ⊢
      exact eqbL_eq_aux fs _ h
  | .disj fs, b, h => by
      cases b <;> simp [DB.eqb] at h ⊢
      exact eqbL_eq_aux fs _ h
  | .all n iv f, b, h => by
      cases b <;> simp [DB.eqb] at h ⊢
      exact ⟨h.1.1, h.1.2, eqb_eq_aux f _ h.2⟩
  | .ex n iv f, b, h => by
      cases b <;> simp [DB.eqb] at h ⊢
      exact ⟨h.1.1, h.1.2, eqb_eq_aux f _ h.2⟩
  | .allInt f, b, h => by
      cases b <;> simp [DB.eqb] at h ⊢
      exact eqb_eq_aux f _ h
  | .exInt f, b, h => by
      cases b <;> simp [DB.eqb] at h ⊢
      exact eqb_eq_aux f _ h
theorem eqbL_eq_aux : ∀ (as bs : List DB), DB.eqbL as bs = true → as = bs
  | [], bs, h => by
      cases bs <;> simp [DB.eqbL] at h ⊢
  | f :: fs, bs, h => by
      cases bs <;> simp [DB.eqbL] at h ⊢
      exact ⟨eqb_eq_aux f _ h.1, eqbL_eq_aux fs _ h.2⟩
end

mutual
theorem eqb_refl_aux : ∀ (a : DB), DB.eqb a a = true
  | .atom t vs => by simp [DB.eqb]
  | .neg f => by simp only [DB.eqb]; exact eqb_refl_aux f
  | .conj fs => by simp only [DB.eqb]; exact eqbL_refl_aux fs
  | .disj fs => by simp only [DB.eqb]; exact eqbL_refl_aux fs
  | .all n iv f => by simp [DB.eqb]; exact eqb_refl_aux f
  | .ex n iv f => by simp [DB.eqb]; exact eqb_refl_aux f
  | .allInt f => by simp only [DB.eqb]; exact eqb_refl_aux f
  | .exInt f => by simp only [DB.eqb]; exact eqb_refl_aux f
theorem eqbL_refl_aux : ∀ (as : List DB), DB.eqbL as as = true
  | [] => by simp [DB.eqbL]
  | f :: fs => by simp [DB.eqbL]; exact ⟨eqb_refl_aux f, eqbL_refl_aux fs⟩
end

/-- one binder: `upd ρ b x` corresponds to binder stack `b :: st`, value stack `x :: σ` -/
theorem upd_agree {V : Type} [Inhabited V] (ρ0 ρ : String → V) (st : List String) (σ : List V)
    (b : String) (x : V) (hρ : ∀ v, ρ v = valOf ρ0 σ (resolve st v)) :
    ∀ v, upd ρ b x v = valOf ρ0 (x :: σ) (resolve (b :: st) v) := by
  intro v
  unfold upd resolve
  rw [List.idxOf?_cons]
  by_cases h : v = b
  · subst h; simp [valOf]
  · have h' : ¬ (b == v) = true := by
      intro hb; exact h (eq_of_beq hb).symm
    have hv := hρ v
    unfold resolve at hv
    simp only [h, h', if_false]
    cases hh : List.idxOf? v st <;> simp [hh, valOf] at hv ⊢ <;> exact hv

theorem bindAll_agree {V : Type} [Inhabited V] (ρ0 : String → V) :
    ∀ (bs : List String) (vals : List V) (ρ : String → V) (st : List String) (σ : List V),
      vals.length = bs.length → (∀ v, ρ v = valOf ρ0 σ (resolve st v)) →
      ∀ v, bindAll ρ bs vals v = valOf ρ0 (vals.reverse ++ σ) (resolve (bs.reverse ++ st) v)
  | [], [], ρ, st, σ, _, hρ => by simpa [bindAll] using hρ
  | [], _ :: _, _, _, _, hl, _ => by simp at hl
  | _ :: _, [], _, _, _, hl, _ => by simp at hl
  | b :: bs, x :: vals, ρ, st, σ, hl, hρ => by
      simp only [bindAll, List.reverse_cons, List.append_assoc, List.singleton_append]
      exact bindAll_agree ρ0 bs vals (upd ρ b x) (b :: st) (x :: σ) (by simpa using hl)
        (upd_agree ρ0 ρ st σ b x hρ)

mutual
theorem toDB_sat_aux {V : Type} [Inhabited V] (I : Interp V) (ρ0 : String → V) :
    ∀ (f : NF) (st : List String) (σ : List V) (ρ : String → V),
      st.length = σ.length → (∀ v, ρ v = valOf ρ0 σ (resolve st v)) →
      (SatN I ρ f ↔ SatD I ρ0 σ (toDB st f))
  | .atom t vs, st, σ, ρ, hl, hρ => by
      simp only [SatN, toDB, SatD, List.map_map]
      have : vs.map ρ = vs.map (valOf ρ0 σ ∘ resolve st) :=
        List.map_congr_left (fun v _ => hρ v)
      rw [this]
  | .neg f, st, σ, ρ, hl, hρ => by
      simp only [SatN, toDB, SatD]
      exact not_congr (toDB_sat_aux I ρ0 f st σ ρ hl hρ)
  | .conj fs, st, σ, ρ, hl, hρ => by
      simp only [SatN, toDB, SatD]
      exact toDB_satAll_aux I ρ0 fs st σ ρ hl hρ
  | .disj fs, st, σ, ρ, hl, hρ => by
      simp only [SatN, toDB, SatD]
      exact toDB_satAny_aux I ρ0 fs st σ ρ hl hρ
  | .all bs iv f, st, σ, ρ, hl, hρ => by
      simp only [SatN, toDB, SatD]
      rw [hρ iv]
      apply forall_congr'; intro vals
      apply imp_congr_right; intro _
      apply imp_congr_right; intro hlen
      exact toDB_sat_aux I ρ0 f (bs.reverse ++ st) (vals.reverse ++ σ) (bindAll ρ bs vals)
        (by simp [hl, hlen]) (bindAll_agree ρ0 bs vals ρ st σ hlen hρ)
  | .ex bs iv f, st, σ, ρ, hl, hρ => by
      simp only [SatN, toDB, SatD]
      rw [hρ iv]
      apply exists_congr; intro vals
      apply and_congr_right; intro _
      apply and_congr_right; intro hlen
      exact toDB_sat_aux I ρ0 f (bs.reverse ++ st) (vals.reverse ++ σ) (bindAll ρ bs vals)
        (by simp [hl, hlen]) (bindAll_agree ρ0 bs vals ρ st σ hlen hρ)
  | .allInt v f, st, σ, ρ, hl, hρ => by
      simp only [SatN, toDB, SatD]
      apply forall_congr'; intro n
      exact toDB_sat_aux I ρ0 f (v :: st) (I.num n :: σ) (upd ρ v (I.num n))
        (by simp [hl]) (upd_agree ρ0 ρ st σ v (I.num n) hρ)
  | .exInt v f, st, σ, ρ, hl, hρ => by
      simp only [SatN, toDB, SatD]
      apply exists_congr; intro n
      exact toDB_sat_aux I ρ0 f (v :: st) (I.num n :: σ) (upd ρ v (I.num n))
        (by simp [hl]) (upd_agree ρ0 ρ st σ v (I.num n) hρ)
theorem toDB_satAll_aux {V : Type} [Inhabited V] (I : Interp V) (ρ0 : String → V) :
    ∀ (fs : List NF) (st : List String) (σ : List V) (ρ : String → V),
      st.length = σ.length → (∀ v, ρ v = valOf ρ0 σ (resolve st v)) →
      (SatNAll I ρ fs ↔ SatDAll I ρ0 σ (toDBL st fs))
  | [], st, σ, ρ, hl, hρ => by simp [SatNAll, toDBL, SatDAll]
  | f :: fs, st, σ, ρ, hl, hρ => by
      simp only [SatNAll, toDBL, SatDAll]
      exact and_congr (toDB_sat_aux I ρ0 f st σ ρ hl hρ) (toDB_satAll_aux I ρ0 fs st σ ρ hl hρ)
theorem toDB_satAny_aux {V : Type} [Inhabited V] (I : Interp V) (ρ0 : String → V) :
    ∀ (fs : List NF) (st : List String) (σ : List V) (ρ : String → V),
      st.length = σ.length → (∀ v, ρ v = valOf ρ0 σ (resolve st v)) →
      (SatNAny I ρ fs ↔ SatDAny I ρ0 σ (toDBL st fs))
  | [], st, σ, ρ, hl, hρ => by simp [SatNAny, toDBL, SatDAny]
  | f :: fs, st, σ, ρ, hl, hρ => by
      simp only [SatNAny, toDBL, SatDAny]
      exact or_congr (toDB_sat_aux I ρ0 f st σ ρ hl hρ) (toDB_satAny_aux I ρ0 fs st σ ρ hl hρ)
end

/-- structural equality of nameless forms is equality -/
theorem eqb_eq' : ∀ (a b : DB), DB.eqb a b = true → a = b := by
  exact eqb_eq_aux

/-- the nameless form means what the named formula means: if the named environment `ρ` agrees with
(free environment `ρ0`, value stack `σ`) through the binder stack `st`, then `f` and `toDB st f` agree -/
theorem toDB_sat' {V : Type} [Inhabited V] (I : Interp V) (ρ0 : String → V) :
    ∀ (f : NF) (st : List String) (σ : List V) (ρ : String → V),
      st.length = σ.length → (∀ v, ρ v = valOf ρ0 σ (resolve st v)) →
      (SatN I ρ f ↔ SatD I ρ0 σ (toDB st f)) := by
  exact toDB_sat_aux I ρ0

/-- α-equivalent formulas have the same meaning under every interpretation and environment -/
theorem alphaEq_sound' {V : Type} [Inhabited V] (I : Interp V) (ρ : String → V) (f g : NF)
    (h : alphaEq f g = true) : SatN I ρ f ↔ SatN I ρ g := by
  have heq : toDB [] f = toDB [] g := eqb_eq' _ _ h
  have hρ : ∀ v, ρ v = valOf ρ ([] : List V) (resolve [] v) := by
    intro v; simp [resolve, valOf]
  rw [toDB_sat' I ρ f [] [] ρ rfl hρ, toDB_sat' I ρ g [] [] ρ rfl hρ, heq]

/-- α-equivalence is reflexive (the checker accepts an unchanged formula) -/
theorem alphaEq_refl' (f : NF) : alphaEq f f = true := by
  exact eqb_refl_aux _

end IslaVerif.Alpha

